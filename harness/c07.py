"""C07 -- applying a rewrite replaces only the match and leaves a valid, equivalent graph (DESIGN.md section 5, C07).

Proof:   coq/Rewrite/Apply.v (model), ApplyProofs.v (splice, commutation, congruence, frame), KeepProofs.v (keeping rules),
         PassProofs.v (nesting, passes, iteration, replay checker), ApplyExamples.v, Props/C07.v.
Tie:     generated rules whose replacement equals the pattern by construction are applied with the REAL rewriter
         (onnxscript.rewriter.rewrite) to generated hosts; every splice the implementation performs is logged
         (harness/c07_trace.py) and replayed inside Coq through the model (`check_host`): the replay must reproduce
         the graph the implementation ended with and every application must satisfy the executable side conditions
         of the soundness theorem (`side_okb`).  Verified checkers `wf_graphb` / `imports_ok` are evaluated on the
         real resulting protos.
State:   every visit and splice is also replayed through coq/Rewrite/State.v (opset imports of every graph object, initializers,
         functions table, node / value metadata_props): `check_state` compares the prediction with the state observed at the end
         of the sweep; hosts carry metadata_props on nodes and values (decorate_metadata).
Oracle:  onnx.checker, onnxruntime (ORT_DISABLE_ALL) and onnx.reference before vs after on 3 inputs, graph
         signature, initializers, opset imports, functions, multiset of unmatched nodes, progress.
"""
from __future__ import annotations

import collections
import copy
import itertools
import re

import numpy as np

from harness import c07_gen as G
from harness import common, graphlit
from harness.c07_trace import Tracer
from harness.common import clist

PROPERTY = "C07"
LEVEL = "proof"

REQ = ["OV.Graph.Syntax", "OV.Graph.Wf", "OV.Rewrite.Apply", "OV.Rewrite.Order", "OV.Rewrite.State", "OV.Rewrite.Multi", "OV.Rewrite.FnConstIn"]


# ----------------------------------------------------------------------------- running models

def _ort_session(model):
    import onnxruntime as ort
    so = ort.SessionOptions()
    so.graph_optimization_level = ort.GraphOptimizationLevel.ORT_DISABLE_ALL
    so.log_severity_level = 4
    so.intra_op_num_threads = 1
    so.inter_op_num_threads = 1
    return ort.InferenceSession(model.SerializeToString(), so, providers=["CPUExecutionProvider"])


def _ort_run(model, feeds):
    return _ort_session(model).run(None, feeds)


def _ref_session(model):
    import onnx.reference
    return onnx.reference.ReferenceEvaluator(model)


def _ref_run(model, feeds):
    return _ref_session(model).run(None, feeds)


def _runnable(model):
    """Same model with every (name, overload) of a model-local function folded into a distinct name and callees listed
    before callers: onnxruntime and onnx.reference resolve calls by (domain, name) only and in definition order."""
    if not any(f.overload for f in model.functions):
        return model
    m = copy.deepcopy(model)

    def fix(nodes):
        for n in nodes:
            if n.overload:
                n.op_type = f"{n.op_type}__{n.overload}"
                n.overload = ""
            for a in n.attribute:
                if a.type == a.GRAPH:
                    fix(a.g.node)
                elif a.type == a.GRAPHS:
                    for g in a.graphs:
                        fix(g.node)
    fix(m.graph.node)
    fs = list(m.functions)
    for f in fs:
        if f.overload:
            f.name = f"{f.name}__{f.overload}"
            f.overload = ""
        fix(f.node)
    del m.functions[:]
    m.functions.extend([f for f in fs if f.domain == G.DOM_FN] + [f for f in fs if f.domain != G.DOM_FN])
    return m


def _same(a, b, approx=False):
    if len(a) != len(b):
        return False
    for x, y in zip(a, b):
        x, y = np.asarray(x), np.asarray(y)
        if x.dtype != y.dtype or x.shape != y.shape:
            return False
        if approx and x.dtype.kind == "f":
            if not np.allclose(x, y, rtol=1e-4, atol=1e-5, equal_nan=True):
                return False
        elif not np.array_equal(x, y, equal_nan=x.dtype.kind == "f"):
            return False
    return True


def _feeds(model, rng, k):
    """k feeds for the host signature: float [3,3] small integers, bool scalar `cond`, int64 scalar `trip`."""
    from onnx import TensorProto
    res = []
    for j in range(k):
        f = {}
        for i in model.graph.input:
            if i.name in {x.name for x in model.graph.initializer}:
                continue
            et = i.type.tensor_type.elem_type
            if et == TensorProto.BOOL:
                f[i.name] = np.array(j % 2 == 0)
            elif et == TensorProto.INT64:
                f[i.name] = np.array([2, 0, 3, 1][j % 4], dtype=np.int64)
            else:
                shape = [d.dim_value for d in i.type.tensor_type.shape.dim]
                f[i.name] = np.array([[rng.randint(-3, 3) for _ in range(int(np.prod(shape)) or 1)]],
                                     dtype=np.float32).reshape(shape)
        res.append(f)
    return res


def _override_feeds(model, rng, base):
    """Feeds that also give a value to every OVERRIDABLE graph input (an initializer listed among the graph inputs,
    ir_version >= 4: the initializer is only a default): each base feed once more with values different from the
    defaults.  The property quantifies over every input of the model, these included."""
    from onnx import numpy_helper
    inits = {i.name: i for i in model.graph.initializer}
    over = [i.name for i in model.graph.input if i.name in inits]
    if not over:
        return []
    res = []
    for f in base:
        g = dict(f)
        for name in over:
            d = numpy_helper.to_array(inits[name])
            delta = np.array([rng.choice([-3, -2, -1, 1, 2, 3]) for _ in range(d.size or 1)]).reshape(d.shape)
            g[name] = np.asarray(d + delta.astype(d.dtype), dtype=d.dtype).reshape(d.shape)
        res.append(g)
    return res


# ----------------------------------------------------------------------------- proto-level node signatures

def _attr_bytes(a):
    if a.type == a.TENSOR and a.t.name:
        # the name of a tensor held by an attribute refers to nothing; onnx_ir's serializer overwrites it when the tensor
        # OBJECT is shared with an initializer (op.initializer(c.const_value, name=...) for the output c of a Constant node)
        import onnx
        b = onnx.AttributeProto()
        b.CopyFrom(a)
        b.t.ClearField("name")
        a = b
    return a.SerializeToString(deterministic=True)


def _node_sig(n):
    attrs = tuple(sorted((a.name, _attr_bytes(a)) for a in n.attribute
                         if a.type not in (a.GRAPH, a.GRAPHS)))
    meta = tuple(sorted((p.key, p.value) for p in n.metadata_props))
    return (n.domain if n.domain != "ai.onnx" else "", n.op_type, tuple(n.input), tuple(n.output), attrs, meta)


def _all_nodes(graph):
    for n in graph.node:
        yield n
        for a in n.attribute:
            if a.type == a.GRAPH:
                yield from _all_nodes(a.g)
            elif a.type == a.GRAPHS:
                for g in a.graphs:
                    yield from _all_nodes(g)


def _model_nodes(model):
    for n in _all_nodes(model.graph):
        yield "main", n
    for f in model.functions:
        for n in f.node:
            yield f"{f.domain}:{f.name}:{f.overload}", n
            for a in n.attribute:
                if a.type == a.GRAPH:
                    for m in _all_nodes(a.g):
                        yield f"{f.domain}:{f.name}:{f.overload}", m


def _all_function_nodes(f):
    for n in f.node:
        yield n
        for a in n.attribute:
            if a.type == a.GRAPH:
                yield from _all_nodes(a.g)


def _tensor_key(t):
    from onnx import numpy_helper
    a = numpy_helper.to_array(t)
    return (str(a.dtype), tuple(a.shape), a.tobytes())


def initializer_reads(model):
    """(container, node signature incl. input/output names) -> sorted list of tuples: per input the contents (dtype, shape,
    bytes) of the initializer the name resolves to under ONNX scoping (None: not an initializer)."""
    out = collections.defaultdict(list)

    def walk(g, scope, where):
        here = dict(scope)
        for t in g.initializer:
            here[t.name] = _tensor_key(t)
        inits = {t.name for t in g.initializer}
        for d in [i.name for i in g.input if i.name not in inits] + [o for n in g.node for o in n.output]:
            here.pop(d, None)
        for n in g.node:
            out[(where, _node_sig(n))].append(tuple(here.get(i) for i in n.input))
            for a in n.attribute:
                if a.type == a.GRAPH:
                    walk(a.g, here, where)
                elif a.type == a.GRAPHS:
                    for sg in a.graphs:
                        walk(sg, here, where)
    walk(model.graph, {}, "main")
    for f in model.functions:
        where = f"{f.domain}:{f.name}:{f.overload}"
        for n in f.node:
            out[(where, _node_sig(n))].append(tuple(None for _ in n.input))
            for a in n.attribute:
                if a.type == a.GRAPH:
                    walk(a.g, {}, where)
    return out


def _used_names(model):
    used = collections.Counter()
    for _, n in _model_nodes(model):
        for i in n.input:
            used[i] += 1
    for o in model.graph.output:
        used[o.name] += 1
    return used


def shadowing_names(model):
    """Names defined by a node of a nested graph that are also defined (anywhere) in an enclosing graph."""
    clashes = set()

    def defs(g):
        d = {i.name for i in g.input} | {i.name for i in g.initializer}
        for n in g.node:
            d.update(o for o in n.output if o)
        return d

    def walk(g, outer):
        here = defs(g)
        clashes.update(here & outer)
        for n in g.node:
            for a in n.attribute:
                if a.type == a.GRAPH:
                    walk(a.g, outer | here)
                elif a.type == a.GRAPHS:
                    for sg in a.graphs:
                        walk(sg, outer | here)
    walk(model.graph, set())
    return clashes


def sibling_normalised(graph):
    """Copy of the graph in which a name defined in two graphs that cannot see each other (then/else branches, two loop
    bodies) is made unique.  ONNX scoping allows such reuse, the verified checker wf_graphb (one global name space)
    does not; names that shadow an enclosing graph's name are left alone (wf_graphb must reject those)."""
    import onnx
    g0 = onnx.GraphProto()
    g0.CopyFrom(graph)
    seen = set()
    counter = [0]

    def all_defs(g):
        d = [i.name for i in g.input] + [i.name for i in g.initializer]
        for n in g.node:
            d += [o for o in n.output if o]
        return d

    def rename(g, ren):
        for coll in (g.input, g.output, g.value_info, g.initializer):
            for v in coll:
                if v.name in ren:
                    v.name = ren[v.name]
        for n in g.node:
            for k, i in enumerate(n.input):
                if i in ren:
                    n.input[k] = ren[i]
            for k, o in enumerate(n.output):
                if o in ren:
                    n.output[k] = ren[o]
            for a in n.attribute:
                if a.type == a.GRAPH:
                    rename(a.g, ren)
                elif a.type == a.GRAPHS:
                    for sg in a.graphs:
                        rename(sg, ren)

    def walk(g, enclosing):
        ren = {}
        for d in all_defs(g):
            if d in seen and d not in enclosing and d not in ren:
                counter[0] += 1
                ren[d] = f"{d}__sib{counter[0]}"
        if ren:
            rename(g, ren)
        here = set(all_defs(g))
        seen.update(here)
        for n in g.node:
            for a in n.attribute:
                if a.type == a.GRAPH:
                    walk(a.g, enclosing | here)
                elif a.type == a.GRAPHS:
                    for sg in a.graphs:
                        walk(sg, enclosing | here)
    walk(g0, set())
    return g0


def bad_extracted_functions(model):
    """Functions created by as_function rules whose opset imports do not agree with the model's."""
    imp = {o.domain: o.version for o in model.opset_import}
    out = []
    for f in model.functions:
        if f.domain != G.DOM_FN:
            continue
        fi = {o.domain: o.version for o in f.opset_import}
        used = {n.domain for n in f.node}
        if any(d not in fi or (d in imp and fi[d] != imp[d]) for d in used):
            out.append(f"{f.name}:{f.overload}")
    return out


def host_functions_missing_nested_imports(model):
    """Model-local host functions one of whose nested graphs (If/Loop bodies) uses a domain the function does not import."""
    out = []
    for f in model.functions:
        if f.domain != G.DOM_HOST:
            continue
        fi = {o.domain for o in f.opset_import}
        nested = {m.domain for n in f.node for a in n.attribute if a.type == a.GRAPH for m in _all_nodes(a.g)}
        if not nested <= fi:
            out.append((f.name, sorted(nested - fi)))
    return out


KEY_FN_SUB_IMPORTS = "C07:new-domain:match-inside-function-subgraph:function-opset-imports"
KEY_SHADOW = "C07:fresh-name-clash:subgraph-value-shadows-enclosing-graph-value"
KEY_FN_IMPORTS = "C07:as_function:match-inside-subgraph:function-opset-imports"


# ----------------------------------------------------------------------------- metadata on the generated hosts

RULE_NAME_TAG = "pkg.onnxscript.rewriter.rule_name"


def decorate_metadata(model):
    """metadata_props on some nodes (main graph, If/Loop bodies, functions) and on some values (value_info of the graphs), a
    function of the names only: keys with and without a merger, empty values, a rule-name tag left by an earlier rewrite."""
    import zlib

    def node_meta(n):
        out = next((o for o in n.output if o), "")
        k = zlib.crc32(out.encode()) % 7
        items = {2: [("namespace", "m/" + out)],
                 3: [(RULE_NAME_TAG, "Old_" + out)],
                 4: [("namespace", ""), ("pkg.torch.onnx.stack_trace", "st " + out)],
                 5: [(RULE_NAME_TAG, "Prev"), ("namespace", "n/" + out), ("k", "v")],
                 6: [("k", "w"), (RULE_NAME_TAG, "")]}.get(k, [])
        for key, value in items:
            p = n.metadata_props.add()
            p.key, p.value = key, value
        if zlib.crc32(("d" + out).encode()) % 3 == 0:         # doc strings: compared before/after by the tracer's frame oracle
            n.doc_string = "doc of " + out

    def graph(g, values=True):
        for n in g.node:
            node_meta(n)
            for a in n.attribute:
                if a.type == a.GRAPH:
                    graph(a.g)
            if values:
                for o in n.output:
                    if o and zlib.crc32(("v" + o).encode()) % 4 == 0 and o not in {x.name for x in g.output}:
                        vi = g.value_info.add()
                        vi.name = o
                        p = vi.metadata_props.add()
                        p.key, p.value = "vm", "of " + o
    graph(model.graph)
    for f in model.functions:
        for n in f.node:
            node_meta(n)
            for a in n.attribute:
                if a.type == a.GRAPH:
                    graph(a.g)
            for o in n.output:                               # values of the function body (FunctionProto.value_info)
                if o and zlib.crc32(("v" + o).encode()) % 4 == 0 and o not in set(f.output):
                    vi = f.value_info.add()
                    vi.name = o
                    p = vi.metadata_props.add()
                    p.key, p.value = "vm", "of " + o
    return model


# ----------------------------------------------------------------------------- one host through the real rewriter

class HostResult:
    def __init__(self):
        self.violations = []       # (key, what)
        self.ties = []             # (stream, detail)
        self.coq_cases = []        # (label, apps, g0, gfinal)
        self.wf_terms = []         # (label, graph literal, imports literal)
        self.count = None
        self.fired_splices = 0
        self.sweeps = 0
        self.new = None
        self.unmodelled = []
        self.exc = None
        self.shadow = []
        self.instances = []
        self.unmodelled_expected = 0
        self.name_case = None
        self.namefix_cases = []
        self.multi_splices = 0
        self.sort_cases = []


def _exc_chain(e):
    out = []
    seen = set()
    while e is not None and id(e) not in seen:
        seen.add(id(e))
        out.append(e)
        e = e.__cause__ or e.__context__
    return out


def run_real(model, families, trace=True, via_ir=False, commute=False):
    """Apply the generated rule set with the real rewriter.  Returns (new model or None, exception, boxes, tracer).
    commute=True: the rules go through RewriteRuleSet(rules, commute=True), i.e. every rule is replaced by the copies
    RewriteRule.commute() builds (operands of commutative pattern nodes swapped); every option of the rule (remove_nodes,
    as_function, name, visitors) must survive the copy."""
    from onnxscript import ir, rewriter
    boxes = G.make_rule_set(families)
    rules = [b.rule for b in boxes]
    if commute:
        from onnxscript.rewriter import pattern as _pattern
        rules = _pattern.RewriteRuleSet(rules, commute=True)
    tracer = Tracer()
    if trace:
        tracer.install(list(rules.rules) if commute else rules)
    new, exc = None, None
    try:
        m = copy.deepcopy(model)
        if via_ir:
            mi = ir.serde.deserialize_model(m)
            mi = rewriter.rewrite(mi, rules)
            new = ir.serde.serialize_model(mi)
        else:
            new = rewriter.rewrite(m, rules)
    except Exception as e:  # classified by the caller
        exc = e
    finally:
        tracer.uninstall()
    return new, exc, boxes, tracer


def check_cursor(rec):
    """Iteration model (Apply.sweep): rules are tried in order until one fires; after a splice at root i the next
    visited node is the first node after the surviving part of the window (= first replacement node); otherwise the
    next node; the sweep ends at the end of the list.  Returns a list of discrepancies."""
    bad = []
    for gid, events in rec["visits"].items():
        fires = list(rec["levels"].get(gid, []))
        expected = 0
        n = None
        prev_rule = None
        pending_fire = False
        for ev in events:
            if ev["rule"] is None:
                continue
            new_visit = ev["rule"] == 0 or prev_rule is None or ev["rule"] <= prev_rule
            if new_visit:
                if pending_fire and fires:
                    f = fires.pop(0)
                    expected, n = f["next"], f["n_after"]
                elif prev_rule is not None:
                    expected += 1
                pending_fire = False
                if ev["idx"] != expected:
                    bad.append(f"visit at index {ev['idx']}, model cursor {expected}")
                    expected = ev["idx"] if ev["idx"] is not None else expected
                if ev["rule"] != 0:
                    bad.append(f"visit starts with rule {ev['rule']}")
            else:
                if ev["rule"] != prev_rule + 1:
                    bad.append("rules not tried in order")
            n = ev["n"] if n is None else n
            prev_rule = ev["rule"]
            if ev["fired"]:
                pending_fire = True
        if prev_rule is not None:
            if pending_fire and fires:
                f = fires.pop(0)
                expected, n = f["next"], f["n_after"]
            else:
                expected += 1
            if n is not None and expected != n and not rec["unmodelled"]:
                bad.append(f"sweep ended at cursor {expected} of {n}")
    return bad


def eval_host(ctx, label, host, families, rng, stream="gen", want_ref=True, check_progress=True, commute=False):
    """Run every oracle on one host; returns a HostResult (Coq cases are evaluated later in shards)."""
    import onnx
    res = HostResult()
    model = decorate_metadata(G.to_model(host))
    try:
        onnx.checker.check_model(model, full_check=True)
    except Exception as e:  # generator bug, never the implementation's fault
        raise RuntimeError(f"generated host {label} is not a valid model: {e}") from e
    new, exc, boxes, tracer = run_real(model, families, commute=commute)
    res.sweeps = len(tracer.sweeps)
    fam_key = "+".join(families) + ("+commute" if commute else "")
    inst = reference_instances(host, families)
    approx = any(G.FAMILIES[f].get("approx") for f in families)          # replacement is a different kernel (contrib op)
    if any(G.FAMILIES[f].get("new_domain") for f in families):
        want_ref = False                                                 # onnx.reference has no contrib kernels
    multi_root = any(G.FAMILIES[f].get("roots") for f in families)
    if exc is not None:
        res.exc = exc
        chain = _exc_chain(exc)
        msg = re.sub(r"0x[0-9a-f]+", "0x..", " | ".join(f"{type(e).__name__}: {str(e)[:160]}" for e in chain))
        if any(isinstance(e, G.Budget) for e in chain):
            res.violations.append((f"C07:{stream}:does-not-terminate:{fam_key}", "a guarded rule was applied over and over: " + msg))
        elif any("still being used by other nodes" in str(e) for e in chain) and any(i["var_is_intermediate"] for i in inst):
            res.violations.append(("C07:pattern-variable-bound-to-matched-intermediate:raises",
                                   "a pattern variable is bound to a value produced by a matched node; the replacement uses it and "
                                   "removing the matched nodes raises: " + msg))
        else:
            res.violations.append((f"C07:{stream}:raises:{type(chain[-1]).__name__}:{fam_key}", "rewrite() raised: " + msg))
        return res, model
    res.new = new
    count = sum(r["count"] or 0 for r in tracer.sweeps)
    res.count = count
    res.fired_splices = sum(len(r["apps"]) for r in tracer.sweeps)
    res.unmodelled = [u for r in tracer.sweeps for u in r["unmodelled"]]
    res.unmodelled_expected = 0
    if multi_root:
        # patterns with several output nodes are outside the Coq model (single root): observed by the oracles only
        res.unmodelled_expected = len(res.unmodelled)
        res.unmodelled = [u for u in res.unmodelled if "several output nodes" not in u and "not produced by the root" not in u]

    shadow0 = shadowing_names(model)
    shadow1 = shadowing_names(new) - shadow0
    bad_fns = bad_extracted_functions(new)
    res.shadow = sorted(shadow1)

    def bad(kind, what):
        res.violations.append((f"C07:{stream}:{kind}:{fam_key}", what))

    known_invalid = False
    if shadow1:
        known_invalid = True
        res.violations.append((KEY_SHADOW, f"fresh names {sorted(shadow1)[:3]} are defined both in a nested graph and in an enclosing graph "
                                           "(replacement nodes inserted in a subgraph and, later in the list, in the graph around it; "
                                           "NameFixPass has already left the subgraph's scope when it meets the outer definition); "
                                           "onnxruntime rejects the model as not SSA"))
    if bad_fns:
        known_invalid = True
        res.violations.append((KEY_FN_IMPORTS, f"function(s) {bad_fns[:3]} extracted from a match inside an If/Loop body carry the "
                                               "subgraph's (empty or defaulted) opset imports instead of the model's; onnx.checker rejects the model"))
    fn_sub = host_functions_missing_nested_imports(new) if not host_functions_missing_nested_imports(model) else []
    if fn_sub and any(G.FAMILIES[f].get("new_domain") or G.FAMILIES[f].get("as_function") for f in families):
        # the remaining oracles run on the model with exactly the missing imports added (so this finding masks nothing else)
        new = copy.deepcopy(new)
        mimp = {o.domain: o.version for o in new.opset_import}
        for f in new.functions:
            for fname, doms in fn_sub:
                if f.name == fname and f.domain == G.DOM_HOST:
                    for d in doms:
                        f.opset_import.add(domain=d, version=mimp.get(d, 1))
        res.violations.append((KEY_FN_SUB_IMPORTS, f"function(s) {fn_sub[:3]}: a replacement in a domain the function does not import was "
                                                   "inserted in an If/Loop body of the function; the import went to the subgraph's own "
                                                   "(unserialized) opset_imports and to the main graph, not to the function; onnx.checker rejects the model"))
    # -- validity
    try:
        # strict type inference stops at a contrib op the onnx package has no schema for
        onnx.checker.check_model(new, full_check=not any(G.FAMILIES[f].get("new_domain") for f in families))
    except Exception as e:
        m = str(e)
        kind = "not-topologically-sorted" if "topologically sorted" in m else "invalid-model"
        if not (bad_fns and "pset" in m):
            bad(kind, "onnx.checker rejects the rewritten model: " + m[:300])
    # -- signature
    sig0 = [i.SerializeToString(deterministic=True) for i in model.graph.input], [o.SerializeToString(deterministic=True) for o in model.graph.output]
    sig1 = [i.SerializeToString(deterministic=True) for i in new.graph.input], [o.SerializeToString(deterministic=True) for o in new.graph.output]
    if [i.name for i in model.graph.input] != [i.name for i in new.graph.input] or \
       [o.name for o in model.graph.output] != [o.name for o in new.graph.output]:
        bad("signature-names", f"graph inputs/outputs renamed: {[i.name for i in new.graph.input]} -> {[o.name for o in new.graph.output]}")
    elif sig0 != sig1:
        bad("signature-types", "type/shape of a graph input or output changed")
    # -- initializers: a surviving name keeps its contents; every new initializer is used
    init0 = {i.name: i.SerializeToString(deterministic=True) for i in model.graph.initializer}
    used1 = _used_names(new)
    for i in new.graph.initializer:
        if i.name in init0 and init0[i.name] != i.SerializeToString(deterministic=True):
            bad("initializer-overwritten", f"initializer {i.name} changed its contents")
    # -- opset imports / functions
    imp0 = {(o.domain, o.version) for o in model.opset_import}
    imp1 = {(o.domain, o.version) for o in new.opset_import}
    doms1 = {n.domain for w, n in _model_nodes(new) if w == "main"}
    for d, v in imp0:
        if d in doms1 and (d, v) not in imp1:
            bad("opset-import-lost", f"import of domain {d!r} version {v} lost or changed")
    if not doms1 <= {d for d, _ in imp1}:
        bad("opset-import-missing", f"domains {sorted(doms1 - {d for d, _ in imp1})} used by graph nodes but not imported by the model")
    for f in new.functions:
        fdoms = {n.domain for n in _all_function_nodes(f)}
        if not fdoms <= {o.domain for o in f.opset_import}:
            bad("opset-import-missing", f"function {f.name}: domains {sorted(fdoms - {o.domain for o in f.opset_import})} used but not imported by the function")
    f0 = {(f.domain, f.name, f.overload) for f in model.functions}
    f1 = {(f.domain, f.name, f.overload) for f in new.functions}
    called1 = {(n.domain, n.op_type, n.overload) for _, n in _model_nodes(new)}
    if not {f for f in f0 if f in called1} <= f1:
        bad("function-lost", "a model-local function that is still called was dropped")
    n_fn_fires = sum(b.fires for b in boxes if b.spec.get("as_function"))
    new_fns = f1 - f0
    if any(d != G.DOM_FN for d, _, _ in new_fns):
        bad("function-unexpected", f"unexpected new functions {sorted(new_fns)}")
    if not {c for c in called1 if c[0] in (G.DOM_FN, G.DOM_HOST)} <= f1:
        bad("function-missing", f"call of an undefined model-local function: {sorted(c for c in called1 if c[0] in (G.DOM_FN, G.DOM_HOST) and c not in f1)}")
    # -- frame: the multiset of unmatched nodes
    before = collections.Counter(_node_sig(n) for _, n in _model_nodes(model))
    after = collections.Counter(_node_sig(n) for w, n in _model_nodes(new) if not w.startswith(G.DOM_FN + ":"))
    matched = collections.Counter()
    for r in tracer.sweeps:
        for s, _rm in r["matched_sigs"]:
            matched[s] += 1
    missing = []
    for s, c in before.items():
        lack = c - after.get(s, 0)
        if lack <= 0:
            continue
        key4 = (s[0], s[1], tuple(s[2]), tuple(s[3]))
        if matched.get(key4, 0) >= lack:
            continue                                   # matched nodes may go (removed, or kept and later dead)
        if s[1] == "Constant" and all(used1.get(o, 0) == 0 for o in s[3]):
            continue                                   # a constant that lost its last use (by design of rewrite())
        missing.append((s[1], list(s[2]), list(s[3])))
    if missing:
        bad("unmatched-node-changed", f"nodes outside every match were removed or altered: {missing[:4]}")
    # -- frame, initializer identity: the tensor an unmatched node reads is bit-identical before and after
    reads0, reads1 = initializer_reads(model), initializer_reads(new)
    for k, lst0 in reads0.items():
        lst1 = reads1.get(k)
        if lst1 is None or not any(x is not None for t in lst0 for x in t):
            continue                                   # node gone (matched / dead constant) or reads no initializer
        c0, c1 = collections.Counter(lst0), collections.Counter(lst1)
        if c1 - c0 and c0 - c1:
            sg = k[1]
            bad("unmatched-node-reads-different-initializer",
                f"node {sg[1]}({', '.join(sg[2])}) -> {list(sg[3])} in {k[0]} is unchanged by name but an input that resolved to an "
                "initializer now resolves to different contents or to no initializer")
            break
    extra = sum(after.values()) - sum((before & after).values())
    total_new = sum(r["new_nodes"] for r in tracer.sweeps)
    if extra > total_new:
        bad("extra-nodes", f"{extra} nodes that are neither original nor replacement nodes ({total_new} replacement nodes inserted)")
    # -- frame, object level: name, doc_string, metadata_props, operator and outputs of every node (and value) no splice matched
    frame_bad = [b for r in tracer.sweeps for b in r.get("frame_bad", [])]
    if ctx is not None:
        MULTI["frame_nodes"] += sum(r.get("frame_checked", 0) for r in tracer.sweeps)
    if frame_bad:
        bad("unmatched-node-metadata-changed", "; ".join(frame_bad[:4]))
    # -- equivalence (the property itself)
    feeds = _feeds(model, rng, 3)
    n_default = len(feeds)
    feeds = feeds + _override_feeds(model, rng, feeds[:2])        # (no draw from rng unless the host has overridable inputs)
    if ctx is not None:
        MULTI["override_feeds"] += len(feeds) - n_default
    try:
        new_x = _runnable(new)
        # one session per model for all feeds (the models do not change between feeds)
        s_old = s_new = r_old = r_new = None
        for f in ([] if known_invalid else feeds):
            if s_old is None:
                s_old, s_new = _ort_session(model), _ort_session(new_x)
            want = s_old.run(None, f)
            got = s_new.run(None, f)
            if not _same(want, got, approx):
                overridden = sorted(set(f) & {i.name for i in model.graph.initializer})
                bad("not-equivalent", "onnxruntime: outputs differ before/after"
                    + (f" when the caller overrides the default of graph input(s) {overridden}" if overridden else "") + ": "
                    f"{[np.asarray(a).ravel()[:4].tolist() for a in want]} vs {[np.asarray(a).ravel()[:4].tolist() for a in got]}"
                    f" on feed { {k: np.asarray(v).ravel()[:4].tolist() for k, v in f.items()} }")
                break
            if want_ref:
                if r_old is None:
                    r_old, r_new = _ref_session(model), _ref_session(new_x)
                want_r = r_old.run(None, f)
                got_r = r_new.run(None, f)
                if not _same(want_r, got_r):
                    bad("not-equivalent", "onnx.reference: outputs differ before/after")
                    break
    except Exception as e:
        bad("result-does-not-run", f"{type(e).__name__}: {str(e)[:300]}")
    # -- progress
    if check_progress:
        # per graph level: a level holding a removable instance must see at least one splice (the first such instance
        # in iteration order is still intact when the iteration reaches it unless an earlier splice of that level touched it)
        level_of = {}
        for key, (_desc, g, _top) in enumerate(G.all_levels(host)):
            for n in g.nodes:
                for o in n.outs:
                    level_of[o] = key
        spliced = set()
        for r in tracer.sweeps:
            for sig_, _rm in r["matched_sigs"]:
                for o in sig_[3]:
                    if o in level_of:
                        spliced.add(level_of[o])
        for i in inst:
            if i["claim"] and i["level_key"] not in spliced:
                res.violations.append((f"C07:{stream}:no-progress:{i['family']}:{i['where']}",
                                       f"a removable instance of {i['family']} exists in {i['level']} (root node {i['root']}) but no rule "
                                       f"fired in that graph (fired elsewhere: {count})"))
                break
    # -- names of the values the replacements created (repaired variant: OV.Rewrite.Naming.fresh_seq)
    def value_names(mm, skip_new_functions=False):
        names = set()

        def gr(g):
            names.update(i.name for i in g.input)
            if not skip_new_functions:                   # (initializers are named by the rule that creates them)
                names.update(i.name for i in g.initializer)
            for n in g.node:
                names.update(o for o in n.output if o)
                for a in n.attribute:
                    if a.type == a.GRAPH:
                        gr(a.g)
        gr(mm.graph)
        for f in mm.functions:
            if skip_new_functions and f.domain == G.DOM_FN:
                continue
            names.update(f.input)
            for n in f.node:
                names.update(o for o in n.output if o)
                for a in n.attribute:
                    if a.type == a.GRAPH:
                        gr(a.g)
        return names
    used0 = value_names(model)
    res.name_case = (sorted(used0), 3 * total_new + 3, sorted(value_names(new, skip_new_functions=True) - used0))
    # -- model correspondence material
    for k, r in enumerate(tracer.sweeps):
        if r["unmodelled"]:
            continue
        res.coq_cases.append((f"{label}/{r['kind']}{k}", r["apps"], r["g0"], r["gfinal"], r["ext"],
                              dict(events=r["events"], s0=r["s0"], sfinal=r["sfinal"], tops=r.get("tops", [0]),
                                   multi=bool(r.get("multi")), mevents=r.get("mevents", []), mapps=r.get("mapps", []))))
        if r.get("multi"):
            res.multi_splices += len(r.get("mapps", []))
        for d in check_cursor(r):
            res.ties.append(("iteration", f"{label}: {d}"))
    if not known_invalid:
        res.wf_terms.append((label + "/main", graphlit.graph_lit(sibling_normalised(new.graph)), graphlit.imports_lit(new.opset_import)))
    for f in ([] if known_invalid else new.functions):
        res.wf_terms.append((f"{label}/fn:{f.name}:{f.overload}", graphlit.function_lit(f), graphlit.imports_lit(f.opset_import)))
    res.instances = inst
    if not tracer.errors:
        res.sort_cases = [(f"{label}/sort{k}", b, a, ext) for k, (b, a, ext) in enumerate(tracer.sorts)]
        if ctx is not None:
            SORT_CASES.extend(res.sort_cases)
            MULTI["splices"] += res.multi_splices
            MULTI["const_copies"] += tracer.const_copies
            MULTI["hosts"] += 1 if res.multi_splices else 0
    if ctx is not None:
        MULTI["used_sets"] += tracer.used_sets
    if not known_invalid and not tracer.errors:
        res.namefix_cases = [(f"{label}/{lab}", gtok, gname, pairs, vis) for lab, gtok, gname, pairs, vis in tracer.namefix]
    for err in tracer.errors:
        res.ties.append(("tracer", f"{label}: {err}"))
    return res, model


def reference_instances(host, families):
    """Instances found by the harness' own matcher, with the claim whether the real rewriter must fire on it."""
    out = []
    for fam in families:
        spec = G.FAMILIES[fam]
        top_consts = {}
        for level_key, (desc, g, top) in enumerate(G.all_levels(host)):
            in_function = desc.startswith("function:")
            consts = {}
            if top:
                # basic_constant_propagation gives a const_value to the initializers and to the outputs of the Constant
                # nodes of the TOP level of the main graph / of a function (not to Constant nodes inside If/Loop bodies)
                for k, a in g.inits.items():
                    if np.size(a) == 1 and k not in {nm for nm, _ in g.ins}:      # (listed as a graph input: a default only)
                        consts[k] = float(np.asarray(a).ravel()[0])
                for n in g.nodes:
                    if n.op == "Constant" and np.size(n.attrs["value"]) == 1:
                        consts[n.outs[0]] = float(np.asarray(n.attrs["value"]).ravel()[0])
                top_consts = consts
            else:
                # a nested graph sees the constants of the top level of its container (the same Value objects)
                consts = dict(top_consts)

            def const_ok(val, c, consts=consts):
                return val in consts and consts[val] == c
            for i in G.find_instances(g, fam, const_ok):
                keep = spec.get("keep", False)
                claim = (i["removable"] or keep) and not i["var_is_intermediate"]
                if spec.get("new_init") and in_function and "/" not in desc:
                    claim = False                       # by design: rules adding initializers are skipped at the top level of a function
                where = "function" if in_function else ("main" if desc == "main" else "nested")
                out.append(dict(family=fam, level=desc, level_key=level_key, where=where, claim=claim, **i))
    return out


# ----------------------------------------------------------------------------- Coq evaluation of the collected cases

FLAGS = ["as_is"]          # the repair flags of OV.Rewrite.State matching the source being checked (set by probe_flags)
NAMEFIX_CASES = []         # (label, token graph, final-name graph, pairs, visible names) after NameFixPass, sampled hosts
NAME_CASES = []            # (label, (names in use before, bound, names of the values created)) of sampled hosts
TARGETED_VIOLATED = set()  # traced targeted hosts on which the property oracle reported a (known) violation
SORT_CASES = []            # (label, token graph before Graph.sort, after it, registered-initializer tokens)
MULTI = collections.Counter()
REPLAY_STATS = {}
STATE_DIFF = {}            # label -> (code, event index, differing component) of the last coq_replay
COPIED_INPUTS = []         # sweeps in which an as_function extraction copied a GRAPH INPUT into the function body (last coq_replay)


def probe_flags():
    """Which of the two proposed repairs modelled by OV.Rewrite.State.flags the source under check contains."""
    import inspect
    import onnxscript.rewriter._rewrite_rule as rr
    src = inspect.getsource(rr.RewriteRuleSet._apply_to_graph_or_function)
    displaced = hasattr(rr, "_fresh_initializer_name") and "displaced" in src
    owner = "graph_or_function.opset_imports.setdefault" in src
    FLAGS[0] = f"(Flags {'true' if displaced else 'false'} {'true' if owner else 'false'})"
    return displaced, owner


def coq_replay(ctx, cases, shard=40):
    """cases: [(label, apps, g0, gfinal)].  Returns {label: (code, step)} for the failing ones, or None if Coq failed."""
    bodies, labels = [], []
    # a sweep in which nothing happened (no visit returned a replacement, no splice) and whose container and state literals are
    # textually the same before and after needs no evaluation: the replay of the empty event list is the identity
    idle = [c for c in cases if not c[1] and not c[5]["events"] and not c[5].get("mevents") and c[2] == c[3] and c[5]["s0"] == c[5]["sfinal"]]
    idle_ids = {id(c) for c in idle}
    cases = [c for c in cases if id(c) not in idle_ids]
    REPLAY_STATS["idle"], REPLAY_STATS["evaluated"] = len(idle), len(cases)
    for s in range(0, len(cases), shard):
        chunk = cases[s:s + shard]
        lines = []
        for i, (_label, apps, g0, gf, ext, st) in enumerate(chunk):
            lines.append(f"Definition g0_{i} : graph := {g0}.")
            lines.append(f"Definition gf_{i} : graph := {gf}.")
            lines.append(f"Definition ap_{i} : list (path * app * list vname) := {clist(apps)}.")
            lines.append(f"Definition ex_{i} : list vname := {clist(ext, common.cstr)}.")
            lines.append(f"Definition s0_{i} : mstate := {st['s0']}.")
            lines.append(f"Definition sf_{i} : mstate := {st['sfinal']}.")
            lines.append(f"Definition ev_{i} : list event := {clist(st['events'])}.")
        # sweeps holding a splice of a pattern with several output nodes: generalised applications (OV.Rewrite.Multi), no
        # single-root side conditions; order: after the sort (check_sorts)
        mu = [bool(c[5].get("multi")) for c in chunk]
        for i, c in enumerate(chunk):
            if mu[i]:
                lines[7 * i + 2] = f"Definition ap_{i} : list (path * app * list vname) := []."
                lines[7 * i + 6] = f"Definition ev_{i} : list mevent := {clist(c[5]['mevents'])}."
                lines.append(f"Definition ma_{i} : list (path * mapp) := {clist(c[5]['mapps'])}.")
        lst = clist([(f"({i}, (0, 0, 0))" if mu[i] else f"({i}, check_host ap_{i} g0_{i} gf_{i})") for i in range(len(chunk))])
        lines.append(f"Definition results : list (nat * (nat * nat * nat)) := {lst}.")
        lines.append("Eval vm_compute in (filter (fun r => negb (Nat.eqb (fst (fst (snd r))) 0)) results).")
        lines.append("Eval vm_compute in (fold_right (fun r s => snd (snd r) + s) 0 results).")
        # order part: the container was ordered, every application satisfies order_okb where it is applied (hypotheses of
        # C07_pass_keeps_order) and the observed final graph is ordered
        lst = clist([(f"({i}, multi_order_pass ex_{i} ma_{i} g0_{i})" if mu[i] else f"({i}, check_order ex_{i} ap_{i} g0_{i} && topo_graph ex_{i} gf_{i})")
                     for i in range(len(chunk))])
        lines.append(f"Eval vm_compute in (map fst (filter (fun r => negb (snd r)) {lst})).")
        # the whole container state (imports, initializers, functions, node and value metadata) after the logged visits and
        # splices, as OV.Rewrite.State predicts it, against the state observed when the sweep ended
        lst = clist([f"({i}, {'check_state_m' if mu[i] else 'check_state'} {FLAGS[0]} {clist([str(t) for t in chunk[i][5]['tops']])} ev_{i} g0_{i} s0_{i} gf_{i} sf_{i})" for i in range(len(chunk))])
        lines.append(f"Eval vm_compute in (filter (fun r => negb (Nat.eqb (fst (fst (snd r))) 0 && Nat.eqb (snd (snd r)) 0)) {lst}).")
        # as_function: no copied value is a graph input of the container (FnConstIn.copied_not_inputs_okb; hypothesis of
        # C07_as_function_copied_initializers_sound, necessary by C07_copied_graph_input_refuted)
        lst = clist([f"({i}, {'mevents_copied_okb' if mu[i] else 'events_copied_okb'} (g_ins g0_{i}) ev_{i})" for i in range(len(chunk))])
        lines.append(f"Eval vm_compute in (map fst (filter (fun r => negb (snd r)) {lst})).")
        bodies.append("\n".join(lines))
        labels.append([c[0] for c in chunk])
    failing = {}
    uncovered = 0
    unordered = []
    STATE_DIFF.clear()
    COPIED_INPUTS.clear()
    if not bodies:
        return failing, uncovered, unordered
    outs = ctx.coq_eval_shards(REQ, bodies, par=8)
    for (ok, vals, raw), labs in zip(outs, labels):
        if not ok or len(vals) < 5:
            ctx.tie_broken("correspondence", "apply:model-evaluation", raw[-1500:])
            return None, 0, []
        COPIED_INPUTS.extend(labs[i] for i in common.parse_nat_list(vals[4]))
        for m in re.finditer(r"\((\d+),\s*\(?(\d+),\s*(\d+),\s*(\d+)\)?\)", re.sub(r"%\w+", "", vals[3])):
            STATE_DIFF[labs[int(m.group(1))]] = (int(m.group(2)), int(m.group(3)), int(m.group(4)))
        unordered += [labs[i] for i in common.parse_nat_list(vals[2])]
        for m in re.finditer(r"\((\d+),\s*\(?(\d+),\s*(\d+),\s*(\d+)\)?\)", re.sub(r"%\w+", "", vals[0])):
            failing[labs[int(m.group(1))]] = (int(m.group(2)), int(m.group(3)))
        uncovered += int(re.sub(r"%\w+", "", vals[1]).strip())
    return failing, uncovered, unordered


def check_sorts(ctx, violated, shard=60):
    """Every Graph.sort() the rewriter ran on a container (after rules whose pattern has several output nodes) against the
    order rule of OV.Rewrite.Multi: the observed container = rsort_graph of the container before the sort, and is ordered."""
    cases = [c for c in SORT_CASES if c[0].split("/")[0] not in violated]
    bodies, labels = [], []
    for s in range(0, len(cases), shard):
        chunk = cases[s:s + shard]
        lines = []
        for i, (_label, before, after, ext) in enumerate(chunk):
            lines.append(f"Definition b_{i} : graph := {before}.")
            lines.append(f"Definition a_{i} : graph := {after}.")
        lst = clist([f"({i}, check_sort {clist(c[3], common.cstr)} b_{i} a_{i})" for i, c in enumerate(chunk)])
        lines.append(f"Definition results : list (nat * nat) := {lst}.")
        lines.append("Eval vm_compute in (filter (fun r => negb (Nat.eqb (snd r) 0)) results).")
        lines.append(f"Eval vm_compute in (List.length (filter (fun r => negb (graph_eqb (fst r) (snd r))) {clist([f'(b_{i}, a_{i})' for i in range(len(chunk))])})).")
        bodies.append("\n".join(lines))
        labels.append([c[0] for c in chunk])
    bad, other_order, moved = [], [], 0
    if bodies:
        outs = ctx.coq_eval_shards(REQ, bodies, par=8)
        for (ok, vals, raw), labs in zip(outs, labels):
            if not ok or len(vals) < 2:
                ctx.tie_broken("correspondence", "sort:model-evaluation", raw[-1500:])
                return
            for m in re.finditer(r"\((\d+),\s*(\d+)\)", re.sub(r"%\w+", "", vals[0])):
                (other_order if int(m.group(2)) == 1 else bad).append((labs[int(m.group(1))], int(m.group(2))))
            moved += int(re.sub(r"%\w+", "", vals[1]).strip())
    WHY = {2: "the container after Graph.sort() is not an ordered rearrangement of the container before it",
           3: "the order rule finds a cycle in the container the rewriter left behind"}
    for label, code in bad[:6]:
        ctx.tie_broken("correspondence", "sort:replay", f"{label}: {WHY.get(code, code)}")
    ctx.obligation(f"order rule: on {len(cases)} containers sorted by the rewriter after rules whose pattern has several output nodes, the "
                   "observed container is rsort_graph (OV.Rewrite.Multi) of the container before the sort, or an ordered rearrangement of it, "
                   "and is topologically ordered (topo_graph)", not bad, "; ".join(f"{k}:{v}" for k, v in bad[:5]))
    ctx.cover(containers_sorted_by_the_rewriter=len(cases), containers_the_sort_changed=moved,
              sorted_containers_in_another_valid_order_than_the_one_level_rule=len(other_order),
              splices_of_patterns_with_several_output_nodes_replayed=MULTI["splices"], hosts_with_such_splices=MULTI["hosts"],
              unmatched_nodes_compared_by_name_doc_string_metadata=MULTI["frame_nodes"],
              constants_copied_into_extracted_functions_compared_with_const_value=MULTI["const_copies"],
              used_name_sets_of_the_fresh_name_authority_compared_with_all_names_of_the_model=MULTI["used_sets"])


def coq_wf(ctx, terms, shard=120):
    """terms: [(label, graph literal, imports literal)] -> labels whose wf_graphb / imports_ok is false (two lists)."""
    bodies, labels = [], []
    for s in range(0, len(terms), shard):
        chunk = terms[s:s + shard]
        lines = [f"Definition w_{i} : graph := {t}.\nDefinition im_{i} : list string := {imp}." for i, (_l, t, imp) in enumerate(chunk)]
        lst = clist([f"({i}, (wf_graphb w_{i}, imports_ok im_{i} w_{i}))" for i in range(len(chunk))])
        lines.append(f"Definition results : list (nat * (bool * bool)) := {lst}.")
        lines.append("Eval vm_compute in (map fst (filter (fun r => negb (fst (snd r))) results)).")
        lines.append("Eval vm_compute in (map fst (filter (fun r => negb (snd (snd r))) results)).")
        bodies.append("\n".join(lines))
        labels.append([c[0] for c in chunk])
    bad_wf, bad_imp = [], []
    if not bodies:
        return bad_wf, bad_imp
    outs = ctx.coq_eval_shards(REQ, bodies, par=8)
    for (ok, vals, raw), labs in zip(outs, labels):
        if not ok or len(vals) < 2:
            ctx.tie_broken("checker", "wf_graphb:evaluation", raw[-1500:])
            return None, None
        bad_wf += [labs[i] for i in common.parse_nat_list(vals[0])]
        bad_imp += [labs[i] for i in common.parse_nat_list(vals[1])]
    return bad_wf, bad_imp


# ----------------------------------------------------------------------------- streams

RULE_SETS = [
    ["single"], ["chain2"], ["chain3"], ["negneg"], ["bin_nested"], ["swap_add"], ["swap_mul"], ["dtrans"],
    ["dtrans_elim"], ["mul1_elim"], ["add0_elim"], ["mul1_node"], ["add0_init"], ["split"],
    ["chain2_keep"], ["bin_keep"], ["split_keep"], ["chain2_fn"], ["bin_fn"], ["scale_fn"],
    # two rules, the first applicable one wins
    ["swap_add", "bin_nested"], ["bin_nested", "swap_add"], ["chain2", "single"], ["chain3", "chain2"],
    ["chain2_keep", "negneg"], ["chain2_fn", "single"], ["mul1_elim", "swap_mul"], ["dtrans", "chain2"],
    # DAG-shaped patterns (shared pattern node at different depths, both operand orders, three consumers), ordinary,
    # keeping and as_function; two output nodes sharing a producer; a replacement in a domain the host does not import
    ["dag_a"], ["dag_b"], ["dag_a_fn"], ["dag_b_fn"], ["dag_a_keep"], ["dag3"], ["dag3_fn"], ["dag3_r_fn"],
    ["two_out"], ["two_out_fn"], ["silu_ms"], ["dag_a_fn", "swap_add"], ["silu_ms", "single"],
    # replacements creating initializers in every way the public API allows (named / unnamed tensor, with / without name=,
    # the tensor object of a matched constant that other nodes still use), removing and keeping; two output nodes in the
    # other order, keeping
    ["init_named"], ["init_both"], ["init_copy"], ["init_copy_keep"], ["init_copy", "swap_add"], ["two_out_r"], ["two_out_keep"], ["two_out_x"],
]


def planted_families(rule_set):
    """Families to plant in hosts for a rule set: its own patterns (+ elimination forms need their own shapes)."""
    return list(rule_set)


def report(ctx, label, res, replay):
    seen = False
    for key, what in res.violations:
        if ctx.violation(key, f"{label}: {what}", replay) != "known":
            seen = True
    return seen


def commute_of(h):
    """Hosts of every 4th round of the rule sets are rewritten with commute=True (option product: every rule family --
    removing, keeping, as_function, several output nodes, new initializers -- also under commutation)."""
    return (h // len(RULE_SETS)) % 4 == 3


def generated_host(host_seed, h):
    """The h-th host of the generated stream (a function of its own seed, so a replay file can rebuild it)."""
    import random
    rng = random.Random(host_seed)
    rule_set = RULE_SETS[h % len(RULE_SETS)]
    size = rng.choice([4, 6, 8, 12])
    gen = G.HostGen(rng, planted_families(rule_set), size=size, nest=rng.choice([0.0, 0.3, 0.6]))
    host = gen.host(n_inputs=rng.choice([1, 2, 3]), depth=rng.choice([0, 1, 2]))
    live_host(host, gen)
    return rng, rule_set, host


def replay(doc):
    """./check C07 --replay <file>: re-run the recorded input through the real rewriter and the oracles."""
    import json
    r = doc.get("replay", {})
    print(json.dumps({k: v for k, v in doc.items() if k != "replay"}, indent=1))
    if r.get("stream") == "generated" and "host_seed" in r:
        rng, rule_set, host = generated_host(r["host_seed"], r["host_index"])
        res, model = eval_host(None, f"gen{r['host_index']}", host, rule_set, rng, commute=bool(r.get("commute")))
        import onnx
        print(onnx.printer.to_text(model))
        if res.new is not None:
            print("---- rewritten ----")
            print(onnx.printer.to_text(res.new))
        for key, what in res.violations:
            print("REPRODUCED", key, "--", what[:600])
        return 1 if res.violations else 0
    if r.get("stream") == "container":
        rng, host = container_case(r["family"], r["where"], r["mode"], r["variant"], r["host_seed"])
        res, model = eval_host(None, "cont", host, [r["family"]], rng, stream="container")
        import onnx
        print(onnx.printer.to_text(model))
        if res.new is not None:
            print("---- rewritten ----")
            print(onnx.printer.to_text(res.new))
        for key, what in res.violations:
            print("REPRODUCED", key, "--", what[:600])
        return 1 if res.violations else 0
    if r.get("stream") == "repeated":
        bad, fired, n = repeated_run(r["plan"], r["k"])
        _rng, original = repeated_host(r["plan"], r["k"])
        import onnx
        print(onnx.printer.to_text(original))
        for kind, what in bad:
            print("REPRODUCED", f"C07:repeated:{kind}", "--", what[:600])
        return 1 if bad else 0
    if r.get("stream") == "targeted":
        ctx = common.Ctx(PROPERTY, "quick", doc.get("seed", 0))
        stream_targeted(ctx)
        hits = [k for k, _ in ctx.known_hits] + [v["key"] for v in ctx.violations]
        import shutil
        shutil.rmtree(ctx.scratch, ignore_errors=True)
        print("targeted stream reproduces:", hits)
        return 1 if doc.get("key") in hits else 0
    print(json.dumps(r, indent=1)[:4000])
    return 0


def stream_generated(ctx, n_hosts):
    rng = ctx.rng
    all_cases, all_wf, meta = [], [], {}
    stats = collections.Counter()
    fired_hist = collections.Counter()
    host_violated = set()
    seeds = [ctx.rng.getrandbits(48) for _ in range(n_hosts)]
    for h in range(n_hosts):
        rng, rule_set, host = generated_host(seeds[h], h)
        size = None
        label = f"gen{h}"
        commute = commute_of(h)
        res, model = eval_host(ctx, label, host, rule_set, rng, want_ref=(h % 2 == 0 if ctx.tier == "thorough" else h % 3 == 0),
                               commute=commute)
        stats["hosts_commute"] += 1 if commute else 0
        stats["hosts_commute_fired"] += 1 if commute and res.count else 0
        tags = sorted(host.tags)
        nest = tuple(sorted({t.split(":")[1] for t in tags if t.startswith("nest:")}))
        ctx.case(("gen", "+".join(rule_set), commute, nest, min(res.count or 0, 3),
                  "extra-consumer" in " ".join(tags), "planted-value-is-graph-output" in tags))
        stats["hosts"] += 1
        stats["fired_hosts"] += 1 if res.count else 0
        stats["splices"] += res.fired_splices
        stats["nested_hosts"] += 1 if nest else 0
        stats["unmodelled"] += 1 if res.unmodelled else 0
        stats["splices_outside_model"] += res.unmodelled_expected
        fired_hist[min(res.count or 0, 5)] += 1
        for t in tags:
            stats["tag:" + t.split(":d")[0]] += 1
        replay = {"stream": "generated", "seed": ctx.seed, "host_index": h, "host_seed": seeds[h], "rule_set": rule_set, "commute": commute,
                  "model": model.SerializeToString().hex() if len(model.SerializeToString()) < 20000 else "large"}
        if report(ctx, label, res, replay):
            host_violated.add(label)
        for u in res.unmodelled:
            ctx.tie_broken("correspondence", "apply:unmodelled", f"{label}: {u}")
        for s, d in res.ties:
            ctx.tie_broken("correspondence", s, d)
        all_cases += res.coq_cases
        all_wf += res.wf_terms
        if h % 3 == 0:
            NAMEFIX_CASES.extend(res.namefix_cases)
        if res.name_case and h % 4 == 0 and res.name_case[1] <= 60:      # (fresh_seq is cubic in the number of draws)
            NAME_CASES.append((label, res.name_case))
        meta[label] = (rule_set, replay)
        if h < 3 and res.count:
            ctx.sample({"host": label, "rule_set": rule_set, "fired": res.count, "tags": tags[:8],
                        "nodes_before": len(model.graph.node), "nodes_after": len(res.new.graph.node) if res.new else None})
    return all_cases, all_wf, meta, stats, fired_hist, host_violated


def live_host(host, gen):
    """Make every value of every level reach that level's outputs, so that the clean-up passes of rewrite() (dead
    node elimination) remove nothing but what the rewriting itself made dead."""
    def fix(g, is_main):
        used = set()
        for n in g.nodes:
            for i in n.ins:
                used.add(i)
            for sg in n.subs.values():
                fix(sg, False)
                for m in _h_all(sg):
                    for i in m.ins:
                        used.add(i)
        outs = [o for o, _ in g.outs]
        tens_out = [k for k, (o, kind) in enumerate(g.outs) if kind == "t"]
        loose = []
        for n in g.nodes:
            if n.op in ("Split", "Constant"):
                continue
            for o in n.outs:
                if o not in used and o not in outs:
                    loose.append(o)
        if loose and tens_out:
            k = tens_out[-1]
            acc = g.outs[k][0]
            for v in loose:
                nv = gen.fresh("j")
                g.nodes.append(G.HNode("Sub", [acc, v], [nv]))
                acc = nv
            g.outs[k] = (acc, "t")
    fix(host.main, True)
    for _name, fg in host.functions:
        fix(fg, False)


def _h_all(g):
    for n in g.nodes:
        yield n
        for sg in n.subs.values():
            yield from _h_all(sg)


# ---- bounded exhaustive: all hosts with <= k nodes over a small alphabet

def small_hosts(max_nodes, distinct_add=False):
    """Every straight-line host of 1..max_nodes nodes over {Abs, Neg, Add} whose operands are chosen among the two
    most recent values (and the input), every value live: enough to contain all contiguous, non-contiguous and
    overlapping instances of the chain and swap patterns.  distinct_add: the smaller alphabet used for the longest
    hosts (operands among the two most recent values only, Add on two different values)."""
    ops = [("Abs", 1), ("Neg", 1), ("Add", 2)]

    def extend(nodes, vals):
        yield nodes
        if len(nodes) == max_nodes:
            return
        for op, ar in ops:
            pool = vals[-2:] if len(vals) > 1 else vals
            if "x0" not in pool and not distinct_add:
                pool = ["x0"] + pool
            for ins in itertools.product(pool, repeat=ar):
                if distinct_add and ar == 2 and ins[0] == ins[1]:
                    continue
                out = f"v{len(nodes) + 1}"
                yield from extend(nodes + [G.HNode(op, list(ins), [out])], vals + [out])
    for nodes in extend([], ["x0"]):
        if not nodes:
            continue
        yield nodes


def stream_small(ctx, max_nodes, limit):
    rng = ctx.rng
    sets = [["chain2"], ["negneg"], ["swap_add"], ["bin_nested"], ["chain2_keep"], ["bin_nested", "swap_add"], ["chain2_fn"]]
    all_cases, all_wf = [], []
    n = 0
    hosts = list(small_hosts(max_nodes))
    if not limit:
        seen = {tuple((x.op, tuple(x.ins)) for x in h) for h in hosts}
        hosts += [h for h in small_hosts(max_nodes + 1, distinct_add=True) if tuple((x.op, tuple(x.ins)) for x in h) not in seen]
    if limit and len(hosts) > limit:
        rng.shuffle(hosts)
        hosts = hosts[:limit]
    stats = collections.Counter()
    for k, nodes in enumerate(hosts):
        rule_set = sets[k % len(sets)]
        host = G.Host(G.HGraph([("x0", "t"), ("cond", "b"), ("trip", "i")], copy.deepcopy(nodes), [(nodes[-1].outs[0], "t")]), [], {"small"})
        gen = G.HostGen(rng, [], small=True)
        gen.counter = 100
        live_host(host, gen)
        label = f"small{k}"
        res, model = eval_host(ctx, label, host, rule_set, rng, stream="small", want_ref=False)
        ctx.case(("small", "+".join(rule_set), len(nodes), min(res.count or 0, 3)))
        stats["hosts"] += 1
        stats["fired_hosts"] += 1 if res.count else 0
        replay = {"stream": "small", "host_index": k, "rule_set": rule_set,
                  "nodes": [(x.op, x.ins, x.outs) for x in host.main.nodes]}
        report(ctx, label, res, replay)
        for u in res.unmodelled:
            ctx.tie_broken("correspondence", "apply:unmodelled", f"{label}: {u}")
        for s, d in res.ties:
            ctx.tie_broken("correspondence", s, d)
        all_cases += res.coq_cases
        all_wf += res.wf_terms
        n += 1
    return all_cases, all_wf, stats


# ---- targeted streams for the suspected / confirmed defects

def stream_targeted(ctx, fixed_cases=None, fixed_wf=None):
    """Hosts aimed at mechanisms the generated families avoid on purpose."""
    fixed_cases = [] if fixed_cases is None else fixed_cases
    fixed_wf = [] if fixed_wf is None else fixed_wf
    import onnx
    from onnx import TensorProto, helper, numpy_helper
    from onnxscript import ir, rewriter
    from onnxscript.rewriter import pattern as orp

    F = TensorProto.FLOAT

    def vi(n):
        return helper.make_tensor_value_info(n, F, [3, 3])

    def mk(nodes, ins, outs, inits=()):
        g = helper.make_graph(nodes, "g", [vi(n) for n in ins], [vi(n) for n in outs], initializer=list(inits))
        m = helper.make_model(g, opset_imports=[helper.make_opsetid("", 18)], ir_version=9)
        onnx.checker.check_model(m, full_check=True)
        return m

    x = (np.arange(9, dtype=np.float32).reshape(3, 3) - 4)
    feeds = [{"x": x, "z": -x}, {"x": -2 * x, "z": x + 1}, {"x": np.zeros((3, 3), np.float32), "z": x}]

    def judge(key, what, m, rules, replay, trace_label=None):
        """valid + equivalent + same signature, else violation `key`.  trace_label: the sweeps are also replayed through
        the Gallina models (node lists and state), whichever variant of the code is under check."""
        ctx.case(("targeted", key))
        tracer = Tracer() if trace_label else None
        try:
            if tracer:
                tracer.install(rules)
            try:
                new = rewriter.rewrite(copy.deepcopy(m), rules)
            finally:
                if tracer:
                    tracer.uninstall()
            for k, r in enumerate(tracer.sweeps if tracer else []):
                for u in r["unmodelled"]:
                    ctx.tie_broken("correspondence", "apply:unmodelled", f"{trace_label}: {u}")
                if not r["unmodelled"]:
                    fixed_cases.append((f"{trace_label}/{r['kind']}{k}", r["apps"], r["g0"], r["gfinal"], r["ext"],
                                        dict(events=r["events"], s0=r["s0"], sfinal=r["sfinal"], tops=r.get("tops", [0]))))
        except Exception as e:
            ctx.violation(key, re.sub(r"0x[0-9a-f]+", "0x..", f"{what}: rewrite() raised {' | '.join(type(c).__name__ + ': ' + str(c)[:120] for c in _exc_chain(e))}"), replay)
            return None
        problems = []
        try:
            onnx.checker.check_model(new, full_check=True)
        except Exception as e:
            problems.append("onnx.checker: " + str(e)[:200])
        if [i.name for i in new.graph.input] != [i.name for i in m.graph.input] or [o.name for o in new.graph.output] != [o.name for o in m.graph.output]:
            problems.append(f"signature changed: inputs {[i.name for i in new.graph.input]} outputs {[o.name for o in new.graph.output]}")
        if not problems:
            try:
                for f in feeds:
                    f = {k: v for k, v in f.items() if k in {i.name for i in m.graph.input}}
                    if not _same(_ort_run(m, f), _ort_run(new, f)) or not _same(_ref_run(m, f), _ref_run(new, f)):
                        problems.append("outputs differ before/after")
                        break
            except Exception as e:
                problems.append(f"rewritten model does not run: {type(e).__name__}: {str(e)[:200]}")
        if problems:
            ctx.violation(key, f"{what}: " + "; ".join(problems), replay)
            if trace_label:
                TARGETED_VIOLATED.add(trace_label)       # the property oracle produced the failing input: replay not reported
        return new

    # (a) a rule registers an initializer whose name already exists (DESIGN section 5 C07 suspicion)
    def pat_neg(op, x):
        return op.Neg(x)

    for variant in ("different-contents-still-used", "same-rule-fires-twice"):
        made = []

        def rep_init(op, x, variant=variant):
            nm = "k_shared" if variant == "different-contents-still-used" else f"{x.name}_one"
            one = op.initializer(ir.tensor(np.array(1.0, dtype=np.float32)), name=nm)
            out = op.Mul(op.Neg(x), one)
            made.extend(op.nodes)
            return out

        def cond(context, x, **_):
            return not any(context.root is n for n in made)
        if variant == "different-contents-still-used":
            m = mk([helper.make_node("Neg", ["x"], ["a"]), helper.make_node("Add", ["a", "k_shared"], ["o"])], ["x"], ["o"],
                   [numpy_helper.from_array(np.array(2.0, dtype=np.float32), "k_shared")])
        else:
            m = mk([helper.make_node("Neg", ["x"], ["a"]), helper.make_node("Neg", ["x"], ["b"]), helper.make_node("Add", ["a", "b"], ["o"])], ["x"], ["o"])
        judge(f"C07:initializer-name-clash:{variant}",
              "a replacement registers an initializer under a name that already exists in the graph", m,
              [orp.RewriteRule(pat_neg, rep_init, cond)], {"stream": "targeted", "case": "initializer-name-clash", "variant": variant},
              trace_label=f"targeted:initializer-name-clash:{variant}")

    # (b) pattern with two output nodes: the replacement is inserted after the first of them
    def pat2(op, x, y):
        return op.Neg(x), op.Abs(y)
    state = {"n": 0}

    def rep2(op, x, y):
        state["n"] += 1
        if state["n"] > 1:
            return None
        return op.Neg(x), op.Abs(y)
    m = mk([helper.make_node("Neg", ["x"], ["a"]), helper.make_node("Relu", ["z"], ["y0"]), helper.make_node("Abs", ["y0"], ["b"]),
            helper.make_node("Add", ["a", "b"], ["o"])], ["x", "z"], ["o"])
    judge("C07:multiple-output-nodes:insertion-point-before-input-definition",
          "pattern with two output nodes; an input of the second one is defined after the first one", m,
          [orp.RewriteRule(pat2, rep2)], {"stream": "targeted", "case": "multiple-output-nodes"})

    # (c) a pattern variable bound to a value produced by a matched node
    def pat3(op, x, y):
        return op.Add(op.Abs(x), y)
    made3 = []

    def rep3(op, x, y):
        out = op.Add(op.Abs(x), y)
        made3.extend(op.nodes)
        return out

    def cond3(context, x, y, **_):
        return not any(context.root is n for n in made3)
    m = mk([helper.make_node("Abs", ["x"], ["t"]), helper.make_node("Add", ["t", "t"], ["o"])], ["x"], ["o"])
    judge("C07:pattern-variable-bound-to-matched-intermediate:raises",
          "Add(Abs(x), y) on a host where y is the output of the matched Abs", m,
          [orp.RewriteRule(pat3, rep3, cond3)], {"stream": "targeted", "case": "variable-bound-to-intermediate"})

    # (d) the replacement returns one of its inputs (x*1 -> x written without Identity)
    def pat4(op, x):
        return op.Identity(x)

    n4 = {"n": 0}

    def rep4(op, x):
        n4["n"] += 1
        return x if n4["n"] <= 20 else None           # (a repair that forwards x through a node must not loop here)
    m = mk([helper.make_node("Identity", ["x"], ["t"]), helper.make_node("Neg", ["t"], ["o"])], ["x"], ["o"])
    judge("C07:replacement-returns-pattern-input:graph-input-renamed",
          "Identity(x) -> x where x is a graph input", m, [orp.RewriteRule(pat4, rep4)],
          {"stream": "targeted", "case": "replacement-returns-input"})
    m = mk([helper.make_node("Abs", ["x"], ["u"]), helper.make_node("Identity", ["u"], ["t"]), helper.make_node("Neg", ["t"], ["o"])], ["x"], ["o"])
    judge("C07:replacement-returns-pattern-input:interior", "Identity(u) -> u where u is an interior value", m,
          [orp.RewriteRule(pat4, rep4)], {"stream": "targeted", "case": "replacement-returns-input-interior"})

    # (f) fixed hosts for mechanisms the random stream reaches only with some probability: the ONLY match sits in an
    #     If branch / a Loop body / a function, for a replacement in a new domain and for DAG-shaped as_function patterns
    import random
    N = G.HNode

    def inst(fam, x, y, p):
        if fam == "silu_ms":
            return [N("Sigmoid", [x], [p + "g"]), N("Mul", [x, p + "g"], [p + "o"])]
        if fam in ("dag_a", "dag_a_fn"):
            return [N("Add", [x, y], [p + "s"]), N("Sigmoid", [p + "s"], [p + "g"]), N("Mul", [p + "s", p + "g"], [p + "o"])]
        if fam == "dag_b_fn":
            return [N("Add", [x, y], [p + "s"]), N("Sigmoid", [p + "s"], [p + "g"]), N("Mul", [p + "g", p + "s"], [p + "o"])]
        if fam == "dag3_fn":
            return [N("Abs", [x], [p + "a"]), N("Neg", [p + "a"], [p + "t"]), N("Mul", [p + "a", p + "t"], [p + "m"]),
                    N("Add", [p + "m", p + "a"], [p + "o"])]
        if fam == "two_out_fn":
            return [N("Abs", [x], [p + "a"]), N("Neg", [p + "a"], [p + "n"]), N("Relu", [p + "a"], [p + "r"]),
                    N("Add", [p + "n", p + "r"], [p + "o"])]
        raise AssertionError(fam)

    base_ins = [("x0", "t"), ("x1", "t"), ("cond", "b"), ("trip", "i")]
    for fam in ("silu_ms", "dag_a", "dag_a_fn", "dag_b_fn", "dag3_fn", "two_out_fn"):
        for where in ("main", "if", "loop", "function"):
            if where == "main":
                g = G.HGraph(list(base_ins), inst(fam, "x0", "x1", "m") + [N("Neg", ["mo"], ["out"])], [("out", "t")])
                host = G.Host(g, [], set())
            elif where == "if":
                tb = G.HGraph([], inst(fam, "x0", "x1", "t"), [("to", "t")])
                eb = G.HGraph([], [N("Sub", ["x0", "x1"], ["eo"])], [("eo", "t")])
                g = G.HGraph(list(base_ins), [N("If", ["cond"], ["out"], {}, {"then_branch": tb, "else_branch": eb})], [("out", "t")])
                host = G.Host(g, [], set())
            elif where == "loop":
                body = G.HGraph([("it", "i"), ("ci", "b"), ("s_in", "t")], inst(fam, "s_in", "x1", "b") + [N("Identity", ["ci"], ["co"])],
                                [("co", "b"), ("bo", "t")])
                g = G.HGraph(list(base_ins), [N("Loop", ["trip", "", "x0"], ["out"], {}, {"body": body})], [("out", "t")])
                host = G.Host(g, [], set())
            else:
                fg = G.HGraph([("fa", "t"), ("fb", "t")], inst(fam, "fa", "fb", "q"), [("qo", "t")])
                g = G.HGraph(list(base_ins), [N("F0", ["x0", "x1"], ["out"], domain=G.DOM_HOST)], [("out", "t")])
                host = G.Host(g, [("F0", fg)], set())
            label = f"fixed:{fam}:{where}"
            res, model = eval_host(ctx, label, host, [fam], random.Random(17), stream="fixed")
            ctx.case(("fixed", fam, where, min(res.count or 0, 2)))
            replay = {"stream": "fixed", "family": fam, "where": where, "model": model.SerializeToString().hex()}
            for key, what in res.violations:
                ctx.violation(key, f"{label}: {what}", replay)
            if not res.violations and not res.count:
                ctx.violation(f"C07:fixed:no-progress:{fam}:{where}", f"{label}: the only instance of the pattern did not fire", replay)
            for u in res.unmodelled:
                ctx.tie_broken("correspondence", "apply:unmodelled", f"{label}: {u}")
            fixed_cases.extend(res.coq_cases)
            fixed_wf.extend(res.wf_terms)

    # (g) as_function: a constant input that is not a call input is copied into the function as a Constant node (default domain);
    #     the only matched node is in a custom domain
    def pat_g(op, x, c):
        return op.CustomScale(x, c, _domain="custom")

    def rep_g(op, x, c):
        return op.Fused(x, _domain=G.DOM_FN)

    def cond_g(context, x, c, **_):
        return c.const_value is not None
    key_g = "C07:as_function:copied-constant:function-lacks-default-domain-import"
    ctx.case(("targeted", key_g))
    gg = helper.make_graph([helper.make_node("CustomScale", ["x", "c"], ["o"], domain="custom")], "g", [vi("x")], [vi("o")],
                           initializer=[numpy_helper.from_array(np.array([2.0], dtype=np.float32), "c")])
    mg = helper.make_model(gg, opset_imports=[helper.make_opsetid("", 18), helper.make_opsetid("custom", 1)], ir_version=10)
    try:
        new_g = rewriter.rewrite(copy.deepcopy(mg), [orp.RewriteRule(pat_g, rep_g, cond_g, as_function=True)])
        bad_g = [f"{f.name}:{f.overload}" for f in new_g.functions
                 if not {n.domain for n in f.node} <= {o.domain for o in f.opset_import}]
        try:
            onnx.checker.check_model(new_g)
            chk = None
        except Exception as e:
            chk = str(e)[:200]
        if bad_g or chk:
            ctx.violation(key_g, f"custom.CustomScale(x, c) with c an initializer, replaced by a call of an extracted function that takes x only: "
                                 f"function(s) {bad_g} hold a Constant node but do not import the default domain; onnx.checker: {chk}",
                          {"stream": "targeted", "case": "as_function-copied-constant", "model": mg.SerializeToString().hex()})
    except Exception as e:
        ctx.violation("C07:targeted:raises:as_function-copied-constant", f"rewrite() raised {type(e).__name__}: {str(e)[:200]}",
                      {"stream": "targeted", "case": "as_function-copied-constant"})

    # (e) empty rule list: the model comes back untouched
    m = mk([helper.make_node("Neg", ["x"], ["o"])], ["x"], ["o"])
    if rewriter.rewrite(m, []) is not m:
        ctx.violation("C07:empty-rule-list:model-changed", "rewrite(model, []) did not return the model unchanged", {"stream": "targeted"})
    ctx.case(("targeted", "empty-rule-list"))



# ---- fixed hosts: (1) as_function over OVERRIDABLE graph inputs, (2) multi-output pattern nodes with unnamed outputs

def _half_rewritten(model, fam):
    """After rewrite() raised: the same rule on an IR model, container compared before / after the exception (the property:
    exactly the matched nodes are removed -- an exception part-way must not leave new nodes beside the old ones)."""
    from onnxscript import ir
    from onnxscript.rewriter import pattern as orp

    def snap(mi):
        out = []

        def gr(g, where):
            for n in g:
                out.append((where, n.op_type, tuple(v.name if v is not None else "" for v in n.inputs), tuple(v.name for v in n.outputs)))
                for a in n.attributes.values():
                    if isinstance(a, ir.Attr) and a.type == ir.AttributeType.GRAPH:
                        gr(a.value, where + "/" + n.op_type)
        gr(mi.graph, "main")
        for f in mi.functions.values():
            gr(f, "function:" + f.name)
        return out
    try:
        mi = ir.serde.deserialize_model(copy.deepcopy(model))
        before = snap(mi)
        boxes = G.make_rule_set([fam])
        try:
            orp.RewriteRuleSet([b.rule for b in boxes]).apply_to_model(mi)
            return ""
        except Exception:
            after = snap(mi)
        if after == before:
            return " (container unchanged by the failed call)"
        added = [a for a in after if a not in before]
        gone = [b for b in before if b not in after]
        return (f" -- container left HALF-REWRITTEN by the failed call: {len(before)} nodes before, {len(after)} after; "
                f"inserted {[(a[1], list(a[3])) for a in added][:4]}, removed {[(b[1], list(b[3])) for b in gone][:4]}, "
                "matched nodes still present, uses already moved to the replacement")
    except Exception as e:  # the comparison is additional evidence only
        return f" (before/after comparison failed: {type(e).__name__})"


def _run_fixed(ctx, stream, label, host, fam, case_key, expect, cases, wf, extra_replay=None):
    """One fixed host through every oracle of eval_host.  expect: 'fire' / 'alone' (the rule must leave the host exactly
    as it is) / None."""
    import random
    res, model = eval_host(ctx, label, host, [fam], random.Random(23), stream=stream)
    ctx.case((stream,) + tuple(case_key) + (min(res.count or 0, 2),))
    replay = dict({"stream": stream, "family": fam, "label": label, "model": model.SerializeToString().hex()}, **(extra_replay or {}))
    for key, what in res.violations:
        if res.exc is not None:
            what += _half_rewritten(model, fam)
        ctx.violation(key, f"{label}: {what}", replay)
        TARGETED_VIOLATED.add(label)              # the property oracle produced the failing input: replay not reported
    if not res.violations and expect == "fire" and not res.count:
        ctx.violation(f"C07:{stream}:no-progress:{fam}:{':'.join(map(str, case_key[1:]))}",
                      f"{label}: the only (removable) instance of the pattern did not fire", replay)
    if not res.violations and expect == "alone":
        # (rewrite() drops Constant nodes nothing reads: by design)
        same = res.new is not None and [(w, _node_sig(n)) for w, n in _model_nodes(model) if n.op_type != "Constant"] == \
            [(w, _node_sig(n)) for w, n in _model_nodes(res.new) if n.op_type != "Constant"]
        if res.count or not same:
            ctx.violation(f"C07:{stream}:non-removable-instance-rewritten:{fam}:{':'.join(map(str, case_key[1:]))}",
                          f"{label}: an output of a matched node that the replacement does not provide is still read (by an unmatched "
                          f"node / a nested graph / as a graph output): the instance is not removable, yet {res.count} application(s) "
                          "were made or the node lists differ", replay)
    for u in res.unmodelled:
        ctx.tie_broken("correspondence", "apply:unmodelled", f"{label}: {u}")
    cases.extend(res.coq_cases)
    wf.extend(res.wf_terms)
    return res


def stream_overridable(ctx, cases, wf):
    """as_function rules on hosts whose matched operands are OVERRIDABLE graph inputs (an initializer that is also listed in
    graph.input: const_value is set, but it is only a default).  eval_host runs default AND overriding feeds on onnxruntime
    and onnx.reference; the replay evaluates State.fn_okb and FnConstIn.events_copied_okb (a value that is a graph input is
    never copied into the function body, whatever its const_value)."""
    N = G.HNode

    def inst(fam, x, y, p):
        if fam == "chain2_fn":
            return [N("Abs", [x], [p + "a"]), N("Neg", [p + "a"], [p + "o"])]
        if fam == "bin_fn":
            return [N("Relu", [x], [p + "r"]), N("Sub", [p + "r", y], [p + "o"])]
        if fam == "dag_a_fn":
            return [N("Add", [x, y], [p + "s"]), N("Sigmoid", [p + "s"], [p + "g"]), N("Mul", [p + "s", p + "g"], [p + "o"])]
        if fam == "dag3_fn":
            return [N("Abs", [x], [p + "a"]), N("Neg", [p + "a"], [p + "t"]), N("Mul", [p + "a", p + "t"], [p + "m"]),
                    N("Add", [p + "m", p + "a"], [p + "o"])]
        if fam == "two_out_fn":
            return [N("Abs", [x], [p + "a"]), N("Neg", [p + "a"], [p + "n"]), N("Relu", [p + "a"], [p + "r"]),
                    N("Add", [p + "n", p + "r"], [p + "o"])]
        if fam == "scale_fn":
            return [N("Abs", [x], [p + "a"]), N("Mul", [p + "a", y], [p + "o"])]
        raise AssertionError(fam)

    w_full = (np.arange(9, dtype=np.float32).reshape(3, 3) - 3)
    n = 0
    for fam in ("chain2_fn", "bin_fn", "dag_a_fn", "dag3_fn", "two_out_fn", "scale_fn"):
        nv = G.FAMILIES[fam]["nv"]
        operands = [("w0", "x1"), ("x0", "w0"), ("w0", "w0")] if nv == 2 else [("w0", "x1")]
        if fam == "scale_fn":
            operands = [("x0", "w0"), ("w0", "w0")]            # the constant operand: a scalar default
        for x, y in operands:
            for where in ("main", "if", "loop"):
                scalar = fam == "scale_fn"
                w = np.array(2.0, dtype=np.float32) if scalar else w_full
                base_ins = [("x0", "t"), ("x1", "t"), ("w0", "f0" if scalar else "t"), ("cond", "b"), ("trip", "i")]
                if where == "main":
                    g = G.HGraph(base_ins, inst(fam, x, y, "m") + [N("Add", ["mo", "x1"], ["out"])], [("out", "t")], {"w0": w})
                elif where == "if":
                    tb = G.HGraph([], inst(fam, x, y, "t") + [N("Add", ["to", "x1"], ["tz"])], [("tz", "t")])
                    eb = G.HGraph([], [N("Sub", ["x0", "w0"], ["eo"])], [("eo", "t")])
                    g = G.HGraph(base_ins, [N("If", ["cond"], ["out"], {}, {"then_branch": tb, "else_branch": eb})], [("out", "t")], {"w0": w})
                else:
                    body = G.HGraph([("it", "i"), ("ci", "b"), ("s_in", "t")],
                                    inst(fam, x, y, "b") + [N("Add", ["bo", "s_in"], ["bz"]), N("Identity", ["ci"], ["co"])],
                                    [("co", "b"), ("bz", "t")])
                    g = G.HGraph(base_ins, [N("Loop", ["trip", "", "x0"], ["out"], {}, {"body": body})], [("out", "t")], {"w0": w})
                host = G.Host(g, [], {"overridable-input"})
                label = f"over:{fam}:{x}-{y}:{where}"
                # scale_fn needs a constant operand: an overridable input is NOT one for every input, but the rule's own
                # condition (const_value is not None) accepts it -- the generated rule's choice, so no progress claim there
                _run_fixed(ctx, "overridable", label, host, fam, (fam, f"{x}-{y}", where), None if fam == "scale_fn" else "fire", cases, wf)
                n += 1
    ctx.cover(overridable_input_hosts=n)


def stream_partial_outputs(ctx, cases, wf):
    """Rules whose pattern output comes from a node with several outputs of which only some are pattern outputs
    (`values, _ = TopK(..)`), remove_nodes=True and keeping, on hosts where the unnamed output is (a) unused, (b) read by an
    unmatched node, (c) a graph / function output, (d) read inside a nested graph -- in the main graph, an If branch, a Loop
    body, a function.  Expected: (a) the rule fires; (b)-(d) the instance is left alone (keeping rule: fires, nodes stay);
    never an exception, never a half-rewritten container."""
    N = G.HNode
    K = N("Constant", [], ["k"], {"value": np.array([3], dtype=np.int64)})

    def inst(fam, x, p):
        """nodes, named output (+ its kind), unnamed output (+ its kind)"""
        if fam in ("drop_part", "drop_part_keep"):
            return [N("Neg", [x], [p + "1"]), N("Neg", [p + "1"], [p + "2"]), N("Dropout", [p + "2"], [p + "v", p + "m"])], (p + "v", "t"), (p + "m", "tb")
        if fam == "topk_part":
            return [N("Neg", [x], [p + "1"]), N("Neg", [p + "1"], [p + "2"]), N("TopK", [p + "2", "k"], [p + "v", p + "i"])], (p + "v", "t"), (p + "i", "ti")
        if fam == "topk_idx":
            return [N("Abs", [x], [p + "1"]), N("TopK", [p + "1", "k"], [p + "v", p + "i"])], (p + "i", "ti"), (p + "v", "t")
        raise AssertionError(fam)

    def fl(v, kind, out):
        return N("Abs", [v], [out]) if kind == "t" else N("Cast", [v], [out], {"to": 1})

    def level(fam, x, p, variant, result):
        """nodes of one graph level computing `result` ([3,3] float) from the instance; second value for variant c"""
        ns, (nm, nk), (ex, ek) = inst(fam, x, p)
        ns = ns + [fl(nm, nk, p + "n")]
        if variant == "a":
            ns.append(N("Identity", [p + "n"], [result]))
        elif variant == "b":
            ns += [fl(ex, ek, p + "e"), N("Add", [p + "n", p + "e"], [result])]
        elif variant == "c":
            ns.append(N("Identity", [p + "n"], [result]))
        else:
            tb = G.HGraph([], [fl(ex, ek, p + "te"), N("Add", [p + "n", p + "te"], [p + "to"])], [(p + "to", "t")])
            eb = G.HGraph([], [N("Neg", [p + "n"], [p + "eo"])], [(p + "eo", "t")])
            ns.append(N("If", ["cond"], [result], {}, {"then_branch": tb, "else_branch": eb}))
        return ns, (ex, ek)

    base_ins = [("x0", "t"), ("x1", "t"), ("cond", "b"), ("trip", "i")]
    n = 0
    for fam in ("drop_part", "topk_part", "topk_idx"):
        keep = G.FAMILIES[fam].get("keep")
        for variant in ("a", "b", "c", "d"):
            for where in ("main", "if", "loop", "function"):
                if variant == "c" and where in ("if", "loop"):
                    continue                      # (an output of another type would be needed in both branches / as a scan output)
                if keep and (where != "main" and variant != "b"):
                    continue
                if where == "main":
                    ns, (ex, ek) = level(fam, "x0", "m", variant, "out")
                    g = G.HGraph(list(base_ins), [K] + ns, [("out", "t")] + ([(ex, ek)] if variant == "c" else []))
                    host = G.Host(g, [], set())
                elif where == "if":
                    ns, _ = level(fam, "x0", "t", variant, "tres")
                    tb = G.HGraph([], ns, [("tres", "t")])
                    eb = G.HGraph([], [N("Sub", ["x0", "x1"], ["eo"])], [("eo", "t")])
                    g = G.HGraph(list(base_ins), [K, N("If", ["cond"], ["out"], {}, {"then_branch": tb, "else_branch": eb})], [("out", "t")])
                    host = G.Host(g, [], set())
                elif where == "loop":
                    ns, _ = level(fam, "s_in", "b", variant, "bres")
                    body = G.HGraph([("it", "i"), ("ci", "b"), ("s_in", "t")], ns + [N("Identity", ["ci"], ["co"])], [("co", "b"), ("bres", "t")])
                    g = G.HGraph(list(base_ins), [K, N("Loop", ["trip", "", "x0"], ["out"], {}, {"body": body})], [("out", "t")])
                    host = G.Host(g, [], set())
                else:
                    ns, (ex, ek) = level(fam, "fa", "q", variant, "fres")
                    cond_c = N("Constant", [], ["cond"], {"value": np.array(True)})
                    fg = G.HGraph([("fa", "t"), ("fb", "t")], [K] + ([cond_c] if variant == "d" else []) + ns,
                                  [("fres", "t")] + ([(ex, ek)] if variant == "c" else []))
                    call_outs = ["out"] + (["out2"] if variant == "c" else [])
                    g = G.HGraph(list(base_ins), [N("F0", ["x0", "x1"], call_outs, domain=G.DOM_HOST)],
                                 [("out", "t")] + ([("out2", ek)] if variant == "c" else []))
                    host = G.Host(g, [("F0", fg)], set())
                label = f"partial:{fam}:{variant}:{where}"
                expect = "fire" if (variant == "a" or keep) else "alone"
                _run_fixed(ctx, "partial", label, host, fam, (fam, variant, where), expect, cases, wf)
                n += 1
    ctx.cover(partial_output_hosts=n)


# ---- a replacement that returns an existing value: object-level naming model (OV.Rewrite.Naming.splice_names)

RETURNED_SCENARIOS = [
    # name, nodes (op, inputs, outputs), graph inputs, graph outputs, rule, matched root output (old), returned value (new)
    ("input->interior", [("Identity", ["x"], ["t"]), ("Neg", ["t"], ["o"])], ["x"], ["o"], "identity", "t", "x"),
    ("interior->interior", [("Abs", ["x"], ["u"]), ("Identity", ["u"], ["t"]), ("Neg", ["t"], ["o"])], ["x"], ["o"], "identity", "t", "u"),
    ("input->output", [("Identity", ["x"], ["o"])], ["x"], ["o"], "identity", "o", "x"),
    ("interior->output", [("Abs", ["x"], ["u"]), ("Identity", ["u"], ["o"])], ["x"], ["o"], "identity", "o", "u"),
    ("output->output", [("Abs", ["x"], ["u"]), ("Identity", ["u"], ["o"])], ["x"], ["o", "u"], "identity", "o", "u"),
    ("negneg:input->output", [("Neg", ["x"], ["a"]), ("Neg", ["a"], ["o"])], ["x"], ["o"], "negneg", "o", "x"),
    ("negneg:input->interior", [("Neg", ["x"], ["a"]), ("Neg", ["a"], ["t"]), ("Abs", ["t"], ["o"])], ["x"], ["o"], "negneg", "t", "x"),
    ("negneg:input->used-output", [("Neg", ["x"], ["a"]), ("Neg", ["a"], ["t"]), ("Abs", ["t"], ["o"])], ["x"], ["o", "t"], "negneg", "t", "x"),
    ("negneg:interior->output", [("Relu", ["x"], ["u"]), ("Neg", ["u"], ["a"]), ("Neg", ["a"], ["o"])], ["x"], ["o"], "negneg", "o", "u"),
]


def stream_returned(ctx):
    """Rules whose replacement returns a pattern input (Identity(x) -> x, Neg(Neg(x)) -> x) on hosts where the returned value and
    the pattern output are graph inputs / interior values / graph outputs: names of the graph inputs and outputs afterwards and
    the number of forwarding Identity nodes, against OV.Rewrite.Naming.splice_names in the variant the source is in."""
    import onnx
    from onnx import TensorProto, helper
    from onnxscript import rewriter
    from onnxscript.rewriter import pattern as orp
    import onnxscript.rewriter._rewrite_rule as rr
    repaired = hasattr(rr, "_has_fixed_name")
    ctx.cover(source_has_returned_existing_value_repair=repaired)
    lines, labels = [], []
    for k, (name, nodes, gins, gouts, rule_kind, old, new) in enumerate(RETURNED_SCENARIOS):
        ctx.case(("returned-existing-value", name))
        vi = lambda n: helper.make_tensor_value_info(n, TensorProto.FLOAT, [3])          # noqa: E731
        m = helper.make_model(helper.make_graph([helper.make_node(op, i, o) for op, i, o in nodes], "g", [vi(n) for n in gins],
                                                [vi(n) for n in gouts]), opset_imports=[helper.make_opsetid("", 18)], ir_version=10)
        onnx.checker.check_model(m, full_check=True)
        calls = {"n": 0}

        def rep(op, x, calls=calls):
            calls["n"] += 1
            return x if calls["n"] <= 20 else None

        pat = (lambda op, x: op.Identity(x)) if rule_kind == "identity" else (lambda op, x: op.Neg(op.Neg(x)))
        try:
            out = rewriter.rewrite(copy.deepcopy(m), [orp.RewriteRule(pat, rep)])
        except Exception as e:
            ctx.violation(f"C07:returned-existing-value:raises:{name}", f"rewrite() raised {type(e).__name__}: {str(e)[:200]}",
                          {"stream": "returned", "scenario": name, "model": m.SerializeToString().hex()})
            continue
        values = list(dict.fromkeys(gins + [o for _op, _i, outs in nodes for o in outs]))
        obj = {v: i for i, v in enumerate(values)}
        matched_ident = rule_kind == "identity"
        before_ident = sum(1 for op, _i, _o in nodes if op == "Identity")
        after_ident = sum(1 for n in out.graph.node if n.op_type == "Identity")
        unchanged = [(n.op_type, list(n.input), list(n.output)) for n in out.graph.node] == [(op, i, o) for op, i, o in nodes]
        forwards = None if unchanged else after_ident - (before_ident - (1 if matched_ident else 0))
        pinned = [obj[v] for v in dict.fromkeys(gins + gouts)]
        is_fwd = matched_ident and old in gouts and new in gins + gouts
        vs = clist([f"({obj[v]}, {common.cstr(v)})" for v in values])
        nl = lambda l: clist([str(obj[v]) for v in l])                                   # noqa: E731
        observed = (f"({clist([i.name for i in out.graph.input], common.cstr)}, {clist([o.name for o in out.graph.output], common.cstr)}, "
                    f"{'None' if forwards is None else '(Some ' + str(forwards) + ')'})")
        lines.append(f"({k}, obs_eqb (observe {nl(gins)} {vs} {nl(gouts)} (splice_names {'true' if repaired else 'false'} [] {clist([str(x) for x in pinned])} "
                     f"{'true' if is_fwd else 'false'} [{obj[old]}] [{obj[new]}] {vs} {nl(gouts)} {len(values)})) {observed})")
        labels.append((name, observed))
    ok, vals, raw = ctx.coq_eval(["OV.Rewrite.Naming"], "Eval vm_compute in (map fst (filter (fun r => negb (snd r)) " + clist(lines) + ")).")
    if not ok or not vals:
        ctx.tie_broken("correspondence", "naming:model-evaluation", raw[-1200:])
        return
    bad = common.parse_nat_list(vals[0])
    for i in bad:
        ctx.tie_broken("correspondence", "naming:returned-existing-value", f"{labels[i][0]}: observed {labels[i][1]} differs from splice_names")
    ctx.obligation(f"correspondence naming: on {len(lines)} hosts where a replacement returns an existing value (graph input / interior / "
                   f"graph output, for an interior / output pattern output) the names of the graph inputs and outputs and the forwarding "
                   f"nodes are those of Rewrite/Naming.v splice_names ({'repaired' if repaired else 'as read'} variant)", not bad,
                   "; ".join(labels[i][0] for i in bad))


def stream_history(ctx):
    """One RewriteRuleSet object rewrites two models in sequence; the second result must be byte-identical to what fresh rule and
    rule-set objects give for the same model (the names of the values created are a function of the model and the rule set
    alone: C07_names_function_of_model_fixed).  The second result also enters the fresh-names tie (fresh_seq: counter from 0)."""
    import random
    import inspect
    from onnxscript import rewriter
    from onnxscript.rewriter import pattern as orp
    import onnxscript.rewriter._rewrite_rule as rr
    resets = "_value_name_counter = 0" in inspect.getsource(rr.RewriteRuleSet.apply_to_model)
    ctx.cover(source_restarts_fresh_name_counter_per_model=resets)
    for k, fams in enumerate([["chain2"], ["dtrans"], ["mul1_node"], ["bin_nested", "swap_add"], ["chain3", "chain2"], ["dag_a"]]):
        rng = random.Random(1000 + k)
        hosts = []
        for _ in range(2):
            gen = G.HostGen(rng, fams, size=8, nest=0.3)
            host = gen.host(n_inputs=2, depth=1)
            live_host(host, gen)
            hosts.append(decorate_metadata(G.to_model(host)))
        ctx.case(("history", "+".join(fams)))
        replay = {"stream": "history", "rule_set": fams, "models": [m.SerializeToString().hex() for m in hosts]}
        try:
            shared = orp.RewriteRuleSet([b.rule for b in G.make_rule_set(fams)])
            rewriter.rewrite(copy.deepcopy(hosts[0]), shared)
            second = rewriter.rewrite(copy.deepcopy(hosts[1]), shared)
            alone = rewriter.rewrite(copy.deepcopy(hosts[1]), orp.RewriteRuleSet([b.rule for b in G.make_rule_set(fams)]))
        except Exception as e:
            ctx.violation(f"C07:history:raises:{'+'.join(fams)}", f"rewrite() raised {type(e).__name__}: {str(e)[:200]}", replay)
            continue
        if second.SerializeToString(deterministic=True) != alone.SerializeToString(deterministic=True):
            a = sorted({o for n in _all_nodes(second.graph) for o in n.output} - {o for n in _all_nodes(alone.graph) for o in n.output})
            ctx.violation(f"C07:fresh-names:depend-on-models-rewritten-before:{'+'.join(fams)}",
                          "a RewriteRuleSet object that has rewritten another model before gives a different result for the same "
                          f"model than fresh rule objects (names only in the second result: {a[:4]})", replay)

        def names(mm):
            return {i.name for i in mm.graph.input} | {o for n in _all_nodes(mm.graph) for o in n.output if o} | \
                   {i.name for i in mm.graph.initializer}
        used0 = names(hosts[1])
        created = sorted({o for n in _all_nodes(second.graph) for o in n.output if o} - used0)
        if len(created) <= 20:
            NAME_CASES.append((f"history:{'+'.join(fams)}", (sorted(used0), 2 * len(created) + 2, created)))


REPEAT_PLANS = [
    # (families planted in the host, rule set of pass 1, of pass 2, (of pass 3)); every replacement has >= 2 nodes, i.e. creates
    # values that the rewriter has to name
    (["dtrans", "mul1_node"], [["dtrans"], ["mul1_node"]]),
    (["chain2", "mul1_node"], [["chain2"], ["mul1_node"], ["chain2"]]),
    (["chain3", "dtrans"], [["chain3"], ["dtrans"]]),
    (["mul1_node", "bin_nested"], [["mul1_node"], ["bin_nested"], ["mul1_node"]]),
    (["dag_a", "dtrans"], [["dag_a"], ["dtrans"], ["dag_a"]]),
    (["negneg", "mul1_node"], [["negneg"], ["mul1_node"]]),
    (["chain2"], [["chain2"], ["chain2"], ["chain2"]]),
]


def repeated_host(plan, k):
    import random
    planted, _passes = REPEAT_PLANS[plan]
    rng = random.Random(7000 + 100 * plan + k)
    gen = G.HostGen(rng, planted, size=rng.choice([8, 12]), nest=0.6)
    host = gen.host(n_inputs=2, depth=rng.choice([1, 2]))
    live_host(host, gen)
    return rng, decorate_metadata(G.to_model(host))


def repeated_run(plan, k, wf=None, label=None):
    """Rewrite ONE model several times (separate rewrite() calls, fresh rule objects, so the fresh-name counter restarts):
    after every pass the model must be valid, keep its signature, define no value name twice (nested graphs included) and
    compute what the original computes.  Returns [(key suffix, what)], passes that fired."""
    import onnx
    from onnxscript import rewriter
    _planted, passes = REPEAT_PLANS[plan]
    rng, original = repeated_host(plan, k)
    feeds = _feeds(original, rng, 2)
    shadow0 = shadowing_names(original)
    want, s0 = None, None
    bad, fired = [], 0
    cur = original
    for j, fams in enumerate(passes, start=1):
        boxes = G.make_rule_set(fams)
        try:
            new = rewriter.rewrite(copy.deepcopy(cur), [b.rule for b in boxes])
        except Exception as e:
            bad.append((f"raises:{type(e).__name__}", f"pass {j} ({'+'.join(fams)}): rewrite() raised {type(e).__name__}: {str(e)[:200]}"))
            break
        fired += 1 if any(b.fires for b in boxes) else 0
        tag = f"pass {j} ({'+'.join(fams)})"
        clash = sorted(shadowing_names(new) - shadow0)
        if clash:
            bad.append(("value-name-defined-twice", f"{tag}: the names {clash[:3]} are defined in a nested graph and in a graph around it "
                        "(a value created by this pass took a name that an earlier pass had given to a value of an If/Loop body); "
                        "onnxruntime: the graph must be in SSA form"))
            break
        try:
            onnx.checker.check_model(new, full_check=True)
        except Exception as e:
            bad.append(("invalid-model", f"{tag}: onnx.checker rejects the model: {str(e)[:200]}"))
            break
        if [i.name for i in new.graph.input] != [i.name for i in original.graph.input] or \
           [o.name for o in new.graph.output] != [o.name for o in original.graph.output]:
            bad.append(("signature-names", f"{tag}: graph inputs/outputs renamed"))
            break
        try:
            if s0 is None:
                s0 = _ort_session(original)
                want = [s0.run(None, f) for f in feeds]
            s1 = _ort_session(_runnable(new))
            for f, w in zip(feeds, want):
                if not _same(w, s1.run(None, f)):
                    bad.append(("not-equivalent", f"{tag}: onnxruntime outputs differ from the original model"))
                    break
        except Exception as e:
            bad.append(("result-does-not-run", f"{tag}: {type(e).__name__}: {str(e)[:200]}"))
            break
        if bad:
            break
        if wf is not None:
            wf.append((f"{label}/pass{j}/main", graphlit.graph_lit(sibling_normalised(new.graph)), graphlit.imports_lit(new.opset_import)))
        cur = new
    return bad, fired, len(passes)


def stream_repeated(ctx, wf, meta):
    """History of ONE model: two and three rewrite passes in a row, hosts with matches inside If/Loop bodies and in the graphs
    around them (also after the control-flow node)."""
    per_plan = 4 if ctx.tier == "quick" else 14
    stats = collections.Counter()
    for plan, (planted, passes) in enumerate(REPEAT_PLANS):
        for k in range(per_plan):
            label = f"rep{plan}x{k}"
            replay = {"stream": "repeated", "plan": plan, "k": k, "planted": planted, "passes": passes}
            meta[label] = (planted, replay)
            bad, fired, n = repeated_run(plan, k, wf, label)
            ctx.case(("repeated", "+".join(planted), n, fired))
            stats["hosts"] += 1
            stats["passes"] += n
            stats["passes_fired"] += fired
            for kind, what in bad:
                ctx.violation(f"C07:repeated:{kind}:{'+'.join(planted)}", f"{label}: {what}", replay)
    ctx.cover(models_rewritten_several_times=stats["hosts"], rewrite_passes_on_them=stats["passes"], of_which_fired=stats["passes_fired"])


def check_namefix(ctx):
    """NameFixPass as run at the end of apply_to_model: the container over the final names is the relabelling namefix (rn_of pairs)
    of the container over tokens, and the relabelling satisfies the executable hypotheses namefix_okb of C07_namefix_sound /
    C07_rewrite_then_namefix_sound (injective, capture-free, graph outputs untouched, no reference attributes)."""
    if not NAMEFIX_CASES:
        return
    bodies, labels = [], []
    for j in range(0, len(NAMEFIX_CASES), 60):
        chunk = NAMEFIX_CASES[j:j + 60]
        lines = []
        for i, (_label, gtok, gname, pairs, vis) in enumerate(chunk):
            lines.append(f"Definition gt_{i} : graph := {gtok}.\nDefinition gn_{i} : graph := {gname}.\n"
                         f"Definition pr_{i} : list (vname * vname) := {pairs}.\nDefinition vi_{i} : list vname := {vis}.")
        lst = clist([f"({i}, namefix_okb (rn_of pr_{i}) vi_{i} gt_{i} && OV.Rewrite.Apply.graph_eqb (namefix (rn_of pr_{i}) gt_{i}) gn_{i})"
                     for i in range(len(chunk))])
        lines.append(f"Eval vm_compute in (map fst (filter (fun r => negb (snd r)) {lst})).")
        bodies.append("\n".join(lines))
        labels.append([c[0] for c in chunk])
    outs = ctx.coq_eval_shards(["OV.Graph.Syntax", "OV.Rewrite.Apply", "OV.Rewrite.NameFix"], bodies, par=8)
    bad = []
    for (ok, vals, raw), labs in zip(outs, labels):
        if not ok or not vals:
            ctx.tie_broken("correspondence", "namefix:model-evaluation", raw[-1200:])
            return
        bad += [labs[i] for i in common.parse_nat_list(vals[0])]
    for label in bad[:5]:
        ctx.tie_broken("correspondence", "namefix:relabelling", f"{label}: the container after NameFixPass is not namefix (rn_of pairs) of the "
                                                                "token graph, or namefix_okb fails")
    ctx.obligation(f"correspondence namefix: {len(NAMEFIX_CASES)} containers after NameFixPass are the relabelling namefix (rn_of pairs) of their "
                   "token graph and satisfy namefix_okb (hypotheses of C07_rewrite_then_namefix_sound)", not bad, "; ".join(bad[:5]))


def check_fresh_names(ctx):
    """Repaired variant only (the rewriter names the values it creates itself, unique over the model): every name that appears in
    the rewritten model is one of the names OV.Rewrite.Naming.fresh_seq draws against the names in use before."""
    import onnxscript.rewriter._rewrite_rule as rr
    repaired = hasattr(rr.RewriteRuleSet, "_name_new_values")
    ctx.cover(source_has_model_wide_fresh_names_repair=repaired, fresh_name_hosts=len(NAME_CASES) if repaired else 0)
    if not repaired or not NAME_CASES:
        return
    items = []
    for i, (_label, (used, bound, created)) in enumerate(NAME_CASES):
        items.append(f"({i}, forallb (fun n => mem n (fresh_seq {clist(used, common.cstr)} {bound})) {clist(created, common.cstr)})")
    bodies = ["Eval vm_compute in (map fst (filter (fun r => negb (snd r)) " + clist(items[j:j + 40]) + "))." for j in range(0, len(items), 40)]
    outs = ctx.coq_eval_shards(["OV.Graph.Syntax", "OV.Rewrite.Naming"], bodies, par=8)
    bad = []
    for (ok, vals, raw) in outs:
        if not ok or not vals:
            ctx.tie_broken("correspondence", "naming:fresh-names-evaluation", raw[-1200:])
            return
        bad += [NAME_CASES[i][0] for i in common.parse_nat_list(vals[0])]
    for label in bad[:5]:
        ctx.tie_broken("correspondence", "naming:fresh-names", f"{label}: a created value has a name outside fresh_seq")
    ctx.obligation(f"correspondence naming: on {len(NAME_CASES)} rewritten hosts every new value name is drawn as Rewrite/Naming.v fresh_seq "
                   "does (rewritten_val_<j>, unused anywhere in the model)", not bad, "; ".join(bad[:5]))


def container_case(fam, where, mode, variant, host_seed):
    import random
    rng = random.Random(host_seed)
    host = G.container_host(fam, where, rng, tuple(mode), shared_const=variant in ("shared", "twice-shared"),
                            twice=variant in ("twice", "twice-shared"))
    return rng, host


def container_plan(ctx):
    """(family, container, ordering mode, variant) for every family: the instance ONLY in that container."""
    quick = ctx.tier == "quick"
    plan = []
    for fam in sorted(G.FAMILIES):
        spec = G.FAMILIES[fam]
        if spec.get("partial"):
            continue                                     # fixed hosts of stream_partial_outputs (other operand kinds)
        multi = bool(spec.get("roots")) or fam in G._DAG or spec.get("keep")
        for where in G.CONTAINERS:
            if where == "main" and not (spec.get("new_init") or spec.get("roots")):
                continue                                 # main-graph instances: the generated stream
            modes = list(G.ORDER_MODES)
            if quick:
                # consumers before the remaining instance nodes (both preferences among the instance nodes for patterns
                # with several nodes), + one random linear extension
                modes = [("rev", "early"), ("rnd", "rnd")] + ([("fwd", "early")] if multi else [])
            variants = ["plain"]
            if spec.get("const_var") is not None or any(t == "c" for t in _tree_kinds(spec["pat"])):
                variants = ["shared", "twice-shared"] if quick else ["plain", "shared", "twice", "twice-shared"]
            elif spec.get("new_init") or (not quick):
                variants = ["plain", "twice"]
            for mode in modes:
                for variant in variants:
                    plan.append((fam, where, mode, variant))
    return plan


def _tree_kinds(t):
    if t[0] != "op":
        return [t[0]]
    r = []
    for a in t[2]:
        r += _tree_kinds(a)
    return r


def stream_containers(ctx, cases, wf, meta):
    """Every rule family with its instance(s) in ONE container only -- a model-local function, an If / Loop body inside a
    function, an If / Loop body of the main graph -- and consumers placed before / after the match in the node list.  All
    oracles of eval_host apply per container (checker, verified wf_graphb / imports_ok, before/after execution, replay of the
    splices through the Gallina model); by construction the instance is removable, so the rule must fire."""
    stats = collections.Counter()
    for fam, where, mode, variant in container_plan(ctx):
        host_seed = ctx.rng.getrandbits(48)
        rng, host = container_case(fam, where, mode, variant, host_seed)
        label = f"cont:{fam}:{where.replace('/', '.')}:{mode[0]}-{mode[1]}:{variant}"
        res, model = eval_host(ctx, label, host, [fam], rng, stream="container")
        spec = G.FAMILIES[fam]
        ctx.case(("container", fam, where, mode, variant, min(res.count or 0, 2)))
        stats["hosts"] += 1
        stats["fired"] += 1 if res.count else 0
        stats["where:" + where] += 1
        replay = {"stream": "container", "family": fam, "where": where, "mode": list(mode), "variant": variant,
                  "host_seed": host_seed, "model": model.SerializeToString().hex()}
        meta[label] = ([fam], replay)
        for key, what in res.violations:
            ctx.violation(key, f"{label}: {what}", replay)
        by_design_skipped = spec.get("new_init") and where == "function"      # initializers cannot be added to a function
        if not res.violations and not res.count and not by_design_skipped:
            ctx.violation(f"C07:container:no-progress:{fam}:{where}", f"{label}: the only instance(s) of the pattern did not fire", replay)
        if by_design_skipped and res.count:
            stats["fired_in_function_with_initializer"] += 1
        for u in res.unmodelled:
            ctx.tie_broken("correspondence", "apply:unmodelled", f"{label}: {u}")
        for s_, d in res.ties:
            ctx.tie_broken("correspondence", s_, d)
        cases.extend(res.coq_cases)
        wf.extend(res.wf_terms)
    return stats


def stream_ir_path(ctx, n):
    """rewrite() on a ModelProto and on an ir.Model give the same model (anchors: rewrite(): proto vs IR)."""
    rng = ctx.rng
    diffs = 0
    for h in range(n):
        rule_set = RULE_SETS[(h * 7) % len(RULE_SETS)]
        gen = G.HostGen(rng, rule_set, size=rng.choice([4, 8]), nest=0.3)
        host = gen.host(n_inputs=2, depth=1)
        live_host(host, gen)
        model = G.to_model(host)
        a, ea, _, _ = run_real(model, rule_set, trace=False)
        b, eb, _, _ = run_real(model, rule_set, trace=False, via_ir=True)
        ctx.case(("ir-path", "+".join(rule_set)))
        if (ea is None) != (eb is None):
            ctx.violation(f"C07:proto-vs-ir:one-raises:{'+'.join(rule_set)}", f"rewrite(proto) raised {ea!r}, rewrite(ir) raised {eb!r}",
                          {"stream": "ir-path", "host_index": h, "rule_set": rule_set})
        elif ea is None and a.SerializeToString(deterministic=True) != b.SerializeToString(deterministic=True):
            diffs += 1
            feeds = _feeds(model, rng, 2)
            sa, sb = _ort_session(a), _ort_session(b)
            same = all(_same(sa.run(None, f), sb.run(None, f)) for f in feeds)
            if not same:
                ctx.violation(f"C07:proto-vs-ir:not-equivalent:{'+'.join(rule_set)}", "rewrite(proto) and rewrite(ir) compute different functions",
                              {"stream": "ir-path", "host_index": h, "rule_set": rule_set})
            else:
                ctx.tie_broken("correspondence", "proto-vs-ir", f"host {h} {rule_set}: different serialisations")
    return diffs


# ----------------------------------------------------------------------------- entry

def run(ctx):
    ctx.assume("kernel semantics abstract in every theorem (any deterministic `sem`); the replacement's equivalence to the pattern "
               "(seg_equiv) is a hypothesis, discharged by construction for the generated rules and measured on onnxruntime "
               "(ORT_DISABLE_ALL) / onnx.reference for every host")
    ctx.assume("semantic theorems cover patterns whose outputs all belong to the root node; for patterns with several output nodes the "
               "splice, the container state and the order after the sort are modelled (Rewrite/Multi.v) and replayed, their equivalence and "
               "progress are observed on the real code only (checker, execution, structure diff); initializer/opset/function registration, as_function "
               "extraction and metadata merging are modelled in Rewrite/State.v and replayed per sweep; NameFixPass is not modelled; the "
               "`repaired` flags of State.v model the proposed patches, which are not applied to the source")
    ctx.assume("a call of a model-local function is an opaque kernel in Graph/Sem.v; a rewrite inside a function body is covered as a "
               "rewrite of that body's graph")
    ctx.trust("harness/c07_trace.py: wrappers around RewriteRuleSet._apply_to_graph_or_function, RewriteRule.try_rewrite and "
              "onnx_ir.convenience.replace_nodes_and_values, onnx_ir Graph.sort and NameFixPass.call (observation only), token assignment, IR -> Coq literal printers")
    ctx.check_props()
    displaced, owner = probe_flags()
    ctx.cover(source_has_initializer_clash_repair=displaced, source_has_function_subgraph_imports_repair=owner)

    NAME_CASES.clear()
    NAMEFIX_CASES.clear()
    SORT_CASES.clear()
    MULTI.clear()
    quick = ctx.tier == "quick"
    # thorough: 40 hosts per rule set (was 60); onnx.reference on every second host; 60 proto-vs-IR hosts (was 120): the streams
    # are samples of the same generators, the bounded-exhaustive small-host stream and the container plan stay complete
    import time
    T = {}
    t0 = time.time()

    def lap(name):
        nonlocal t0
        T[name] = round(time.time() - t0, 1)
        t0 = time.time()
    lap("props")
    n_hosts = len(RULE_SETS) * (8 if quick else 40)
    cases, wf, meta, stats, hist, violated = stream_generated(ctx, n_hosts)
    lap("generated")
    c2, w2, st2 = stream_small(ctx, 4, 150 if quick else None)
    lap("small")
    cases += c2
    wf += w2
    TARGETED_VIOLATED.clear()
    stream_targeted(ctx, cases, wf)
    violated |= TARGETED_VIOLATED
    stream_returned(ctx)
    stream_history(ctx)
    stream_repeated(ctx, wf, meta)
    lap("targeted")
    stream_overridable(ctx, cases, wf)
    stream_partial_outputs(ctx, cases, wf)
    violated |= TARGETED_VIOLATED
    lap("overridable_partial")
    st3 = stream_containers(ctx, cases, wf, meta)
    lap("containers")
    ir_diffs = stream_ir_path(ctx, 20 if quick else 60)
    lap("ir_path")

    failing, uncovered, unordered = coq_replay(ctx, cases)
    lap("coq_replay")
    if failing is not None:
        CODE = {1: "path leads nowhere", 2: "side conditions of the soundness theorem fail for a removing application (side_okb)", 3: "ill-formed application",
                4: "replay through the model differs from the graph the implementation produced"}
        for label, (code, step) in sorted(failing.items()):
            host = label.split("/")[0]
            if host in violated:
                continue                                # the property oracle already produced the failing input
            ctx.tie_broken("correspondence", "apply:replay", f"{label}: application {step}: {CODE.get(code, code)}")
        reported = {k: v for k, v in failing.items() if k.split("/")[0] not in violated}    # (hosts with a reported failing input apart)
        ctx.obligation(f"correspondence apply: {len(cases)} sweeps of the real rewriter replayed through Rewrite/Apply.v "
                       "(apply_pass reproduces the final graph; side_okb holds at every removing splice)", not reported,
                       "; ".join(f"{k}:{v}" for k, v in list(reported.items())[:5]))
        ctx.obligation("every keeping application (remove_nodes=False) satisfies the executable side conditions keep_okb of the keeping theorem",
                       uncovered == 0, f"{uncovered} outside")
        if uncovered:
            ctx.tie_broken("correspondence", "apply:keep-side-conditions", f"{uncovered} keeping applications do not satisfy keep_okb")
        unordered = [u for u in unordered if u.split("/")[0] not in violated and u not in failing]
        ctx.obligation(f"order: on {len(cases)} replayed sweeps (main graphs and function bodies) the container was topologically ordered, "
                       "every application satisfies order_okb where it was applied (hypotheses of C07_pass_keeps_order) and the "
                       "graph the implementation ended with is ordered (topo_graph)", not unordered, "; ".join(unordered[:5]))
        for u in unordered[:5]:
            ctx.tie_broken("correspondence", "apply:order-conditions", f"{u}: check_order / topo_graph false")
    if failing is not None:
        COMP = {0: "", 1: "opset imports", 2: "initializers", 3: "functions table", 4: "node metadata_props", 5: "value metadata_props",
                9: "node lists"}
        ECODE = {1: "path leads nowhere", 2: "the model raises (conflicting opset versions / no overload)", 3: "ill-formed application",
                 5: "extracted function is not the matched nodes in graph order behind the copied constants, or the call node does not "
                    "carry the new overload"}
        sdiff = {k: v for k, v in STATE_DIFF.items() if k.split("/")[0] not in violated and k not in failing}
        for label, (code, step, comp) in sorted(sdiff.items())[:8]:
            why = f"event {step}: {ECODE.get(code, code)}" if code else f"predicted and observed {COMP.get(comp, comp)} differ"
            ctx.tie_broken("correspondence", "state:replay", f"{label}: {why}")
        ctx.obligation(f"correspondence state: on {len(cases)} sweeps the visits and splices of the real rewriter replayed through "
                       "Rewrite/State.v (flags " + FLAGS[0] + ") reproduce the opset imports of every graph object, the initializers, the "
                       "functions table (extracted body = matched nodes in graph order behind the copied constants, least unused overload, "
                       "imports filtered from the parent), node and value metadata_props observed when the sweep ended", not sdiff,
                       "; ".join(f"{k}:{v}" for k, v in list(sdiff.items())[:5]))
    if failing is not None:
        copied = [c for c in COPIED_INPUTS if c.split("/")[0] not in violated]
        ctx.obligation(f"as_function: on {len(cases)} replayed sweeps no extraction copies a graph input of the container into the "
                       "function body (FnConstIn.copied_not_inputs_okb, hypothesis of C07_as_function_copied_initializers_sound)",
                       not copied, "; ".join(copied[:5]))
        for c in copied[:5]:
            ctx.violation("C07:as_function:graph-input-copied-into-function-body",
                          f"{c}: an operand of the match that is a graph input (an initializer listed in graph.input: a default the "
                          "caller may override) was baked into the extracted function as a Constant node; "
                          "C07_copied_graph_input_refuted: not equivalent for an overriding input", {"stream": "replay", "label": c})
    check_sorts(ctx, violated)
    check_fresh_names(ctx)
    check_namefix(ctx)
    lap("coq_sorts_names_namefix")
    bad_wf, bad_imp = coq_wf(ctx, wf)
    lap("coq_wf")
    ctx.cover(stage_seconds=T)
    if bad_wf is not None:
        for label in bad_wf:
            ctx.violation(f"C07:result-not-well-formed:{'+'.join(meta.get(label.split('/')[0], (['small'],))[0])}",
                          f"{label}: verified checker wf_graphb rejects the rewritten graph (names not unique / use before definition)",
                          meta.get(label.split('/')[0], (None, {"label": label}))[1])
        for label in bad_imp:
            ctx.violation(f"C07:imports-not-ok:{'+'.join(meta.get(label.split('/')[0], (['small'],))[0])}",
                          f"{label}: verified checker imports_ok rejects the opset imports of the rewritten model",
                          meta.get(label.split('/')[0], (None, {"label": label}))[1])
        ctx.obligation(f"verified checkers wf_graphb and imports_ok hold on {len(wf)} real rewritten graphs/functions", not bad_wf and not bad_imp)
    fired_ratio = stats["fired_hosts"] / max(1, stats["hosts"])
    ctx.obligation("generator not degenerate: >= 40% of the generated hosts make a rule fire and >= 25% have nested graphs or functions",
                   fired_ratio >= 0.4 and stats["nested_hosts"] >= 0.25 * stats["hosts"],
                   f"fired {fired_ratio:.2f}, nested {stats['nested_hosts']}/{stats['hosts']}")
    if fired_ratio < 0.4:
        ctx.tie_broken("harness", "generator-degenerate", f"only {fired_ratio:.2f} of the hosts fired")
    ctx.cover(hosts=stats["hosts"], hosts_fired=stats["fired_hosts"], splices_replayed=stats["splices"], sweeps_replayed=len(cases),
              hosts_with_nesting=stats["nested_hosts"], hosts_rewritten_with_commute=stats["hosts_commute"],
              hosts_rewritten_with_commute_fired=stats["hosts_commute_fired"], fire_count_histogram={str(k): v for k, v in sorted(hist.items())},
              host_tags={k[4:]: v for k, v in sorted(stats.items()) if k.startswith("tag:")},
              small_hosts=st2["hosts"], small_hosts_fired=st2["fired_hosts"], rule_sets=len(RULE_SETS),
              container_hosts=st3["hosts"], container_hosts_fired=st3["fired"],
              container_hosts_by_container={k[6:]: v for k, v in sorted(st3.items()) if k.startswith("where:")},
              sweeps_without_any_event_compared_textually=REPLAY_STATS.get("idle"), sweeps_evaluated_in_coq=REPLAY_STATS.get("evaluated"),
              wf_checked=len(wf), splices_of_patterns_with_several_output_nodes_outside_model=stats["splices_outside_model"], keeping_applications_outside_proved_side_conditions=uncovered, proto_vs_ir_serialisation_diffs=ir_diffs,
              rule="generated rules (pattern tree, transform in reemit/swap/double-transpose/x*1/x+0/Split/keep/as_function) x random hosts "
                   "(planted + chance instances, interleaved, overlapping, extra consumers, graph outputs, If/Loop/functions) + all small hosts")
    if ctx.tier == "thorough":
        ctx.coqchk(["Props.C07"])
