(* C06 -- the matching algorithm as implemented: onnxscript/rewriter/_matcher.py (SimplePatternMatcher),
   _basics.py (MatchResult / PartialMatchResult), _pattern_ir.py (NodePattern.matches, GraphPattern
   output nodes, GraphPattern.commute).  No proofs in this file.

   Result of every step: Ok state | Fail (the Python returns False / a falsy MatchResult) |
   Err (the Python raises or leaves an inconsistent state: tag-variable conflict, TypeError in
   AttrConstantPattern.matches, malformed pattern, commute on a non-binary node; also fuel
   exhaustion of the model).  Theorems exclude Err explicitly. *)
From Coq Require Import List ZArith String Bool Arith.
Require Import OV.Match.Pattern.
Import ListNotations.

(* ------------------------------------------------------------------ state: MatchResult *)
(* PartialMatchResult: _bindings, _value_bindings, _node_bindings, _matched_nodes (newest first) *)
Record partial := mkP {
  pb : list (string * bval);
  pvb : list (vkey * option vid);
  pnb : list (pid * nid);
  pnodes : list nid
}.
Definition empty_partial := mkP [] [] [] [].

(* MatchResult._partial_matches: a non-empty stack; `top` is _current_match *)
Record stack := mkS { top : partial; below : list partial }.
Definition init_stack := mkS empty_partial [].
Definition all_partials (st : stack) : list partial := top st :: below st.

(* Soft st: the Python returned False *without* marking the match as failed (state st) *)
Inductive res (A : Type) := Ok (a : A) | Fail | Err | Soft (st : stack).
Arguments Ok {A} a.
Arguments Fail {A}.
Arguments Err {A}.
Arguments Soft {A} st.

Definition rbind {A B} (r : res A) (f : A -> res B) : res B :=
  match r with Ok a => f a | Fail => Fail | Err => Err | Soft st => Soft st end.
Notation "x <- r ;; k" := (rbind r (fun x => k)) (at level 61, r at next level, right associativity).

Definition of_opt {A} (o : option A) : res A := match o with Some a => Ok a | None => Fail end.


(* what PartialMatchResult.merge copies.  The pinned source copies _bindings and _matched_nodes only;
   the flags say whether _value_bindings / _node_bindings are copied as well.
   `out_fail`: whether _match_node marks the match as failed when the pattern node has more outputs than
   the graph node (the pinned source only returns False, leaving a truthy MatchResult).
   `fresh_iter`: whether every output node without op identifier gets its own list of all nodes (the pinned source
   hands the *same* iterator to all of them; itertools.product drains it for the first).
   `attr_fix`: whether AttrConstantPattern.matches answers False for a scalar pattern value against a list-valued
   attribute (the pinned source evaluates tuple(<scalar>) and raises TypeError). *)
Record flags := mkF { keep_vb : bool; keep_nb : bool; out_fail : bool; fresh_iter : bool; attr_fix : bool }.
Definition flags_as_pinned := mkF false false false false false.
Definition flags_fixed := mkF true true true true true.

Definition all_b (st : stack) := List.concat (map pb (all_partials st)).
Definition all_vb (st : stack) := List.concat (map pvb (all_partials st)).
Definition all_nb (st : stack) := List.concat (map pnb (all_partials st)).

Definition lookup_b (x : string) (st : stack) : option bval := assoc String.eqb x (all_b st).
Definition lookup_vb (k : vkey) (st : stack) : option (option vid) := assoc vkey_eqb k (all_vb st).
(* MatchResult.lookup_node *)
Definition lookup_nb (p : pid) (st : stack) : option nid := assoc Nat.eqb p (all_nb st).

Definition on_top (f : partial -> partial) (st : stack) : stack := mkS (f (top st)) (below st).

(* MatchResult.bind: search every partial match; insert into the current one *)
Definition bind (x : string) (b : bval) (st : stack) : option stack :=
  match lookup_b x st with
  | Some b' => if bval_eqb b' b then Some st else None
  | None => Some (on_top (fun p => mkP ((x, b) :: pb p) (pvb p) (pnb p) (pnodes p)) st)
  end.

Definition bind_key (k : vkey) (v : option vid) (st : stack) : option stack :=
  match lookup_vb k st with
  | Some v' => if ovid_eqb v' v then Some st else None
  | None => Some (on_top (fun p => mkP (pb p) ((k, v) :: pvb p) (pnb p) (pnodes p)) st)
  end.

(* MatchResult.bind_value: by name when the pattern has one, else by object identity *)
Definition bind_value (name : option string) (k : vkey) (v : option vid) (st : stack) : option stack :=
  match name with
  | Some x => bind x (bv v) st
  | None => bind_key k v st
  end.

(* MatchResult.bind_node = add_node + node_bindings[p] = n *)
Definition bind_node (p : pid) (n : nid) (st : stack) : stack :=
  on_top (fun q => mkP (pb q) (pvb q) ((p, n) :: pnb q) (n :: pnodes q)) st.

(* enter_new_match / abandon_current_match / merge_current_match *)
Definition push (st : stack) : stack := mkS empty_partial (top st :: below st).

Definition merge (fl : flags) (st : stack) : res stack :=
  match below st with
  | [] => Err                                  (* "No match to merge." *)
  | q :: rest =>
      let c := top st in
      Ok (mkS (mkP (pb c ++ pb q)
                   (if keep_vb fl then pvb c ++ pvb q else pvb q)
                   (if keep_nb fl then pnb c ++ pnb q else pnb q)
                   (pnodes c ++ pnodes q)) rest)
  end.

(* binding the tag variable of an OR pattern: the Python ignores the result of `bind`; on a
   conflict it goes on with a failed partial match (ValueError in merge_current_match, or a falsy
   match at the end) -- Err here *)
Definition bind_tag (tagv : option string) (tag : Z) (st : stack) : res stack :=
  match tagv with
  | None => Ok st
  | Some x => match bind x (BTag tag) st with Some st' => Ok st' | None => Err end
  end.

(* ------------------------------------------------------------------ NodePattern.matches *)
(* AttrConstantPattern.matches; None = the Python raises (tuple(<int>)) *)
Definition attr_const_matches (pat attr : attrval) : option bool :=
  match attr, pat with
  | AInts l, AInts l' => Some (list_eqb Z.eqb l l')
  | AInts l, AInt _ => None
  | AInts l, AStr s => Some (match l with [] => String.eqb s ""%string | _ => false end)
  | AInt a, AInt b => Some (Z.eqb a b)
  | AStr a, AStr b => Some (String.eqb a b)
  | _, _ => Some false
  end.

Definition bind_attr_name (name : option string) (b : bval) (st : stack) : res stack :=
  match name with
  | None => Ok st
  | Some x => of_opt (bind x b st)
  end.

(* AttrConstantPattern.matches as the matcher sees it: with the repair the raising combination is `no match` *)
Definition attr_const_eval (fl : flags) (pat attr : attrval) : option bool :=
  match attr_const_matches pat attr with
  | None => if attr_fix fl then Some false else None
  | r => r
  end.

Fixpoint match_attrs (fl : flags) (pats : list (string * apat)) (h : hnode) (st : stack) : res stack :=
  match pats with
  | [] => Ok st
  | (name, ap) :: t =>
      match assoc String.eqb name (h_attrs h), ap with
      | None, APConst _ => Fail                                   (* can_match_none is False *)
      | None, APVar x none_ok =>
          if none_ok then st1 <- bind_attr_name x BNone st ;; match_attrs fl t h st1 else Fail
      | Some a, APConst c =>
          match attr_const_eval fl c a with
          | None => Err
          | Some true => match_attrs fl t h st
          | Some false => Fail
          end
      | Some a, APVar x _ => st1 <- bind_attr_name x (BAttr name a) st ;; match_attrs fl t h st1
      end
  end.

Definition no_other_attrs (np : npat) (h : hnode) : bool :=
  forallb (fun na => match assoc String.eqb (fst na) (np_attrs np) with Some _ => true | None => false end)
          (h_attrs h).

Definition node_local (fl : flags) (np : npat) (h : hnode) (st : stack) : res stack :=
  if negb (spat_matches (np_op np) (h_op h)) then Fail else
  if negb (spat_matches (np_dom np) (h_dom h)) then Fail else
  st1 <- match_attrs fl (np_attrs np) h st ;;
  if np_other_attrs np || no_other_attrs np h then Ok st1 else Fail.

(* ------------------------------------------------------------------ _match_value / _match_node *)
Section WithGraph.
Variable fl : flags.
Variable g : hgraph.
Variable pnodes_tbl : list npat.

Definition out_name (p : pid) (i : nat) : option string :=
  match nth_error pnodes_tbl p with
  | Some np => nth i (np_outs np) None
  | None => None
  end.

(* graph-boundary rule: a value of another graph matches only Var / Constant / AnyValue *)
Definition boundary_blocks (pv : vpat) (v : option vid) : bool :=
  match v with
  | Some x => foreign g x && match pv with PAny | PVar _ _ | PConst _ _ => false | _ => true end
  | None => false
  end.

(* OpIdDispatchOr.get_pattern: the alternative whose pattern node has the producer's op identifier *)
Fixpoint dispatch (alts : list (Z * (pid * nat))) (id : string * string) : option (Z * (pid * nat)) :=
  match alts with
  | [] => None
  | (tag, (q, i)) :: t =>
      match nth_error pnodes_tbl q with
      | Some np => match np_opid_decl np with
                   | Some id' => if opid_eqb id id' then Some (tag, (q, i)) else dispatch t id
                   | None => dispatch t id
                   end
      | None => dispatch t id
      end
  end.

Section Value.
Variable rec : pid -> nid -> stack -> res stack.     (* _match_node, one level of fuel down *)

(* _match_node_output *)
Definition match_node_output (p : pid) (i : nat) (v : option vid) (st : stack) : res stack :=
  match v with
  | None => Fail
  | Some x => match producer g x with
              | None => Fail
              | Some (n, idx) => if Nat.eqb idx i then rec p n st else Fail
              end
  end.

Fixpoint match_value (pv : vpat) (v : option vid) (st : stack) {struct pv} : res stack :=
  if boundary_blocks pv v then Fail else
  match pv with
  | PAny => Ok st
  | PVar x none_ok =>
      st1 <- of_opt (bind x (bv v) st) ;;
      match v with None => if none_ok then Ok st1 else Fail | Some _ => Ok st1 end
  | PConst k c =>
      st1 <- of_opt (bind_key (KObj k) v st) ;;
      match v with None => Fail | Some x => if const_ok g c x then Ok st1 else Fail end
  | POut p i =>
      st1 <- of_opt (bind_value (out_name p i) (KOut p i) v st) ;;
      match_node_output p i v st1
  | POr k name tagv alts =>
      st1 <- of_opt (bind_value name (KObj k) v st) ;;
      (fix try (l : list (Z * vpat)) : res stack :=
         match l with
         | [] => Fail
         | (tag, alt) :: t =>
             match match_value alt v (push st1) with
             | Ok st2 => st3 <- bind_tag tagv tag st2 ;; merge fl st3
             | Fail | Soft _ => try t                  (* abandon_current_match *)
             | Err => Err
             end
         end) alts
  | PDisp k name tagv alts =>
      st1 <- of_opt (bind_value name (KObj k) v st) ;;
      match v with
      | None => Fail
      | Some x =>
          match producer g x with
          | None => Fail
          | Some (n, _) =>
              match nth_error (g_nodes g) n with
              | None => Err
              | Some h =>
                  match dispatch alts (h_opid h) with
                  | None => Fail
                  | Some (tag, (q, i)) =>
                      (* self._match_value(pattern_choice, value) with pattern_choice = POut q i *)
                      st2 <- of_opt (bind_value (out_name q i) (KOut q i) v st1) ;;
                      st3 <- match_node_output q i v st2 ;;
                      bind_tag tagv tag st3
                  end
              end
          end
      end
  end.

(* the loop over checked_inputs (zip / zip_longest): one step per *pattern* input, the node's inputs
   padded with None *)
Fixpoint match_inputs (pins : list (option vpat)) (ins : list (option vid)) (st : stack) : res stack :=
  match pins with
  | [] => Ok st
  | pp :: ptl =>
      let a := match ins with [] => None | a :: _ => a end in
      let atl := match ins with [] => [] | _ :: atl => atl end in
      match pp with
      | None => match a with None => match_inputs ptl atl st | Some _ => Fail end
      | Some pv => st1 <- match_value pv a st ;; match_inputs ptl atl st1
      end
  end.
End Value.

(* the loop over pattern_node.outputs *)
Fixpoint bind_outputs (p : pid) (names : list (option string)) (outs : list vid) (i : nat) (st : stack) : res stack :=
  match names with
  | [] => Ok st
  | name :: t =>
      match outs with
      | [] => if out_fail fl then Fail else Soft st     (* i >= len(node.outputs): `return False` *)
      | o :: outs' => st1 <- of_opt (bind_value name (KOut p i) (Some o) st) ;; bind_outputs p t outs' (S i) st1
      end
  end.

Fixpoint match_node (fuel : nat) (p : pid) (n : nid) (st : stack) : res stack :=
  match fuel with
  | O => Err
  | S f =>
      match lookup_nb p st with
      | Some m => if Nat.eqb m n then Ok st else Fail
      | None =>
          match nth_error pnodes_tbl p, nth_error (g_nodes g) n with
          | Some np, Some h =>
              st1 <- node_local fl np h st ;;
              let st2 := bind_node p n st1 in
              if (List.length (np_ins np) <? List.length (h_ins h)) && negb (np_other_ins np) then Fail else
              st3 <- match_inputs (match_node f) (np_ins np) (h_ins h) st2 ;;
              bind_outputs p (np_outs np) (h_outs h) 0 st3
          | _, _ => Err
          end
      end
  end.

End WithGraph.

(* ------------------------------------------------------------------ GraphPattern: output nodes *)
(* _add_backward_slice: through NodeOutputPattern inputs only (not through OR values) *)
Fixpoint slice (tbl : list npat) (fuel : nat) (p : pid) (acc : list pid) : list pid :=
  match fuel with
  | O => acc
  | S f =>
      if memb Nat.eqb p acc then acc else
      match nth_error tbl p with
      | None => acc
      | Some np =>
          fold_left (fun a i => match i with Some (POut q _) => slice tbl f q a | _ => a end)
                    (np_ins np) (p :: acc)
      end
  end.

Fixpoint roots_from (tbl : list npat) (outs : list vpat) (covered roots : list pid) : list pid :=
  match outs with
  | [] => rev roots
  | POut q _ :: t =>
      if memb Nat.eqb q covered then roots_from tbl t covered roots
      else roots_from tbl t (slice tbl (S (List.length tbl)) q covered) (q :: roots)
  | _ :: t => roots_from tbl t covered roots
  end.
Definition output_nodes (p : gpat) : list pid := roots_from (gp_nodes p) (gp_outs p) [] [].

(* ------------------------------------------------------------------ top level *)
(* _valid_to_replace *)
Definition valid_to_replace (g : hgraph) (matched : list nid) (outs : list bval) : bool :=
  forallb (fun n =>
    match nth_error (g_nodes g) n with
    | None => true
    | Some h =>
        forallb (fun v =>
          memb bval_eqb (BVal v) outs ||
          (negb (is_graph_output g v) && forallb (fun c => memb Nat.eqb c matched) (consumers g v)))
          (h_outs h)
    end) matched.

(* _get_output_values *)
Definition output_value (tbl : list npat) (st : stack) (pv : vpat) : option bval :=
  let by_name_or_key (name : option string) (k : vkey) :=
    match name with
    | Some x => assoc String.eqb x (pb (top st))
    | None => option_map bv (assoc vkey_eqb k (pvb (top st)))
    end in
  match pv with
  | PAny => None                                             (* AnyValue is never bound *)
  | PVar x _ => assoc String.eqb x (pb (top st))
  | PConst k _ => by_name_or_key None (KObj k)
  | POut p i => by_name_or_key (out_name tbl p i) (KOut p i)
  | POr k name _ _ => by_name_or_key name (KObj k)
  | PDisp k name _ _ => by_name_or_key name (KObj k)
  end.

Fixpoint output_values (tbl : list npat) (st : stack) (outs : list vpat) : option (list bval) :=
  match outs with
  | [] => Some []
  | pv :: t => match output_value tbl st pv, output_values tbl st t with
               | Some b, Some bs => Some (b :: bs)
               | _, _ => None
               end
  end.

(* Pattern.match: pattern inputs that were not bound are bound to None *)
Fixpoint fill_inputs (names : list string) (b : list (string * bval)) : list (string * bval) :=
  match names with
  | [] => b
  | x :: t => match assoc String.eqb x b with
              | Some _ => fill_inputs t b
              | None => fill_inputs t ((x, BNone) :: b)
              end
  end.

(* a successful match as observed through MatchResult: bindings, nodes (in matching order), outputs;
   `m_nb`/`m_vb` are the top-level node_bindings / value_bindings *)
Record matched := mkM {
  m_b : list (string * bval);
  m_nodes : list nid;
  m_outs : list bval;
  m_nb : list (pid * nid);
  m_vb : list (vkey * option vid)
}.

Definition fuel_for (p : gpat) : nat := S (List.length (gp_nodes p)).

(* _multi_match for one candidate tuple (also _match_single_output_node when there is one root) *)
Fixpoint match_roots (fl : flags) (g : hgraph) (p : gpat) (roots : list pid) (cand : list nid) (st : stack) : res stack :=
  match roots, cand with
  | r :: rt, c :: ct => st1 <- match_node fl g (gp_nodes p) (fuel_for p) r c st ;; match_roots fl g p rt ct st1
  | _, _ => Ok st                                        (* zip stops at the shorter *)
  end.

Definition finish (g : hgraph) (p : gpat) (removable : bool) (st : stack) : res matched :=
  match below st with
  | _ :: _ => Err
  | [] =>
      match output_values (gp_nodes p) st (gp_outs p) with
      | None => Fail                                     (* "Output values not found" *)
      | Some outs =>
          let ns := rev (pnodes (top st)) in
          if removable && negb (valid_to_replace g ns outs) then Fail
          else Ok (mkM (fill_inputs (gp_inputs p) (pb (top st))) ns outs (pnb (top st)) (pvb (top st)))
      end
  end.

(* a `False` that never marked the match as failed leaves a truthy MatchResult: it is returned as a match,
   with the bindings and nodes collected so far and no outputs *)
Definition try_candidate (fl : flags) (g : hgraph) (p : gpat) (removable : bool) (cand : list nid) : res matched :=
  match match_roots fl g p (output_nodes p) cand init_stack with
  | Ok st => finish g p removable st
  | Soft st =>
      if out_fail fl then Err else                       (* Soft is produced only when out_fail is false *)
      match below st with
      | [] => Ok (mkM (fill_inputs (gp_inputs p) (pb (top st))) (rev (pnodes (top st))) [] (pnb (top st)) (pvb (top st)))
      | _ :: _ => Err
      end
  | Fail => Fail
  | Err => Err
  end.

(* candidates for the 2nd.. output node: nodes of the graph with the same op identifier, graph order *)
Fixpoint nodes_with_opid (ns : list hnode) (n : nid) (id : option (string * string)) (g : hgraph) : list nid :=
  match ns with
  | [] => []
  | h :: t =>
      let own := match h_outs h with o :: _ => negb (foreign g o) | [] => true end in
      (if own && match id with Some i => opid_eqb (h_opid h) i | None => true end then [n] else [])
      ++ nodes_with_opid t (S n) id g
  end.

(* get_nodes for the 2nd.. output nodes.  Pattern nodes without an op identifier all receive the one
   shared iterator `all_nodes`; itertools.product drains it for the first of them, so the later ones
   get no candidate at all (`used` = the iterator has been consumed). *)
Fixpoint candidate_lists (fl : flags) (ns : list hnode) (g : hgraph) (ids : list (option (string * string))) (used : bool) : list (list nid) :=
  match ids with
  | [] => []
  | Some i :: t => nodes_with_opid ns 0 (Some i) g :: candidate_lists fl ns g t used
  | None :: t => (if used && negb (fresh_iter fl) then [] else nodes_with_opid ns 0 None g) :: candidate_lists fl ns g t true
  end.

(* itertools.product in lexicographic order *)
Fixpoint product (ls : list (list nid)) : list (list nid) :=
  match ls with
  | [] => [[]]
  | l :: t => flat_map (fun x => map (cons x) (product t)) l
  end.

Fixpoint first_ok (fl : flags) (g : hgraph) (p : gpat) (removable : bool) (cands : list (list nid)) : res matched :=
  match cands with
  | [] => Fail
  | c :: t => match try_candidate fl g p removable c with
              | Ok m => Ok m
              | Fail => first_ok fl g p removable t
              | Err => Err
              | Soft st => Soft st
              end
  end.

(* SimplePatternMatcher.match *)
Definition run (fl : flags) (p : gpat) (g : hgraph) (root : nid) (removable : bool) : res matched :=
  match output_nodes p with
  | [] => Err
  | [_] => try_candidate fl g p removable [root]
  | _ :: others =>
      let ids := map (fun q => match nth_error (gp_nodes p) q with Some np => np_opid np | None => None end) others in
      first_ok fl g p removable (product ([root] :: candidate_lists fl (g_nodes g) g ids false))
  end.

(* ------------------------------------------------------------------ GraphPattern.commute *)
Definition commutative_ops : list string :=
  ["Add"; "Mul"; "And"; "Or"; "Xor"; "BitwiseAnd"; "BitwiseOr"; "BitwiseXor"; "Equal"; "Max"; "Mean"; "Min"; "Sum"]%string.

(* commute_node.  The pinned source offers the swap for every node whose op identifier is in the list and
   then asserts `len(inputs) == 2` in NodePattern.clone (AssertionError while building the rule set); the
   harness reports that separately, the model offers the swap for binary nodes only. *)
Definition is_commutative (np : npat) : bool :=
  match np_opid np with
  | Some (d, o) => String.eqb d ""%string && memb String.eqb o commutative_ops && Nat.eqb (List.length (np_ins np)) 2
  | None => false
  end.

(* NodePattern.clone: op is passed on as a pattern object, so the copy has no op identifier *)
Definition clone_node (np : npat) (ins : list (option vpat)) : npat :=
  mkNP (np_op np) (np_dom np) (np_attrs np) (np_other_attrs np) ins (np_other_ins np) (np_outs np) false.

(* NodePattern.clone(swap=True): None = the assertion `len(inputs) == 2` fails *)
Definition swap_node (np : npat) : option npat :=
  match np_ins np with
  | [a; b] => Some (clone_node np [b; a])
  | _ => None
  end.

Fixpoint apply_swaps (nodes : list npat) (sw : list bool) : option (list npat) :=
  match nodes, sw with
  | [], _ => Some []
  | np :: t, s :: st =>
      match (if s then swap_node np else Some (clone_node np (np_ins np))), apply_swaps t st with
      | Some np', Some t' => Some (np' :: t')
      | _, _ => None
      end
  | np :: t, [] => option_map (cons (clone_node np (np_ins np))) (apply_swaps t [])
  end.

(* itertools.product([False(,True)] per node): the last node varies fastest, all-False first *)
Fixpoint swap_lists (nodes : list npat) : list (list bool) :=
  match nodes with
  | [] => [[]]
  | np :: t =>
      let rest := swap_lists t in
      map (cons false) rest ++ (if is_commutative np then map (cons true) rest else [])
  end.

Definition commute (p : gpat) : res (list gpat) :=
  (fix go (l : list (list bool)) : res (list gpat) :=
     match l with
     | [] => Ok []
     | sw :: t =>
         match (if existsb (fun b => b) sw then apply_swaps (gp_nodes p) sw else Some (gp_nodes p)), go t with
         | Some ns, Ok ps => Ok (mkGP ns (gp_inputs p) (gp_outs p) :: ps)
         | None, _ => Err
         | _, Err => Err
         | _, Fail => Fail
         | _, Soft st => Soft st
         end
     end) (swap_lists (gp_nodes p)).

(* RewriteRuleSet(commute=True): the variants are tried in order on the node; the first match wins.
   Returns the index of the variant as well. *)
Fixpoint first_variant (fl : flags) (ps : list gpat) (i : nat) (g : hgraph) (root : nid) (removable : bool) : res (nat * matched) :=
  match ps with
  | [] => Fail
  | p :: t => match run fl p g root removable with
              | Ok m => Ok (i, m)
              | Fail => first_variant fl t (S i) g root removable
              | Err => Err
              | Soft st => Soft st
              end
  end.

Definition run_commute (fl : flags) (p : gpat) (g : hgraph) (root : nid) (removable : bool) : res (nat * matched) :=
  ps <- commute p ;; first_variant fl ps 0 g root removable.
