"""C01, eager half: ties Script/Eager.v (the Gallina model of eager mode) to the real eager evaluator.

  * EagerTracer wraps, in the harness process, the pieces eager mode is made of:
        evaluator.ORTEvaluator._eval            every evaluator call: schema, inputs AFTER dynamic_cast_inputs, attributes, outputs
        evaluator.BaseEvaluator.eval_function   one frame per script-function invocation (nested calls become one "this" call of
                                                 the caller's frame and a frame of their own)
        tensor.Tensor.__bool__ / __index__      the control-flow decisions Python takes on tensors
        autocast.cast_pyvalue_to_os_tensor      every dynamic promotion (Python value, target dtype) -> tensor
        evaluator._adapt_to_eager_mode          Python scalars promoted at a script-function call
    and records, per invocation, the exact sequence of events with tensor values replaced by tokens.
  * correspond(): every recorded invocation is replayed in Coq (Script/EagerCorr.v): the model, run on the recorded kernel /
    bool / index / promotion tables, must return the same output tokens and the SAME EVENT SEQUENCE.
  * by_construction(): the places where eager mode differs from the graph by construction (the clauses excluded from
    C01_eager_eq_python_partial, witnesses of C01_eager_differs_by_construction_refuted) replayed on the real code.
"""
from __future__ import annotations

import collections
import contextlib

import numpy as np

from harness import c01_gen, c01_run, common
from harness.common import clist

REQ = ["OV.Graph.Syntax", "OV.Script.Syntax", "OV.Script.Sets", "OV.Script.Translate", "OV.Script.Eager", "OV.Script.EagerClass",
       "OV.Script.EagerCorr"]
FLOAT_DTYPES = ("float16", "float32", "float64")


class Unsupported(Exception):
    pass


class EagerTracer:
    """Install once; `with tracer.collect() as frames:` gathers the frames of the calls made inside."""

    def __init__(self):
        self.installed = False
        self.stack = []           # open frames
        self.done = None          # list receiving closed frames, or None when not collecting
        self.tokens = None        # value -> token of the current top-level call
        self.dtypes = None

    # ---- tokens
    def tok(self, t):
        from onnxscript import tensor
        if isinstance(t, tensor.Tensor):
            a = t.value
        elif isinstance(t, np.ndarray):
            a = t
        else:
            raise Unsupported(f"value of type {type(t).__name__}")
        a = np.ascontiguousarray(a)
        key = (str(a.dtype), a.shape, a.tobytes())
        if key not in self.tokens:
            self.tokens[key] = len(self.tokens)
            self.dtypes[self.tokens[key]] = str(a.dtype)
        return self.tokens[key]

    def otok(self, t):
        return None if t is None else self.tok(t)

    def frame(self):
        return self.stack[-1] if self.stack else None

    def note(self, fn):
        """Run fn(frame) if a frame is open; a value the tracer cannot tokenise marks the frame unsupported."""
        fr = self.frame()
        if fr is None or self.done is None:
            return
        try:
            fn(fr)
        except Unsupported as e:
            fr["unsupported"] = str(e)

    # ---- installation
    def install(self):
        if self.installed:
            return
        from onnxscript import tensor
        from onnxscript._internal import autocast, evaluator
        me = self
        orig_eval = evaluator.ORTEvaluator._eval

        def _eval(self_, schema, inputs, attributes, closure):
            outs = orig_eval(self_, schema, inputs, attributes, closure)
            me.note(lambda fr: fr["events"].append(("op", schema.domain, schema.name, dict(attributes),
                                                     [me.otok(x) for x in inputs], [me.tok(o) for o in outs])))
            return outs
        evaluator.ORTEvaluator._eval = _eval

        orig_bool = tensor.Tensor.__bool__

        def __bool__(self_):
            r = orig_bool(self_)
            me.note(lambda fr: fr["events"].append(("bool", me.tok(self_), bool(r))))
            return r
        tensor.Tensor.__bool__ = __bool__

        orig_index = tensor.Tensor.__index__

        def __index__(self_):
            r = orig_index(self_)
            me.note(lambda fr: fr["events"].append(("index", me.tok(self_), int(r))))
            return r
        tensor.Tensor.__index__ = __index__

        orig_cast = autocast.cast_pyvalue_to_os_tensor

        def cast_pyvalue_to_os_tensor(pyvalue, dtype=None):
            r = orig_cast(pyvalue, dtype)
            if r is not pyvalue and isinstance(pyvalue, (bool, int, float, list)):
                me.note(lambda fr: fr["casts"].append((pyvalue, None if dtype is None else str(np.dtype(dtype)), me.tok(r))))
            return r
        autocast.cast_pyvalue_to_os_tensor = cast_pyvalue_to_os_tensor

        orig_adapt = evaluator._adapt_to_eager_mode

        def _adapt_to_eager_mode(inputs):
            r = orig_adapt(inputs)
            if isinstance(inputs, (bool, int, float)):
                me.note(lambda fr: fr["adapts"].append((inputs, me.tok(r[0]))))
            return r
        evaluator._adapt_to_eager_mode = _adapt_to_eager_mode

        orig_fun = evaluator.BaseEvaluator.eval_function

        def eval_function(self_, function, args, kwargs):
            if me.done is None:
                return orig_fun(self_, function, args, kwargs)
            top = not me.stack
            if top:
                me.tokens, me.dtypes = {}, {}
            parent = me.frame()
            fr = {"name": function.name, "events": [], "casts": [], "adapts": [], "args": None, "kwargs": None, "outs": None,
                  "error": None, "unsupported": None, "top": top}
            pyfun = function.function

            def recording(*a, **kw):
                try:
                    fr["args"] = [me.otok(x) for x in a]
                except Unsupported as e:
                    fr["unsupported"] = str(e)
                fr["kwargs"] = dict(kw)
                res = pyfun(*a, **kw)
                try:
                    seq = res if isinstance(res, (tuple, list)) else (res,)
                    fr["outs"] = [me.tok(x) for x in seq]
                except Unsupported as e:
                    fr["outs_unsupported"] = str(e)
                return res
            function.function = recording
            # the scalars promoted for THIS call are adapted before the callee's frame opens: they belong to the caller
            me.stack.append(fr)
            fr["adapts_owner"] = parent
            try:
                result = orig_fun(self_, function, args, kwargs)
            except Exception as e:  # noqa: BLE001 -- recorded, re-raised
                fr["error"] = repr(e)[:300]
                raise
            finally:
                function.function = pyfun
                me.stack.pop()
                if parent is not None and fr["adapts"]:
                    parent["adapts"].extend(fr["adapts"])
                    fr["adapts"] = []
                fr["dtypes"] = me.dtypes
                me.done.append(fr)
                if parent is not None:
                    if fr["args"] is not None and fr["outs"] is not None and fr["error"] is None:
                        parent["events"].append(("op", "this", function.name, dict(fr["kwargs"]), list(fr["args"]), list(fr["outs"])))
                    else:
                        parent["unsupported"] = "nested call without a recorded result"
            return result
        evaluator.BaseEvaluator.eval_function = eval_function
        self.installed = True

    @contextlib.contextmanager
    def collect(self):
        self.install()
        frames = []
        old = self.done
        self.done = frames
        try:
            yield frames
        finally:
            self.done = old
            self.stack = []


TRACER = EagerTracer()


class Collector:
    """Frames of the traced eager calls of one check run, with the generated program each belongs to."""

    def __init__(self, limit):
        self.limit = limit
        self.runs = []            # (decorated, frame)
        self.skipped = collections.Counter()

    def traced_eager(self, d, f, prog, tensors, attrs):
        from harness import c01_interp
        if len(self.runs) >= self.limit:
            return c01_interp.run_eager(f, prog, tensors, attrs)
        with TRACER.collect() as frames:
            try:
                return c01_interp.run_eager(f, prog, tensors, attrs)
            finally:
                for fr in frames:
                    self.runs.append((d, fr))


# ----------------------------------------------------------------------------- Coq literals

def _f32_exact(x):
    return float(np.float32(x)) == float(x)


def _lit(v, kind=None):
    if kind == "float":
        v = float(v)
    elif kind == "int":
        v = int(v)
    elif kind == "bool":
        v = bool(v)
    if isinstance(v, (bool, np.bool_)):
        return c01_gen.coq_lit(bool(v))
    if isinstance(v, (int, np.integer)):
        return c01_gen.coq_lit(int(v))
    if isinstance(v, (float, np.floating)):
        if not _f32_exact(v):
            raise Unsupported("float literal that is not a float32 value")
        return c01_gen.coq_lit(float(v))
    if isinstance(v, list) and all(isinstance(x, int) and not isinstance(x, bool) for x in v):
        return c01_gen.coq_lit(v)
    raise Unsupported(f"python value {v!r}")


def _attrv(v):
    if isinstance(v, (bool, np.bool_, int, np.integer)):
        return f"(AInt {c01_gen._cz(int(v))})"
    if isinstance(v, (float, np.floating)):
        return f"(AFloat {c01_gen._cz(c01_gen.f32_bits(v))})"
    if isinstance(v, (list, tuple)) and all(isinstance(x, (int, np.integer)) and not isinstance(x, bool) for x in v):
        return "(AInts [" + "; ".join(c01_gen._cz(int(x)) for x in v) + "])"
    if isinstance(v, str):
        return f"(AStr {c01_gen._cs(v)})"
    return '(AOther "x")'


def _attrs(d):
    return clist([f"({c01_gen._cs(k)}, {_attrv(v)})" for k, v in d.items() if v is not None])


def _otoks(l):
    return clist(["None" if t is None else f"(Some {t})" for t in l])


def _toks(l):
    return clist([str(t) for t in l])


DT_CODE = {}


def _dt(name):
    if name not in DT_CODE:
        DT_CODE[name] = len(DT_CODE) + 1
    return DT_CODE[name]


def run_literal(d, fr):
    """Coq `erun` literal of one recorded frame, or raise Unsupported."""
    if fr.get("unsupported"):
        raise Unsupported(fr["unsupported"])
    fp = next((p for p in d.funcs if p["name"] == fr["name"]), None)
    if fp is None or fr["args"] is None:
        raise Unsupported("no generated program for this frame")
    if any(a is None for a in fr["args"]):
        raise Unsupported("None passed for a tensor parameter")
    if len(fr["args"]) != len(fp["tparams"]):
        raise Unsupported("positional attribute arguments")
    avals = []
    for (n, kind, default) in fp["aparams"]:
        if n in fr["kwargs"]:
            avals.append((n, _lit(fr["kwargs"][n], kind)))
        elif default is not None:
            avals.append((n, _lit(default, kind)))
    events = []
    for ev in fr["events"]:
        if ev[0] == "op":
            events.append(f"ROp ({c01_gen._cs(ev[1])}, {c01_gen._cs(ev[2])}, {_attrs(ev[3])}, {_otoks(ev[4])}, {_toks(ev[5])})")
        elif ev[0] == "bool":
            events.append(f"RBool {ev[1]} {'true' if ev[2] else 'false'}")
        else:
            if ev[2] < 0:
                raise Unsupported("negative range bound")
            events.append(f"RIndex {ev[1]} {ev[2]}")
    casts = clist([f"({_lit(v)}, {'None' if dt is None else f'(Some {_dt(dt)})'}, {t})" for (v, dt, t) in fr["casts"]])
    adapts = clist([f"({_lit(v)}, {t})" for (v, t) in fr["adapts"]])
    dtypes = clist([f"({t}, {_dt(n)})" for t, n in sorted(fr["dtypes"].items())])
    floats = clist([str(_dt(n)) for n in FLOAT_DTYPES])
    consts = clist([f"({c01_gen._cs(k)}, {c01_gen.coq_lit(v)})" for k, v in sorted(d.prog["globals"].items())])
    outs = "None" if (fr["error"] is not None or fr["outs"] is None) else f"(Some {_toks(fr['outs'])})"
    return (f"(Build_erun {c01_gen.coq_func(fp)} {consts} {_toks(fr['args'])} "
            f"{clist([f'({c01_gen._cs(n)}, {l})' for n, l in avals])} {clist(events)} {casts} {adapts} {dtypes} {floats} {outs})")


VERDICTS = {0: "agree", 1: "model-undefined", 2: "outputs-differ", 3: "event-sequence-differs", 4: "real-raises-model-returns", 5: "both-undefined"}
# operators of the source the model deliberately leaves undefined (Python semantics on plain values / bool(tensor))
UNMODELLED_OPS = ("And", "Or")


def _uses_unmodelled(fp):
    txt = c01_gen.coq_func(fp)
    return any(f'EBin "{o}"' in txt for o in UNMODELLED_OPS) or 'EUn "USub" (ELit' in txt


def correspond(ctx, collector, flagged_progs):
    """Replay every recorded invocation in Coq; report the verdicts."""
    cases, meta = [], []
    for d, fr in collector.runs:
        try:
            cases.append(run_literal(d, fr))
            meta.append((d, fr))
        except Unsupported as e:
            collector.skipped[str(e)[:60]] += 1
    B = 30
    bodies = []
    for lo in range(0, len(cases), B):
        bodies.append(f"Open Scope string_scope.\nDefinition cases : list erun := {clist(cases[lo:lo + B])}.\n"
                      f"Eval vm_compute in (map verdict cases).\nEval vm_compute in (map (fun r => if in_class r then 1 else 0) cases).")
    res = c01_run.coq_eval_par(ctx, REQ, bodies, "c01_eager")
    verdicts, classes = [], []
    for ok, vals, raw in res:
        if not ok or len(vals) < 2:
            ctx.tie_broken("correspondence", "eager-trace:model-evaluation", raw[-1500:])
            return
        verdicts += common.parse_nat_list(vals[0])
        classes += common.parse_nat_list(vals[1])
    dist = collections.Counter(VERDICTS[v] for v in verdicts)
    import os as _os
    dbg = _os.environ.get("OSVERIF_C01_EAGER_DEBUG")
    if dbg:
        import json as _json
        with open(dbg, "w") as fh:
            _json.dump([{"verdict": VERDICTS[v], "in_class": c, "name": fr["name"], "source": d.source, "case": cases[i],
                         "error": fr["error"], "events": [list(map(str, e)) for e in fr["events"]], "casts": [list(map(str, e)) for e in fr["casts"]]}
                        for i, ((d, fr), v, c) in enumerate(zip(meta, verdicts, classes)) if v != 0], fh, indent=1)
    in_class = collections.Counter()
    bad = []
    nested = 0
    for (d, fr), v, c in zip(meta, verdicts, classes):
        fp = next(p for p in d.funcs if p["name"] == fr["name"])
        nested += 0 if fr["top"] else 1
        if c:
            in_class[VERDICTS[v]] += 1
        if v in (2, 3, 4) or (v == 1 and not _uses_unmodelled(fp)):
            bad.append((d, fr, v))
    reported = 0
    for d, fr, v in bad:
        if d.idx in flagged_progs:
            continue                      # the direct oracle already reported this program with its input
        reported += 1
        if reported <= 5:
            ctx.tie_broken("correspondence", "eager-trace:" + fr["name"],
                           f"Script/Eager.v and the recorded trace of the real eager evaluator disagree ({VERDICTS[v]}; "
                           f"{len(fr['events'])} recorded events, real error: {fr['error']}) on\n" + d.source)
    n_events = sum(len(fr["events"]) for _d, fr in meta)
    ctx.obligation(f"correspondence eager trace: Script/Eager.v replayed on the recorded kernels reproduces outputs and the exact sequence of "
                   f"evaluator calls / bool() / index() events of the real eager evaluator on {len(cases)} invocations "
                   f"({nested} nested script-function calls, {n_events} events)", reported == 0 and len(cases) > 0,
                   "; ".join(f"{fr['name']}: {VERDICTS[v]}" for _d, fr, v in bad[:5]))
    n_class = sum(classes)
    ctx.obligation(f"the class of C01_eager_eq_python_partial is inhabited by the traced programs: {n_class} of {len(classes)} invocations "
                   f"(functions in eager_class), all of them agreeing", n_class * 5 >= len(classes) and in_class["agree"] == n_class - in_class["both-undefined"],
                   f"in class: {dict(in_class)}")
    ctx.cover(eager_trace=dict(invocations=len(cases), nested_invocations=nested, events=n_events, verdicts=dict(dist),
                               in_class=dict(in_class), skipped=dict(collector.skipped)))


# ----------------------------------------------------------------------------- differences by construction, on the real code

BY_CONSTRUCTION = [
    # key, source of the function body (after the header), inputs, what
    ("C01:eager:float-literal-beside-double:promoted-exactly:graph-rounds-to-float32",
     "def bc_double(x: DOUBLE['N']) -> DOUBLE['N']:\n    return x + 0.1\n",
     {"x": np.array([1.0, 2.0], dtype=np.float64)},
     "a float literal that is not a float32 value next to a DOUBLE tensor: eager promotes the Python float (a double) to float64 "
     "exactly (dynamic_cast_inputs), the graph holds Constant(float32) and CastLike's it: the results differ in the 9th digit"),
    ("C01:eager:python-value-on-the-left:no-reflected-tensor-method:TypeError",
     "def bc_rdiv(x: FLOAT['N']) -> FLOAT['N']:\n    return 2.0 / x\n",
     {"x": np.array([1.0, 4.0], dtype=np.float32)},
     "`2.0 / x` (also `2 ** x`, `2 % x`, `True | x`): tensor.Tensor implements __radd__ __rsub__ __rmul__ __rand__ only, so eager mode "
     "raises TypeError while the converter emits Div(CastLike(2.0, x), x)"),
    ("C01:eager:python-value-returned:TypeError",
     "def bc_ret(x: FLOAT['N']):\n    k = 2.0\n    y = x + 1.0\n    return y, k\n",
     {"x": np.array([1.0, 4.0], dtype=np.float32)},
     "a returned Python value (literal variable, `not c`): evaluator._adapt_to_user_mode raises TypeError('Unexpected type') while "
     "the graph returns the Constant tensor"),
    ("C01:for-loop-variable-beside-float-tensor:eager-promotes:graph-fails-in-ort",
     "def bc_loopvar(y: FLOAT['N']) -> FLOAT['N']:\n    for i in range(3):\n        y = y + i\n    return y\n",
     {"y": np.array([1.0, 4.0], dtype=np.float32)},
     "`y + i` with y a float tensor and i the loop variable: eagerly i is a Python int promoted to float, in the graph it is the INT64 "
     "iteration number and Add(float, int64) fails to load in onnxruntime"),
    ("C01:int-tensor-mod-float-literal:graph-fmod:values-differ",
     "def bc_mod(x: INT64['N']) -> INT64['N']:\n    return x % 2.0\n",
     {"x": np.array([-3, 3, 5, -5], dtype=np.int64)},
     "`x % 2.0` with x an INT64 tensor: the converter sets fmod=1 because the right operand is a float literal (C remainder: -3 -> -1), "
     "Tensor.__mod__ decides by the dtype of x (floor modulo: -3 -> 1); both run, the values differ"),
    ("C01:eager:python-float-passed-to-script-function:float64:fails",
     "def bc_helper(a: FLOAT['N'], b: FLOAT) -> FLOAT['N']:\n    return a + b\n\n\n@script(default_opset=op)\n"
     "def bc_call(x: FLOAT['N']) -> FLOAT['N']:\n    return bc_helper(x, 0.5)\n",
     {"x": np.array([1.0, 4.0], dtype=np.float32)},
     "a Python float passed for a tensor parameter of another script function: evaluator._adapt_to_eager_mode makes np.array(0.5) "
     "(float64), the callee's Add(float32, float64) fails eagerly, the graph passes a float32 Constant"),
]


def by_construction(ctx, wd, worker, stats):
    """Replay on the real code the clauses where eager mode differs from the graph by construction.  Each difference observed is
    reported under its own key (all are recorded as known findings); a clause that no longer differs is silent."""
    header = c01_gen.HEADER.replace("import script, FLOAT", "import script, DOUBLE, FLOAT")
    for i, (key, body, feeds, what) in enumerate(BY_CONSTRUCTION):
        src = header + "\n@script(default_opset=op)\n" + body
        ctx.case(("by-construction", key.split(":")[1] + ":" + key.split(":")[2]))
        mod, exc = c01_run.load(wd, f"c01_bc{i}", src)
        if exc is not None:
            stats["by_construction_refused"] += 1
            continue
        name = body.rsplit("def ", 1)[1].split("(", 1)[0]
        f = getattr(mod, name)
        try:
            e = f(*[v.copy() for v in feeds.values()])
            eager = ("ok", [np.asarray(x) for x in (e if isinstance(e, tuple) else (e,))])
        except Exception as ex:  # noqa: BLE001
            eager = ("error", repr(ex)[:200])
        try:
            graph = worker.run(f.to_model_proto(), feeds)
        except Exception as ex:  # noqa: BLE001
            graph = ("error", repr(ex)[:200])
        same = (eager[0] == "ok" and graph[0] == "ok" and len(eager[1]) == len(graph[1])
                and all(np.asarray(a).dtype == np.asarray(b).dtype and np.array_equal(np.asarray(a), np.asarray(b)) for a, b in zip(eager[1], graph[1])))
        both_fail = eager[0] != "ok" and graph[0] != "ok"
        stats["by_construction_differs" if not (same or both_fail) else "by_construction_agrees"] += 1
        if not (same or both_fail):
            ctx.violation(key, what, {"source": src, "feeds": {k: v.tolist() for k, v in feeds.items()},
                                      "eager": [x.tolist() for x in eager[1]] if eager[0] == "ok" else eager[1],
                                      "graph": [np.asarray(x).tolist() for x in graph[1]] if graph[0] == "ok" else str(graph[1])[:300]})
