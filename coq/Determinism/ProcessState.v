(* C14 -- process-wide state in general.  An *operation* (translate / optimize / rewrite / convert one
   target) is a program whose only access to state that outlives it is through a family of memo tables
   (module-level dictionaries, lru_cache wrappers, per-class singletons such as Opset.cache): it asks table t
   for request x, gets the remembered value under key k t x or computes f t x on a miss, and continues.
   State that the operation re-initialises itself before reading it is covered by MustDef.v.
   No proofs in this file (ProcessStateProofs.v). *)
From Coq Require Import List String Bool.
Require Import OV.Determinism.KeyedCache.
Import ListNotations.

Section Proc.
  Variables T X K V R : Type.
  Variable T_eq_dec : forall a b : T, {a = b} + {a <> b}.
  Variable K_eq_dec : forall a b : K, {a = b} + {a <> b}.
  Variable k : T -> X -> K.       (* the key table t builds from a request *)
  Variable f : T -> X -> V.       (* what table t computes on a miss *)

  Inductive op :=
  | Done (r : R)
  | Ask (t : T) (x : X) (cont : V -> op).

  Definition pstate := T -> list (K * V).
  Definition fresh : pstate := fun _ => [].
  Definition upd_table (s : pstate) (t : T) (m : list (K * V)) : pstate :=
    fun t' => if T_eq_dec t' t then m else s t'.

  Fixpoint run (o : op) (s : pstate) : R * pstate :=
    match o with
    | Done r => (r, s)
    | Ask t x cont =>
        let res := request K_eq_dec (k t) (f t) (s t) x in
        run (cont (fst res)) (upd_table s t (snd res))
    end.

  (* the process state after a history of earlier operations (their results are ignored; an operation
     that raises is an operation whose result is an error value) *)
  Fixpoint after (h : list op) (s : pstate) : pstate :=
    match h with [] => s | o :: r => after r (snd (run o s)) end.

  (* what the operation computes when every table answers with the computed value *)
  Fixpoint pure (o : op) : R :=
    match o with Done r => r | Ask t x cont => pure (cont (f t x)) end.

  Definition all_keyed_completely : Prop := forall t, factors_through_key (k t) (f t).

  Definition process_history_independent : Prop :=
    forall (h : list op) (o : op), fst (run o (after h fresh)) = fst (run o fresh).
End Proc.
Arguments upd_table {T K V} T_eq_dec s t m.
Arguments Done {T X V R} r.
Arguments Ask {T X V R} t x cont.
Arguments run {T X K V R} T_eq_dec K_eq_dec k f o s.
Arguments after {T X K V R} T_eq_dec K_eq_dec k f h s.
Arguments pure {T X V R} f o.
Arguments fresh {T K V}.
Arguments all_keyed_completely {T X K V} k f.
Arguments process_history_independent {T X K V R} T_eq_dec K_eq_dec k f.

(* translator data: one record per module-level mutable object found in the anchored modules *)
Inductive discipline :=
| KeyedBy (key_params fun_params : list string)   (* memo table: key built from key_params, miss computes from fun_params *)
| ResetPerOperation                               (* re-initialised by the operation before it is read (MustDef) *)
| WriteOnceAtImport                               (* filled while the module is imported, never written afterwards *)
| ScopedRestore                                   (* swapped by a context manager that restores it in a finally clause *)
| Uncontrolled.                                   (* anything else *)

Record state_site := { ps_module : string; ps_name : string; ps_discipline : discipline }.

Definition site_controlled (s : state_site) : bool :=
  match ps_discipline s with
  | KeyedBy kp fp => forallb (fun p => smem p kp) fp
  | ResetPerOperation | WriteOnceAtImport | ScopedRestore => true
  | Uncontrolled => false
  end.
Definition bad_state_sites (l : list state_site) : list string :=
  map (fun s => (ps_module s ++ ":" ++ ps_name s)%string) (filter (fun s => negb (site_controlled s)) l).
Definition keyed_sites (l : list state_site) : list state_site :=
  filter (fun s => match ps_discipline s with KeyedBy _ _ => true | _ => false end) l.

(* witness for the refutation: a table keyed by the op type only, requests are (op type, opset version) *)
Definition bad_k (t : unit) (x : string * nat) : string := fst x.
Definition bad_f (t : unit) (x : string * nat) : string * nat := impl_of x.
Definition ask_impl (x : string * nat) : op unit (string * nat) (string * nat) (string * nat) :=
  Ask tt x (fun v => Done v).
