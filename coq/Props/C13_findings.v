(* C13: the three catalogued defects of the exporter that remain (status known), each as an instance of a proved
   characterisation.  Statements only.

   1. C13:loop:trip-count-and-condition:not-reconvertible -- the exporter prints `for i in range(n): if not c: break; ...`
      exactly for Loop nodes of the form FForBreak (C13_forbreak_emits_break_head / C13_other_forms_emit_no_break_head), and the
      converter model refuses every loop body that starts with such a statement (C13_break_head_rejected).  The Python
      reading of the printed program is right (C13_export_nested_sound_partial with brk = true): the defect is that the
      text cannot be converted back.
   2. C13:loop:body-output-is-body-input:sequential-assignment -- the lines `x_k = y_k`, run top to bottom, compute the
      simultaneous assignment for every environment when no target is overwritten with another variable's value and
      read by a later line (C13_seq_assign_exact; hazardb); when the first line is such a target there are
      environments in which a later target ends with the NEW value (C13_seq_assign_hazard, any two distinct values).
      PARTIAL as an iff: the converse is proved for a hazard in the first line (the catalogued instance `a = b; b = a`
      is one), not for a hazard after a prefix of harmless lines.
   3. C13:names:missing-output-placeholder-collides -- the side condition placeholders_freeb of the soundness theorems
      fails exactly when a printed placeholder `_<i>` is the Python name of a value of the graph
      (C13_placeholders_free_iff); with it the round trip holds (C13_export_straightline_sound_partial), without it
      C13_export_placeholder_refuted (Props/C13_emit.v) is a graph whose exported function computes something else.
      Whether a collision changes the result depends on whether the overwritten value is still live: the iff is about
      the collision, not about the result. *)
From Coq Require Import List String Bool.
Import ListNotations.
Require Import OV.Graph.Syntax OV.Graph.Names OV.Script.Syntax OV.Script.Sets OV.Script.Translate OV.Script.TranslateForDefs OV.Script.TranslateNestDefs
               OV.Script.PySem OV.Export.Cleanup OV.Export.Emit OV.Export.EmitCF OV.Export.EmitCFProofs OV.Export.SeqAssign OV.Export.Findings.
Local Open Scope string_scope.

Theorem C13_break_head_rejected : forall globals cic afuel inputs fu lo_body c rest sc_b,
  tr_loop_body globals cic afuel inputs fu lo_body (SIf (EUn "Not" c) [SBreak] [] :: rest) sc_b = fail.
Proof. exact break_head_rejected. Qed.
Print Assumptions C13_break_head_rejected.

Theorem C13_forbreak_emits_break_head : forall rename infun il rm consts sub ins outs bn body t ss,
  emit_loop rename infun il rm consts sub ins outs [] ((bn, body) :: t) = Some ss ->
  loop_form_of ins body = Some FForBreak ->
  exists pre i n x inner post, ss = (pre ++ [SFor i n (SIf (EUn "Not" (EVar x)) [SBreak] [] :: inner)] ++ post)%list.
Proof. exact forbreak_emits_break_head. Qed.
Print Assumptions C13_forbreak_emits_break_head.

Theorem C13_other_forms_emit_no_break_head : forall rename infun il rm consts sub ins outs bn body t ss form,
  emit_loop rename infun il rm consts sub ins outs [] ((bn, body) :: t) = Some ss ->
  loop_form_of ins body = Some form -> form <> FForBreak ->
  exists pre loop post, ss = (pre ++ [loop] ++ post)%list /\
    match loop with SFor _ _ inner | SWhile _ inner => exists sb tail, sub body = Some sb /\ inner = (sb ++ tail)%list | _ => False end.
Proof. exact other_forms_emit_no_break_head. Qed.
Print Assumptions C13_other_forms_emit_no_break_head.

Theorem C13_seq_assign_exact : forall (V : Type) sem globals L R vs (pe : penv V),
  hazardb L R = false -> nodupb L = true -> List.length L = List.length R -> pvals V pe R = Some vs ->
  exists pe', passign V sem globals L R pe = Some pe' /\ pvals V pe' L = Some vs /\ (forall z, ~ In z L -> plookup V pe' z = plookup V pe z).
Proof. exact seq_assign_exact. Qed.
Print Assumptions C13_seq_assign_exact.

Theorem C13_seq_assign_hazard : forall (V : Type) sem globals x y l r (v0 v1 : V),
  x <> y -> In x r -> NoDup (x :: l) -> List.length l = List.length r -> v0 <> v1 ->
  exists pe a, In (a, x) (combine l r) /\ plookup V pe x = Some (PT V v0) /\ plookup V pe y = Some (PT V v1) /\
               exists pe', passign V sem globals (x :: l) (y :: r) pe = Some pe' /\ plookup V pe' a = Some (PT V v1).
Proof. exact seq_assign_hazard. Qed.
Print Assumptions C13_seq_assign_hazard.

(* the lines are what the emitted statements do; the soundness theorem's own side condition implies hazard-freedom *)
Theorem C13_assigns_are_passign : forall (V : Type) sem truth trip of_nat limit globals L R fu rest (pe : penv V),
  exec_block V sem truth trip of_nat limit globals (S fu) (assigns L R ++ rest)%list pe =
  match passign V sem globals L R pe with Some pe' => exec_block V sem truth trip of_nat limit globals (S fu) rest pe' | None => None end.
Proof. exact assigns_passign. Qed.
Print Assumptions C13_assigns_are_passign.

Theorem C13_seqokb_implies_no_hazard : forall L R, seqokb L R = true -> hazardb L R = false.
Proof. exact seqokb_no_hazard. Qed.
Print Assumptions C13_seqokb_implies_no_hazard.

Example C13_swap_is_hazard : hazardb ["a"; "b"] ["b"; "a"] = true /\ hazardb ["a"; "b"] ["a"; "b"] = false /\ hazardb ["a"; "b"] ["c"; "a2"] = false.
Proof. exact swap_is_hazard. Qed.

Theorem C13_placeholders_free_iff : forall rename g,
  placeholders_freeb rename g = false <->
  exists n p x, In n (g_nodes g) /\ In p (ph_names 0 (n_outs n)) /\ In x (gnames g) /\ rename x = p.
Proof. exact placeholders_free_iff. Qed.
Print Assumptions C13_placeholders_free_iff.
