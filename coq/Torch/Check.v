(* C08 -- correspondence checker: one `call` per traced torch_lib call, the skeleton observed on the real
   traced graph and the output observed on onnxruntime are compared with the models of Aten.v.
   Prints only indices (see `disagreeing`).  No proofs in this file. *)
From Coq Require Import ZArith List Bool String.
Require Import OV.Torch.Onnx OV.Torch.Aten OV.Torch.F32.
Import ListNotations.
Local Open Scope Z_scope.

Definition slabs := list (list Z).

Inductive arith := OpFloorDivS (code : Z) | OpFloorDivU | OpRemainder | OpFmod | OpDivModeInt (floor_mode : bool).
Inductive redk := RSum | RAmax | RMean.

Inductive call :=
| CFlatten (s : list Z) (start end_ : Z)
| CUnflatten (s : list Z) (dim : Z) (sizes : list Z)
| CSqueezeDim (s : list Z) (dim : Z)
| CSqueeze (s : list Z)
| CUnsqueeze (s : list Z) (dim : Z)
| CPermute (s dims : list Z)
| CTranspose (s : list Z) (d0 d1 : Z)
| CT (s : list Z)
| CExpand (s size : list Z)
| CView (s size : list Z)
| CReshape (s size : list Z)
| CRepeat (s reps : list Z)
| CTile (s dims : list Z)
| CCat (ss : list (list Z)) (dim : Z)
| CStack (ss : list (list Z)) (dim : Z)
| CReduce (k : redk) (s : list Z) (dims : option (list Z)) (keepdim : bool)
| CSelect (r dim : Z) (xs : slabs) (index : Z)
| CSlice (r dim : Z) (xs : slabs) (start end_ step : option Z)
| CNarrow (r dim : Z) (xs : slabs) (start length : Z)
| CSplit (r dim : Z) (xs : slabs) (c : Z)
| CSplitSizes (r dim : Z) (xs : slabs) (sizes : list Z)
| CChunk (r dim : Z) (xs : slabs) (k : Z)
| CRollDim (r s0 numel dim : Z) (xs : slabs) (shift : Z)
| CRollFlat (r s0 : Z) (xs : slabs) (shift : Z)
| CRollMulti (r s0 : Z) (shifts dims : list Z)            (* skeleton only *)
| CFlip1 (r dim : Z) (xs : slabs)
| CFlipMulti (dims : list Z)                               (* skeleton only *)
| CIndexSelect (r dim : Z) (xs : slabs) (idx : list Z)
| CCumsum (r dim : Z) (xs : slabs)
| CTrilu (upper : bool) (k : Z) (rows : slabs)
| CArith (op : arith) (a b : list Z)
| CClamp (xs : list Z) (lo hi : option Z)
| CClampT (xs : list Z) (lo hi : option (list Z))
| CArange (start end_ step : Z).

Inductive result :=
| RShape (s : list Z)
| RSlabs (axis : Z) (xs : slabs)
| RSlab (axis : Z) (x : list Z)
| RChunks (axis : Z) (cs : list slabs)
| RData (d : list Z)
| RNone                                                    (* nothing to compare beyond the skeleton *)
| RErr.                                                    (* tracing or onnxruntime refused *)

Definition oshape (o : option (list Z)) : option result := option_map RShape o.
Definition oslabs (o : option (Z * slabs)) : option result := option_map (fun p => RSlabs (fst p) (snd p)) o.
Definition ochunks (o : option (Z * list slabs)) : option result := option_map (fun p => RChunks (fst p) (snd p)) o.

Fixpoint zip_with {A B C} (f : A -> B -> C) (a : list A) (b : list B) : list C :=
  match a, b with x :: a', y :: b' => f x y :: zip_with f a' b' | _, _ => [] end.
Fixpoint mapi {A B} (f : Z -> A -> B) (i : Z) (l : list A) : list B :=
  match l with [] => [] | x :: t => f i x :: mapi f (i + 1) t end.
Definition bound_at (b : option (list Z)) (i : Z) : option Z :=
  match b with
  | None => None
  | Some [v] => Some v                                      (* 0-d bound broadcasts *)
  | Some l => nthZ l i
  end.

(* fixed-variant switch: the harness sets it from the skeleton it observed (see skel_narrow etc.) *)
Definition run_call (fixed : bool) (c : call) : option result :=
  match c with
  | CFlatten s a b => oshape (aten_flatten s a b)
  | CUnflatten s d sz => oshape (aten_unflatten s d sz)
  | CSqueezeDim s d => oshape (aten_squeeze_dim s d)
  | CSqueeze s => oshape (aten_squeeze s)
  | CUnsqueeze s d => oshape (aten_unsqueeze s d)
  | CPermute s p => oshape (aten_permute s p)
  | CTranspose s a b => oshape (aten_transpose s a b)
  | CT s => oshape (aten_t s)
  | CExpand s sz => oshape (aten_expand s sz)
  | CView s sz => oshape (aten_view s sz)
  | CReshape s sz => oshape (if fixed then aten_view s sz else aten_reshape s sz)
  | CRepeat s r => oshape (aten_repeat s r)
  | CTile s d => oshape (aten_tile s d)
  | CCat ss d => oshape (if fixed then aten_cat_fixed ss d else aten_cat ss d)
  | CStack ss d => oshape (aten_stack ss d)
  | CReduce RSum s ds k => oshape (aten_sum_dim s ds k)
  | CReduce RAmax s ds k => oshape (aten_amax s ds k)
  | CReduce RMean s ds k => oshape (aten_mean_dim s (match ds with Some l => l | None => [] end) k)
  | CSelect r d xs i => option_map (fun p => RSlab (fst p) (snd p)) (aten_select r d xs i)
  | CSlice r d xs a b st => oslabs (aten_slice r d xs a b st)
  | CNarrow r d xs a l => oslabs (aten_narrow fixed r d xs a l)
  | CSplit r d xs c => ochunks (aten_split r d xs c)
  | CSplitSizes r d xs sz => ochunks (aten_split_with_sizes r d xs sz)
  | CChunk r d xs k => ochunks (aten_chunk r d xs k)
  | CRollDim r s0 numel d xs sh =>
      if roll_identity r s0 then oslabs (option_map (fun a => (a, xs)) (norm_axis r d))
      else oslabs (aten_roll_dim fixed r numel d xs sh)
  | CRollFlat r s0 xs sh =>
      if roll_identity r s0 then Some (RSlabs 0 xs)
      else option_map (RSlabs 0) (aten_roll_flat fixed xs sh)
  | CRollMulti _ _ _ _ => Some RNone
  | CFlip1 r d xs => oslabs (aten_flip1 r d xs)
  | CFlipMulti _ => Some RNone
  | CIndexSelect r d xs idx => oslabs (aten_index_select r d xs idx)
  | CCumsum r d xs => oslabs (aten_cumsum r d xs)
  | CTrilu up k rows =>
      Some (RSlabs 0 (mapi (fun i row => mapi (fun j v => if trilu_keep up k i j then v else 0) 0 row) 0 rows))
  | CArith op a b =>
      Some (RData (zip_with (match op with
                             | OpFloorDivS _ => aten_floor_divide true
                             | OpFloorDivU => aten_floor_divide false
                             | OpRemainder => aten_remainder
                             | OpFmod => aten_fmod
                             | OpDivModeInt fm => aten_div_mode_int fm end) a b))
  | CClamp xs lo hi => Some (RData (map (fun x => aten_clamp x lo hi) xs))
  | CClampT xs lo hi =>
      Some (RData (mapi (fun i x => match lo, hi with
                                    | None, None => x
                                    | _, _ => aten_clamp_tensor x (bound_at lo i) (bound_at hi i) end) 0 xs))
  | CArange a b st => option_map RData (aten_arange a b st)
  end.

Definition skel_call (fixed : bool) (c : call) : skel :=
  match c with
  | CFlatten s a b => skel_flatten s a b
  | CUnflatten s d sz => skel_unflatten s d sz
  | CSqueezeDim s d => skel_squeeze_dim s d
  | CSqueeze _ => skel_squeeze
  | CUnsqueeze _ d => skel_unsqueeze d
  | CPermute _ p => skel_permute p
  | CTranspose s a b => skel_transpose s a b
  | CT s => skel_t s
  | CExpand _ sz => skel_expand sz
  | CView _ sz => skel_view sz
  | CReshape _ sz => if fixed then skel_view sz else skel_reshape sz
  | CRepeat _ r => skel_repeat r
  | CTile s d => skel_tile s d
  | CCat ss d => if fixed then skel_cat_fixed ss d else skel_cat ss d
  | CStack ss d => skel_stack ss d
  | CReduce RSum s ds k => skel_sum_dim s ds k
  | CReduce RAmax _ _ k => skel_amax fixed k
  | CReduce RMean s _ k => skel_mean_dim s k
  | CSelect _ d _ i => skel_select d i
  | CSlice _ d _ a b st => skel_slice d a b st
  | CNarrow _ d _ a l => skel_narrow fixed d a l
  | CSplit _ d _ c => skel_split d c
  | CSplitSizes _ d _ sz => skel_split_with_sizes d sz
  | CChunk _ d _ k => skel_chunk d k
  | CRollDim r s0 _ d _ sh => skel_roll fixed r s0 [sh] [d]
  | CRollFlat r s0 _ sh => skel_roll fixed r s0 [sh] []
  | CRollMulti r s0 shs ds => skel_roll fixed r s0 shs ds
  | CFlip1 _ d _ => skel_flip [d]
  | CFlipMulti ds => skel_flip ds
  | CIndexSelect r d _ _ => skel_index_select r d
  | CCumsum r d _ => skel_cumsum r d
  | CTrilu up k _ => skel_trilu up k
  | CArith (OpFloorDivS code) _ _ => skel_floor_divide true code
  | CArith OpFloorDivU _ _ => skel_floor_divide false 0
  | CArith OpRemainder _ _ => skel_remainder
  | CArith OpFmod _ _ => skel_fmod
  | CArith (OpDivModeInt fm) _ _ => skel_div_mode_int fm
  | CClamp _ lo hi => skel_clamp lo hi
  | CClampT _ lo hi => skel_clamp_tensor (match lo with Some _ => true | None => false end) (match hi with Some _ => true | None => false end)
  | CArange a b st => skel_arange a b st
  end.

(* ------------------------------------------------------------------ decidable equalities *)
Fixpoint list_eqb {A} (e : A -> A -> bool) (a b : list A) : bool :=
  match a, b with
  | [], [] => true
  | x :: a', y :: b' => e x y && list_eqb e a' b'
  | _, _ => false
  end.
Definition lz_eqb := list_eqb Z.eqb.
Definition slabs_eqb := list_eqb lz_eqb.
Definition skel_eqb : skel -> skel -> bool :=
  list_eqb (fun a b => String.eqb (fst a) (fst b) && list_eqb lz_eqb (snd a) (snd b)).
Definition result_eqb (a b : result) : bool :=
  match a, b with
  | RShape x, RShape y => lz_eqb x y
  | RSlabs i x, RSlabs j y => (i =? j) && slabs_eqb x y
  | RSlab i x, RSlab j y => (i =? j) && lz_eqb x y
  | RChunks i x, RChunks j y => (i =? j) && list_eqb slabs_eqb x y
  | RData x, RData y => lz_eqb x y
  | RNone, _ => true
  | RErr, RErr => true
  | _, _ => false
  end.

(* verdict per case (obs = what onnxruntime returned for the traced graph, want = what torch eager returned):
   0 agree; 1 skeleton differs; 2 output differs from the model; 3 the model calls the graph invalid
   (operator documents) but the runtime produced a value -- undefined behaviour, reported separately;
   4 output differs from the model while the model equals torch eager: the runtime deviates from the
   operator documents as transcribed in Onnx.v (reported separately, only accepted for listed kernels) *)
Definition case := (bool * call * skel * result * result)%type.
Definition verdict (c : case) : Z :=
  let '(fixed, cl, sk, obs, want) := c in
  match run_call fixed cl with
  | None => match obs with
            | RErr => 0
            | _ => if skel_eqb (skel_call fixed cl) sk then 3 else 1
            end
  | Some r =>
    if negb (skel_eqb (skel_call fixed cl) sk) then (match obs with RErr => 2 | _ => 1 end)
    else if result_eqb r obs then 0
    else if result_eqb r want then 4 else 2
  end.
Fixpoint verdicts (i : nat) (cs : list case) : list (nat * Z) :=
  match cs with
  | [] => []
  | c :: t => let v := verdict c in ((if v =? 0 then [] else [(i, v)]) ++ verdicts (S i) t)%list
  end.
(* flat encoding for printing: [i1; v1; i2; v2; ...] *)
Definition disagreeing (cs : list case) : list nat :=
  flat_map (fun p => [fst p; Z.to_nat (snd p)]) (verdicts 0 cs).
