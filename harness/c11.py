"""C11 -- tensor indexing and slicing mean what they mean in NumPy (DESIGN.md section 5, C11).

Model: coq/Index/{NumpySpec,OnnxSlice,ConverterIdx,EagerIdx}.v; theorems: coq/Props/C11.v.
Tie (correspondence, re-run on every check): script functions `return X[idx]` are generated, converted
and run on onnxruntime (graph), called eagerly, and evaluated by NumPy; for every case Coq compares
  * NumPy's result with NumpySpec.np_index                       (the specification side is NumPy),
  * the graph's result with run_conv (ConverterIdx + OnnxSlice)   (converter + ONNX op semantics),
  * the ops the converter emitted, with the runtime values of their index operands, with conv_ops,
  * eager's result with run_eager and the op calls eager mode made with eager_ops.
Direct oracle: graph == eager == NumPy, or an error.
"""
from __future__ import annotations

import itertools
import os
import shutil
import tempfile

import numpy as np

from harness import c11_impl as impl
from harness import common
from harness.common import clist, cz

PROPERTY = "C11"
LEVEL = "proof"
REQ = ["OV.Index.NumpySpec", "OV.Index.OnnxSlice", "OV.Index.ConverterIdx", "OV.Index.EagerIdx", "OV.Index.Corr"]


# ----------------------------------------------------------------------------- Coq literals

def c_bound(b):
    if b is None:
        return "BNone"
    if impl.is_dyn(b):
        return f"(BDyn {cz(b[1])})"
    return f"(BConst {cz(b)})"


def c_comp(c):
    k = c[0]
    if k == "int":
        return f"(CInt {cz(c[1])})"
    if k == "slice":
        return f"(CSlice {c_bound(c[1])} {c_bound(c[2])} {c_bound(c[3])})"
    if k == "t0":
        return f"(CT0 {cz(c[1])})"
    if k == "t1":
        return f"(CT1 {clist(c[1], cz)})"
    raise ValueError(c)


def c_outcome(o):
    if o is None:
        return "None"
    if o[0] == "err":
        return "(Some OErr)"
    a = o[1]
    return f"(Some (OOk {clist(a.shape, cz)} {clist(a.reshape(-1).tolist(), cz)}))"


def c_nat(n):
    n = int(n)
    if n < 0 or n > 64:
        raise ValueError(f"axis {n}")
    return f"{n}%nat"


def c_op(o):
    if o[0] == "Identity":
        return "OIdentity"
    if o[0] == "Slice":
        return "(OSlice " + clist([f"({cz(s)}, {cz(e)}, {c_nat(a)}, {cz(st)})" for s, e, a, st in o[1]]) + ")"
    if o[0] == "Squeeze":
        return "(OSqueeze " + clist(o[1], c_nat) + ")"
    if o[0] == "Gather":
        ix = o[2]
        if isinstance(ix, list):
            if any(isinstance(x, list) for x in ix):
                raise ValueError("Gather index of rank > 1")
            g = f"(G1 {clist(ix, cz)})"
        else:
            g = f"(G0 {cz(ix)})"
        return f"(OGather {c_nat(o[1])} {g})"
    raise ValueError(f"op {o[0]} has no model")


def c_case(shape, idx, o_np, o_graph, o_eager, skel, eskel):
    sk = "None" if skel is None else ("(Some None)" if skel == "refused" else f"(Some (Some {clist(skel, c_op)}))")
    es = "None" if eskel is None else f"(Some {clist(eskel, c_op)})"
    return (f"(mkcase {clist(shape, cz)} {clist(idx, c_comp)} {c_outcome(o_np)} {c_outcome(o_graph)} "
            f"{c_outcome(o_eager)} {sk} {es})")


# ----------------------------------------------------------------------------- structural classes (keys)

def _neg_start_hazard(shape, idx):
    """slice with negative step whose start lies below -d while the stop is omitted or below -d: ONNX Slice
    clamps the start to 0 and yields element 0, Python yields nothing."""
    for d, c in zip(shape, idx):
        if c[0] != "slice":
            continue
        a, b, s = (x[1] if impl.is_dyn(x) else x for x in c[1:4])
        if s is not None and s < 0 and d >= 1 and a is not None and a < -d and (b is None or b < -d):
            return True
    return False


def _removed_before_gather(front, idx):
    """an axis removed (constant int in the Slice path / rank-0 tensor) in front of a later Gather"""
    kinds = [c[0] for c in idx]
    if front == "eager":
        removed = [k for k, x in enumerate(kinds) if x in ("int", "t0")]
        gath = [k for k, x in enumerate(kinds) if x == "t1"]
        return any(r < g for r in removed for g in gath)
    # converter: Gathers are applied in the order tensor-valued (by axis), then the lone constant int
    nsl = sum(1 for c in idx if c[0] == "slice" and c[1:4] != (None, None, None))
    ints = [k for k, x in enumerate(kinds) if x == "int"]
    tens = [(k, x) for k, x in enumerate(kinds) if x in ("t0", "t1")]
    if nsl or len(ints) > 1:
        return any(r < g for r in ints for g, _ in tens) or \
            any(r < g for r, x in tens if x == "t0" for g, _ in tens)
    order = tens + [(k, "int") for k in ints]
    return any(order[i][1] in ("t0", "int") and order[i][0] < order[j][0]
               for i in range(len(order)) for j in range(i + 1, len(order)))


def classify(front, shape, idx):
    """Structural class of an expression on which a front end returned a tensor different from NumPy's."""
    n1 = sum(1 for c in idx if c[0] == "t1")
    if _neg_start_hazard(shape, idx):
        return "negative-step-start-below-minus-dim"
    if n1 >= 2:
        return "two-1d-tensor-indices"
    if _removed_before_gather(front, idx):
        return "gather-axis-after-removed-axis"
    if n1 == 1 and any(c[0] in ("int", "t0") for c in idx):
        return "scalar-and-1d-tensor-index-split-by-slice"
    return "unclassified:" + ",".join(c[0] for c in idx)


# ----------------------------------------------------------------------------- evaluation of a batch of cases

class Runner:
    """Converts forms on demand (batched per module file) and evaluates cases."""

    def __init__(self, ctx):
        self.ctx = ctx
        self.tmp = tempfile.mkdtemp(prefix="c11-")
        self.forms = {}          # form -> (fn | None, Graph | None, refusal text | None)

    def close(self):
        shutil.rmtree(self.tmp, ignore_errors=True)

    def prepare(self, idxs, batch=50):
        todo = {}
        for idx in idxs:
            f = impl.form_of(idx)
            if f not in self.forms and f not in todo:
                src, vals = impl.expr_source(idx)
                todo[f] = (src, len(vals))
        keys = list(todo)
        for i in range(0, len(keys), batch):
            chunk = keys[i:i + batch]
            loaded = impl.load_forms([todo[f] for f in chunk], self.tmp)
            for f, (fn, err) in zip(chunk, loaded):
                self.forms[f] = (fn, impl.Graph(fn) if fn is not None else None, err)

    def evaluate(self, shape, idx):
        """-> dict with the three outcomes and the two skeletons"""
        from onnxscript import tensor as ostensor
        X = np.arange(int(np.prod(shape)), dtype=np.int64).reshape(shape)
        src, vals = impl.expr_source(idx)
        fn, g, refusal = self.forms[impl.form_of(idx)]
        r = {"src": src, "vals": [v.tolist() for v in vals]}
        r["np"] = impl.numpy_run(src, X, vals)
        if fn is None:
            r["graph"] = ("err", "refused: " + refusal)
            r["skel"] = "refused"
            r["refused"] = refusal
            # the eager twin is still exercised, directly through Tensor.__getitem__
            r["eager"], r["eskel"] = impl.eager_getitem(X, idx)
            r["eager_user"] = ("err", "refused: " + refusal)
        else:
            r["graph"] = g.run(X, vals)
            r["skel"] = g.skeleton(vals) if g.proto is not None else None
            r["eager"], r["eskel"] = impl.eager_run(fn, X, vals)
            r["eager_user"] = r["eager"]
        return r


def same(a, b):
    return a[0] == "ok" and b[0] == "ok" and a[1].shape == b[1].shape and a[1].dtype == b[1].dtype \
        and np.array_equal(a[1], b[1])


def kinds_of(idx):
    out = []
    for c in idx:
        if c[0] == "slice":
            a, b, s = c[1:4]
            dyn = any(impl.is_dyn(x) for x in (a, b, s))
            sv = s[1] if impl.is_dyn(s) else s
            out.append("slice" + ("" if (a, b, s) != (None, None, None) else ":") + ("-" if sv is not None and sv < 0 else "")
                       + ("~" if dyn else ""))
        else:
            out.append(c[0] + ("-" if c[0] in ("int", "t0") and c[1] < 0 else ""))
    return tuple(out)


def process(ctx, runner, cases, stream, state):
    """Evaluate `cases` = [(shape, idx)], apply the direct oracle, and compare with the Coq models."""
    runner.prepare([idx for _, idx in cases])
    lits, metas = [], []
    for shape, idx in cases:
        r = runner.evaluate(shape, idx)
        ctx.case((stream, len(shape), kinds_of(idx)))
        state["n"] += 1
        o_np = r["np"]
        for front, o in (("converter", r["graph"]), ("eager", r["eager_user"])):
            state["outcomes"][(front, "ok" if o[0] == "ok" else "error", "np-ok" if o_np[0] == "ok" else "np-error")] += 1
            if o[0] != "ok":
                continue
            if o_np[0] == "ok" and same(o, o_np):
                continue
            # the front end returned a tensor and it is not NumPy's result
            cls = classify(front, shape, idx)
            ctx.violation(f"C11:{front}:{cls}",
                          f"{front}: X[{r['src']}] on shape {tuple(shape)} returns a tensor different from NumPy's",
                          {"front": front, "shape": list(shape), "idx": [list(c) for c in idx], "source": f"X[{r['src']}]",
                           "tensor_values": r["vals"],
                           "numpy": o_np[1].tolist() if o_np[0] == "ok" else o_np[1],
                           "numpy_shape": list(o_np[1].shape) if o_np[0] == "ok" else None,
                           "got": o[1].tolist(), "got_shape": list(o[1].shape)})
            state["diff"][(front, cls)] += 1
        skel = r["skel"]
        graph_o = r["graph"]
        if r.get("refused") and all(c[0] == "slice" and tuple(c[1:4]) == (None, None, None) for c in idx):
            # X[:] / X[:, :]: the Identity edge case of the converter currently dies with an AttributeError
            # (an error is allowed); the model says Identity. Not compared, counted.
            state["identity_refused"] += 1
            skel, graph_o = None, None
        lits.append(c_case(shape, idx, o_np, graph_o, r["eager"], skel, r["eskel"]))
        metas.append((shape, idx, r))
        if state["n"] % 97 == 1:
            ctx.sample({"stream": stream, "shape": list(shape), "expr": f"X[{r['src']}]", "tensor_values": r["vals"],
                        "numpy": o_np[1].tolist() if o_np[0] == "ok" else "error",
                        "graph": r["graph"][1].tolist() if r["graph"][0] == "ok" else "error",
                        "eager": r["eager"][1].tolist() if r["eager"][0] == "ok" else "error",
                        "emitted": repr(r["skel"])})
    state["pending"].append((stream, lits, metas))


EVALS = ["np_agrees", "graph_agrees false", "graph_agrees true", "skel_agrees false", "skel_agrees true",
         "eager_agrees false", "eager_agrees true", "eskel_agrees false", "eskel_agrees true"]


def _coq_shards(ctx, bodies, par=8, timeout=900):
    """Like ctx.coq_eval_shards (whose temp-file naming rewrites '-' in the scratch *directory* name and then fails
    to open the file); files are named by shard number inside ctx.cases_dir."""
    from concurrent.futures import ThreadPoolExecutor
    hdr = "From Coq Require Import List ZArith String Bool.\nImport ListNotations.\n"
    hdr += "".join(f"Require Import {r}.\n" for r in REQ)
    hdr += "Set Printing Width 1000000.\nSet Printing Depth 1000000.\n"
    base = getattr(ctx, "_c11_shard", 0)
    ctx._c11_shard = base + len(bodies)

    def one(k_body):
        k, body = k_body
        fn = os.path.join(ctx.cases_dir, f"c11_shard_{base + k}.v")
        with open(fn, "w") as f:
            f.write(hdr + body + "\n")
        rc, out = common.coqc_file(fn, timeout=timeout, cwd=ctx.cases_dir)
        return rc == 0, common.parse_evals(out), out

    with ThreadPoolExecutor(max_workers=par) as ex:
        return list(ex.map(one, enumerate(bodies)))


def coq_compare(ctx, state, shard=400):
    """Run the models in Coq over everything pending; decide which variant (pinned / proposed fix) the code is."""
    bodies, index = [], []
    for stream, lits, metas in state["pending"]:
        for i in range(0, len(lits), shard):
            body = f"Definition cases : list case := {clist(lits[i:i + shard])}.\n"
            body += "".join(f"Eval vm_compute in (failing ({e}) 0 cases).\n" for e in EVALS)
            bodies.append(body)
            index.append((stream, metas[i:i + shard]))
    res = _coq_shards(ctx, bodies)
    bad = {e: [] for e in EVALS}
    for (stream, metas), (ok, vals, raw) in zip(index, res):
        if not ok or len(vals) != len(EVALS):
            ctx.tie_broken("correspondence", f"{stream}:model-evaluation", raw[-1500:])
            continue
        for e, v in zip(EVALS, vals):
            for i in common.parse_nat_list(v):
                bad[e].append((stream, metas[i]))
    state["pending"] = []
    return bad


def report(ctx, bad, n_cases):
    def show(item):
        stream, (shape, idx, r) = item
        return (f"[{stream}] X[{r['src']}] shape {tuple(shape)} tensors {r['vals']}: numpy "
                f"{r['np'][1].tolist() if r['np'][0] == 'ok' else 'error'}, graph "
                f"{r['graph'][1].tolist() if r['graph'][0] == 'ok' else r['graph'][1][:80]}, eager "
                f"{r['eager'][1].tolist() if r['eager'][0] == 'ok' else r['eager'][1][:80]}, emitted {r['skel']!r}, "
                f"eager calls {r['eskel']!r}")

    b = bad["np_agrees"]
    ctx.obligation(f"correspondence NumPy = NumpySpec.np_index on {n_cases} cases", not b, show(b[0]) if b else "")
    if b:
        ctx.tie_broken("correspondence", "numpy-spec", show(b[0]))
    variants = {}
    for front, o_key, s_key in (("converter", "graph_agrees", "skel_agrees"), ("eager", "eager_agrees", "eskel_agrees")):
        chosen = None
        for fx in ("false", "true"):
            if not bad[f"{o_key} {fx}"] and not bad[f"{s_key} {fx}"]:
                chosen = fx
                break
        variants[front] = {"false": "pinned", "true": "gather-axis-fix", None: "neither"}[chosen]
        what = ("graph result on onnxruntime = run_conv and emitted Slice/Squeeze/Gather operands = conv_ops"
                if front == "converter" else "eager result = run_eager and eager op calls = eager_ops")
        ctx.obligation(f"correspondence {front}: {what} on {n_cases} cases (variant {variants[front]})", chosen is not None,
                       "" if chosen else show((bad[f"{o_key} false"] + bad[f"{s_key} false"])[0]))
        if chosen is None:
            # smallest disagreeing case of the pinned variant
            items = bad[f"{o_key} false"] + bad[f"{s_key} false"]
            items.sort(key=lambda it: (len(it[1][1]), len(it[1][0]), str(it[1][1])))
            ctx.tie_broken("correspondence", front, f"{len(items)} disagreeing cases; smallest: " + show(items[0]))
    return variants


# ----------------------------------------------------------------------------- generators

STEPS = [None, 1, 2, -1, -2]


def bounds_for(d):
    return [None] + list(range(-d - 1, d + 2))


def gen_axis_exhaustive(rank_pos=((1, 0),), dims=(1, 2, 3, 4)):
    """Every slice of the property's quantifier on one axis: start/stop in {None, -d-1..d+1}, step in STEPS;
    every int in [-d-1, d] (one past both ends), as a literal and as a rank-0 tensor.  (rank, axis position):
    the other axes get ':' in front and nothing behind."""
    for rank, pos in rank_pos:
        for d in dims:
            shape = tuple([2] * pos + [d] + [3] * (rank - pos - 1))
            pre = [("slice", None, None, None)] * pos
            for a, b, s in itertools.product(bounds_for(d), bounds_for(d), STEPS):
                yield shape, tuple(pre + [("slice", a, b, s)])
            for i in range(-d - 1, d + 1):
                yield shape, tuple(pre + [("int", i)])
                yield shape, tuple(pre + [("t0", i)])


def rand_comp(rng, d, weights=None):
    r = rng.random()
    if r < 0.22:
        return ("int", rng.randint(-d, d - 1))
    if r < 0.30:
        return ("slice", None, None, None)
    if r < 0.66:
        return ("slice", rng.choice(bounds_for(d)), rng.choice(bounds_for(d)), rng.choice(STEPS))
    if r < 0.72:
        def b():
            v = rng.choice(bounds_for(d))
            return v if v is None or rng.random() < 0.4 else ("t", v)
        s = rng.choice(STEPS)
        if s is not None and rng.random() < 0.3:
            s = ("t", s)
        return ("slice", b(), b(), s)
    if r < 0.86:
        return ("t0", rng.randint(-d, d - 1))
    return ("t1", [rng.randint(-d, d - 1) for _ in range(rng.randint(1, 3))])


def gen_random(rng, n, max_rank=3, dims=(1, 2, 3, 4)):
    for _ in range(n):
        rank = rng.randint(1, max_rank)
        shape = tuple(rng.choice(dims) for _ in range(rank))
        k = rng.randint(1, rank)
        yield shape, tuple(rand_comp(rng, shape[j]) for j in range(k))
