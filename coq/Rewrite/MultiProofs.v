(* C07 proofs, part 5: patterns with several output nodes (Rewrite/Multi.v).  The generalised application extends the
   single-root one; a closed node list stays closed under a generalised application satisfying multi_order_okb; the order
   rule rsort returns an ORDERED permutation of every closed list it accepts, so the container the implementation ends
   with after its sort is topologically ordered, wherever the replacement was inserted. *)
From Coq Require Import List String ZArith Bool Arith Lia Permutation.
Require Import OV.Graph.Syntax OV.Graph.Sem OV.Graph.Names OV.Graph.Wf OV.Graph.SemProofs.
Require Import OV.Rewrite.Apply OV.Rewrite.ApplyProofs OV.Rewrite.KeepProofs OV.Rewrite.Order OV.Rewrite.OrderProofs.
Require Import OV.Rewrite.State OV.Rewrite.Multi.
Import ListNotations.
Local Open Scope list_scope.

(* ---- the generalised application extends the single-root application ------------------------------------------------ *)
Lemma kept_nil_mask rm dead ns : kept rm dead [] ns = ns.
Proof. destruct ns; reflexivity. Qed.

Lemma lastb_nth : forall mask, lastb mask = nth (pred (List.length mask)) mask false.
Proof.
  induction mask as [|b t IH]; [reflexivity|]. destruct t as [|c t']; [reflexivity|].
  change (lastb (b :: c :: t')) with (lastb (c :: t')). rewrite IH. reflexivity.
Qed.

Theorem apply_multi_of_app : forall a ns, app_wf a ns = true -> apply_multi (of_app a) ns = apply_nodes a ns.
Proof.
  intros a ns W. unfold apply_multi, apply_nodes, of_app, mapp_wf. cbn [m_at m_mask m_new m_remove m_dead]. rewrite W.
  unfold app_wf in W. apply andb_true_iff in W. destruct W as [L B]. apply Nat.leb_le in L.
  destruct (a_mask a) as [|b mt] eqn:E; [cbn in B; discriminate|].
  assert (P : S (pred (List.length (b :: mt))) = List.length (b :: mt)) by (cbn; lia).
  rewrite P. rewrite <- lastb_nth. rewrite B.
  assert (Lt : Nat.ltb (pred (List.length (b :: mt))) (List.length ns) = true) by (apply Nat.ltb_lt; cbn in *; lia).
  rewrite Lt. assert (Le : Nat.leb (List.length (b :: mt)) (List.length ns) = true) by (apply Nat.leb_le; exact L).
  rewrite Le. cbn [andb]. rewrite firstn_all, skipn_all. rewrite kept_nil_mask. reflexivity.
Qed.

(* ---- relevance of the visible names through what the node READS ---------------------------------------------------- *)
Lemma topo_subs_rel subs : forall v v',
  (forall x, In x (names_subs subs) -> In x v -> In x v') -> topo_subs v subs = true -> topo_subs v' subs = true.
Proof.
  induction subs as [|[k g] t IH]; intros v v' R T; [reflexivity|].
  cbn [topo_subs] in *. apply andb_true_iff in T. destruct T as [Tg Tt]. apply andb_true_iff. split.
  - eapply topo_graph_rel; [|exact Tg]. intros x Hx. apply R. cbn [names_subs]. apply in_or_app; left; exact Hx.
  - eapply IH; [|exact Tt]. intros x Hx. apply R. cbn [names_subs]. apply in_or_app; right; exact Hx.
Qed.

Lemma topo_node_rel_uses n v v' :
  (forall x, In x (uses n) -> In x v -> In x v') -> topo_node v n = true -> topo_node v' n = true.
Proof.
  destruct n as [d o ins outs at_ subs]. unfold uses. cbn [n_ins n_subs]. intros R T.
  rewrite topo_node_eq in *. apply andb_true_iff in T. destruct T as [T1 T2]. apply andb_true_iff. split.
  - apply all_in_spec. intros x Hx. apply R; [apply in_or_app; left; exact Hx|]. eapply all_in_spec; eassumption.
  - eapply topo_subs_rel; [|exact T2]. intros x Hx. apply R. apply in_or_app; right; exact Hx.
Qed.

Lemma topo_node_incl n v v' : incl v v' -> topo_node v n = true -> topo_node v' n = true.
Proof. intros I. apply topo_node_rel_uses. intros x _ Hx. apply I; exact Hx. Qed.

Lemma uses_rename dead n : uses (rename_outs dead n) = uses n.
Proof. destruct n; reflexivity. Qed.

Lemma in_uses_nodes x l : In x (uses_nodes l) <-> exists n, In n l /\ In x (uses n).
Proof. unfold uses_nodes. rewrite in_flat_map. tauto. Qed.

Lemma in_defs_nodes x l : In x (defs_nodes l) <-> exists n, In n l /\ In x (n_outs n).
Proof. unfold defs_nodes. rewrite in_flat_map. tauto. Qed.

(* ---- the order rule returns an ordered permutation of a closed list -------------------------------------------------- *)
Lemma pick_sink_spec : forall post pre z rest, pick_sink pre post = Some (z, rest) ->
  sinkb z rest = true /\ Permutation (pre ++ post) (z :: rest).
Proof.
  induction post as [|n t IH]; intros pre z rest P; cbn in P; [discriminate|].
  destruct (sinkb n (pre ++ t)) eqn:S.
  - inversion P; subst. split; [exact S|]. apply Permutation_sym. apply Permutation_middle.
  - destruct (IH _ _ _ P) as [S' Pm]. split; [exact S'|]. rewrite <- app_assoc in Pm. exact Pm.
Qed.

(* every node of the list, when it is removed, is read by nobody that is removed later *)
Fixpoint sinks (P : list node) : Prop :=
  match P with
  | [] => True
  | z :: b => disjoint (n_outs z) (uses_nodes (z :: b)) /\ sinks b
  end.

Lemma uses_nodes_perm a b : Permutation a b -> forall x, In x (uses_nodes a) -> In x (uses_nodes b).
Proof.
  intros P x H. apply in_uses_nodes in H. destruct H as [n [Hn Hx]]. apply in_uses_nodes. exists n. split; [|exact Hx].
  eapply Permutation_in; eassumption.
Qed.

Lemma rsort_rev_spec : forall fuel L P, rsort_rev fuel L = Some P -> Permutation L P /\ sinks P.
Proof.
  induction fuel as [|f IH]; intros L P S.
  - destruct L; cbn in S; [inversion S; subst; split; [constructor|exact I]|discriminate].
  - destruct L as [|h t]; [cbn in S; inversion S; subst; split; [constructor|exact I]|].
    cbn [rsort_rev] in S. destruct (pick_sink [] (h :: t)) as [[z rest]|] eqn:K; [|discriminate].
    destruct (rsort_rev f rest) as [P'|] eqn:R; [|discriminate]. cbn in S. inversion S; subst P; clear S.
    destruct (pick_sink_spec _ _ _ _ K) as [Sk Pm]. destruct (IH _ _ R) as [Pr Sr]. cbn [List.app] in Pm.
    split.
    + eapply Permutation_trans; [exact Pm|]. apply perm_skip. exact Pr.
    + cbn [sinks]. split; [|exact Sr]. unfold sinkb in Sk. apply disjointb_sound in Sk.
      intros x Hx Hu. apply (Sk x Hx). eapply uses_nodes_perm; [|exact Hu]. apply perm_skip. apply Permutation_sym. exact Pr.
Qed.

Lemma sinks_topo vis : forall P, sinks P ->
  (forall n, In n P -> topo_node (defs_nodes P ++ vis) n = true) -> topo_nodes vis (rev P) = true.
Proof.
  induction P as [|z b IH]; intros S C; [reflexivity|].
  cbn [sinks] in S. destruct S as [Sz Sb]. cbn [rev]. apply topo_nodes_app. split.
  - apply IH; [exact Sb|]. intros n Hn. eapply topo_node_rel_uses; [|apply C; right; exact Hn].
    intros x Hx Hv. unfold defs_nodes in Hv. cbn [flat_map] in Hv. rewrite <- app_assoc in Hv.
    apply in_app_or in Hv. destruct Hv as [Hv|Hv]; [|exact Hv].
    exfalso. apply (Sz x Hv). apply in_uses_nodes. exists n. split; [right; exact Hn|exact Hx].
  - cbn [topo_nodes]. rewrite andb_true_r. eapply topo_node_rel_uses; [|apply C; left; reflexivity].
    unfold vis_after. intros x Hx Hv. unfold defs_nodes in Hv. cbn [flat_map] in Hv. rewrite <- app_assoc in Hv.
    apply in_app_or in Hv. destruct Hv as [Hv|Hv].
    + exfalso. apply (Sz x Hv). apply in_uses_nodes. exists z. split; [left; reflexivity|exact Hx].
    + apply in_app_or in Hv. apply in_or_app. destruct Hv as [Hv|Hv]; [left|right; exact Hv].
      apply in_defs_nodes in Hv. destruct Hv as [d [Hd Hxd]]. apply in_defs_nodes. exists d. split; [|exact Hxd].
      apply in_rev in Hd. exact Hd.
Qed.

Lemma defs_perm a b : Permutation a b -> forall x, In x (defs_nodes a) -> In x (defs_nodes b).
Proof.
  intros P x H. apply in_defs_nodes in H. destruct H as [n [Hn Hx]]. apply in_defs_nodes. exists n. split; [|exact Hx].
  eapply Permutation_in; eassumption.
Qed.

Theorem rsort_ordered : forall vis ns l, closedb vis ns = true -> rsort ns = Some l ->
  topo_nodes vis l = true /\ Permutation ns l.
Proof.
  intros vis ns l C S. unfold rsort in S.
  destruct (rsort_rev (List.length ns) (rev ns)) as [P|] eqn:R; [|discriminate]. cbn in S. inversion S; subst l; clear S.
  destruct (rsort_rev_spec _ _ _ R) as [Pm Sk].
  assert (PP : Permutation ns P) by (eapply Permutation_trans; [apply Permutation_rev|exact Pm]).
  split.
  - apply sinks_topo; [exact Sk|]. intros n Hn. unfold closedb in C. rewrite forallb_forall in C.
    eapply topo_node_incl; [|apply C; eapply Permutation_in; [apply Permutation_sym; exact PP|exact Hn]].
    intros x Hx. apply in_app_or in Hx. apply in_or_app. destruct Hx as [Hx|Hx]; [left|right; exact Hx].
    eapply defs_perm; eassumption.
  - eapply Permutation_trans; [exact PP|apply Permutation_rev].
Qed.

(* an ordered list is closed *)
Lemma topo_nodes_each : forall ns vis n, topo_nodes vis ns = true -> In n ns -> topo_node (defs_nodes ns ++ vis) n = true.
Proof.
  induction ns as [|h t IH]; intros vis n T I; [destruct I|].
  cbn [topo_nodes] in T. apply andb_true_iff in T. destruct T as [Th Tt]. destruct I as [<-|I].
  - eapply topo_node_incl; [|exact Th]. intros x Hx. apply in_or_app; right; exact Hx.
  - eapply topo_node_incl; [|apply (IH _ _ Tt I)]. intros x Hx. unfold defs_nodes. cbn [flat_map].
    fold (defs_nodes t). repeat rewrite in_app_iff in *. tauto.
Qed.

Theorem ordered_closed : forall vis ns, topo_nodes vis ns = true -> closedb vis ns = true.
Proof. intros vis ns T. unfold closedb. apply forallb_forall. intros n Hn. eapply topo_nodes_each; eassumption. Qed.

(* ---- a generalised application keeps a closed list closed -------------------------------------------------------------- *)
Lemma kept_split rm dead : forall k mask ns,
  kept rm dead mask ns = kept rm dead (firstn k mask) (firstn k ns) ++ kept rm dead (skipn k mask) (skipn k ns).
Proof.
  induction k as [|k IH]; intros mask ns.
  - cbn [firstn skipn]. rewrite kept_nil_mask. reflexivity.
  - destruct mask as [|b mt].
    + rewrite kept_nil_mask. replace (firstn (S k) (@nil bool)) with (@nil bool) by reflexivity.
      replace (skipn (S k) (@nil bool)) with (@nil bool) by reflexivity. rewrite !kept_nil_mask. symmetry. apply firstn_skipn.
    + destruct ns as [|n t]; [cbn; destruct (skipn k mt); reflexivity|].
      cbn [firstn skipn kept]. rewrite (IH mt t). rewrite app_assoc. reflexivity.
Qed.

(* a node of the list is matched, or survives unchanged *)
Lemma in_sel_or_kept rm dead : forall mask ns n, In n ns -> In n (sel mask ns) \/ In n (kept rm dead mask ns).
Proof.
  induction mask as [|b mt IH]; intros ns n I.
  - right. rewrite kept_nil_mask. exact I.
  - destruct ns as [|h t]; [destruct I|]. cbn [sel kept]. destruct I as [<-|I].
    + destruct b; [left; apply in_or_app; left; left; reflexivity|right; apply in_or_app; left; left; reflexivity].
    + destruct (IH t n I) as [H|H]; [left|right]; apply in_or_app; right; exact H.
Qed.

(* a survivor is a node of the list, possibly with dead output names *)
Lemma in_kept rm dead : forall mask ns u, In u (kept rm dead mask ns) ->
  exists n, In n ns /\ (u = n \/ u = rename_outs dead n).
Proof.
  induction mask as [|b mt IH]; intros ns u I.
  - rewrite kept_nil_mask in I. exists u. auto.
  - destruct ns as [|h t]; [destruct I|]. cbn [kept] in I. apply in_app_or in I. destruct I as [I|I].
    + unfold keep1 in I. destruct b; [destruct rm; [destruct I|]|]; destruct I as [<-|[]]; exists h; split; auto; left; reflexivity.
    + destruct (IH t u I) as [n [Hn E]]. exists n. split; [right; exact Hn|exact E].
Qed.

Theorem apply_multi_closed : forall vis m ns ns',
  closedb vis ns = true -> multi_order_okb vis m ns = true -> apply_multi m ns = Some ns' -> closedb vis ns' = true.
Proof.
  intros vis m ns ns' C O A. unfold apply_multi in A. unfold multi_order_okb in O.
  apply andb_true_iff in O. destruct O as [O O3]. apply andb_true_iff in O. destruct O as [O1 O2].
  rewrite O1 in A. inversion A; subst ns'; clear A.
  set (K := m_kept m ns) in *. set (prov := defs_nodes K ++ defs_nodes (m_new m) ++ vis) in *.
  set (k := S (m_at m)) in *.
  set (K1 := kept (m_remove m) (m_dead m) (firstn k (m_mask m)) (firstn k ns)).
  set (K2 := kept (m_remove m) (m_dead m) (skipn k (m_mask m)) (skipn k ns)).
  assert (EK : K = K1 ++ K2) by (unfold K, m_kept, K1, K2; apply kept_split).
  assert (Inc : incl prov (defs_nodes (K1 ++ m_new m ++ K2) ++ vis)).
  { intros x Hx. unfold prov in Hx. rewrite EK in Hx. unfold defs_nodes in *. rewrite !flat_map_app. rewrite flat_map_app in Hx.
    repeat rewrite in_app_iff in *. tauto. }
  assert (Surv : forall u, In u K -> topo_node prov u = true).
  { intros u Hu. unfold K, m_kept in Hu. destruct (in_kept _ _ _ _ _ Hu) as [n [Hn E]].
    unfold closedb in C. rewrite forallb_forall in C. pose proof (C n Hn) as Tn.
    assert (Tu : topo_node (defs_nodes ns ++ vis) u = true) by (destruct E as [->| ->]; [exact Tn|rewrite topo_node_rename; exact Tn]).
    eapply topo_node_rel_uses; [|exact Tu]. intros x Hx Hv. apply in_app_or in Hv. destruct Hv as [Hv|Hv].
    - apply in_defs_nodes in Hv. destruct Hv as [d [Hd Hxd]].
      destruct (in_sel_or_kept (m_remove m) (m_dead m) (m_mask m) ns d Hd) as [Hs|Hk].
      + rewrite forallb_forall in O3.
        assert (Hm : In x (defs_nodes (m_matched m ns))) by (apply in_defs_nodes; exists d; split; assumption).
        specialize (O3 x Hm). apply orb_true_iff in O3. destruct O3 as [H|H]; [|apply mem_In in H; exact H].
        apply negb_true_iff in H. exfalso.
        assert (Q : mem x (uses_nodes K) = true) by (apply mem_In; apply in_uses_nodes; exists u; split; [exact Hu|exact Hx]).
        congruence.
      + unfold prov. apply in_or_app; left. apply in_defs_nodes. exists d. split; assumption.
    - unfold prov. apply in_or_app; right. apply in_or_app; right. exact Hv. }
  unfold closedb. apply forallb_forall. intros n Hn. eapply topo_node_incl; [exact Inc|].
  apply in_app_or in Hn. destruct Hn as [Hn|Hn]; [apply Surv; rewrite EK; apply in_or_app; left; exact Hn|].
  apply in_app_or in Hn. destruct Hn as [Hn|Hn]; [|apply Surv; rewrite EK; apply in_or_app; right; exact Hn].
  rewrite forallb_forall in O2. apply O2. exact Hn.
Qed.

(* the container after insertion at the visited output node and the sort: ordered, for every host list, every mask,
   every insertion point and every replacement satisfying the executable conditions *)
Theorem multi_output_insert_topological : forall vis m ns ns' l,
  topo_nodes vis ns = true -> multi_order_okb vis m ns = true ->
  apply_multi m ns = Some ns' -> rsort ns' = Some l ->
  topo_nodes vis l = true /\ Permutation ns' l.
Proof.
  intros vis m ns ns' l T O A S. eapply rsort_ordered; [|exact S].
  eapply apply_multi_closed; [apply ordered_closed; exact T|exact O|exact A].
Qed.

(* several generalised applications in a row (a pass over one node list), then the sort *)
Fixpoint apply_multis (l : list mapp) (ns : list node) : option (list node) :=
  match l with
  | [] => Some ns
  | m :: t => match apply_multi m ns with Some ns' => apply_multis t ns' | None => None end
  end.

Fixpoint multi_order_all (vis : list vname) (l : list mapp) (ns : list node) : bool :=
  match l with
  | [] => true
  | m :: t => multi_order_okb vis m ns && match apply_multi m ns with Some ns' => multi_order_all vis t ns' | None => false end
  end.

Theorem multi_pass_then_sort_topological : forall vis l ns ns' r,
  topo_nodes vis ns = true -> multi_order_all vis l ns = true -> apply_multis l ns = Some ns' -> rsort ns' = Some r ->
  topo_nodes vis r = true /\ Permutation ns' r.
Proof.
  intros vis l ns ns' r T O A S. eapply rsort_ordered; [|exact S]. apply ordered_closed in T.
  revert ns T O A. induction l as [|m t IH]; intros ns C O A; cbn in *.
  - inversion A; subst; exact C.
  - apply andb_true_iff in O. destruct O as [O1 O2]. destruct (apply_multi m ns) as [n1|] eqn:E; [|discriminate].
    eapply IH; [|exact O2|exact A]. eapply apply_multi_closed; eassumption.
Qed.

(* the sort leaves an ordered list alone ("the sort is stable, sorted graphs are unchanged") -- on an example; the order rule
   succeeds on the witness of C07_multi_output_needs_sort *)
Definition ex_m_nodes : list node :=
  [Node "" "Abs" [Some "v"] ["b"] [] []; Node "" "Relu" [Some "b"] ["c"] [] [];
   Node "" "Neg" [Some "v"] ["a"] [] []; Node "" "Add" [Some "a"; Some "c"] ["w"] [] []]%string.
(* pattern (Neg(v), Abs(v)) visited at the Abs node: the replacement re-emits both after it *)
Definition ex_m_app : mapp :=
  MApp [true; false; true] 0
       [Node "" "Neg" [Some "v"] ["a"] [] []; Node "" "Abs" [Some "v"] ["b"] [] []]%string true [].
Definition ex_m_spliced : list node :=
  [Node "" "Neg" [Some "v"] ["a"] [] []; Node "" "Abs" [Some "v"] ["b"] [] [];
   Node "" "Relu" [Some "b"] ["c"] [] []; Node "" "Add" [Some "a"; Some "c"] ["w"] [] []]%string.
(* visited at the Neg node instead: the replacement lands after Relu, a consumer of b *)
Definition ex_m_app2 : mapp :=
  MApp [true; false; true] 2
       [Node "" "Neg" [Some "v"] ["a"] [] []; Node "" "Abs" [Some "v"] ["b"] [] []]%string true [].
Definition ex_m_spliced2 : list node :=
  [Node "" "Relu" [Some "b"] ["c"] [] []; Node "" "Neg" [Some "v"] ["a"] [] [];
   Node "" "Abs" [Some "v"] ["b"] [] []; Node "" "Add" [Some "a"; Some "c"] ["w"] [] []]%string.
Definition ex_m_sorted2 : list node :=
  [Node "" "Abs" [Some "v"] ["b"] [] []; Node "" "Relu" [Some "b"] ["c"] [] [];
   Node "" "Neg" [Some "v"] ["a"] [] []; Node "" "Add" [Some "a"; Some "c"] ["w"] [] []]%string.

Theorem ex_multi_insert :
  topo_nodes ["v"%string] ex_m_nodes = true /\
  multi_order_okb ["v"%string] ex_m_app ex_m_nodes = true /\ apply_multi ex_m_app ex_m_nodes = Some ex_m_spliced /\
  rsort ex_m_spliced = Some ex_m_spliced /\
  multi_order_okb ["v"%string] ex_m_app2 ex_m_nodes = true /\ apply_multi ex_m_app2 ex_m_nodes = Some ex_m_spliced2 /\
  topo_nodes ["v"%string] ex_m_spliced2 = false /\ rsort ex_m_spliced2 = Some ex_m_sorted2 /\
  topo_nodes ["v"%string] ex_m_sorted2 = true.
Proof. repeat split; vm_compute; reflexivity. Qed.

(* ---- the forward stable sort of Rewrite/Order.v SUCCEEDS whenever an order exists (completes C07_sort_ordered_partial) --- *)
Lemma pick_ready_some vis : forall ns, (exists n, In n ns /\ topo_node vis n = true) -> exists r, pick_ready vis ns = Some r.
Proof.
  induction ns as [|h t IH]; intros [n [I T]]; [destruct I|]. cbn [pick_ready].
  destruct (topo_node vis h) eqn:Th; [eexists; reflexivity|].
  destruct I as [<-|I]; [congruence|]. destruct (IH (ex_intro _ n (conj I T))) as [[m t'] E]. rewrite E. eexists; reflexivity.
Qed.

Theorem stable_sort_complete : forall k ns vis l', List.length ns = k -> Permutation ns l' -> topo_nodes vis l' = true ->
  exists l, stable_sort k vis ns = Some l.
Proof.
  induction k as [|k IH]; intros ns vis l' L P T.
  - destruct ns; [exists []; reflexivity|discriminate].
  - destruct ns as [|h t]; [discriminate|]. cbn [stable_sort].
    assert (R : exists r, pick_ready vis (h :: t) = Some r).
    { apply pick_ready_some. destruct l' as [|h' t']; [apply Permutation_sym, Permutation_nil in P; discriminate|].
      exists h'. split; [eapply Permutation_in; [apply Permutation_sym; exact P|left; reflexivity]|].
      cbn [topo_nodes] in T. apply andb_true_iff in T. tauto. }
    destruct R as [[n rest] E]. rewrite E. destruct (pick_ready_spec _ _ _ _ E) as [Tn Pn].
    assert (In n l') by (eapply Permutation_in; [exact P|eapply Permutation_in; [apply Permutation_sym; exact Pn|left; reflexivity]]).
    destruct (in_split _ _ H) as [l1 [l2 ->]].
    assert (Pr : Permutation rest (l1 ++ l2)).
    { eapply Permutation_cons_app_inv. eapply Permutation_trans; [apply Permutation_sym; exact Pn|exact P]. }
    apply topo_nodes_app in T. destruct T as [T1 T2]. cbn [topo_nodes] in T2. apply andb_true_iff in T2. destruct T2 as [_ T2].
    assert (T' : topo_nodes (n_outs n ++ vis) (l1 ++ l2) = true).
    { apply topo_nodes_app. split.
      - eapply topo_nodes_incl; [|exact T1]. intros x Hx. apply in_or_app; right; exact Hx.
      - eapply topo_nodes_incl; [|exact T2]. unfold vis_after. intros x Hx. repeat rewrite in_app_iff in *. tauto. }
    assert (Lr : List.length rest = k).
    { apply Permutation_length in Pn. cbn in Pn, L. lia. }
    destruct (IH rest (n_outs n ++ vis) (l1 ++ l2) Lr Pr T') as [l El]. rewrite El. eexists; reflexivity.
Qed.

(* the sort succeeds exactly when an ordered arrangement exists, and then returns one *)
Theorem stable_sort_iff : forall vis ns,
  (exists l', Permutation ns l' /\ topo_nodes vis l' = true) <->
  (exists l, stable_sort (List.length ns) vis ns = Some l /\ topo_nodes vis l = true /\ Permutation ns l).
Proof.
  intros vis ns. split.
  - intros [l' [P T]]. destruct (stable_sort_complete _ ns vis l' eq_refl P T) as [l E].
    exists l. split; [exact E|]. eapply stable_sort_ordered; exact E.
  - intros [l [_ [T P]]]. exists l. split; assumption.
Qed.

(* ---- the order rule succeeds whenever an order exists, and leaves an ordered list alone -------------------------------------- *)
(* names are unique (outputs of the list, visible names) and a name of the list that a node mentions among its reads is
   needed by that node from outside -- i.e. it is not also a name defined inside one of its nested graphs.  Both hold for
   the token graphs of the tie (every value has its own token); `flat_sep`: the second is automatic without nested graphs *)
Lemma NoDup_app_r {A} (a b : list A) : NoDup (a ++ b) -> NoDup b.
Proof. induction a as [|h t IH]; cbn; intro N; [exact N|]. inversion N; subst. apply IH; assumption. Qed.

Lemma NoDup_app_disj {A} (a b : list A) x : NoDup (a ++ b) -> In x a -> ~ In x b.
Proof.
  induction a as [|h t IH]; cbn; intros N I; [destruct I|]. inversion N; subst. destruct I as [->|I].
  - intro Q. apply H1. apply in_or_app. right. exact Q.
  - apply IH; assumption.
Qed.

Definition sep (ns : list node) : Prop :=
  forall u x, In u ns -> In x (uses u) -> In x (defs_nodes ns) -> forall v, topo_node v u = true -> In x v.

Lemma flat_sep : forall ns, forallb (fun n => match n_subs n with [] => true | _ => false end) ns = true -> sep ns.
Proof.
  intros ns F u x Hu Hx _ v T. rewrite forallb_forall in F. specialize (F u Hu).
  destruct u as [d o ins outs at_ subs]. cbn [n_subs] in F. destruct subs; [|discriminate].
  unfold uses in Hx. cbn [n_ins n_subs names_subs] in Hx. rewrite app_nil_r in Hx.
  rewrite topo_node_eq in T. apply andb_true_iff in T. destruct T as [T _]. eapply all_in_spec; eassumption.
Qed.

Lemma sep_perm a b : Permutation a b -> sep a -> sep b.
Proof.
  intros P S u x Hu Hx Hd. apply (S u x); [eapply Permutation_in; [apply Permutation_sym; exact P|exact Hu]|exact Hx|].
  eapply defs_perm; [apply Permutation_sym; exact P|exact Hd].
Qed.

Lemma NoDup_defs_perm a b vis : Permutation a b -> NoDup (defs_nodes a ++ vis) -> NoDup (defs_nodes b ++ vis).
Proof.
  intros P N. eapply Permutation_NoDup; [|exact N]. apply Permutation_app_tail.
  unfold defs_nodes. apply Permutation_flat_map. exact P.
Qed.

(* in an ordered list with unique names, nobody reads what the last node defines *)
Lemma last_is_sink vis : forall a z, topo_nodes vis (a ++ [z]) = true -> NoDup (defs_nodes (a ++ [z]) ++ vis) -> sep (a ++ [z]) ->
  disjoint (n_outs z) (uses_nodes (a ++ [z])).
Proof.
  intros a z T N S x Hz Hu. apply in_uses_nodes in Hu. destruct Hu as [u [Hu Hx]].
  assert (Hd : In x (defs_nodes (a ++ [z]))) by (apply in_defs_nodes; exists z; split; [apply in_or_app; right; left; reflexivity|exact Hz]).
  unfold defs_nodes in N. rewrite flat_map_app in N. cbn [flat_map] in N. rewrite app_nil_r in N. rewrite <- app_assoc in N.
  (* x is in (n_outs z): it occurs neither in the definitions of a nor in vis *)
  assert (Nx : ~ In x (flat_map n_outs a) /\ ~ In x vis).
  { split.
    - intro Q. apply (NoDup_app_disj _ _ x N Q). apply in_or_app. left. exact Hz.
    - apply (NoDup_app_disj _ _ x (NoDup_app_r _ _ N) Hz). }
  destruct Nx as [Na Nv].
  apply in_app_or in Hu. destruct Hu as [Hu|[<-|[]]].
  - destruct (in_split _ _ Hu) as [l1 [l2 ->]]. rewrite <- app_assoc in T. apply topo_nodes_app in T. destruct T as [_ T].
    cbn [List.app topo_nodes] in T. apply andb_true_iff in T. destruct T as [Tu _].
    assert (Iu : In u ((l1 ++ u :: l2) ++ [z])) by (apply in_or_app; left; apply in_or_app; right; left; reflexivity).
    pose proof (S u x Iu Hx Hd _ Tu) as Q. unfold vis_after in Q. apply in_app_or in Q. destruct Q as [Q|Q]; [|exact (Nv Q)].
    apply Na. unfold defs_nodes in Q. rewrite flat_map_app. apply in_or_app. left. exact Q.
  - apply topo_nodes_app in T. destruct T as [_ T]. cbn [topo_nodes] in T. apply andb_true_iff in T. destruct T as [Tz _].
    assert (Iz : In z (a ++ [z])) by (apply in_or_app; right; left; reflexivity).
    pose proof (S z x Iz Hx Hd _ Tz) as Q. unfold vis_after in Q. apply in_app_or in Q. destruct Q as [Q|Q]; [exact (Na Q)|exact (Nv Q)].
Qed.

Lemma uses_nodes_rev l x : In x (uses_nodes (rev l)) <-> In x (uses_nodes l).
Proof. split; apply uses_nodes_perm; [apply Permutation_sym|]; apply Permutation_rev. Qed.

Lemma disjointb_complete a b : disjoint a b -> disjointb a b = true.
Proof.
  intro D. unfold disjointb. apply forallb_forall. intros x Hx. apply negb_true_iff.
  destruct (mem x b) eqn:E; [|reflexivity]. apply mem_In in E. exfalso. exact (D x Hx E).
Qed.

Theorem rsort_sorted_id : forall vis ns, topo_nodes vis ns = true -> NoDup (defs_nodes ns ++ vis) -> sep ns -> rsort ns = Some ns.
Proof.
  intros vis ns T N S. unfold rsort.
  assert (R : rsort_rev (List.length ns) (rev ns) = Some (rev ns)).
  { revert T N S. induction ns as [|z a IH] using rev_ind; intros T N S; [reflexivity|].
    rewrite rev_app_distr. cbn [rev List.app]. rewrite app_length. cbn [List.length]. rewrite Nat.add_1_r.
    cbn [rsort_rev pick_sink List.app].
    assert (K : sinkb z (rev a) = true).
    { unfold sinkb. apply disjointb_complete. intros x Hz Hu. apply (last_is_sink vis a z T N S x Hz).
      apply in_uses_nodes in Hu. destruct Hu as [u [Hu Hx]]. apply in_uses_nodes. exists u. split; [|exact Hx].
      destruct Hu as [<-|Hu]; [apply in_or_app; right; left; reflexivity|apply in_or_app; left; apply in_rev; exact Hu]. }
    rewrite K. rewrite IH; [reflexivity| | |].
    - apply topo_nodes_app in T. tauto.
    - unfold defs_nodes in *. rewrite flat_map_app in N. rewrite <- app_assoc in N. clear - N.
      induction (flat_map n_outs a) as [|y t IHt]; cbn in *; [eapply NoDup_app_r; exact N|].
      inversion N; subst. constructor; [intro Q; apply H1; apply in_app_or in Q; apply in_or_app; destruct Q as [Q|Q]; [left; exact Q|right; apply in_or_app; right; exact Q]|apply IHt; exact H2].
    - intros u x Hu Hx Hd. apply (S u x); [apply in_or_app; left; exact Hu|exact Hx|].
      unfold defs_nodes in *. rewrite flat_map_app. apply in_or_app. left. exact Hd. }
  rewrite R. cbn. rewrite rev_involutive. reflexivity.
Qed.

(* removing a sink from an ordered list leaves an ordered list *)
Lemma remove_sink_ordered vis : forall l1 z l2, topo_nodes vis (l1 ++ z :: l2) = true ->
  disjoint (n_outs z) (uses_nodes (l1 ++ z :: l2)) -> topo_nodes vis (l1 ++ l2) = true.
Proof.
  intros l1 z l2 T D. apply topo_nodes_app in T. destruct T as [T1 T2]. cbn [topo_nodes] in T2. apply andb_true_iff in T2.
  destruct T2 as [_ T2]. apply topo_nodes_app. split; [exact T1|].
  assert (G : forall l v, (forall x, In x (uses_nodes l) -> ~ In x (n_outs z)) -> topo_nodes (n_outs z ++ v) l = true -> topo_nodes v l = true).
  { induction l as [|n t IHl]; intros v U Tl; [reflexivity|]. cbn [topo_nodes] in *. apply andb_true_iff in Tl. destruct Tl as [Tn Tt].
    apply andb_true_iff. split.
    - eapply topo_node_rel_uses; [|exact Tn]. intros x Hx Hv. apply in_app_or in Hv. destruct Hv as [Hv|Hv]; [|exact Hv].
      exfalso. apply (U x); [apply in_uses_nodes; exists n; split; [left; reflexivity|exact Hx]|exact Hv].
    - apply IHl; [intros x Hx; apply U; apply in_uses_nodes in Hx; destruct Hx as [m [Hm Hxm]]; apply in_uses_nodes; exists m; split; [right; exact Hm|exact Hxm]|].
      eapply topo_nodes_incl; [|exact Tt]. intros x Hx. repeat rewrite in_app_iff in *. tauto. }
  apply G; [|exact T2]. intros x Hx Hz. apply (D x Hz). apply in_uses_nodes in Hx. destruct Hx as [m [Hm Hxm]].
  apply in_uses_nodes. exists m. split; [apply in_or_app; right; right; exact Hm|exact Hxm].
Qed.

Lemma pick_sink_some : forall post pre, (exists z, In z post /\ disjoint (n_outs z) (uses_nodes (pre ++ post))) ->
  exists r, pick_sink pre post = Some r.
Proof.
  induction post as [|n t IH]; intros pre [z [Hz D]]; [destruct Hz|]. cbn [pick_sink].
  destruct (sinkb n (pre ++ t)) eqn:K; [eexists; reflexivity|]. apply IH. exists z. split.
  - destruct Hz as [<-|Hz]; [|exact Hz]. exfalso. unfold sinkb in K.
    assert (Q : disjointb (n_outs n) (uses_nodes (n :: pre ++ t)) = true).
    { apply disjointb_complete. intros x Hx Hu. apply (D x Hx). eapply uses_nodes_perm; [|exact Hu]. apply Permutation_middle. }
    congruence.
  - rewrite <- app_assoc. exact D.
Qed.

Theorem rsort_rev_complete : forall k L vis l', List.length L = k -> Permutation L l' -> topo_nodes vis l' = true ->
  NoDup (defs_nodes L ++ vis) -> sep L -> exists P, rsort_rev k L = Some P.
Proof.
  induction k as [|k IH]; intros L vis l' Len P T N S.
  - destruct L; [exists []; reflexivity|discriminate].
  - destruct L as [|h t]; [discriminate|]. cbn [rsort_rev].
    assert (E : exists r, pick_sink [] (h :: t) = Some r).
    { apply pick_sink_some. destruct (exists_last (l := l')) as [a [z ->]].
      { intro Q. subst l'. apply Permutation_sym, Permutation_nil in P. discriminate. }
      exists z. split; [eapply Permutation_in; [apply Permutation_sym; exact P|apply in_or_app; right; left; reflexivity]|].
      cbn [List.app]. intros x Hz Hu. apply (last_is_sink vis a z T (NoDup_defs_perm _ _ _ P N) (sep_perm _ _ P S) x Hz).
      eapply uses_nodes_perm; [exact P|exact Hu]. }
    destruct E as [[z rest] E]. rewrite E. destruct (pick_sink_spec _ _ _ _ E) as [K Pz]. cbn [List.app] in Pz.
    assert (Iz : In z l') by (eapply Permutation_in; [exact P|eapply Permutation_in; [apply Permutation_sym; exact Pz|left; reflexivity]]).
    destruct (in_split _ _ Iz) as [l1 [l2 ->]].
    assert (Pr : Permutation rest (l1 ++ l2)).
    { eapply Permutation_cons_app_inv. eapply Permutation_trans; [apply Permutation_sym; exact Pz|exact P]. }
    assert (Dz : disjoint (n_outs z) (uses_nodes (l1 ++ z :: l2))).
    { unfold sinkb in K. apply disjointb_sound in K. intros x Hx Hu. apply (K x Hx). eapply uses_nodes_perm; [|exact Hu].
      eapply Permutation_trans; [apply Permutation_sym; exact P|exact Pz]. }
    pose proof (remove_sink_ordered vis l1 z l2 T Dz) as T'.
    assert (Lr : List.length rest = k) by (apply Permutation_length in Pz; cbn in Pz, Len; lia).
    assert (Nr : NoDup (defs_nodes rest ++ vis)).
    { pose proof (NoDup_defs_perm _ _ vis Pz N) as Q. unfold defs_nodes in Q. cbn [flat_map] in Q. rewrite <- app_assoc in Q.
      eapply NoDup_app_r. exact Q. }
    assert (Sr : sep rest).
    { pose proof (sep_perm _ _ Pz S) as Q. intros u x Hu Hx Hd. apply (Q u x); [right; exact Hu|exact Hx|].
      unfold defs_nodes. cbn [flat_map]. apply in_or_app. right. exact Hd. }
    destruct (IH rest vis (l1 ++ l2) Lr Pr T' Nr Sr) as [P' EP]. rewrite EP. eexists; reflexivity.
Qed.

(* the order rule accepts exactly the lists that can be ordered (unique names), and then returns an ordered permutation *)
Theorem rsort_complete : forall vis ns l', Permutation ns l' -> topo_nodes vis l' = true ->
  NoDup (defs_nodes ns ++ vis) -> sep ns ->
  exists l, rsort ns = Some l /\ topo_nodes vis l = true /\ Permutation ns l.
Proof.
  intros vis ns l' P T N S.
  assert (Pr : Permutation (rev ns) l') by (eapply Permutation_trans; [apply Permutation_sym, Permutation_rev|exact P]).
  destruct (rsort_rev_complete (List.length ns) (rev ns) vis l' (rev_length ns) Pr T
              (NoDup_defs_perm _ _ vis (Permutation_rev ns) N) (sep_perm _ _ (Permutation_rev ns) S)) as [Q E].
  assert (R : rsort ns = Some (rev Q)) by (unfold rsort; rewrite E; reflexivity).
  exists (rev Q). split; [exact R|]. eapply rsort_ordered; [|exact R].
  unfold closedb. apply forallb_forall. intros n Hn. eapply topo_node_incl; [|eapply topo_nodes_each; [exact T|eapply Permutation_in; [exact P|exact Hn]]].
  intros x Hx. apply in_app_or in Hx. apply in_or_app. destruct Hx as [Hx|Hx]; [left|right; exact Hx].
  eapply defs_perm; [apply Permutation_sym; exact P|exact Hx].
Qed.

Lemma nodupb_NoDup' : forall l, nodupb l = true -> NoDup l.
Proof.
  induction l as [|x t IH]; intro H; [constructor|]. cbn in H. apply andb_true_iff in H. destruct H as [H1 H2].
  constructor; [|apply IH; exact H2]. intro Q. apply mem_In in Q. rewrite Q in H1. discriminate.
Qed.

(* the hypotheses of rsort_sorted_id / rsort_complete are satisfiable (the spliced list of ex_multi_insert) *)
Theorem ex_order_rule_hyps :
  topo_nodes ["v"%string] ex_m_spliced = true /\ NoDup (defs_nodes ex_m_spliced ++ ["v"%string]) /\ sep ex_m_spliced /\
  NoDup (defs_nodes ex_m_spliced2 ++ ["v"%string]) /\ sep ex_m_spliced2.
Proof.
  split; [reflexivity|]. split; [apply nodupb_NoDup'; reflexivity|]. split; [apply flat_sep; reflexivity|].
  split; [apply nodupb_NoDup'; reflexivity|apply flat_sep; reflexivity].
Qed.
