(* Soundness of one merge of the common-subexpression model (Opt/Cse.v) under `merge_guard`, and of the checked
   iteration `cse_checked`, for arbitrary (deterministic: a function) kernel semantics; the faithful key equality (Python
   `==` on float attributes) is refuted as a sufficient condition: 0.0 and -0.0 give equal keys. *)
From Coq Require Import List String ZArith Bool Lia.
Require Import OV.Graph.Syntax OV.Graph.Sem OV.Graph.Names OV.Graph.SemProofs OV.Opt.Fold OV.Opt.SemLemmas.
Require Import OV.Opt.Dce OV.Opt.DceProofs OV.Opt.Cse.
Import ListNotations.
Local Open Scope list_scope.

Lemma list_eqb_eq {A} (f : A -> A -> bool) : (forall x y, f x y = true -> x = y) -> forall a b, list_eqb f a b = true -> a = b.
Proof.
  intros H. induction a as [|x s IH]; intros [|y t]; cbn; try discriminate; [reflexivity|].
  intro E. apply andb_true_iff in E. destruct E as [E1 E2]. f_equal; [apply H; exact E1|apply IH; exact E2].
Qed.
Lemma zeqb_eq x y : Z.eqb x y = true -> x = y.
Proof. apply Z.eqb_eq. Qed.
Lemma seqb_eq x y : String.eqb x y = true -> x = y.
Proof. apply String.eqb_eq. Qed.
Lemma oname_eqb_eq x y : oname_eqb x y = true -> x = y.
Proof. destruct x, y; cbn; try discriminate; [|reflexivity]. intro E. apply String.eqb_eq in E. subst. reflexivity. Qed.
Lemma attr_eqb_eq a b : attr_eqb a b = true -> a = b.
Proof.
  destruct a, b; cbn; try discriminate; intro E;
    repeat (apply andb_true_iff in E; let E2 := fresh "E" in destruct E as [E E2]);
    repeat match goal with
           | H : Z.eqb _ _ = true |- _ => apply Z.eqb_eq in H
           | H : String.eqb _ _ = true |- _ => apply String.eqb_eq in H
           | H : list_eqb Z.eqb _ _ = true |- _ => apply (list_eqb_eq _ zeqb_eq) in H
           | H : list_eqb String.eqb _ _ = true |- _ => apply (list_eqb_eq _ seqb_eq) in H
           end; subst; reflexivity.
Qed.
Lemma attrs_list_eqb_eq a b : attrs_list_eqb a b = true -> a = b.
Proof.
  apply list_eqb_eq. intros [k x] [k' y]. cbn. intro E. apply andb_true_iff in E. destruct E as [E1 E2].
  apply String.eqb_eq in E1. apply attr_eqb_eq in E2. subst. reflexivity.
Qed.
Lemma disjointb_ok a b : disjointb a b = true -> disjoint a b.
Proof.
  unfold disjointb. intros H x Hx Hb. rewrite forallb_forall in H. specialize (H x Hx).
  apply negb_true_iff in H. apply mem_true_iff in Hb. congruence.
Qed.
Lemma disjoint_sym a b : disjoint a b -> disjoint b a.
Proof. intros D x Hx Ha. exact (D x Ha Hx). Qed.

Lemma ren_id yb ya x : ~ In x yb -> ren (combine yb ya) x = x.
Proof.
  revert ya. induction yb as [|y t IH]; intros [|a s] H; cbn; try reflexivity.
  destruct (String.eqb x y) eqn:E; [apply String.eqb_eq in E; subst; cbn in H; tauto|]. apply IH. cbn in H. tauto.
Qed.
Lemma ren_range yb ya x : ren (combine yb ya) x = x \/ In (ren (combine yb ya) x) ya.
Proof.
  revert ya. induction yb as [|y t IH]; intros [|a s]; cbn; auto.
  destruct (String.eqb x y); [right; left; reflexivity|]. destruct (IH s) as [H|H]; auto.
Qed.

Section P.
  Variable V : Type.
  Variable sem : string -> string -> list (string * attrv) -> list (option V) -> option (list V).
  Variable truth : V -> option bool.
  Variable trip : V -> option nat.
  Variable of_nat : nat -> V.
  Variable of_bool : bool -> V.
  Variable limit : nat.

  Notation env := (list (vname * V)).
  Notation eval_node := (eval_node V sem truth trip of_nat of_bool limit).
  Notation run := (run V sem truth trip of_nat of_bool limit).
  Notation eval_graph := (eval_graph V sem truth trip of_nat of_bool limit).
  Notation agree_except := (agree_except V).

  Lemma skip_app (b e : env) x : ~ In x (map fst b) -> lookup (b ++ e) x = lookup e x.
  Proof.
    induction b as [|[y v] t IH]; cbn; [reflexivity|]. intro H.
    destruct (String.eqb x y) eqn:E; [apply String.eqb_eq in E; subst; tauto|apply IH; tauto].
  Qed.

  Lemma run_agree_defs ev ns e e' : run ev e ns = Some e' -> agree_except (defs_nodes ns) e' e.
  Proof.
    intro H. destruct (run_shape V sem truth trip of_nat of_bool limit ev ns e e' H) as [b [-> Hb]].
    intros x Hx. apply skip_app. intro Hin. apply Hx, Hb, Hin.
  Qed.

  Lemma lookups_bind_nodup xs vs (e a : env) : nodupb xs = true -> bind xs vs e = Some a -> lookups a xs = Some vs.
  Proof.
    revert vs a. induction xs as [|x t IH]; intros [|v vt] a N; cbn; try discriminate.
    - intro H; inversion H; reflexivity.
    - cbn in N. apply andb_true_iff in N. destruct N as [N1 N2].
      destruct (bind t vt e) as [r|] eqn:B; cbn; [|discriminate]. intro H; inversion H; subst. cbn.
      rewrite String.eqb_refl.
      match goal with |- context [lookups ?E t] => assert (L : lookups E t = lookups r t) end.
      { clear - N1. induction t as [|y s IHs]; cbn; [reflexivity|].
        cbn in N1. apply negb_true_iff in N1. apply orb_false_iff in N1. destruct N1 as [N1 N3].
        rewrite String.eqb_sym in N1. rewrite N1. rewrite IHs; [reflexivity|]. apply negb_true_iff. exact N3. }
      rewrite L, (IH vt r N2 B). reflexivity.
  Qed.

  (* the outputs of the removed twin are the outputs of the earlier one, read through rho *)
  Lemma bind_ren yb : forall ya rs (e eb : env), bind yb rs e = Some eb -> lookups e ya = Some rs ->
    forall x v, lookup eb x = Some v -> lookup e (ren (combine yb ya) x) = Some v.
  Proof.
    induction yb as [|y t IH]; intros ya rs e eb; destruct rs as [|r rt]; cbn; try discriminate.
    - intro H; inversion H; subst. intros _ x v L. destruct ya; exact L.
    - destruct (bind t rt e) as [eb'|] eqn:B; cbn; [|discriminate]. intro H; inversion H; subst.
      destruct ya as [|a s]; cbn; [discriminate|].
      destruct (lookup e a) as [va|] eqn:La; [|discriminate].
      destruct (lookups e s) as [vs|] eqn:Ls; [|discriminate]. intro H2; inversion H2; subst.
      intros x v. cbn. destruct (String.eqb x y).
      + intro H3; inversion H3; subst. exact La.
      + apply (IH s rt e eb' B Ls).
  Qed.

  Definition sim (yb ya : list vname) (e e' : env) : Prop :=
    agree_except yb e e' /\ forall x v, lookup e x = Some v -> lookup e' (ren (combine yb ya) x) = Some v.

  Lemma bind_sim yb ya outs : disjoint outs (ya ++ yb) -> forall vals (e e' a a' : env), sim yb ya e e' ->
    bind outs vals e = Some a -> bind outs vals e' = Some a' -> sim yb ya a a'.
  Proof.
    intros D vals e e' a a' [A M] B B'. split.
    - pose proof (agree_bind V yb e e' outs vals A) as H. rewrite B, B' in H. exact H.
    - revert vals a a' B B' D. induction outs as [|o ot IH]; intros [|v0 vt] a a'; cbn; try discriminate.
      + intros H1 H2 _; inversion H1; inversion H2; subst. exact M.
      + destruct (bind ot vt e) as [r|] eqn:E1; cbn; [|discriminate].
        destruct (bind ot vt e') as [r'|] eqn:E2; cbn; [|discriminate].
        intros H1 H2 D; inversion H1; inversion H2; subst.
        assert (Dt : disjoint ot (ya ++ yb)) by (intros z Hz; apply D; right; exact Hz).
        assert (Do : ~ In o (ya ++ yb)) by (apply D; left; reflexivity).
        intros x v. cbn. destruct (String.eqb x o) eqn:Exo.
        * apply String.eqb_eq in Exo. subst x. intro H3. rewrite (ren_id yb ya o) by (intro Hi; apply Do, in_or_app; right; exact Hi).
          rewrite String.eqb_refl. exact H3.
        * intro H3. pose proof (IH vt r r' E1 E2 Dt x v H3) as H4.
          destruct (String.eqb (ren (combine yb ya) x) o) eqn:Ero; [|exact H4].
          apply String.eqb_eq in Ero. destruct (ren_range yb ya x) as [R|R].
          -- rewrite R in Ero. subst. rewrite String.eqb_refl in Exo. discriminate.
          -- rewrite Ero in R. exfalso. apply Do, in_or_app. left. exact R.
  Qed.

  Lemma node_sim F yb ya n e e' a : sim yb ya e e' ->
    disjoint (n_outs n) (ya ++ yb) -> disjoint yb (names_subs (n_subs n)) ->
    eval_node (eval_graph F) e n = Some a ->
    exists a', eval_node (eval_graph F) e' (use_top (ren (combine yb ya)) n) = Some a' /\ sim yb ya a a'.
  Proof.
    intros S Do Ds H. destruct n as [dom op ins outs attrs subs]. cbn [use_top n_outs n_subs] in *.
    destruct S as [A M].
    destruct (eval_node_refines V sem truth trip of_nat of_bool limit (eval_graph F) (eval_graph F) e e'
                (ren (combine yb ya)) dom op ins outs attrs subs subs a M) as [vals [B [a' [E' B']]]].
    - intros name sg Fs. exists sg. split; [exact Fs|]. intros args r Hr.
      rewrite <- (eval_graph_agree V sem truth trip of_nat of_bool limit yb F e e' sg args A
                    (find_sub_names yb name subs sg Fs Ds)). exact Hr.
    - exact H.
    - exists a'. split; [exact E'|]. exact (bind_sim yb ya outs Do vals e e' a a' (conj A M) B B').
  Qed.

  Lemma run_sim F yb ya suf : forall e e' a, sim yb ya e e' ->
    Forall (fun n => disjoint (n_outs n) (ya ++ yb) /\ disjoint yb (names_subs (n_subs n))) suf ->
    run (eval_graph F) e suf = Some a ->
    exists a', run (eval_graph F) e' (map (use_top (ren (combine yb ya))) suf) = Some a' /\ sim yb ya a a'.
  Proof.
    induction suf as [|n t IH]; intros e e' a S G; cbn [Sem.run map].
    - intro H; inversion H; subst. exists e'. split; [reflexivity|exact S].
    - inversion G as [|? ? [G1 G2] Gt]; subst.
      destruct (eval_node (eval_graph F) e n) as [a1|] eqn:E; [|discriminate]. intro H.
      destruct (node_sim F yb ya n e e' a1 S G1 G2 E) as [a1' [E' S1]]. rewrite E'. exact (IH a1 a1' a S1 Gt H).
  Qed.

  Lemma opt_tail (x : option env) (af : env) go (r : list V) : x = Some af -> lookups af go = Some r ->
    match x with Some e => lookups e go | None => None end = Some r.
  Proof. intros -> H. exact H. Qed.

  (* the statement with the side conditions as propositions *)
  Theorem merge_sound_props : forall F outer gi gn p dom op ins attrs ya yb mid suf go args r,
    is_if dom op = false -> is_loop dom op = false ->
    nodupb ya = true -> disjoint ya (present ins) -> disjoint (defs_nodes mid) (present ins ++ ya) -> disjoint yb go ->
    Forall (fun n => disjoint (n_outs n) (ya ++ yb) /\ disjoint yb (names_subs (n_subs n))) suf ->
    eval_graph (S F) outer (Graph gi gn ((p ++ Node dom op ins ya attrs [] :: mid) ++ Node dom op ins yb attrs [] :: suf) go) args = Some r ->
    eval_graph (S F) outer (Graph gi gn ((p ++ Node dom op ins ya attrs [] :: mid) ++ map (use_top (ren (combine yb ya))) suf) go) args = Some r.
  Proof.
    intros F outer gi gn p dom op ins attrs ya yb mid suf go args r NI NL Nya Dai Dmid Dgo G.
    cbn [Sem.eval_graph]. unfold Sem.eval_body. cbn [g_ins g_nodes g_outs].
    destruct (bind gi args outer) as [e0|]; [|auto].
    rewrite !(run_app V sem truth trip of_nat of_bool limit (eval_graph F) e0 (p ++ Node dom op ins ya attrs [] :: mid)).
    destruct (run (eval_graph F) e0 (p ++ Node dom op ins ya attrs [] :: mid)) as [em|] eqn:Rm; [|auto].
    (* the state after the earlier twin *)
    rewrite (run_app V sem truth trip of_nat of_bool limit) in Rm.
    destruct (run (eval_graph F) e0 p) as [ep|]; [|discriminate].
    cbn [Sem.run] in Rm.
    destruct (eval_node (eval_graph F) ep (Node dom op ins ya attrs [])) as [ea|] eqn:Ea; [|discriminate].
    unfold Sem.eval_node in Ea. rewrite NI, NL in Ea.
    destruct (lookup_opts ep ins) as [vs|] eqn:Li; [|discriminate].
    destruct (sem dom op attrs vs) as [rs|] eqn:Se; [|discriminate].
    pose proof (run_agree_defs _ _ _ _ Rm) as Am.
    assert (Lya : lookups em ya = Some rs).
    { rewrite (agree_lookups V (defs_nodes mid) em ea ya Am).
      - exact (lookups_bind_nodup ya rs ep ea Nya Ea).
      - intros x Hx Hy. apply (Dmid x Hx). apply in_or_app. right. exact Hy. }
    assert (Lim : lookup_opts em ins = Some vs).
    { rewrite (agree_lookup_opts V (defs_nodes mid) em ea ins Am).
      - destruct (bind_shape V ya rs ep ea Ea) as [b [-> Hb]].
        rewrite <- Li. apply (agree_lookup_opts V ya).
        + intros x Hx. apply skip_app. rewrite Hb. exact Hx.
        + exact Dai.
      - intros x Hx Hy. apply (Dmid x Hx). apply in_or_app. left. exact Hy. }
    cbn [Sem.run]. unfold Sem.eval_node at 1. rewrite NI, NL, Lim, Se.
    destruct (bind yb rs em) as [eb|] eqn:Bb; [|discriminate].
    assert (S0 : sim yb ya eb em).
    { split.
      - destruct (bind_shape V yb rs em eb Bb) as [b [-> Hb]]. intros x Hx. apply skip_app. rewrite Hb. exact Hx.
      - exact (bind_ren yb ya rs em eb Bb Lya). }
    destruct (run (eval_graph F) eb suf) as [af|] eqn:Rs; [|discriminate].
    destruct (run_sim F yb ya suf eb em af S0 G Rs) as [af' [Rs' [Af _]]].
    intro Hl. apply (opt_tail _ af' go r Rs'). rewrite <- (agree_lookups V yb af af' go Af Dgo). exact Hl.
  Qed.

  Lemma forallb_Forall {A} (f : A -> bool) (P : A -> Prop) l : (forall x, f x = true -> P x) -> forallb f l = true -> Forall P l.
  Proof.
    intro H. induction l as [|x t IH]; cbn; [constructor|]. intro E. apply andb_true_iff in E. destruct E as [E1 E2].
    constructor; [apply H; exact E1|apply IH; exact E2].
  Qed.

  Theorem merge_sound : forall F outer gi gn p a mid b suf go args r,
    merge_guard go a mid b suf = true ->
    eval_graph (S F) outer (Graph gi gn ((p ++ a :: mid) ++ b :: suf) go) args = Some r ->
    eval_graph (S F) outer (Graph gi gn ((p ++ a :: mid) ++ map (use_top (ren (combine (n_outs b) (n_outs a)))) suf) go) args = Some r.
  Proof.
    intros F outer gi gn p [da oa ia ya aa sa] mid [db ob ib yb ab sb] suf go args r G.
    unfold merge_guard in G. cbn [n_dom n_op n_ins n_outs n_attrs n_subs] in G.
    apply andb_true_iff in G as [G G14]. apply andb_true_iff in G as [G G13]. apply andb_true_iff in G as [G G12].
    apply andb_true_iff in G as [G G11]. apply andb_true_iff in G as [G G10]. apply andb_true_iff in G as [G G9].
    apply andb_true_iff in G as [G G8]. apply andb_true_iff in G as [G G7]. apply andb_true_iff in G as [G G6].
    apply andb_true_iff in G as [G G5]. apply andb_true_iff in G as [G G4]. apply andb_true_iff in G as [G G3].
    apply andb_true_iff in G as [G1 G2].
    apply String.eqb_eq in G1, G2. apply (list_eqb_eq _ oname_eqb_eq) in G3. apply attrs_list_eqb_eq in G4.
    destruct sa; [|discriminate]. destruct sb; [|discriminate]. subst db ob ib ab.
    cbn [n_outs].
    apply merge_sound_props.
    - unfold is_if. apply negb_true_iff in G6. destruct (String.eqb da ""); [|reflexivity]. cbn in *.
      apply orb_false_iff in G6. tauto.
    - unfold is_loop. apply negb_true_iff in G6. destruct (String.eqb da ""); [|reflexivity]. cbn in *.
      apply orb_false_iff in G6. tauto.
    - exact G8.
    - apply disjointb_ok. exact G10.
    - apply disjointb_ok. exact G12.
    - apply disjointb_ok. exact G13.
    - eapply forallb_Forall; [|exact G14]. intros n Hn. apply andb_true_iff in Hn. destruct Hn as [H1 H2].
      split; apply disjointb_ok; assumption.
  Qed.

  Definition grefines (g g' : graph) : Prop :=
    forall F outer args r, eval_graph (S F) outer g args = Some r -> eval_graph (S F) outer g' args = Some r.

  Lemma split_twin_app el n : forall pre p a m, split_twin el n pre = Some (p, a, m) -> pre = p ++ a :: m.
  Proof.
    induction pre as [|x t IH]; intros p a m; cbn; [discriminate|].
    destruct (el x && key_eqb x n).
    - intro H; inversion H; subst. reflexivity.
    - destruct (split_twin el n t) as [[[p' a'] m']|]; [|discriminate]. intro H; inversion H; subst.
      rewrite (IH p' a m eq_refl). reflexivity.
  Qed.

  Lemma find_dup_app el : forall ns pre p a mid b suf, find_dup el pre ns = Some (p, a, mid, b, suf) -> pre ++ ns = (p ++ a :: mid) ++ b :: suf.
  Proof.
    induction ns as [|n t IH]; intros pre p a mid b suf; cbn; [discriminate|].
    assert (K : find_dup el (pre ++ [n]) t = Some (p, a, mid, b, suf) -> pre ++ n :: t = (p ++ a :: mid) ++ b :: suf).
    { intro H. rewrite <- (IH _ _ _ _ _ _ H). rewrite <- app_assoc. reflexivity. }
    destruct (el n); [|exact K].
    destruct (split_twin el n pre) as [[[p' a'] m']|] eqn:S; [|exact K]. intro H; inversion H; subst.
    rewrite (split_twin_app _ _ _ _ _ _ S). reflexivity.
  Qed.

  Theorem cse_step_checked_sound : forall g g', cse_step_checked g = Some (Some g') -> grefines g g'.
  Proof.
    intros [gi ii ns go] g'. cbn [cse_step_checked].
    destruct (find_dup eligible [] ns) as [[[[[p a] mid] b] suf]|] eqn:Fd; [|discriminate].
    destruct (merge_guard go a mid b suf) eqn:G; [|discriminate]. intro H; inversion H; subst; clear H.
    pose proof (find_dup_app _ _ _ _ _ _ _ _ Fd) as E. cbn [app] in E. subst ns.
    intros F outer args r. apply merge_sound. exact G.
  Qed.

  Theorem cse_iter_checked_sound : forall fuel g g', cse_iter_checked fuel g = Some g' -> grefines g g'.
  Proof.
    induction fuel as [|f IH]; intros g g'; cbn [cse_iter_checked].
    - intro H; inversion H; subst. intros F outer args r X; exact X.
    - destruct (cse_step_checked g) as [[g1|]|] eqn:S.
      + intro H. intros F outer args r X. apply (IH g1 g' H). apply (cse_step_checked_sound g g1 S). exact X.
      + discriminate.
      + intro H; inversion H; subst. intros F outer args r X; exact X.
  Qed.

  Theorem cse_checked_sound : forall g g', cse_checked g = Some g' -> grefines g g'.
  Proof. intros g g'. apply cse_iter_checked_sound. Qed.
End P.

(* ---- C04: the interface survives *)
Lemma cse_step_signature skip g g' skip' : cse_step skip g = Some (g', skip') -> g_ins g' = g_ins g /\ g_outs g' = g_outs g.
Proof.
  destruct g as [gi ii ns go]. cbn [cse_step]. destruct (find_dup _ [] ns) as [[[[[p a] mid] b] suf]|]; [|discriminate].
  intro H; inversion H; subst. cbn. auto.
Qed.
Theorem cse_signature : forall g, g_ins (cse g) = g_ins g /\ g_outs (cse g) = g_outs g.
Proof.
  intro g. unfold cse. generalize (List.length (g_nodes g)). generalize (@nil vname). intros skip n. revert skip g.
  induction n as [|n IH]; intros skip g; cbn [cse_iter]; [auto|].
  destruct (cse_step skip g) as [[g1 skip1]|] eqn:S; [|auto].
  destruct (cse_step_signature skip g g1 skip1 S) as [A B]. destruct (IH skip1 g1) as [C D]. rewrite C, D, A, B. auto.
Qed.

Local Open Scope string_scope.
(* ---- the key equality of the pass is coarser than equality of attributes: 0.0 == -0.0 *)
Definition k_sem (dom op : string) (attrs : list (string * attrv)) (xs : list (option Z)) : option (list Z) :=
  if String.eqb op "K" then match attrs with [(_, AFloat b)] => Some [b] | _ => None end
  else if String.eqb op "Id" then match xs with [Some a] => Some [a] | _ => None end
  else None.
Definition zero_sign_graph : graph :=
  Graph [] []
        [Node "" "K" [] ["u"] [("alpha", AFloat 0)] [];
         Node "" "K" [] ["v"] [("alpha", AFloat 2147483648)] [];
         Node "" "Id" [Some "v"] ["w"] [] []]
        ["u"; "w"].
Theorem cse_python_key_refuted :
  key_eqb (Node "" "K" [] ["u"] [("alpha", AFloat 0)] []) (Node "" "K" [] ["v"] [("alpha", AFloat 2147483648)] []) = true /\
  eval_graph Z k_sem (fun _ => None) (fun _ => None) Z.of_nat (fun b => if b then 1%Z else 0%Z) 0 2 [] zero_sign_graph [] = Some [0%Z; 2147483648%Z] /\
  eval_graph Z k_sem (fun _ => None) (fun _ => None) Z.of_nat (fun b => if b then 1%Z else 0%Z) 0 2 [] (cse zero_sign_graph) [] = Some [0%Z; 0%Z] /\
  cse_checked zero_sign_graph = None.
Proof. vm_compute. repeat split. Qed.

(* the hypotheses of the merge theorem are satisfiable and the checked pass does merge on a non-trivial instance *)
Definition twin_graph : graph :=
  Graph ["x"] ["c"]
        [Node "" "Add" [Some "x"; Some "c"] ["a"] [("k", AInt 1)] [];
         Node "" "Neg" [Some "a"] ["m"] [] [];
         Node "" "Add" [Some "x"; Some "c"] ["b"] [("k", AInt 1)] [];
         Node "" "Mul" [Some "m"; Some "b"] ["y"] [] []]
        ["y"].
Example cse_checked_twin :
  cse_checked twin_graph = Some (Graph ["x"] ["c"]
        [Node "" "Add" [Some "x"; Some "c"] ["a"] [("k", AInt 1)] [];
         Node "" "Neg" [Some "a"] ["m"] [] [];
         Node "" "Mul" [Some "m"; Some "a"] ["y"] [] []] ["y"]) /\ cse twin_graph = match cse_checked twin_graph with Some g => g | None => twin_graph end.
Proof. vm_compute. split; reflexivity. Qed.
