"""C05 family: ExpandIdentity (_basic_rules.py).

Model: coq/Rules/Expand.v; theorem: coq/Props/C05_expand.v.
Correspondence: fired? of the real rule on Expand hosts (static / symbolic / unknown x shape; constant / non-constant shape operand;
equal, one-dim-different, rank-increasing, 1-for-d shapes) == Expand.check.  Direct oracle on both engines.
"""
from __future__ import annotations

import numpy as np

from harness import c05_basic_util as U
from harness import common
from harness.common import clist, copt, cz


def family(ctx):
    from onnx import helper
    from onnxscript.rewriter.rules.common import _basic_rules as br

    xshapes = [[], [3], [1], [0], [2, 3], [1, 3], [2, 0], [2, 1, 3], [1, 1]]
    insts = []
    for xs in xshapes:
        r = len(xs)
        insts.append((xs, list(xs), list(xs), "const"))
        insts.append((xs, list(xs), [1] + list(xs), "const"))                       # rank-increasing
        insts.append((xs, list(xs), list(xs), "input"))                             # shape is a graph input
        insts.append((xs, None, list(xs), "const"))                                 # x shape unknown
        for j in range(r):
            s = list(xs)
            if xs[j] == 1:
                s[j] = 4
                insts.append((xs, list(xs), s, "const"))                           # genuine expansion of a 1
            else:
                s[j] = 1
                insts.append((xs, list(xs), s, "const"))                           # 1 in the shape: semantically identity, but not `==`
            d = list(xs)
            d[j] = "N"
            insts.append((xs, d, list(xs), "const"))                               # symbolic dim in x's annotation
    cases, meta = [], []
    fired_n = 0
    for i, (xs, decl, shp, how) in enumerate(insts):
        dtype = ("float32", "int64")[i % 2]
        try:
            out = list(np.broadcast_shapes(tuple(xs), tuple(shp)))
        except ValueError:
            continue
        nodes, inits, inputs = [], [], [("x", dtype, xs if decl is None else decl)]
        data = "x"
        if decl is None:
            nodes.append(helper.make_node("Identity", ["x"], ["d"]))
            data = "d"
        if how == "input":
            inputs.append(("s", "int64", [len(shp)]))
        elif i % 3 == 0:
            nodes.append(U.const_node("s", np.array(shp, np.int64)))
        else:
            inits.append(U.const_arr("s", np.array(shp, np.int64)))
        nodes.append(helper.make_node("Expand", [data, "s"], ["y"]))
        out_decl = [o if (decl is None or k < len(out) - len(xs) or isinstance(decl[k - (len(out) - len(xs))], int)) else None for k, o in enumerate(out)]
        host = U.model(nodes, inputs, [("y", dtype, out_decl)], inits=inits)
        new = U.apply_rule(host, [br.no_op_expand_rule])
        fired = "Expand" not in U.ops(new)
        ds = None if decl is None else [d if isinstance(d, int) else None for d in decl]
        sc = None if how == "input" else shp
        cases.append(f"({copt(ds, lambda l: clist([copt(d, cz) for d in l]))}, {copt(sc, lambda l: clist([cz(v) for v in l]))}, {common.cbool(fired)})")
        meta.append((xs, decl, shp, how, fired))
        ctx.case(("expand", len(xs), "unknown" if decl is None else ("sym" if any(not isinstance(d, int) for d in decl) else "static"),
                  how, len(shp) - len(xs), shp == xs, 0 in xs, 1 in xs))
        if fired:
            fired_n += 1
            feeds = [{"x": U.int_data(xs, dtype, k)} for k in range(3)]
            if how == "input":
                for f in feeds:
                    f["s"] = np.array(shp, np.int64)
            U.oracle(ctx, "C05:expand:ExpandIdentity:differs", f"Expand(x{decl}, {shp})", host, new, feeds,
                     {"family": "expand", "x_shape": decl, "shape": shp, "shape_operand": how})
    host = U.model([helper.make_node("Expand", ["x", "s"], ["y"])], [("x", "float32", [1, 3]), ("s", "int64", [2])], [("y", "float32", [None, 3])],
                   inits=[U.const_arr("s", np.array([1, 3], np.int64))])
    xs = U.int_data([1, 3], "float32", 0)
    U.overridable_probe(ctx, "expand", "Expand(x:[1,3], s) (s defaults to [1,3])", host, [br.no_op_expand_rule],
                        [{"x": xs}, {"x": xs, "s": np.array([2, 3], np.int64)}, {"x": xs, "s": np.array([0, 3], np.int64)}])
    ok, vals_, raw = ctx.coq_eval(["OV.Rules.Expand"], f"Definition cases : list case := {clist(cases)}.\nEval vm_compute in (disagreeing 0 cases).", name="expand")
    if not ok:
        ctx.tie_broken("correspondence", "expand:model-evaluation", raw[-800:])
        return
    bad = common.parse_nat_list(vals_[0])
    for i in bad[:5]:
        ctx.tie_broken("correspondence", "expand:ExpandIdentity", f"{meta[i]}: fired differs from Expand.check")
    ctx.obligation("correspondence expand: ExpandIdentity fires only where Rules/Expand.v `check` holds", not bad)
    U.guard(ctx, "expand", fired_n, 5)
    ctx.cover(expand_instances=len(cases), expand_fired=fired_n, expand_model_disagreements=len(bad))
    ctx.sample({"family": "expand", "case": [str(x) for x in meta[len(meta) // 2]]})
