(* C12 -- the Python OPERATOR spellings of the script converter and of the eager Tensor.

   Anchors:  onnxscript/_internal/converter.py   primop_map, Converter._translate_binary_op_expr,
                                                 _translate_compare_expr, _cast_like_binary_expression
             onnxscript/_internal/values.py      Op.__init__ / Op.op_signature (None when the name has no schema),
                                                 Opset.__getitem__ / __getattr__ (onnx.defs.get_schema(name, version, domain))
             onnxscript/_internal/autocast.py    cast_inputs: `if op_signature is None: return tuple(cast(x, None) ...)`
             onnxscript/tensor.py                Tensor.__add__ ... : self._opset.<Op>(self, other)

   The table of spellings is regenerated from the source on every run (coq/Gen/C12Operators.v, harness/c12_operators.py:
   the two binary translators partially evaluated on every operator name).  No proofs in this file. *)
From Coq Require Import NArith List Bool String.
Require Import OV.Autocast.Autocast.
Import ListNotations.
Local Open Scope string_scope.

(* sp_cast: the operator whose signature drives the cast-like step (None: the translator has no such step);
   sp_emit: the operator of the node that receives the two operands; sp_post: an operator applied to its result
   (`a != b` = Not(Equal(a, b))); sp_operands_cast: the operands handed to the node are the results of the cast-like step *)
Record spelling := mkSp { sp_py : string; sp_sym : string; sp_cast : option string; sp_emit : string;
                          sp_post : option string; sp_operands_cast : bool }.
(* Tensor.<tm_name>(self, other) = self._opset.<tm_op>(self, other), or <tm_op>(other, self) when swapped *)
Record tmethod := mkTm { tm_name : string; tm_op : string; tm_swapped : bool }.

(* onnx.defs.get_schema(name, v, ""): the schema of that name with the greatest since_version <= v *)
Definition better (name : string) (v : N) (best : option schema) (s : schema) : option schema :=
  if String.eqb (s_name s) name && (s_ver s <=? v)%N
  then match best with
       | Some b => if (s_ver b <? s_ver s)%N then Some s else best
       | None => Some s
       end
  else best.
Definition lookup_schema (all : list schema) (name : string) (v : N) : option schema :=
  fold_left (better name v) all None.

(* cast(x, None): a literal stays the Constant the converter made of it (ir.tensor(pyvalue)) *)
Definition no_cast (a : arg) : out :=
  match a with ALit l => OConst l (ir_default_dtype l) | _ => OKeep a end.

(* static_cast_inputs(converter, values.Op(default_opset, name).op_signature, args): a name without a schema in the
   opset has op_signature None and the casts are skipped silently *)
Definition promote_static_named (all : list schema) (v : N) (name : string) (args : list arg) : result (list out) :=
  match lookup_schema all name v with
  | Some s => promote_static s args
  | None => OK (map no_cast args)
  end.

(* what the operands of `a <sym> b` become on their way to the sp_emit node *)
Definition promote_spelling (all : list schema) (v : N) (sp : spelling) (args : list arg) : result (list out) :=
  match sp_operands_cast sp, sp_cast sp with
  | true, Some c => promote_static_named all v c args
  | _, _ => OK (map no_cast args)
  end.

(* the same operator called by name, op.<Emit>(a, b): Converter._translate_call_expr uses the callee's own signature *)
Definition promote_op_static (all : list schema) (v : N) (name : string) (args : list arg) : result (list out) :=
  promote_static_named all v name args.

Definition is_some {A} (o : option A) : bool := match o with Some _ => true | None => false end.

Definition spelling_okb (all : list schema) (v : N) (sp : spelling) : bool :=
  sp_operands_cast sp
  && match sp_cast sp with Some c => String.eqb c (sp_emit sp) | None => false end
  && match lookup_schema all (sp_emit sp) v with Some s => schema_okb s | None => false end.

(* eager: Tensor.<method>(self, other) in an opset of version v; Opset.__getattr__ raises for a name without a schema *)
Definition promote_method (all : list schema) (v : N) (tm : tmethod) (self other : arg) : result (list out) :=
  match lookup_schema all (tm_op tm) v with
  | Some s => promote_eager s (if tm_swapped tm then [other; self] else [self; other])
  | None => Err Undefined
  end.
Definition method_okb (all : list schema) (v : N) (tm : tmethod) : bool :=
  match lookup_schema all (tm_op tm) v with Some s => schema_okb s | None => false end.

(* a binary operator whose two inputs share one type variable: Add(A: T, B: T), Equal, Less, ... *)
Definition binary_sharedb (s : schema) : bool :=
  match s_formals s with
  | [f1; f2] => String.eqb (f_tstr f1) (f_tstr f2) && is_typevar s (f_tstr f1) && negb (has_paren (f_tstr f1))
                && negb (is_variadic f1) && negb (is_variadic f2)
  | _ => false
  end.

Definition opsets : list N := [13; 14; 15; 16; 17; 18; 19; 20; 21; 22; 23]%N.

(* every (spelling, opset version) for which the mapped operator is binary with a shared type variable *)
Definition shared_at (all : list schema) (name : string) (v : N) : bool :=
  match lookup_schema all name v with Some s => binary_sharedb s | None => false end.
