(* C11 -- eager half of the advanced-indexing theorems, the property-level summary for both front ends, and the exact
   characterisation of the converter's negative-step corner. *)
From Coq Require Import ZArith List Bool Lia ZifyBool.
Import ListNotations.
Require Import OV.Index.NumpySpec OV.Index.OnnxSlice OV.Index.ConverterIdx OV.Index.EagerIdx OV.Index.SliceProofs
               OV.Index.ViewProofs OV.Index.AdvSpec OV.Index.AdvProofs OV.Index.AdvConvProofs OV.Index.EagerFix
               OV.Index.EagerFixProofs OV.Index.AdvEagerProofs.
Open Scope Z_scope.

(* ---- eager (Tensor.__getitem__ with the start clamp of 54bfea1) ---- *)
Theorem eager_adv_good_sound : forall shape aidx n,
  dims_nat shape -> (length aidx <= length shape)%nat ->
  good_form (full_form shape aidx) = true ->
  eager_nest_c true shape aidx = Some n -> np_nest shape aidx = Some n.
Proof.
  intros shape aidx n Hd Hlen Hg H. apply (adv_sound_of_view_sound (run_eager_c true)); try assumption.
  intros v Hv. apply eager_view_sound_all; try assumption. rewrite map_length. assumption.
Qed.

Theorem eager_adv_good_complete : forall shape aidx n,
  dims_nat shape -> eager_minus1_ok (map flat aidx) = true ->
  good_form (full_form shape aidx) = true ->
  np_nest shape aidx = Some n -> eager_nest_c true shape aidx = Some n.
Proof.
  intros shape aidx n Hd Hm Hg H. unfold np_nest in H.
  destruct (np_index shape (map flat aidx)) as [v|] eqn:E; [|discriminate].
  pose proof (np_index_length _ _ _ E) as Hlen. rewrite map_length in Hlen.
  unfold eager_nest_c. rewrite (eager_view_complete_all shape (map flat aidx) v Hd Hm E). cbn [option_map].
  rewrite arrangement_agrees in H.
  - exact H.
  - rewrite form_items by (rewrite (np_index_length_eq _ _ _ E); assumption).
    rewrite (np_index_length_eq _ _ _ E). exact Hg.
Qed.

Theorem eager_nest_is_outer_nest : forall shape aidx,
  dims_nat shape -> (length aidx <= length shape)%nat -> eager_minus1_ok (map flat aidx) = true ->
  eager_nest_c true shape aidx = outer_nest shape aidx.
Proof.
  intros shape aidx Hd Hlen Hm. unfold eager_nest_c, outer_nest.
  destruct (np_index shape (map flat aidx)) as [v|] eqn:E.
  - rewrite (eager_view_complete_all _ _ _ Hd Hm E). reflexivity.
  - destruct (run_eager_c true shape (map flat aidx)) as [v|] eqn:E'; [|reflexivity].
    rewrite (eager_view_sound_all shape (map flat aidx) v) in E; try assumption; [discriminate|rewrite map_length; assumption].
Qed.

Example eager_good_complete_instance :     (* eager X[i, I, 1:], i a rank-0 tensor beside a rank-2 tensor index, X of shape (2,4,3) *)
  let shape := [2; 4; 3] in
  let aidx := [AB (CT0 0); ATN [2; 2] [0; -1; 2; 1]; AB (CSlice (BConst (-6)) BNone (BConst (-1)))] in
  eager_minus1_ok (map flat aidx) = true /\ good_form (full_form shape aidx) = true /\
  option_map fst (np_nest shape aidx) = Some [2; 2; 0] /\ eager_nest_c true shape aidx = np_nest shape aidx /\
  option_map fst (eager_nest_c false shape aidx) = Some [2; 2; 1].
Proof. vm_compute. repeat split. Qed.

(* ---- the property, both front ends, one statement ----
   An index expression: python ints, slices (bounds omitted / int / tensor-valued), rank-0 tensors, tensor indices of any rank,
   on a tensor of any rank >= the number of components (omitted trailing axes).  A front end's outcome is acceptable when it is
   an error or NumPy's result. *)
Definition acceptable (r np : option nest) : Prop := r = None \/ exists n, r = Some n /\ np = Some n.

Theorem indexing_summary : forall shape aidx,
  dims_ok shape -> (length aidx <= length shape)%nat ->
  (acceptable (conv_nest shape aidx) (np_nest shape aidx)
     \/ good_form (full_form shape aidx) = false               (* the characterised advanced-index forms *)
     \/ hazard_free shape (map flat aidx) = false)             (* a slice in the negative-step corner *)
  /\
  (acceptable (eager_nest_c true shape aidx) (np_nest shape aidx)
     \/ good_form (full_form shape aidx) = false).
Proof.
  intros shape aidx Hd Hlen.
  assert (Hdn : dims_nat shape). { unfold dims_nat, dims_ok in *. eapply Forall_impl; [|exact Hd]. cbn. intros; lia. }
  destruct (good_form (full_form shape aidx)) eqn:Hg; [|split; right; [left|]; reflexivity].
  split.
  - destruct (hazard_free shape (map flat aidx)) eqn:Hh; [|right; right; reflexivity].
    left. destruct (conv_nest shape aidx) as [n|] eqn:E; [|left; reflexivity].
    right. exists n. split; [reflexivity|]. apply conv_adv_good_sound; assumption.
  - left. destruct (eager_nest_c true shape aidx) as [n|] eqn:E; [|left; reflexivity].
    right. exists n. split; [reflexivity|]. apply eager_adv_good_sound; assumption.
Qed.

(* the exceptions are real: on a bad form both front ends return the outer arrangement whenever NumPy's per-axis view exists
   (conv_nest_is_outer_nest, eager_nest_is_outer_nest), and that differs from NumPy on some instance of every bad form
   (AdvProofs.arrangement_agrees_iff, bad_form_witness) *)

(* ---- the converter's negative-step corner, exactly ---- *)
Definition corner (d : Z) (start stop step : option Z) : Prop :=
  exists st s0, step = Some st /\ start = Some s0 /\ st < 0 /\ 1 <= d /\ s0 < - d /\
                (stop = None \/ exists e, stop = Some e /\ e < - d).

Lemma corner_iff : forall d start stop step, neg_start_hazard d start stop step = true <-> corner d start stop step.
Proof.
  intros d start stop step. unfold neg_start_hazard, corner. split.
  - destruct step as [st|]; [|discriminate]. destruct start as [s0|]; [|discriminate]. intros H.
    exists st, s0. destruct stop as [e|].
    + repeat split; try reflexivity; try lia. right. exists e. split; [reflexivity|lia].
    + repeat split; try reflexivity; try lia. left. reflexivity.
  - intros [st [s0 [-> [-> [H1 [H2 [H3 H4]]]]]]]. destruct H4 as [->|[e [-> He]]]; lia.
Qed.

(* the Slice the converter emits differs from Python's slice exactly in the corner, and there it returns element 0 where
   Python returns nothing *)
Theorem conv_slice_differs_iff : forall d a b s,
  0 <= d <= MAXI -> conv_bounds a b s <> None ->
  (conv_slice d a b s <> py_slice d (bval a) (bval b) (bval s) <-> corner d (bval a) (bval b) (bval s)).
Proof.
  intros d a b s Hd Hb. rewrite <- corner_iff. split.
  - intros Hne. destruct (neg_start_hazard d (bval a) (bval b) (bval s)) eqn:E; [reflexivity|].
    exfalso. apply Hne. apply conv_slice_eq_python; assumption.
  - intros Hz Heq. destruct (conv_slice_hazard d a b s Hd Hb Hz) as [H1 H2]. rewrite H1, H2 in Heq. discriminate.
Qed.

Theorem conv_slice_corner_value : forall d a b s,
  0 <= d <= MAXI -> conv_bounds a b s <> None -> corner d (bval a) (bval b) (bval s) ->
  conv_slice d a b s = Some [0] /\ py_slice d (bval a) (bval b) (bval s) = Some [].
Proof. intros d a b s Hd Hb Hc. apply conv_slice_hazard; try assumption. apply corner_iff. assumption. Qed.

Example corner_instance : corner 4 (Some (-6)) None (Some (-1)) /\ ~ corner 4 (Some (-4)) None (Some (-1)) /\ ~ corner 4 (Some (-6)) (Some (-2)) (Some (-1)).
Proof.
  split; [exists (-1), (-6); repeat split; try lia; left; reflexivity|].
  split; intros [st [s0 [E1 [E2 [H1 [H2 [H3 H4]]]]]]]; injection E1 as <-; injection E2 as <-; try lia.
  destruct H4 as [H4|[e [E He]]]; [discriminate|injection E as <-; lia].
Qed.
