"""Per-pass observation of the real optimize_ir pipeline (C03 / C04).

The harness wraps onnx_ir.passes.PassBase.__call__ (from the harness side only) while optimize_ir runs, and serializes the
model before and after EVERY leaf pass the real pipeline executes (Sequential / PassManager themselves are not leaves).
  * every (before, after) pair goes through the ORT + onnx.reference oracle (same outputs on the feeds of the case);
  * for RemoveUnusedNodesPass and CommonSubexpressionEliminationPass the after-graph is compared in Coq with the Gallina
    model applied to the before-graph (Opt/Dce.v: dce, Opt/Cse.v: cse): FoldInst.graph_eqb = same nodes in the same order
    (domain, op, inputs, outputs, attributes as a set, nested graphs recursively), same inputs / outputs, initializers as
    a set.  Compared modulo what the DCE model does not describe: trailing omitted inputs are stripped and unused
    outputs of kept nodes are dropped on both sides before printing; models with BatchNormalization are not compared.
    Names are the real value names (the pass does not rename, NameFix runs later).
"""
from __future__ import annotations

import collections
import contextlib

import numpy as np
import onnx
import onnx.reference

from harness import c03_check as K
from harness import c03_run as R
from harness import graphlit
from harness.common import clist, parse_nat_list

REQUIRES = ["OV.Graph.Syntax", "OV.Opt.FoldInst", "OV.Opt.Dce", "OV.Opt.Cse", "OV.Opt.Use", "OV.Opt.Inits"]
MODELLED = {"RemoveUnusedNodesPass": "dce", "CommonSubexpressionEliminationPass": "cse", "LiftConstantsToInitializersPass": "lift",
            "LiftSubgraphInitializersToMainGraphPass": "hoist", "DeduplicateInitializersPass": "dedup"}


def _tensor_token(t):
    """the token of an initializer: ("value", ATensor dtype dims bytes) - bytes as graphlit prints tensor attributes"""
    import hashlib
    from harness.common import cstr, cz
    raw = onnx.numpy_helper.to_array(t).tobytes() if t.data_type != onnx.TensorProto.STRING else b"\x00".join(t.string_data)
    payload = clist(list(raw), cz) if len(raw) <= 64 else clist(list(hashlib.sha1(raw).digest()), cz)
    return f"({cstr('value')}, ATensor {cz(t.data_type)} {clist(t.dims, cz)} {payload})"


def all_initializers(g, acc=None):
    acc = [] if acc is None else acc
    acc.extend(g.initializer)
    for n in g.node:
        for a in n.attribute:
            if a.type == onnx.AttributeProto.GRAPH:
                all_initializers(a.g, acc)
    return acc


def tab_lit(model):
    from harness.common import cstr
    return clist([f"({cstr(t.name)}, {_tensor_token(t)})" for t in all_initializers(model.graph)])


def lifted_values_agree(before, after):
    """LiftConstants: every new initializer has the element type, dims and bytes of the Constant node it replaces (None) or a
    description of the first difference"""
    consts = {}

    def walk(g):
        for n in g.node:
            if n.op_type == "Constant" and n.domain in ("", "ai.onnx") and len(n.attribute) == 1 and len(n.output) == 1:
                consts[n.output[0]] = n
            for a in n.attribute:
                if a.type == onnx.AttributeProto.GRAPH:
                    walk(a.g)
    walk(before.graph)
    old = {t.name for t in all_initializers(before.graph)}
    for t in all_initializers(after.graph):
        if t.name in old or t.name not in consts:
            continue
        n = consts[t.name]
        try:
            want = onnx.reference.ReferenceEvaluator(onnx.helper.make_model(onnx.helper.make_graph(
                [n], "c", [], [onnx.helper.make_empty_tensor_value_info(n.output[0])]),
                opset_imports=list(after.opset_import), ir_version=after.ir_version)).run(None, {})[0]
        except Exception as e:
            return f"{t.name}: the Constant node cannot be evaluated: {e}"[:160]
        got = onnx.numpy_helper.to_array(t)
        want = np.asarray(want)
        if want.dtype.kind in "OUS" or got.dtype.kind in "OUS":
            same = want.shape == got.shape and [str(x) for x in want.reshape(-1)] == [x.decode() if isinstance(x, bytes) else str(x) for x in got.reshape(-1)]
        else:
            same = want.dtype == got.dtype and want.shape == got.shape and want.tobytes() == got.tobytes()
        if not same:
            return f"{t.name}: Constant {want.dtype}{want.shape} became initializer {got.dtype}{got.shape} with other bytes"
    return None


@contextlib.contextmanager
def recording(records):
    import onnx_ir as ir
    base = ir.passes.PassBase
    orig = base.__call__
    containers = tuple(c for c in (getattr(ir.passes, "Sequential", None), getattr(ir.passes, "PassManager", None)) if c is not None)

    def wrapped(self, model, *a, **k):
        if isinstance(self, containers):
            return orig(self, model, *a, **k)
        try:
            before = ir.serde.serialize_model(model)
        except Exception:
            before = None
        res = orig(self, model, *a, **k)
        try:
            after = ir.serde.serialize_model(res.model)
        except Exception:
            after = None
        records.append((type(self).__name__, before, after, bool(getattr(res, "modified", False))))
        return res
    base.__call__ = wrapped
    try:
        yield
    finally:
        base.__call__ = orig


def observe(model_proto, opts=None):
    """-> list of (pass name, before proto, after proto, modified) of one optimize_ir run on a copy of the model"""
    import onnx_ir as ir
    from onnxscript import optimizer
    m = onnx.ModelProto()
    m.CopyFrom(model_proto)
    mi = ir.serde.deserialize_model(m)
    recs = []
    with recording(recs):
        optimizer.optimize_ir(mi, **(R.opt_kwargs(opts) if opts else {}))
    return recs


def _used_names(g, acc):
    for n in g.node:
        acc.update(i for i in n.input if i)
        for a in n.attribute:
            if a.type == onnx.AttributeProto.GRAPH:
                _used_names(a.g, acc)
                acc.update(o.name for o in a.g.output)
    return acc


def normalised(model):
    """trailing omitted inputs stripped (outputs that nobody reads are dropped on both sides inside Coq: `trim`)"""
    m = onnx.ModelProto()
    m.CopyFrom(model)
    used = _used_names(m.graph, set()) | {o.name for o in m.graph.output}

    def fix(g):
        for n in g.node:
            ins = list(n.input)
            while ins and ins[-1] == "":
                ins.pop()
            del n.input[:]
            n.input.extend(ins)
            for a in n.attribute:
                if a.type == onnx.AttributeProto.GRAPH:
                    fix(a.g)
    fix(m.graph)
    return m


def _has_op(g, ops):
    for n in g.node:
        if n.op_type in ops:
            return True
        for a in n.attribute:
            if a.type == onnx.AttributeProto.GRAPH and _has_op(a.g, ops):
                return True
    return False


def _unique_names(model):
    return not K.shadowing(model) and _sibling_unique(model.graph, set())


def _sibling_unique(g, seen):
    for n in g.node:
        for o in n.output:
            if o and o in seen:
                return False
            seen.add(o)
        for a in n.attribute:
            if a.type == onnx.AttributeProto.GRAPH:
                if not _sibling_unique(a.g, seen):
                    return False
    return True


def _cse_unmodelled(g):
    for n in g.node:
        for a in n.attribute:
            if a.type == onnx.AttributeProto.TENSOR and a.t.data_type == onnx.TensorProto.STRING:
                return True
            if a.type in (onnx.AttributeProto.SPARSE_TENSOR, onnx.AttributeProto.TYPE_PROTO, onnx.AttributeProto.TENSORS, onnx.AttributeProto.GRAPHS):
                return True
    return False


class PassChecker:
    def __init__(self, ctx, pid):
        self.ctx, self.pid = ctx, pid
        self.stats = collections.Counter()
        self.pending = []       # (kind, before_lit, after_lit, case, pass name, opts, step index)
        self.seen = set()

    def check_case(self, case, base, opts=None):
        ctx, stats = self.ctx, self.stats
        try:
            recs = observe(case.model, opts)
        except Exception as e:      # totality is C04's oracle
            stats["optimize_ir-raised"] += 1
            return
        stats["pipelines-observed"] += 1
        for k, (name, before, after, modified) in enumerate(recs):
            stats["pass-runs"] += 1
            stats["pass:" + name] += 1
            if before is None or after is None:
                stats["not-serializable"] += 1
                continue
            if before.SerializeToString(deterministic=True) == after.SerializeToString(deterministic=True):
                stats["pass-unchanged"] += 1
                if name in MODELLED:
                    self._queue(name, before, after, case, opts, k)
                continue
            stats["pass-changed:" + name] += 1
            ctx.case(("pass", name, tuple(f for f in case.features if not f.startswith("value_info"))[:6]))
            self._oracle(case, base, name, before, after, opts, k)
            if name in MODELLED:
                self._queue(name, before, after, case, opts, k)

    def _oracle(self, case, base, name, before, after, opts, k):
        """the pass alone: before vs after on the runtimes that run `before`"""
        stats = self.stats
        for rt, fn in R.RUNTIMES:
            if base.get(rt) is None:
                continue
            s0, o0 = fn(before, case.feeds)
            if s0 != "ok":
                continue
            s1, o1 = fn(after, case.feeds)
            stats["oracle-pairs"] += 1
            d = None
            if s1 != "ok":
                if rt == "ort" and "ShapeInferenceError" in str(o1):
                    stats["ort-load-time-shape-inference-rejects(after)"] += 1
                    continue
                d = "the model after the pass does not run: " + str(o1)[:160]
            else:
                for a, b in zip(o0, o1):
                    d = R.compare_outputs(a, b, case.exact, loose=case.kind.startswith("lifted"))
                    if d is not None:
                        break
            if d is not None:
                structural = K.known_structural_class(before, after) if s1 != "ok" else None

                def failing(mopt):
                    st, out = fn(mopt, case.feeds)
                    return st != "ok" or any(R.compare_outputs(a, b, case.exact, loose=case.kind.startswith("lifted")) is not None
                                             for a, b in zip(base[rt], out))
                by_variant = K.known_class_by_variant(case, base, "optimize", opts, False, failing) if structural is None else []
                if by_variant:
                    # a known defect of the folder (classified by an equivalent variant of the model passing), seen at pass level
                    for key in by_variant:
                        self.ctx.violation(key if self.pid == "C03" else self.pid + key[3:], f"{name} (step {k} of optimize_ir): {d}",
                                           K.replay_doc(case, "optimize_ir", opts, True, {"pass": name, "step": k}))
                    stats["violations"] += 1
                    return
                if structural is not None:
                    key = f"{self.pid}:{structural}"
                else:
                    key = f"{self.pid}:pass:{name}:{K.culprit(before, after)}:{K.diff_kind(d) if s1 == 'ok' else 'after-fails'}"
                self.ctx.violation(key, f"{name} (step {k} of optimize_ir, opts={opts}) alone changes what the model computes ({rt}): {d}",
                                   K.replay_doc(case, "optimize_ir", opts, True, {"pass": name, "step": k, "before_b64": R.model_b64(before), "detail": str(d)[:300]}))
                stats["violations"] += 1
                return

    def _queue(self, name, before, after, case, opts, k):
        stats = self.stats
        if _has_op(before.graph, {"BatchNormalization"}):
            stats["not-compared:BatchNormalization"] += 1
            return
        if not _unique_names(before):
            stats["not-compared:value-names-not-unique"] += 1
            return
        if name == "CommonSubexpressionEliminationPass" and _cse_unmodelled(before.graph):
            stats["not-compared:cse-attribute-kind"] += 1
            return
        b, a = graphlit.graph_lit(normalised(before).graph), graphlit.graph_lit(normalised(after).graph)
        if MODELLED[name] in ("lift", "dedup"):
            try:
                b = (b, tab_lit(before))
            except Exception:
                stats["not-compared:initializer-not-printable"] += 1
                return
            if MODELLED[name] == "lift":
                d = lifted_values_agree(before, after)
                stats["lift:value-pairs-checked"] += 1
                if d is not None:
                    self.ctx.violation(f"{self.pid}:pass:LiftConstantsToInitializersPass:value-changed", f"LiftConstantsToInitializersPass: {d}",
                                       K.replay_doc(case, "optimize_ir", opts, True, {"pass": name, "step": k, "before_b64": R.model_b64(before)}))
                    stats["violations"] += 1
        sig = (name, b, a)
        if sig in self.seen:
            stats["duplicate-pair"] += 1
            return
        self.seen.add(sig)
        self.pending.append((MODELLED[name], b, a, case, name, opts, k, before, after))

    def finish(self):
        ctx, stats = self.ctx, self.stats
        pend = self.pending
        for start in range(0, len(pend), 150):
            chunk = pend[start:start + 150]
            defs = []
            for i, (kind, b, a, *_rest) in enumerate(chunk):
                tab = "[]"
                if isinstance(b, tuple):
                    b, tab = b
                defs.append(f"Definition b_{i} : graph := {b}.\nDefinition a_{i} : graph := {a}.\nDefinition t_{i} : itab := {tab}.\n")
                fuel = f"(2 * (depth_graph a_{i} + depth_graph b_{i}) + 4)"
                if kind == "dce":
                    # the IR remembers uses by the bodies of nodes removed by EARLIER passes (not visible in the serialized model), so the
                    # real pass may keep more than the model; it must remove only what is dead: same fixpoint of the model on both sides.
                    # second component: the real result is exactly one sweep of the model
                    defs.append(f"Definition v_{i} : bool * bool := (graph_eqb {fuel} (trim (dce_fix 6 b_{i})) (trim (dce_fix 6 a_{i})), "
                                f"graph_eqb {fuel} (trim (dce b_{i})) (trim a_{i})).\n")
                elif kind == "cse":
                    defs.append(f"Definition v_{i} : bool * bool := (graph_eqb {fuel} (trim (cse b_{i})) (trim a_{i}), "
                                f"match cse_checked b_{i} with Some _ => true | None => false end).\n")
                elif kind == "lift":
                    # graph (initializer lists as sets, at every depth) as the model says; second: the side conditions of the theorem
                    defs.append(f"Definition v_{i} : bool * bool := match lift b_{i} t_{i} with Some (g, t) => (graph_eqb {fuel} g a_{i}, "
                                f"nodupb (map fst t) && forallb (fun x => match tab_get x (collect (depth_graph b_{i}) b_{i}) with None => true | Some _ => false end) (binds_graph g)) "
                                f"| None => (false, false) end.\n")
                elif kind == "hoist":
                    # None = a lifted initializer had to be renamed (not modelled): counted, not compared
                    defs.append(f"Definition v_{i} : bool * bool := match hoist b_{i} with Some g => (graph_eqb {fuel} g a_{i}, true) | None => (true, false) end.\n")
                else:
                    defs.append(f"Definition v_{i} : bool * bool := (graph_eqb {fuel} (fst (dedup b_{i} t_{i})) a_{i}, "
                                f"let 'Graph gi ii ns go := b_{i} in dedup_guard b_{i} t_{i} (snd (dedup_walk t_{i} (gi ++ go) [] ii))).\n")
            lst = clist([f"v_{i}" for i in range(len(chunk))])
            body = ("Fixpoint trim_g (d : nat) (used : list vname) (g : graph) : graph := match d with O => g | S d' => let 'Graph i ii ns o := g in "
                    "Graph i ii (map (fun n => let 'Node dm o2 ins u a s := n in Node dm o2 ins (filter (fun x => mem x used) u) a "
                    "(map (fun kg => (fst kg, trim_g d' used (snd kg))) s)) ns) o end.\n"
                    "Definition trim (g : graph) : graph := trim_g (depth_graph g) (reads_graph g) g.\n")
            body += "Fixpoint dce_fix (n : nat) (g : graph) : graph := match n with O => g | S k => dce_fix k (dce g) end.\n" + "".join(defs)
            body += ("Fixpoint idx (k : nat) (i : nat) (l : list (bool * bool)) : list nat := match l with [] => [] | (x, y) :: t => "
                     "(if match k with O => negb x | _ => negb y end then [i] else []) ++ idx k (S i) t end.\n"
                     f"Eval vm_compute in (idx 0 0 {lst}).\nEval vm_compute in (idx 1 0 {lst}).\n")
            ok, vals, raw = ctx.coq_eval(REQUIRES, body, timeout=900, name="passes")
            if not ok or len(vals) < 2:
                ctx.tie_broken("correspondence", "passes:model-evaluation", raw[-1200:])
                return
            bad = set(parse_nat_list(vals[0]))
            outside = set(parse_nat_list(vals[1]))
            for i, (kind, b, a, case, name, opts, k, before, after) in enumerate(chunk):
                stats[f"compared:{kind}"] += 1
                if kind == "cse":
                    stats["cse:inside-theorem(merge_guard)" if i not in outside else "cse:outside-theorem"] += 1
                elif kind == "dce":
                    stats["dce:exactly-one-sweep-of-the-model" if i not in outside else "dce:real-pass-kept-more(uses by bodies of nodes removed earlier)"] += 1
                else:
                    stats[f"{kind}:inside-theorem-side-conditions" if i not in outside else f"{kind}:outside-theorem-or-not-modelled(rename)"] += 1
                if i not in bad:
                    stats[f"agree:{kind}"] += 1
                    continue
                stats[f"disagree:{kind}"] += 1
                # model and pass disagree: the property first (this pass alone on this input)
                found = False
                for rt, fn in R.RUNTIMES:
                    s0, o0 = fn(before, case.feeds)
                    if s0 != "ok":
                        continue
                    s1, o1 = fn(after, case.feeds)
                    if s1 != "ok" or any(R.compare_outputs(x, y, case.exact) is not None for x, y in zip(o0, o1)):
                        ctx.violation(f"{self.pid}:pass:{name}:{K.culprit(before, after)}:found-by-model-disagreement",
                                      f"{name} changes what the model computes ({rt}); its result differs from the Gallina model",
                                      K.replay_doc(case, "optimize_ir", opts, True, {"pass": name, "step": k, "before_b64": R.model_b64(before)}))
                        found = True
                        break
                if not found:
                    ctx.tie_broken("correspondence", f"passes:{name}:{case.ident}:step{k}",
                                   f"the result of the real pass is not the result of the model (Opt/{ {'dce': 'Dce', 'cse': 'Cse'}.get(kind, 'Inits') }.v); features={case.features}"
                                   f"\nBEFORE {onnx.printer.to_text(before.graph)[:900]}\nAFTER {onnx.printer.to_text(after.graph)[:900]}")
        kinds = ("dce", "cse", "lift", "hoist", "dedup")
        n_cmp = sum(stats["compared:" + k] for k in kinds)
        ctx.obligation("correspondence per pass: RemoveUnusedNodesPass = Opt/Dce.v, CommonSubexpressionEliminationPass = Opt/Cse.v, LiftConstantsToInitializers / "
                       "LiftSubgraphInitializersToMainGraph / DeduplicateInitializers = Opt/Inits.v on every observed (before, after) pair of the real pipeline",
                       sum(stats["disagree:" + k] for k in kinds) == 0 and all(stats["compared:" + k] > 0 for k in kinds), f"{dict(stats)}")
        return stats
