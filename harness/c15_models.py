"""Model generator and protobuf -> field-tree walker for C15."""
from __future__ import annotations

import struct

import numpy as np

# element types: name -> (enum value, bits per element)
ELEM = {
    "FLOAT": (1, 32), "UINT8": (2, 8), "INT8": (3, 8), "UINT16": (4, 16), "INT16": (5, 16), "INT32": (6, 32), "INT64": (7, 64),
    "BOOL": (9, 8), "FLOAT16": (10, 16), "DOUBLE": (11, 64), "UINT32": (12, 32), "UINT64": (13, 64), "COMPLEX64": (14, 64),
    "COMPLEX128": (15, 128), "BFLOAT16": (16, 16), "FLOAT8E4M3FN": (17, 8), "FLOAT8E4M3FNUZ": (18, 8), "FLOAT8E5M2": (19, 8),
    "FLOAT8E5M2FNUZ": (20, 8), "UINT4": (21, 4), "INT4": (22, 4), "FLOAT4E2M1": (23, 4), "FLOAT8E8M0": (24, 8), "UINT2": (25, 2),
    "INT2": (26, 2),
}
STRING = 8
# bit patterns worth having in every run: NaN payloads (quiet / signalling / sign), -0.0, subnormals, inf, max
ODD = {
    "FLOAT": [0x7FC00001, 0xFFC12345, 0x7F800001, 0x80000000, 0x00000001, 0x807FFFFF, 0x7F800000, 0xFF800000, 0x7F7FFFFF],
    "DOUBLE": [0x7FF8000000000001, 0xFFF0000000000001, 0x8000000000000000, 0x0000000000000001, 0x7FF0000000000000],
    "FLOAT16": [0x7E01, 0xFE00, 0x7C01, 0x8000, 0x0001, 0x83FF, 0x7C00],
    "BFLOAT16": [0x7FC1, 0xFF81, 0x8000, 0x0001, 0x807F, 0x7F80],
    "FLOAT8E4M3FN": [0x7F, 0xFF, 0x80, 0x01, 0x87, 0x7E], "FLOAT8E4M3FNUZ": [0x80, 0x01, 0x7F, 0xFF],
    "FLOAT8E5M2": [0x7D, 0xFE, 0x80, 0x01, 0x83, 0x7C], "FLOAT8E5M2FNUZ": [0x80, 0x01, 0x7F, 0xFF], "FLOAT8E8M0": [0xFF, 0x00, 0x7F, 0xFE],
}


def rand_payload(rng, name, n):
    """Random raw_data for n elements of element type `name` (padding bits of sub-byte types are zero)."""
    _, bits = ELEM[name]
    if bits >= 8:
        size = bits // 8
        out = bytearray()
        odd = ODD.get(name, [])
        for i in range(n):
            if odd and rng.random() < 0.6:
                v = rng.choice(odd)
            else:
                v = rng.getrandbits(bits)
            if name == "BOOL":
                v &= 1
            if name in ("COMPLEX64", "COMPLEX128"):
                v = rng.getrandbits(bits)
            out += v.to_bytes(size, "little")
        return bytes(out)
    per = 8 // bits
    vals = [rng.getrandbits(bits) for _ in range(n)]
    out = bytearray()
    for i in range(0, n, per):
        b = 0
        for j, v in enumerate(vals[i:i + per]):
            b |= v << (bits * j)
        out.append(b)
    return bytes(out)


def make_tensor(rng, onnx, name, elem, dims, encoding="raw", doc=None, meta=None):
    """TensorProto built field by field (never through numpy, so every bit pattern is reachable)."""
    tp = onnx.TensorProto()
    tp.name = name
    tp.dims.extend(dims)
    n = int(np.prod(dims)) if len(dims) else 1
    if elem == "STRING":
        tp.data_type = STRING
        for _ in range(n):
            tp.string_data.append(bytes(rng.getrandbits(8) for _ in range(rng.choice([0, 1, 3, 9]))))
    else:
        tp.data_type = ELEM[elem][0]
        raw = rand_payload(rng, elem, n)
        if encoding == "typed" and elem in ("FLOAT", "INT32", "INT64", "DOUBLE", "UINT64", "UINT32", "FLOAT16", "BFLOAT16", "INT8", "UINT8",
                                            "INT16", "UINT16", "BOOL"):
            size = ELEM[elem][1] // 8
            ints = [int.from_bytes(raw[i * size:(i + 1) * size], "little") for i in range(n)]
            if elem == "FLOAT":
                tp.float_data.extend(struct.unpack("<%df" % n, raw))
                # float_data goes through a Python float: keep only patterns that survive that trip (no signalling NaN)
                back = struct.pack("<%df" % n, *tp.float_data)
                if back != raw:
                    del tp.float_data[:]
                    tp.raw_data = raw
            elif elem == "DOUBLE":
                tp.double_data.extend(struct.unpack("<%dd" % n, raw))
                if struct.pack("<%dd" % n, *tp.double_data) != raw:
                    del tp.double_data[:]
                    tp.raw_data = raw
            elif elem == "INT64":
                tp.int64_data.extend(struct.unpack("<%dq" % n, raw))
            elif elem in ("UINT64", "UINT32"):
                tp.uint64_data.extend(ints)
            elif elem == "INT32":
                tp.int32_data.extend(struct.unpack("<%di" % n, raw))
            elif elem in ("INT8", "INT16"):
                tp.int32_data.extend(v - (1 << (8 * size)) if v >> (8 * size - 1) else v for v in ints)
            else:  # FLOAT16 / BFLOAT16 / UINT8 / UINT16 / BOOL: the bit pattern as a non-negative int32
                tp.int32_data.extend(ints)
        else:
            tp.raw_data = raw
    if doc:
        tp.doc_string = doc
    for k, v in (meta or {}).items():
        tp.metadata_props.add(key=k, value=v)
    return tp


def tensor_payload(onnx, tp):
    """Canonical little-endian payload bytes of a TensorProto, whatever field it uses (independent of onnx_ir)."""
    if tp.data_location == onnx.TensorProto.EXTERNAL:
        return None
    if tp.HasField("raw_data") or tp.raw_data:
        return bytes(tp.raw_data)
    dt = tp.data_type
    name = next((k for k, v in ELEM.items() if v[0] == dt), None)
    if dt == STRING:
        return None
    if tp.float_data:
        return struct.pack("<%df" % len(tp.float_data), *tp.float_data)
    if tp.double_data:
        return struct.pack("<%dd" % len(tp.double_data), *tp.double_data)
    if tp.int64_data:
        return struct.pack("<%dq" % len(tp.int64_data), *tp.int64_data)
    if tp.uint64_data:
        size = ELEM[name][1] // 8
        return b"".join(int(v).to_bytes(size, "little") for v in tp.uint64_data)
    if tp.int32_data:
        bits = ELEM[name][1]
        if bits < 8:
            raise ValueError("sub-byte tensors in int32_data are not generated")
        size = bits // 8
        return b"".join((int(v) & ((1 << bits) - 1)).to_bytes(size, "little") for v in tp.int32_data)
    return b""


# ----------------------------------------------------------------------------- protobuf -> tree

KEYED = {  # (message type, repeated field) -> key function
    ("GraphProto", "initializer"): lambda v: v.name,
    ("GraphProto", "value_info"): lambda v: v.name,
    ("GraphProto", "quantization_annotation"): lambda v: v.tensor_name,
    ("ModelProto", "opset_import"): lambda v: "domain:" + v.domain,
    ("FunctionProto", "opset_import"): lambda v: "domain:" + v.domain,
    ("ModelProto", "functions"): lambda v: f"{v.domain}::{v.name}::{v.overload}",
    ("FunctionProto", "value_info"): lambda v: v.name,
    ("NodeProto", "attribute"): lambda v: v.name,
    ("FunctionProto", "attribute_proto"): lambda v: v.name,
    ("TensorProto", "external_data"): lambda v: v.key,
}


def _rep(fd):
    return fd.is_repeated if hasattr(fd, "is_repeated") else fd.label == fd.LABEL_REPEATED


def _leaf_int(v):
    return ("int", int(v))


def _leaf_bytes(b):
    b = bytes(b)
    if len(b) > 64:   # long payloads enter the tree as length + SHA-256 (equal leaves <=> equal bytes, up to collisions)
        import hashlib
        b = b"\xff" + len(b).to_bytes(8, "little") + hashlib.sha256(b).digest()
    return ("bytes", b)


def tree_of(onnx, msg):
    """('node', [(key, tree)]) | ('seq', [tree]) | ('int', z) | ('bytes', b) -- populated, non-default fields only."""
    from google.protobuf.descriptor import FieldDescriptor as FD
    tname = msg.DESCRIPTOR.name
    fields = []
    payload_done = False
    for fd, val in msg.ListFields():
        if tname == "TensorProto" and fd.name in ("raw_data", "float_data", "int32_data", "int64_data", "double_data", "uint64_data"):
            if not payload_done:
                payload_done = True
                p = tensor_payload(onnx, msg)
                if p:
                    fields.append(("payload", _leaf_bytes(p)))
            continue
        if fd.name == "metadata_props" and _rep(fd):
            keys = [e.key for e in val]
            if len(set(keys)) == len(keys):
                fields.append((fd.name, ("node", [(e.key, _leaf_bytes(e.value.encode("utf-8", "surrogateescape"))) for e in val])))
            else:
                fields.append((fd.name, ("seq", [tree_of(onnx, e) for e in val])))
            continue
        if _rep(fd):
            if fd.type == FD.TYPE_MESSAGE:
                keyf = KEYED.get((tname, fd.name))
                subs = [tree_of(onnx, v) for v in val]
                if keyf is not None:
                    keys = [keyf(v) for v in val]
                    if len(set(keys)) == len(keys):
                        fields.append((fd.name, ("node", list(zip(keys, subs)))))
                        continue
                fields.append((fd.name, ("seq", subs)))
            else:
                fields.append((fd.name, ("seq", [_scalar(fd, v) for v in val])))
        elif fd.type == FD.TYPE_MESSAGE:
            sub = tree_of(onnx, val)
            if sub[1]:           # a present but empty sub-message carries nothing
                fields.append((fd.name, sub))
        else:
            if val == fd.default_value:
                continue         # explicitly set to its default: may vanish
            fields.append((fd.name, _scalar(fd, val)))
    return ("node", fields)


def _scalar(fd, v):
    from google.protobuf.descriptor import FieldDescriptor as FD
    if fd.type in (FD.TYPE_FLOAT,):
        return _leaf_bytes(struct.pack("<f", v))
    if fd.type in (FD.TYPE_DOUBLE,):
        return _leaf_bytes(struct.pack("<d", v))
    if fd.type == FD.TYPE_STRING:
        return _leaf_bytes(v.encode("utf-8", "surrogateescape"))
    if fd.type == FD.TYPE_BYTES:
        return _leaf_bytes(v)
    return _leaf_int(v)


def coq_tree(t):
    kind = t[0]
    if kind == "int":
        z = t[1]
        return f"Leaf (VInt ({z}))" if z < 0 else f"Leaf (VInt {z})"
    if kind == "bytes":
        return 'Leaf (VBytes "' + t[1].hex() + '")'
    if kind == "seq":
        return "Seq [" + "; ".join(coq_tree(x) for x in t[1]) + "]"
    return "Node [" + "; ".join(f'("{_ck(k)}"%string, {coq_tree(x)})' for k, x in t[1]) + "]"


def _ck(k):
    assert all(32 <= ord(c) < 127 for c in k), k
    return k.replace('"', '""')


def py_includes(a, b):
    """Python twin of Serde/Tree.v `includes` (used only to localise a disagreement for the replay file)."""
    if a[0] != b[0]:
        return [("kind", a[0], b[0])]
    if a[0] in ("int", "bytes"):
        return [] if a[1] == b[1] else [("value", a[1] if a[0] == "int" else a[1].hex(), b[1] if b[0] == "int" else b[1].hex())]
    if a[0] == "seq":
        if len(a[1]) != len(b[1]):
            return [("length", len(a[1]), len(b[1]))]
        out = []
        for i, (x, y) in enumerate(zip(a[1], b[1])):
            out += [(f"[{i}]",) + d for d in py_includes(x, y)]
        return out
    out = []
    bd = {}
    for k, v in b[1]:
        bd.setdefault(k, v)
    for k, x in a[1]:
        if k not in bd:
            chain = [k]
            while x[0] == "node" and len(x[1]) == 1:      # name what exactly is missing when the lost subtree has a single populated field
                chain.append(x[1][0][0])
                x = x[1][0][1]
            out.append(tuple(chain) + ("missing",))
        else:
            out += [(k,) + d for d in py_includes(x, bd[k])]
    return out


def py_wk(t):
    """Python twin of Serde/Tree.v `wkb`."""
    if t[0] in ("int", "bytes"):
        return True
    if t[0] == "seq":
        return all(py_wk(x) for x in t[1])
    ks = [k for k, _ in t[1]]
    return len(set(ks)) == len(ks) and all(py_wk(x) for _, x in t[1])


# ----------------------------------------------------------------------------- models

INERT_UNARY = ["Relu", "Sigmoid", "Tanh", "Abs", "Exp", "Softplus"]
DOM = "c15.test"


def _meta(rng, tag):
    return {f"{tag}_k{j}": rng.choice(["v", "", "a b", "é中", "x" * 17]) for j in range(rng.randint(1, 2))}


def gen_model(rng, onnx, kind, idx, opset=18):
    """kind: inert | active | functions | replace.  Returns (ModelProto, info)."""
    from onnx import TensorProto, helper
    md = rng.random() < 0.85          # metadata on every carrier (most models)
    vi_complete = rng.random() < 0.5  # value_info for every intermediate value (then shape inference has nothing to add)
    tmeta = md and idx % 6 == 1       # metadata_props on TensorProtos: few models (onnx_ir duplicates them, a finding of its own)
    nodes, inits, vinfo = [], [], []
    inputs = [helper.make_tensor_value_info("x", TensorProto.FLOAT, [2, 3])]
    if rng.random() < 0.5:
        inputs.append(helper.make_tensor_value_info("x2", TensorProto.FLOAT, ["N", 3]))
    cur = "x"
    nlen = rng.randint(2, 6)

    def add_node(op, ins, out, domain="", **attrs):
        n = helper.make_node(op, ins, [out], name=f"n{len(nodes)}_{op}", domain=domain, **attrs)
        if md and rng.random() < 0.7:
            n.doc_string = rng.choice(["doc of node", "döc", "x"])
        if md and rng.random() < 0.7:
            for k, v in _meta(rng, "node").items():
                n.metadata_props.add(key=k, value=v)
        nodes.append(n)
        if (vi_complete or rng.random() < 0.6) and out not in ("y",):
            vi = helper.make_tensor_value_info(out, TensorProto.FLOAT, [2, 3])
            if md:
                vi.doc_string = "value doc " + out
                for k, v in _meta(rng, "val").items():
                    vi.metadata_props.add(key=k, value=v)
            vinfo.append(vi)
        return out

    def finit(name, shape=(2, 3)):
        tp = make_tensor(rng, onnx, name, "FLOAT", list(shape), encoding=rng.choice(["raw", "typed"]),
                         doc="tensor doc" if md else None, meta=_meta(rng, "t") if tmeta else None)
        # arithmetic constants must be ordinary numbers (no 0/1 so that no-op rules stay quiet)
        vals = [rng.choice([-2.5, 0.25, 3.0, 1.5, -0.75, 7.0]) for _ in range(int(np.prod(shape)))]
        tp.ClearField("raw_data")
        del tp.float_data[:]
        if rng.random() < 0.5:
            tp.float_data.extend(vals)
        else:
            tp.raw_data = struct.pack("<%df" % len(vals), *vals)
        inits.append(tp)
        return name

    for i in range(nlen):
        r = rng.random()
        out = f"t{i}"
        if r < 0.45:
            # never the same unary op twice in a row (Relu(Relu(x)) is a rewrite-rule pattern, the model would not be inert)
            prev = nodes[-1].op_type if nodes else None
            cur = add_node(rng.choice([u for u in INERT_UNARY if u != prev]), [cur], out)
        elif r < 0.8:
            cur = add_node(rng.choice(["Add", "Mul", "Sub"]), [cur, finit(f"c{i}")], out)
        elif len(inputs) > 1 and r < 0.9:
            cur = add_node("Add", [cur, "x2"], out)
        else:
            cur = add_node("LeakyRelu", [cur], out, alpha=rng.choice([0.1, 0.3]))
    functions = []
    fn_used = False
    if kind in ("functions",) or (kind == "active" and rng.random() < 0.4):
        f = helper.make_function(DOM + ".fn", "Affine", ["a"], ["b"],
                                 [helper.make_node("Mul", ["a", "a"], ["aa"], name="fn_mul"),
                                  helper.make_node("Relu", ["aa"], ["b"], name="fn_relu")],
                                 opset_imports=[helper.make_opsetid("", opset)], doc_string="function doc" if md else None)
        if md:
            f.metadata_props.add(key="fn_k", value="fn_v")
            f.node[0].metadata_props.add(key="fn_node_k", value="v")
        functions.append(f)
        if kind == "functions" or rng.random() < 0.5:
            cur = add_node("Affine", [cur], "t_fn", domain=DOM + ".fn")
            fn_used = True
    if kind == "replace":
        cur = add_node("Twice", [cur], "t_custom", domain=DOM + ".custom")
    # exotic initializers, all kept alive by one node of an unknown domain whose output is a graph output
    hold_in = []
    etypes = list(ELEM) + ["STRING"]
    rng.shuffle(etypes)
    for e in etypes[: (len(etypes) if kind == "inert" and idx % 3 == 0 else rng.randint(3, 9))]:
        shape = rng.choice([[], [0], [1], [3], [2, 2], [5], [0, 3], [7]])
        nm = f"e_{e.lower()}"
        inits.append(make_tensor(rng, onnx, nm, e, shape, encoding=rng.choice(["raw", "typed"]),
                                 doc=("doc " + nm) if md and rng.random() < 0.5 else None, meta=_meta(rng, "t") if tmeta and rng.random() < 0.5 else None))
        hold_in.append(nm)
    if rng.random() < 0.6:   # external-data reference (never read by the passes: consumed by the unknown-domain node only)
        tp = onnx.TensorProto()
        tp.name = "e_external"
        tp.data_type = TensorProto.FLOAT
        tp.dims.extend([4, 4])
        tp.data_location = TensorProto.EXTERNAL
        for k, v in (("location", "weights.bin"), ("offset", str(rng.choice([0, 64, 4096]))), ("length", "64")):
            tp.external_data.add(key=k, value=v)
        if md:
            tp.doc_string = "external tensor doc"
        inits.append(tp)
        hold_in.append("e_external")
    nodes.append(helper.make_node("Hold", hold_in, ["held"], name="hold", domain=DOM))
    outputs = [helper.make_tensor_value_info("y", TensorProto.FLOAT, [2, 3]), helper.make_tensor_value_info("held", TensorProto.FLOAT, [])]
    # the chain's last value is renamed to y by an inert op
    nodes.insert(len(nodes) - 1, helper.make_node("Neg", [cur], ["y"], name="to_y"))
    if kind == "active":
        # things the passes act on: Identity, a dead node, an unused initializer, a foldable constant expression
        nodes.insert(0, helper.make_node("Identity", ["x"], ["x_id"], name="ident"))
        for n in nodes[1:]:
            for j, nm in enumerate(n.input):
                if nm == "x":
                    n.input[j] = "x_id"
        nodes.append(helper.make_node("Abs", ["x"], ["dead"], name="dead_node"))
        inits.append(make_tensor(rng, onnx, "unused_init", "FLOAT", [2]))
        k1, k2 = finit("k1", (3,)), finit("k2", (3,))
        nodes.insert(1, helper.make_node("Add", [k1, k2], ["k12"], name="foldable"))
        nodes.insert(2, helper.make_node("Add", ["x_id", "k12"], ["x_k"], name="use_folded"))
        for n in nodes[3:]:
            for j, nm in enumerate(n.input):
                if nm == "x_id":
                    n.input[j] = "x_k"
    g = helper.make_graph(nodes, "graph_" + kind, inputs, outputs, initializer=inits, value_info=vinfo,
                          doc_string="graph doc" if md else None)
    if md:
        for k, v in _meta(rng, "graph").items():
            g.metadata_props.add(key=k, value=v)
        g.input[0].doc_string = "input doc"
        g.input[0].metadata_props.add(key="in_k", value="in_v")
        g.output[0].metadata_props.add(key="out_k", value="out_v")
    opsets = [helper.make_opsetid("", opset), helper.make_opsetid(DOM, 1)]
    if functions:
        opsets.append(helper.make_opsetid(DOM + ".fn", 1))
    if kind == "replace":
        opsets.append(helper.make_opsetid(DOM + ".custom", 1))
    m = helper.make_model(g, opset_imports=opsets, ir_version=rng.choice([10, 11, 13]), functions=functions)
    if md:
        m.producer_name = "c15 producer"
        m.producer_version = "1.2.3"
        m.domain = "c15.domain"
        m.model_version = rng.choice([1, 7, 2 ** 40])
        m.doc_string = "model doc é"
        for k, v in _meta(rng, "model").items():
            m.metadata_props.add(key=k, value=v)
    if rng.random() < 0.3:
        # fields explicitly set to their default: these may vanish
        m.doc_string = m.doc_string
        if not md:
            m.producer_name = ""
            m.graph.doc_string = ""
    info = {"kind": kind, "idx": idx, "metadata": md, "tensor_metadata": tmeta, "vi_complete": vi_complete, "functions": len(functions), "fn_used": fn_used, "opset": opset,
            "elem_types": sorted({t.data_type for t in inits}), "external": any(t.data_location == 1 for t in inits)}
    return m, info


def replacement_functions(onnx, opset=18):
    from onnx import helper
    return [helper.make_function(DOM + ".custom", "Twice", ["a"], ["b"],
                                 [helper.make_node("Add", ["a", "a"], ["b"], name="twice_add")],
                                 opset_imports=[helper.make_opsetid("", opset)])]


def gen_plain(rng, onnx, idx, opset=18):
    """Standard-domain ops only (so that the ONNX C-API fallback of convert_version can run), initializers below and above
    the 1000-element limit of _c_api_utils, each of them listed among the graph inputs or not, optional model-local function."""
    from onnx import TensorProto, helper
    md = rng.random() < 0.7
    rows = rng.choice([4, 5])
    shape_big, shape_small = [rows, 300], [300]
    inputs = [helper.make_tensor_value_info("x", TensorProto.FLOAT, shape_big)]
    inits, nodes = [], []
    cur = "x"
    n_init = rng.randint(2, 5)
    flags = []
    for j in range(n_init):
        big = (j == 0) or rng.random() < 0.5
        as_input = (j == 0 and idx % 2 == 0) or rng.random() < 0.5
        shape = shape_big if big else rng.choice([shape_small, [1], []])
        n = int(np.prod(shape)) if shape else 1
        nm = f"w{j}_{'big' if big else 'small'}{'_in' if as_input else ''}"
        tp = onnx.TensorProto()
        tp.name = nm
        tp.data_type = TensorProto.FLOAT
        tp.dims.extend(shape)
        vals = [rng.choice([-2.5, 0.25, 3.0, 1.5, -0.75, 7.0, 11.0]) + (i % 13) for i in range(n)]
        if rng.random() < 0.5:
            tp.raw_data = struct.pack("<%df" % n, *vals)
        else:
            tp.float_data.extend(vals)
        if md:
            tp.doc_string = "doc " + nm
        inits.append(tp)
        if as_input:
            inputs.append(helper.make_tensor_value_info(nm, TensorProto.FLOAT, shape))
        flags.append((nm, big, as_input))
        out = f"t{j}"
        nd = helper.make_node(rng.choice(["Add", "Mul", "Sub"]), [cur, nm], [out], name=f"n{j}")
        if md:
            nd.doc_string = "node doc"
            nd.metadata_props.add(key="nk", value="nv")
        nodes.append(nd)
        cur = out
        if rng.random() < 0.4:
            prev = nodes[-1].op_type
            op = rng.choice([u for u in ("Relu", "Tanh", "Sigmoid", "Abs") if u != prev])
            nodes.append(helper.make_node(op, [cur], [f"u{j}"], name=f"un{j}"))
            cur = f"u{j}"
    functions = []
    if rng.random() < 0.35:
        functions.append(helper.make_function(DOM + ".fn", "Affine", ["a"], ["b"],
                                              [helper.make_node("Mul", ["a", "a"], ["aa"], name="fn_mul"),
                                               helper.make_node("Tanh", ["aa"], ["b"], name="fn_tanh")],
                                              opset_imports=[helper.make_opsetid("", opset)]))
        nodes.append(helper.make_node("Affine", [cur], ["t_fn"], name="call_fn", domain=DOM + ".fn"))
        cur = "t_fn"
    nodes.append(helper.make_node("Neg", [cur], ["y"], name="to_y"))
    g = helper.make_graph(nodes, "graph_plain", inputs, [helper.make_tensor_value_info("y", TensorProto.FLOAT, shape_big)], initializer=inits,
                          doc_string="graph doc" if md else None)
    if md:
        g.metadata_props.add(key="gk", value="gv")
    opsets = [helper.make_opsetid("", opset)] + ([helper.make_opsetid(DOM + ".fn", 1)] if functions else [])
    m = helper.make_model(g, opset_imports=opsets, ir_version=rng.choice([8, 9, 10]), functions=functions)
    if md:
        m.producer_name = "c15 plain"
        m.doc_string = "model doc"
        m.metadata_props.add(key="mk", value="mv")
    info = {"kind": "plain", "idx": idx, "metadata": md, "tensor_metadata": False, "vi_complete": False, "functions": len(functions),
            "fn_used": bool(functions), "opset": opset, "elem_types": [1], "external": False,
            "initializers": [{"name": a, "over_1000_elements": b, "also_graph_input": c} for a, b, c in flags]}
    return m, info


# ----------------------------------------------------------------------------- every field of the schema, each set to a recognisable value

def _mark(msg, path, meta=True, doc=True):
    """doc_string / metadata_props of a carrier, recognisable by its path."""
    if doc and hasattr(msg, "doc_string"):
        msg.doc_string = f"doc@{path}"
    if meta and hasattr(msg, "metadata_props"):
        msg.metadata_props.add(key=f"mk@{path}", value=f"mv@{path}")
        msg.metadata_props.add(key="common_key", value=f"v@{path}")


def _vi(onnx, name, elem, shape, path, denot=False):
    from onnx import helper
    vi = helper.make_tensor_value_info(name, elem, shape)
    _mark(vi, path)
    if denot:
        vi.type.denotation = "TENSOR"
        for i, d in enumerate(vi.type.tensor_type.shape.dim):
            d.denotation = ["DATA_BATCH", "DATA_CHANNEL", "DATA_FEATURE"][i % 3]
    return vi


def _sparse(onnx, name, path_tag):
    from onnx import helper, TensorProto
    vals = helper.make_tensor(name, TensorProto.FLOAT, [2], [1.5, -0.0])
    idx = helper.make_tensor(name + "_idx", TensorProto.INT64, [2], [1, 3])
    return helper.make_sparse_tensor(vals, idx, [5])


def _subgraph(rng, onnx, tag, outer_value):
    """A branch body: two nodes, an initializer, value_info of the intermediate value, doc and metadata everywhere."""
    from onnx import TensorProto, helper
    w = make_tensor(rng, onnx, f"{tag}_w", "FLOAT", [2, 3], doc=f"doc@{tag}/initializer/{tag}_w")
    w.ClearField("raw_data")
    import zlib
    off = zlib.crc32(tag.encode()) % 997      # distinct payloads per body (identical initializers would be merged by deduplication)
    w.float_data.extend([0.5 + off, -1.5, 2.5, 3.5 + off, -4.5, 5.5])
    n1 = helper.make_node("Add", [outer_value, f"{tag}_w"], [f"{tag}_mid"], name=f"{tag}_add")
    n2 = helper.make_node("Tanh", [f"{tag}_mid"], [f"{tag}_out"], name=f"{tag}_tanh")
    for n in (n1, n2):
        _mark(n, f"{tag}/node/{n.name}")
    g = helper.make_graph([n1, n2], f"{tag}_graph", [], [_vi(onnx, f"{tag}_out", TensorProto.FLOAT, [2, 3], f"{tag}/output")],
                          initializer=[w], value_info=[_vi(onnx, f"{tag}_mid", TensorProto.FLOAT, [2, 3], f"{tag}/value_info/{tag}_mid", denot=True)])
    _mark(g, f"{tag}/graph")
    return g


def gen_full(rng, onnx, idx, sparse=False, training=False, devices=True, sparse_attr=False, checksum=False, map_type=False, opaque=False, opset=18):
    """A valid model in which every field of the ONNX schema that a model can carry is populated with a value that names its place.
    `sparse` / `training`: also graph.sparse_initializer / model.training_info (kept apart: onnx_ir drops both, findings of their own)."""
    from onnx import AttributeProto, TensorProto, helper
    nodes, inits = [], []
    x = _vi(onnx, "x", TensorProto.FLOAT, [2, 3], "graph/input/x", denot=True)
    xn = _vi(onnx, "xn", TensorProto.FLOAT, ["N", 3], "graph/input/xn", denot=True)     # symbolic dimension; consumed by the unknown-domain node only
    c = _vi(onnx, "c", TensorProto.BOOL, [], "graph/input/c")
    # typed inputs of the non-tensor kinds, consumed by the unknown-domain node only
    seq_in = helper.make_value_info("seq_in", helper.make_sequence_type_proto(helper.make_tensor_type_proto(TensorProto.FLOAT, [2])))
    opt_in = helper.make_value_info("opt_in", helper.make_optional_type_proto(helper.make_tensor_type_proto(TensorProto.INT64, None)))
    sp_in = helper.make_value_info("sp_in", helper.make_sparse_tensor_type_proto(TensorProto.FLOAT, [4, "M"]))
    for v in (seq_in, opt_in, sp_in):
        _mark(v, f"graph/input/{v.name}")
    inputs = [x, c, seq_in, opt_in, sp_in, xn]
    hold_extra = ["xn"]
    if map_type:      # onnx_ir refuses map types outright (NotImplementedError): kept apart
        mp = helper.make_value_info("map_in", helper.make_map_type_proto(TensorProto.INT64, helper.make_tensor_type_proto(TensorProto.FLOAT, [2])))
        _mark(mp, "graph/input/map_in")
        inputs.append(mp)
        hold_extra.append("map_in")
    if opaque:
        op = onnx.ValueInfoProto()
        op.name = "opaque_in"
        op.type.opaque_type.domain, op.type.opaque_type.name = "domain@opaque", "name@opaque"
        _mark(op, "graph/input/opaque_in")
        inputs.append(op)
        hold_extra.append("opaque_in")
    n_if = helper.make_node("If", ["c"], ["y_if"], name="n_if", then_branch=_subgraph(rng, onnx, "then", "x"),
                            else_branch=_subgraph(rng, onnx, "else", "x"))
    _mark(n_if, "graph/node/n_if")
    for a in n_if.attribute:
        a.doc_string = f"doc@graph/node/n_if/attribute/{a.name}"
    nodes.append(n_if)
    # every attribute kind on a node of an unknown domain
    t_attr = make_tensor(rng, onnx, "attr_t", "BFLOAT16", [3], doc="doc@attr_t")
    ts_attr = [make_tensor(rng, onnx, "attr_ts0", "INT4", [5]), make_tensor(rng, onnx, "attr_ts1", "STRING", [2])]
    tp = helper.make_tensor_type_proto(TensorProto.FLOAT16, [1, "K"])
    tp.denotation = "IMAGE"
    hold = helper.make_node("Hold", ["seq_in", "opt_in", "sp_in"] + hold_extra, ["held"], name="n_hold", domain=DOM)
    for k, v in (("a_f", 0.1), ("a_i", -(2 ** 40)), ("a_s", "bytes \u00e9\u4e2d".encode()), ("a_t", t_attr), ("a_floats", [1.5, float("inf"), -0.0]),
                 ("a_ints", [2 ** 62, -1, 0]), ("a_strings", [b"a", b"", "\u00e9\u4e2d".encode()]), ("a_tensors", ts_attr), ("a_tp", tp),
                 ("a_g", _subgraph(rng, onnx, "attrg", "x")), ("a_graphs", [_subgraph(rng, onnx, "attrg0", "x"), _subgraph(rng, onnx, "attrg1", "x")]),
                 ("a_tps", [helper.make_tensor_type_proto(TensorProto.INT8, []),
                            helper.make_sequence_type_proto(helper.make_tensor_type_proto(TensorProto.DOUBLE, [1]))])):
        a = helper.make_attribute(k, v)
        a.doc_string = f"doc@graph/node/n_hold/attribute/{k}"
        hold.attribute.append(a)
    if sparse_attr:   # onnx_ir refuses these outright (NotImplementedError): kept apart
        sa = hold.attribute.add()
        sa.name, sa.type = "a_sparse", AttributeProto.SPARSE_TENSOR
        sa.sparse_tensor.CopyFrom(_sparse(onnx, "attr_sp", "a_sparse"))
        sa.doc_string = "doc@graph/node/n_hold/attribute/a_sparse"
        sas = hold.attribute.add()
        sas.name, sas.type = "a_sparses", AttributeProto.SPARSE_TENSORS
        sas.sparse_tensors.append(_sparse(onnx, "attr_sps0", "a_sparses"))
    ea = hold.attribute.add()
    ea.name, ea.type = "a_empty_ints", AttributeProto.INTS
    _mark(hold, "graph/node/n_hold")
    # a model-local function with attributes (required + defaulted), a reference attribute inside, value_info, overload
    f_nodes = [helper.make_node("LeakyRelu", ["a"], ["fa"], name="fn_leaky"), helper.make_node("Mul", ["fa", "fa"], ["b"], name="fn_mul")]
    ra = f_nodes[0].attribute.add()
    ra.name, ra.type, ra.ref_attr_name = "alpha", AttributeProto.FLOAT, "slope"
    ra.doc_string = "doc@function/node/fn_leaky/attribute/alpha"
    for n in f_nodes:
        _mark(n, f"function/node/{n.name}")
    fn = helper.make_function(DOM + ".fn", "Scaled", ["a"], ["b"], f_nodes, opset_imports=[helper.make_opsetid("", opset)], attributes=["slope"],
                              attribute_protos=[helper.make_attribute("unused_default", 7)], doc_string="doc@function", overload="ov1",
                              value_info=[_vi(onnx, "fa", TensorProto.FLOAT, [2, 3], "function/value_info/fa")])
    _mark(fn, "function", doc=False)
    call = helper.make_node("Scaled", ["y_if"], ["y_fn"], name="n_call", domain=DOM + ".fn", overload="ov1", slope=0.25)
    _mark(call, "graph/node/n_call")
    if devices:
        dc = call.device_configurations.add()
        dc.configuration_id = "cfg0"
        dc.pipeline_stage = 2
        ss = dc.sharding_spec.add()
        ss.tensor_name = "y_if"
        ss.device.extend([0, 1])
        e = ss.index_to_device_group_map.add()
        e.key = 0
        e.value.extend([0, 1])
        sd = ss.sharded_dim.add()
        sd.axis = 1
        s1 = sd.simple_sharding.add()
        s1.dim_value, s1.num_shards = 3, 1
        s2 = sd.simple_sharding.add()
        s2.dim_param, s2.num_shards = "N", 2
    nodes += [call, hold]
    to_y = helper.make_node("Neg", ["y_fn"], ["y"], name="n_to_y")
    _mark(to_y, "graph/node/n_to_y")
    nodes.append(to_y)
    # initializers: one per element type, external reference, all consumed by a second unknown-domain node
    names = []
    for e in list(ELEM) + ["STRING"]:
        shape = rng.choice([[], [0], [1], [3], [2, 2], [5], [7]])
        t = make_tensor(rng, onnx, f"e_{e.lower()}", e, shape, encoding=rng.choice(["raw", "typed"]), doc=f"doc@graph/initializer/e_{e.lower()}")
        inits.append(t)
        names.append(t.name)
    ext = onnx.TensorProto()
    ext.name, ext.data_type, ext.data_location = "e_external", TensorProto.FLOAT, TensorProto.EXTERNAL
    ext.dims.extend([4, 4])
    for k, v in (("location", "weights.bin"), ("offset", "64"), ("length", "64")) + ((("checksum", "0f" * 20),) if checksum else ()):
        ext.external_data.add(key=k, value=v)
    ext.doc_string = "doc@graph/initializer/e_external"
    inits.append(ext)
    names.append("e_external")
    scale = helper.make_tensor("y_if_scale", TensorProto.FLOAT, [], [0.5])
    zp = helper.make_tensor("y_if_zero_point", TensorProto.UINT8, [], [3])
    inits += [scale, zp]
    names += ["y_if_scale", "y_if_zero_point"]
    hold2 = helper.make_node("Hold", names, ["held2"], name="n_hold2", domain=DOM)
    _mark(hold2, "graph/node/n_hold2")
    nodes.append(hold2)
    outputs = [_vi(onnx, "y", TensorProto.FLOAT, [2, 3], "graph/output/y"), _vi(onnx, "held", TensorProto.FLOAT, [], "graph/output/held"),
               _vi(onnx, "held2", TensorProto.FLOAT, [], "graph/output/held2")]
    vinfo = [_vi(onnx, "y_if", TensorProto.FLOAT, [2, 3], "graph/value_info/y_if", denot=True),
             _vi(onnx, "y_fn", TensorProto.FLOAT, [2, 3], "graph/value_info/y_fn")]
    g = helper.make_graph(nodes, "graph_full", inputs, outputs, initializer=inits, value_info=vinfo)
    _mark(g, "graph")
    qa = g.quantization_annotation.add()
    qa.tensor_name = "y_if"
    qa.quant_parameter_tensor_names.add(key="SCALE_TENSOR", value="y_if_scale")
    qa.quant_parameter_tensor_names.add(key="ZERO_POINT_TENSOR", value="y_if_zero_point")
    if sparse:
        g.sparse_initializer.append(_sparse(onnx, "sp_init", "graph/sparse_initializer"))
        hold2.input.append("sp_init")
    opsets = [helper.make_opsetid("", opset), helper.make_opsetid(DOM, 1), helper.make_opsetid(DOM + ".fn", 1)]
    m = helper.make_model(g, opset_imports=opsets, ir_version=rng.choice([11, 12, 13]), functions=[fn])
    m.producer_name, m.producer_version, m.domain, m.model_version = "producer@model", "version@model", "domain@model", 2 ** 40 + idx
    _mark(m, "model")
    if devices:
        cfg = m.configuration.add()
        cfg.name, cfg.num_devices = "cfg0", 2
        cfg.device.extend(["dev0", "dev1"])
    if training:
        ti = m.training_info.add()
        ti.algorithm.name = "algorithm@training_info"
        ti.algorithm.node.append(helper.make_node("Neg", ["y_if_scale"], ["new_scale"], name="train_neg"))
        ti.algorithm.output.append(helper.make_tensor_value_info("new_scale", TensorProto.FLOAT, []))
        ti.update_binding.add(key="y_if_scale", value="new_scale")
        ti.initialization.name = "initialization@training_info"
        ti.initialization.node.append(helper.make_node("Identity", ["y_if_scale"], ["init_scale"], name="train_init"))
        ti.initialization.output.append(helper.make_tensor_value_info("init_scale", TensorProto.FLOAT, []))
        ti.initialization_binding.add(key="y_if_scale", value="init_scale")
    variant = [k for k, v in (("sparse", sparse), ("training", training), ("sparse_attr", sparse_attr), ("checksum", checksum), ("map_type", map_type),
                              ("opaque", opaque)) if v]
    info = {"kind": "full-variant" if variant else "full", "variant": variant, "idx": idx, "metadata": True, "tensor_metadata": False, "vi_complete": True, "functions": 1, "fn_used": True, "opset": opset,
            "elem_types": sorted({t.data_type for t in inits}), "external": True, "sparse": sparse, "training": training, "devices": devices, "sparse_attr": sparse_attr}
    return m, info


def schema_fields(onnx):
    """Every (message, field) of the ONNX schema reachable from ModelProto."""
    seen, out = set(), []

    def walk(d):
        if d.name in seen:
            return
        seen.add(d.name)
        for f in d.fields:
            out.append((d.name, f.name))
            if f.message_type:
                walk(f.message_type)
    walk(onnx.ModelProto.DESCRIPTOR)
    return out


def populated_fields(msg, acc):
    """(message, field) pairs that carry something in `msg` (recursively)."""
    from google.protobuf.descriptor import FieldDescriptor as FD
    for fd, val in msg.ListFields():
        acc.add((msg.DESCRIPTOR.name, fd.name))
        if fd.type == FD.TYPE_MESSAGE:
            for v in (val if _rep(fd) else [val]):
                populated_fields(v, acc)
    return acc
