(* C06 -- completeness for OR-free patterns with several output nodes (shared interior nodes included), without
   the side condition "no earlier candidate tuple makes the matcher raise": on OR-free patterns in creation order
   the matcher with the attribute repair (attr_fix) never raises, on any candidate tuple (without that repair: provided
   the constant attribute patterns can be evaluated on the graph, Spec.attrs_typed); and every instance whose output nodes are nodes of the matched graph sits on one of the
   candidate tuples the matcher enumerates. *)
From Coq Require Import List ZArith String Bool Arith Lia.
Require Import OV.Match.Pattern OV.Match.Matcher OV.Match.Spec OV.Match.SoundProofs OV.Match.CompleteProofs
  OV.Match.Committed OV.Match.CommittedProofs.
Import ListNotations.

Lemma rbind_no_err : forall A B (r : res A) (f : A -> res B),
  r <> Err -> (forall a, r = Ok a -> f a <> Err) -> rbind r f <> Err.
Proof. intros A B [a| | |s] f H K; simpl; try discriminate; auto. Qed.

Lemma of_opt_no_err : forall A (o : option A), of_opt o <> Err.
Proof. intros A [a|]; discriminate. Qed.

Lemma bind_attr_name_no_err : forall name b st, bind_attr_name name b st <> Err.
Proof. intros [x|] b st; simpl; [apply of_opt_no_err | discriminate]. Qed.

Lemma match_attrs_no_err : forall fl g h, In h (g_nodes g) ->
  forall pats st, attr_fix fl = true \/ forallb (attr_pat_typed g) pats = true -> match_attrs fl pats h st <> Err.
Proof.
  intros fl g h Hh. induction pats as [| [name ap] t IH]; intros st T; simpl; [discriminate|].
  assert (T2 : attr_fix fl = true \/ forallb (attr_pat_typed g) t = true).
  { destruct T as [T|T]; auto. simpl in T. apply andb_true_iff in T as [_ T]. auto. }
  destruct (assoc String.eqb name (h_attrs h)) as [a|] eqn:A; destruct ap as [c | x none_ok].
  - unfold attr_const_eval. destruct (attr_const_matches c a) as [[|]|] eqn:M; try discriminate; auto.
    destruct T as [T|T]; [rewrite T; discriminate|].
    simpl in T. apply andb_true_iff in T as [T1 _].
    unfold attr_pat_typed in T1; cbn [fst snd] in T1. eapply forallb_forall in T1; eauto. rewrite A, M in T1. discriminate.
  - apply rbind_no_err; [apply bind_attr_name_no_err|]. intros; auto.
  - discriminate.
  - destruct none_ok; [|discriminate]. apply rbind_no_err; [apply bind_attr_name_no_err|]. intros; auto.
Qed.

Lemma node_local_no_err : forall fl g h np st, In h (g_nodes g) ->
  attr_fix fl = true \/ forallb (attr_pat_typed g) (np_attrs np) = true -> node_local fl np h st <> Err.
Proof.
  intros fl g h np st Hh T. unfold node_local.
  destruct (negb (spat_matches (np_op np) (h_op h))); [discriminate|].
  destruct (negb (spat_matches (np_dom np) (h_dom h))); [discriminate|].
  apply rbind_no_err; [apply (match_attrs_no_err fl g h Hh); auto|].
  intros st1 _. destruct (np_other_attrs np || no_other_attrs np h); discriminate.
Qed.

Section NoErr.
Variable fl : flags.
Variable g : hgraph.
Variable tbl : list npat.
Hypothesis Horfree : forallb or_free_n tbl = true.
Hypothesis Htopo : topo_from tbl tbl 0 = true.
Hypothesis Htyped : attr_fix fl = true \/ attrs_typed tbl g = true.

Lemma bind_outputs_no_err : forall p names outs i st, bind_outputs fl p names outs i st <> Err.
Proof.
  induction names as [| nm t IH]; intros outs i st; simpl; [discriminate|].
  destruct outs as [| o outs']; [destruct (out_fail fl); discriminate|].
  apply rbind_no_err; [apply of_opt_no_err|]. intros; apply IH.
Qed.

Definition rec_no_err (q : pid) (rec : pid -> nid -> stack -> res stack) : Prop :=
  forall p n st, p < q -> p < List.length tbl -> n < List.length (g_nodes g) -> rec p n st <> Err.

Lemma match_value_no_err : forall q rec, rec_no_err q rec ->
  forall pv v st, or_free_v pv = true -> refs_below tbl q pv = true -> match_value fl g tbl rec pv v st <> Err.
Proof.
  intros q rec R pv v st OF RB. destruct pv; simpl in OF; try discriminate; simpl;
    destruct (boundary_blocks g _ v); try discriminate.
  - apply rbind_no_err; [apply of_opt_no_err|]. intros st1 _. destruct v; [|destruct none_ok]; discriminate.
  - apply rbind_no_err; [apply of_opt_no_err|]. intros st1 _. destruct v as [x|]; [|discriminate].
    destruct (const_ok g c x); discriminate.
  - apply rbind_no_err; [apply of_opt_no_err|]. intros st1 _.
    simpl in RB. unfold ref_ok in RB. apply andb_true_iff in RB as [RB1 RB2]. apply Nat.ltb_lt in RB1.
    destruct (nth_error tbl p) as [np|] eqn:Tp; try discriminate.
    unfold match_node_output. destruct v as [x|]; [|discriminate].
    destruct (producer g x) as [[n idx]|] eqn:P; [|discriminate].
    destruct (Nat.eqb idx i); [|discriminate].
    apply R; auto.
    + apply nth_error_Some; congruence.
    + destruct (producer_spec _ _ _ _ P) as (h & Hh & _). apply nth_error_Some; congruence.
Qed.

Lemma match_inputs_no_err : forall q rec, rec_no_err q rec ->
  forall pins ins st,
    forallb (fun i => match i with Some pv => or_free_v pv | None => true end) pins = true ->
    forallb (fun i => match i with Some pv => refs_below tbl q pv | None => true end) pins = true ->
    match_inputs fl g tbl rec pins ins st <> Err.
Proof.
  intros q rec R. induction pins as [| pp ptl IH]; intros ins st OF RB; simpl in *; [discriminate|].
  apply andb_true_iff in OF as [OF1 OF2]. apply andb_true_iff in RB as [RB1 RB2].
  destruct pp as [pv|].
  - apply rbind_no_err; [eapply match_value_no_err; eauto|]. intros; apply IH; auto.
  - destruct ins as [| [a|] atl]; try discriminate; apply IH; auto.
Qed.

Lemma match_node_no_err : forall f, rec_no_err f (match_node fl g tbl f).
Proof.
  induction f as [| f IH]; intros p n st Lp Lt Ln; [lia|]. simpl.
  destruct (lookup_nb p st) as [m|]; [destruct (Nat.eqb m n); discriminate|].
  destruct (nth_error tbl p) as [np|] eqn:Tp; [| apply nth_error_None in Tp; lia].
  destruct (nth_error (g_nodes g) n) as [h|] eqn:Gn; [| apply nth_error_None in Gn; lia].
  apply rbind_no_err.
  - apply (node_local_no_err fl g); [eapply nth_error_In; eauto|].
    destruct Htyped as [Ha|Ht]; [left; exact Ha | right].
    unfold attrs_typed in Ht. eapply forallb_forall in Ht; [| eapply nth_error_In; eauto]. exact Ht.
  - intros st1 _.
    destruct ((List.length (np_ins np) <? List.length (h_ins h)) && negb (np_other_ins np)); [discriminate|].
    apply rbind_no_err.
    + apply match_inputs_no_err with (q := p).
      * intros p' n' st' L1 L2 L3. apply IH; auto; lia.
      * eapply forallb_forall in Horfree; [| eapply nth_error_In; eauto]. exact Horfree.
      * assert (RB := topo_nth tbl _ _ _ _ Htopo Tp). simpl in RB. exact RB.
    + intros; apply bind_outputs_no_err.
Qed.

End NoErr.

(* ------------------------------------------------------------------ candidate tuples *)
Lemma nodes_with_opid_bound : forall ns n0 id g n, In n (nodes_with_opid ns n0 id g) -> n0 <= n < n0 + List.length ns.
Proof.
  induction ns as [| h t IH]; intros n0 id g n H; simpl in H; [contradiction|].
  apply in_app_or in H as [H|H].
  - match type of H with In _ (if ?c then _ else _) => destruct c end; [|contradiction].
    destruct H as [<-|[]]. simpl. lia.
  - apply IH in H. simpl. lia.
Qed.

Lemma candidate_lists_bound : forall fl ns g ids used l n,
  In l (candidate_lists fl ns g ids used) -> In n l -> n < List.length ns.
Proof.
  induction ids as [| [i|] t IH]; intros used l n Hl Hn; simpl in Hl; [contradiction| |];
    destruct Hl as [<-|Hl]; eauto.
  - apply nodes_with_opid_bound in Hn. lia.
  - destruct (used && negb (fresh_iter fl)); [contradiction|]. apply nodes_with_opid_bound in Hn. lia.
Qed.

Lemma product_forall : forall (P : nid -> Prop) ls c, In c (product ls) ->
  (forall l n, In l ls -> In n l -> P n) -> Forall P c.
Proof.
  induction ls as [| l t IH]; simpl; intros c H K.
  - destruct H as [<-|[]]. constructor.
  - apply in_flat_map in H as (x & Hx & H). apply in_map_iff in H as (c' & <- & H). constructor.
    + eapply K; eauto.
    + apply IH; auto. intros l' n Hl Hn. eapply K; eauto.
Qed.

Lemma candidates_valid : forall fl p g root c, root < List.length (g_nodes g) ->
  In c (candidates fl p g root) ->
  Forall (fun n => n < List.length (g_nodes g)) c /\ List.length c = List.length (output_nodes p).
Proof.
  intros fl p g root c Lr H. unfold candidates in H.
  destruct (output_nodes p) as [| r [| r2 others]] eqn:On; [contradiction| |].
  - destruct H as [<-|[]]. split; auto.
  - split.
    + eapply product_forall; eauto. intros l n [<-|Hl] Hn.
      * destruct Hn as [<-|[]]; auto.
      * eapply candidate_lists_bound; eauto.
    + rewrite (product_length _ _ H). cbn [List.length]. rewrite candidate_lists_length, map_length. reflexivity.
Qed.

Lemma in_product : forall ls c, Forall2 (fun x l => In x l) c ls -> In c (product ls).
Proof.
  induction ls as [| l t IH]; intros c F; inversion F; subst; simpl; auto.
  apply in_flat_map. eexists; split; eauto. apply in_map. apply IH; auto.
Qed.

Lemma in_nodes_with_opid : forall g id ns n0 k h, nth_error ns k = Some h ->
  match h_outs h with o :: _ => negb (foreign g o) | [] => true end = true ->
  match id with Some i => opid_eqb (h_opid h) i | None => true end = true ->
  In (n0 + k) (nodes_with_opid ns n0 id g).
Proof.
  intros g id. induction ns as [| h0 t IH]; intros n0 k h Hn Ho Hi; destruct k; simpl in Hn; try discriminate.
  - inversion Hn; subst. simpl. apply in_or_app; left. rewrite Ho, Hi. simpl. left. lia.
  - simpl. apply in_or_app; right. replace (n0 + S k) with (S n0 + k) by lia. eapply IH; eauto.
Qed.

(* ------------------------------------------------------------------ top level *)
Section Top.
Variable fl : flags.
Variable g : hgraph.
Variable p : gpat.
Hypothesis Hrep : repaired fl = true.
Hypothesis Hor : or_free p = true.
Hypothesis Htp : topo p = true.
Hypothesis Hty : attr_fix fl = true \/ attrs_typed (gp_nodes p) g = true.
Hypothesis Hroots : forall r, In r (output_nodes p) -> r < List.length (gp_nodes p).

Lemma match_roots_no_err : forall roots cand st,
  (forall r, In r roots -> r < List.length (gp_nodes p)) ->
  Forall (fun n => n < List.length (g_nodes g)) cand ->
  match_roots fl g p roots cand st <> Err.
Proof.
  induction roots as [| r rt IH]; intros [| c ct] st Hr Hc; simpl; try discriminate.
  change (rbind (match_node fl g (gp_nodes p) (fuel_for p) r c st) (fun st1 => match_roots fl g p rt ct st1) <> Err).
  inversion Hc; subst. apply rbind_no_err.
  - apply (match_node_no_err fl g (gp_nodes p) Hor Htp Hty (fuel_for p)); auto.
    + unfold fuel_for. assert (r < List.length (gp_nodes p)) by (apply Hr; left; auto). lia.
    + apply Hr; left; auto.
  - intros st1 _. apply IH; auto. intros r' I. apply Hr; right; auto.
Qed.

(* on such patterns the matcher does not raise, whatever the candidate tuple *)
Theorem try_candidate_no_err : forall cand,
  List.length cand = List.length (output_nodes p) ->
  Forall (fun n => n < List.length (g_nodes g)) cand ->
  try_candidate fl g p false cand <> Err.
Proof.
  intros cand Hl Hc. unfold try_candidate.
  destruct (match_roots fl g p (output_nodes p) cand init_stack) as [st| | |s] eqn:M.
  - destruct (match_roots_spec fl g p Hrep _ _ _ _ (eq_sym Hl) M) as ((_ & _ & B) & _).
    unfold finish. rewrite B. simpl.
    destruct (output_values (gp_nodes p) st (gp_outs p)); discriminate.
  - discriminate.
  - exfalso. eapply match_roots_no_err; eauto.
  - exfalso. assert (S := sim_roots fl g p Hrep (output_nodes p) cand init_stack). rewrite M in S.
    simpl in S. first [contradiction | destruct (croots (attr_fix fl) g p (output_nodes p) cand (flat init_stack)); contradiction].
Qed.

End Top.

Lemma roots_are_in : forall s roots cand r, roots_are s roots cand = true -> In r roots ->
  exists c, In c cand /\ node_is s r c = true.
Proof.
  induction roots as [| r0 rt IH]; intros [| c ct] r H I; simpl in *; try discriminate; try contradiction.
  apply andb_true_iff in H as [H1 H2]. destruct I as [<-|I].
  - exists c; split; auto.
  - destruct (IH _ _ H2 I) as (c' & Ic & N). exists c'; split; auto.
Qed.

(* completeness with several output nodes, no side condition on the other candidate tuples *)
Theorem run_complete_orfree_multi_full : forall fl g p s,
  repaired fl = true -> or_free p = true -> topo p = true ->
  attr_fix fl = true \/ attrs_typed (gp_nodes p) g = true ->
  forall root cand,
  outs_reachable_multi p ->
  root < List.length (g_nodes g) ->
  In cand (candidates fl p g root) ->
  instanceb g p cand s = true ->
  exists m, run fl p g root false = Ok m.
Proof.
  intros fl g p s Hrep Hor Htp Hty root cand Hre Lr Ic Hi.
  apply (run_complete_orfree_multi_closed fl g p s Hrep Hor Htp root cand Hre Ic Hi).
  intros c Hc. destruct (candidates_valid _ _ _ _ _ Lr Hc) as [V L].
  apply try_candidate_no_err; auto.
  (* the output nodes are nodes of the pattern: the instance maps them *)
  intros r Ir. unfold instanceb in Hi. apply andb_true_iff in Hi as [R Hok].
  destruct (roots_are_in _ _ _ _ R Ir) as (c0 & _ & N).
  assert (NO := node_ok_of g (gp_nodes p) s Hok _ _ N). unfold node_ok in NO; cbn [fst snd] in NO.
  destruct (nth_error (gp_nodes p) r) eqn:T; try discriminate. apply nth_error_Some; congruence.
Qed.

Lemma candidates_cover : forall fl g p s, fresh_iter fl = true -> nodes_ok g (gp_nodes p) s = true ->
  forall rs rest used, roots_are s rs rest = true -> Forall (fun n => own_node g n = true) rest ->
  Forall2 (fun x l => In x l) rest
    (candidate_lists fl (g_nodes g) g
       (map (fun q => match nth_error (gp_nodes p) q with Some np => np_opid np | None => None end) rs) used).
Proof.
  intros fl g p s Hfr Hok. induction rs as [| q qt IH]; intros [| c ct] used R Hown; simpl in R; try discriminate.
  - constructor.
  - apply andb_true_iff in R as [N R]. inversion Hown as [| ? ? Oc Ot]; subst.
    assert (NO := node_ok_of g (gp_nodes p) s Hok _ _ N). unfold node_ok in NO; cbn [fst snd] in NO.
    destruct (nth_error (gp_nodes p) q) as [np|] eqn:Tq; try discriminate.
    unfold own_node in Oc. destruct (nth_error (g_nodes g) c) as [h|] eqn:Gc; try discriminate.
    unfold nlocal in NO. do 5 (apply andb_true_iff in NO as [NO _]).
    apply andb_true_iff in NO as [OP DOM].
    cbn [map]. rewrite Tq.
    assert (IN : forall id, id = np_opid np -> In c (nodes_with_opid (g_nodes g) 0 id g)).
    { intros id E. change c with (0 + c). eapply in_nodes_with_opid; eauto. subst id.
      unfold np_opid. destruct (np_id_known np); auto. unfold np_opid_decl.
      destruct (np_dom np) as [d|d]; auto. destruct (np_op np) as [o|o]; auto.
      simpl in OP, DOM. unfold opid_eqb, h_opid; cbn [fst snd]. rewrite OP, DOM. reflexivity. }
    destruct (np_opid np) as [i|] eqn:Eid; cbn [candidate_lists].
    + constructor; [apply IN; auto | apply IH; auto].
    + rewrite Hfr. rewrite andb_false_r. constructor; [apply IN; auto | apply IH; auto].
Qed.

(* every instance whose first output node is the given node and whose other output nodes are nodes of the matched
   graph sits on a candidate tuple (each output node without operator identifier ranging over all nodes) *)
Theorem instance_in_candidates : forall fl g p s root rest,
  fresh_iter fl = true ->
  instanceb g p (root :: rest) s = true ->
  Forall (fun n => own_node g n = true) rest ->
  In (root :: rest) (candidates fl p g root).
Proof.
  intros fl g p s root rest Hfr Hi Hown. unfold instanceb in Hi. apply andb_true_iff in Hi as [R Hok].
  unfold candidates. destruct (output_nodes p) as [| r [| r2 others]] eqn:On.
  - simpl in R; discriminate.
  - simpl in R. apply andb_true_iff in R as [_ R]. destruct rest; [left; auto | discriminate].
  - change (roots_are s (r :: r2 :: others) (root :: rest))
      with (node_is s r root && roots_are s (r2 :: others) rest) in R.
    apply andb_true_iff in R as [_ R]. apply in_product. constructor; [left; auto|].
    eapply candidates_cover; eauto.
Qed.

(* the two together: an instance at the given node is matched *)
Corollary run_complete_orfree_multi_instance : forall fl g p s root rest,
  repaired fl = true -> fresh_iter fl = true -> attr_fix fl = true ->
  or_free p = true -> topo p = true ->
  outs_reachable_multi p ->
  root < List.length (g_nodes g) ->
  Forall (fun n => own_node g n = true) rest ->
  instanceb g p (root :: rest) s = true ->
  exists m, run fl p g root false = Ok m.
Proof.
  intros fl g p s root rest Hrep Hfr Haf Hor Htp Hre Lr Hown Hi.
  eapply run_complete_orfree_multi_full; eauto. eapply instance_in_candidates; eauto.
Qed.
