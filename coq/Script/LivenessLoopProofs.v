(* Soundness of the *generated* liveness analysis (Gen/Analysis.v = analysis.py as it is now) for code WITH loops:
   `for` and `while` loops nested with if/else to any depth, `break` only as the last thing a loop body does (the
   only placement the converter accepts), `return` anywhere.  Two environments that agree on the variables live before
   a statement produce outcomes that agree on the variables live after it.

   The argument for a loop: the analysis returns L = F(c) for some c with L = c as sets (`iterate` stops when the set
   no longer changes), where F(c) = (live-in of the body for live-out c, minus the loop variable) + what is live after
   the loop [+ the condition variable].  So environments that agree on L agree on the live-in of the body, after the
   body they agree on c = L, and what is live after the loop is contained in L.  The variables of a `for` bound must
   be live before the loop (hypothesis bound_live: true of the repaired analysis, see live_in_for_bound_repaired). *)
From Coq Require Import List String ZArith Bool Lia.
Require Import OV.Graph.Syntax OV.Graph.WfProofs OV.Script.Syntax OV.Script.Sets OV.Gen.Analysis OV.Gen.ScriptTables
               OV.Script.Translate OV.Script.PySem OV.Script.TranslateProofs OV.Script.AnalysisProofs
               OV.Script.TranslateExamples OV.Script.LivenessProofs.
Import ListNotations.
Local Open Scope string_scope.
Local Open Scope list_scope.

(* ------------------------------------------------------------------ the fixpoint iteration *)

Lemma iterate_spec : forall fuel f x0 r, iterate fuel f x0 = Some r -> exists c, f c = Some r /\ seqb r c = true.
Proof.
  induction fuel as [|n IH]; intros f x0 r H; cbn [iterate] in H; [discriminate H|].
  destruct (f x0) as [nx|] eqn:E; [|discriminate H]. destruct (seqb nx x0) eqn:Es.
  - inversion H; subst nx. exists x0. split; assumption.
  - eapply IH. exact H.
Qed.

Lemma ssubset_In : forall a b, ssubset a b = true -> forall x, In x a -> In x b.
Proof. intros a b H x Hx. unfold ssubset in H. rewrite forallb_forall in H. apply mem_In. apply H. exact Hx. Qed.

Lemma seqb_In : forall a b, seqb a b = true -> forall x, In x a <-> In x b.
Proof.
  intros a b H x. unfold seqb in H. apply andb_true_iff in H. destruct H as [H1 H2].
  split; [apply ssubset_In; exact H1 | apply ssubset_In; exact H2].
Qed.

(* the generated text, loop by loop: what the analysis returns for a loop *)
Lemma loop_fix_for : forall cic fuel i b body lo Lf, loop_fixpoint cic fuel (SFor i b body) lo = Some Lf ->
  exists c lb, live_block cic fuel body c = Some lb /\ Lf = sunion (sdiff lb [i]) lo /\ seqb Lf c = true.
Proof.
  intros cic fuel i b body lo Lf H. unfold loop_fixpoint in H. cbv zeta in H.
  apply iterate_spec in H. destruct H as (c & Hf & Hs). cbv beta in Hf.
  destruct (live_block cic fuel body c) as [lb|] eqn:E; [|discriminate Hf]. inversion Hf; subst Lf. exists c, lb.
  split; [exact E|]. split; [reflexivity | exact Hs].
Qed.

Lemma loop_fix_while : forall cic fuel c0 body lo Lf, loop_fixpoint cic fuel (SWhile c0 body) lo = Some Lf ->
  exists c lb, live_block cic fuel body c = Some lb /\ Lf = sunion (sunion lb [c0]) lo /\ seqb Lf c = true.
Proof.
  intros cic fuel c0 body lo Lf H. unfold loop_fixpoint in H. cbv zeta in H.
  apply iterate_spec in H. destruct H as (c & Hf & Hs). cbv beta in Hf.
  destruct (live_block cic fuel body c) as [lb|] eqn:E; [|discriminate Hf]. inversion Hf; subst Lf. exists c, lb.
  split; [exact E|]. split; [reflexivity | exact Hs].
Qed.

(* what is live before a `for` contains what the fixpoint iteration returns (equal to it in the code as read before the
   loop bound was kept live, plus the variables of the bound after) *)
Lemma live_for_split : forall cic fuel i b body lo L, live_stmt cic fuel (SFor i b body) lo = Some L ->
  exists Lf, loop_fixpoint cic fuel (SFor i b body) lo = Some Lf /\ (forall x, In x Lf -> In x L).
Proof.
  intros cic fuel i b body lo L H.
  first [ exists L; split; [exact H | auto]
        | change (live_stmt cic fuel (SFor i b body) lo)
            with (match loop_fixpoint cic fuel (SFor i b body) lo with
                  | Some c => Some (sunion c (used_vars b)) | None => None end) in H;
          destruct (loop_fixpoint cic fuel (SFor i b body) lo) as [Lf|]; [|discriminate H];
          exists Lf; split; [reflexivity|]; inversion H; intros x Hx; apply In_sunion; left; exact Hx ].
Qed.

Lemma live_while_split : forall cic fuel c0 body lo L, live_stmt cic fuel (SWhile c0 body) lo = Some L ->
  loop_fixpoint cic fuel (SWhile c0 body) lo = Some L.
Proof. intros cic fuel c0 body lo L H. exact H. Qed.

(* what the converter needs of a loop's liveness: what is live at the end of the body (Lf) is live before the loop (L),
   and what is live after the loop is live at the end of the body (a loop may run zero times, or stop after any iteration) *)
Lemma loop_live_facts_for : forall cic fuel i b body lo L Lf,
  live_stmt cic fuel (SFor i b body) lo = Some L -> loop_fixpoint cic fuel (SFor i b body) lo = Some Lf ->
  (forall x, In x Lf -> In x L) /\ (forall x, In x lo -> In x Lf).
Proof.
  intros cic fuel i b body lo L Lf H H0. destruct (live_for_split _ _ _ _ _ _ _ H) as (Lf' & E & Hs).
  rewrite E in H0. inversion H0; subst Lf'. split; [exact Hs|].
  destruct (loop_fix_for _ _ _ _ _ _ _ E) as (c & lb & _ & EL & _). intros x Hx. rewrite EL. apply In_sunion. right. exact Hx.
Qed.

Lemma loop_live_facts_while : forall cic fuel c0 body lo L Lf,
  live_stmt cic fuel (SWhile c0 body) lo = Some L -> loop_fixpoint cic fuel (SWhile c0 body) lo = Some Lf ->
  (forall x, In x Lf -> In x L) /\ (forall x, In x lo -> In x Lf).
Proof.
  intros cic fuel c0 body lo L Lf H H0. rewrite (live_while_split _ _ _ _ _ _ H) in H0. inversion H0; subst Lf.
  split; [auto|]. destruct (loop_fix_while _ _ _ _ _ _ (live_while_split _ _ _ _ _ _ H)) as (c & lb & _ & EL & _).
  intros x Hx. rewrite EL. apply In_sunion. right. exact Hx.
Qed.

(* ------------------------------------------------------------------ the class *)

(* loops allowed; `break` only where nothing follows it in the enclosing blocks up to the nearest loop body (tail) *)
Fixpoint ll_stmt (tail : bool) (s : stmt) : bool :=
  match s with
  | SAssign _ _ | STuple _ _ | SReturn _ => true
  | SBreak => tail
  | SIf c t f =>
    (fix blk (l : list stmt) : bool :=
       match l with [] => true | s0 :: r => ll_stmt (tail && is_nil r) s0 && blk r end) t &&
    (fix blk (l : list stmt) : bool :=
       match l with [] => true | s0 :: r => ll_stmt (tail && is_nil r) s0 && blk r end) f
  | SFor _ _ body | SWhile _ body =>
    (fix blk (l : list stmt) : bool :=
       match l with [] => true | s0 :: r => ll_stmt (true && is_nil r) s0 && blk r end) body
  end.

Definition ll_block (tail : bool) : list stmt -> bool :=
  fix blk (l : list stmt) : bool :=
    match l with [] => true | s0 :: r => ll_stmt (tail && is_nil r) s0 && blk r end.

Lemma ll_block_cons : forall tail s0 r, ll_block tail (s0 :: r) = ll_stmt (tail && is_nil r) s0 && ll_block tail r.
Proof. reflexivity. Qed.
Lemma ll_if : forall tail c t f, ll_stmt tail (SIf c t f) = ll_block tail t && ll_block tail f.
Proof. reflexivity. Qed.
Lemma ll_for : forall tail i b body, ll_stmt tail (SFor i b body) = ll_block true body.
Proof. reflexivity. Qed.
Lemma ll_while : forall tail c body, ll_stmt tail (SWhile c body) = ll_block true body.
Proof. reflexivity. Qed.

Section LiveLoops.
  Variable V : Type.
  Variable sem : string -> string -> list (string * attrv) -> list (option V) -> option (list V).
  Variable truth : V -> option bool.
  Variable trip : V -> option nat.
  Variable of_nat : nat -> V.
  Variable while_limit : nat.
  Variable globals : list (string * lit).
  Variable cic : expr -> option bool.
  Variable afuel : nat.
  Variable K : sset.

  Notation penv := (penv V).
  Notation outcome := (outcome V).
  Notation eval_expr := (eval_expr V sem globals).
  Notation exec_block := (exec_block V sem truth trip of_nat while_limit globals).
  Notation exec_stmt1 := (exec_stmt1 V sem truth trip of_nat while_limit globals).
  Notation agree_on := (agree_on V).
  Notation agreeK := (agreeK V K).
  Notation out_rel := (out_rel V K).
  Notation for_iter := (for_iter V sem truth trip of_nat while_limit globals).
  Notation while_iter := (while_iter V sem truth trip of_nat while_limit globals).

  Hypothesis cic_sound : forall c b pe v, cic c = Some b -> eval_expr pe c = Some v -> ptruth V truth v = Some b.
  Hypothesis cic_reads : forall c b, cic c = Some b -> incl (used_vars c) K.
  (* the variables of a `for` bound are live before the loop *)
  Hypothesis bound_live : forall i b body lo L, live_stmt cic afuel (SFor i b body) lo = Some L -> incl (used_vars b) L.

  Definition block_soundL (fu : nat) : Prop :=
    forall ss tail lo li pe1 pe2 o1,
      ll_block tail ss = true -> live_block cic afuel ss lo = Some li -> agreeK li pe1 pe2 ->
      exec_block fu ss pe1 = Some o1 ->
      exists o2, exec_block fu ss pe2 = Some o2 /\ out_rel tail lo o1 o2.

  Lemma agreeK_sub : forall L L' pe1 pe2, agreeK L pe1 pe2 -> (forall x, In x L' -> In x L) -> agreeK L' pe1 pe2.
  Proof. intros L L' pe1 pe2 A H x [Hx|Hx]; apply A; [left; apply H; exact Hx | right; exact Hx]. Qed.

  Lemma agreeK_cons : forall L L' pe1 pe2 i v, agreeK L pe1 pe2 -> (forall x, In x L' -> x = i \/ In x L) ->
    agreeK L' ((i, v) :: pe1) ((i, v) :: pe2).
  Proof.
    intros L L' pe1 pe2 i v A H x Hx. cbn [plookup]. destruct (String.eqb x i) eqn:E; [reflexivity|].
    apply A. destruct Hx as [Hx|Hx]; [|right; exact Hx]. destruct (H x Hx) as [Hi|Hl]; [|left; exact Hl].
    subst x. rewrite String.eqb_refl in E. discriminate E.
  Qed.

  Lemma stmt_soundL : forall fu, block_soundL fu -> forall s tail lo li pe1 pe2 o1,
    ll_stmt tail s = true -> live_stmt cic afuel s lo = Some li -> agreeK li pe1 pe2 ->
    exec_stmt1 fu s pe1 = Some o1 ->
    exists o2, exec_stmt1 fu s pe2 = Some o2 /\ out_rel tail lo o1 o2.
  Proof.
    intros fu IH s tail lo li pe1 pe2 o1 Hlf Hlive A Hex.
    destruct s as [x e|xs e|c t f|i b body|c body| |es]; cbn [exec_stmt1] in *.
    - (* assignment *)
      rewrite live_assign in Hlive. inversion Hlive; subst li. clear Hlive.
      assert (Ae : agree_on (used_vars e) pe1 pe2).
      { eapply agreeK_on; [exact A|]. intros y Hy. left. apply In_sunion. right. exact Hy. }
      rewrite <- (eval_expr_agree V sem globals e pe1 pe2 Ae).
      destruct (eval_expr pe1 e) as [v|]; [|discriminate]. inversion Hex; subst o1.
      eexists. split; [reflexivity|]. cbn [out_rel]. intros y Hy. cbn [plookup].
      destruct (String.eqb y x) eqn:E; [reflexivity|]. apply A. destruct Hy as [Hy|Hy]; [left|right; exact Hy].
      apply In_sunion. left. apply In_sdiff. split; [exact Hy|]. intros [Hin|[]]. subst. rewrite String.eqb_refl in E. discriminate.
    - (* tuple assignment *)
      rewrite live_tuple in Hlive. inversion Hlive; subst li. clear Hlive.
      assert (Ae : agree_on (used_vars e) pe1 pe2).
      { eapply agreeK_on; [exact A|]. intros y Hy. left. apply In_sunion. right. exact Hy. }
      rewrite <- (eval_call_multi_agree V sem globals e pe1 pe2 Ae).
      destruct (eval_call_multi V sem globals pe1 e) as [vs|]; [|discriminate].
      destruct (pbind V xs vs pe1) as [pe1'|] eqn:Ep; [|discriminate]. inversion Hex; subst o1.
      destruct (pbind_agree V (sunion (sdiff lo xs) (used_vars e) ++ K) xs vs pe1 pe2 pe1') as (pe2' & B & C); [|exact Ep|].
      { intros y Hy. apply A. apply in_app_or in Hy. exact Hy. }
      rewrite B. eexists. split; [reflexivity|]. cbn [out_rel]. intros y Hy. apply C.
      destruct (in_dec string_dec y xs) as [Hin|Hnin]; [right; exact Hin|]. left. apply in_or_app.
      destruct Hy as [Hy|Hy]; [left|right; exact Hy]. apply In_sunion. left. apply In_sdiff. split; assumption.
    - (* if *)
      rewrite live_if in Hlive. rewrite ll_if in Hlf. apply andb_true_iff in Hlf. destruct Hlf as [Hlt Hlf].
      destruct (eval_expr pe1 c) as [vc|] eqn:Ec; [|discriminate].
      destruct (ptruth V truth vc) as [b|] eqn:Et; [|discriminate].
      destruct (cic c) as [cb|] eqn:Ecc.
      + (* constant condition: its names are in K *)
        assert (Ac : agree_on (used_vars c) pe1 pe2).
        { intros y Hy. apply A. right. eapply cic_reads; eassumption. }
        rewrite <- (eval_expr_agree V sem globals c pe1 pe2 Ac), Ec, Et.
        pose proof (cic_sound _ _ _ _ Ecc Ec) as Hb. rewrite Et in Hb. inversion Hb; subst cb.
        destruct b; eapply IH; eassumption.
      + destruct (live_block cic afuel t lo) as [l1|] eqn:E1; [|discriminate].
        destruct (live_block cic afuel f lo) as [l2|] eqn:E2; [|discriminate]. inversion Hlive; subst li. clear Hlive.
        assert (Ac : agree_on (used_vars c) pe1 pe2).
        { eapply agreeK_on; [exact A|]. intros y Hy. left. apply In_sunion. right. exact Hy. }
        rewrite <- (eval_expr_agree V sem globals c pe1 pe2 Ac), Ec, Et.
        destruct b.
        * eapply IH; [exact Hlt | exact E1 | | exact Hex].
          intros y [Hy|Hy]; apply A; [left|right; exact Hy]. apply In_sunion. left. apply In_sunion. left. exact Hy.
        * eapply IH; [exact Hlf | exact E2 | | exact Hex].
          intros y [Hy|Hy]; apply A; [left|right; exact Hy]. apply In_sunion. left. apply In_sunion. right. exact Hy.
    - (* for *)
      rewrite ll_for in Hlf.
      pose proof (bound_live _ _ _ _ _ Hlive) as Hb.
      destruct (live_for_split _ _ _ _ _ _ _ Hlive) as (Lf & Hfix & HLf).
      destruct (loop_fix_for _ _ _ _ _ _ _ Hfix) as (c & lb & Hlb & ELf & Hseq).
      assert (Ae : agree_on (used_vars b) pe1 pe2).
      { eapply agreeK_on; [exact A|]. intros y Hy. left. apply Hb. exact Hy. }
      rewrite <- (eval_expr_agree V sem globals b pe1 pe2 Ae).
      destruct (eval_expr pe1 b) as [vb|]; [|discriminate]. destruct (ptrip V trip vb) as [n|]; [|discriminate].
      assert (ALf : agreeK Lf pe1 pe2) by (eapply agreeK_sub; [exact A | exact HLf]).
      assert (Hlo : forall x, In x lo -> In x Lf) by (intros x Hx; rewrite ELf; apply In_sunion; right; exact Hx).
      assert (Hlbi : forall x, In x lb -> x = i \/ In x Lf).
      { intros x Hx. destruct (string_dec x i) as [E|E]; [left; exact E|]. right. rewrite ELf. apply In_sunion. left.
        apply In_sdiff. split; [exact Hx|]. intros [H|[]]. apply E. symmetry. exact H. }
      clear A Hlive Ae Hb. revert pe1 pe2 o1 ALf Hex. generalize 0 as j.
      induction n as [|n IHn]; intros j pe1 pe2 o1 ALf Hex; cbn [AnalysisProofs.for_iter] in *.
      + inversion Hex; subst o1. eexists. split; [reflexivity|]. cbn [out_rel]. eapply agreeK_sub; [exact ALf | exact Hlo].
      + destruct (exec_block fu body ((i, PT V (of_nat j)) :: pe1)) as [ob|] eqn:Eb; [|discriminate Hex].
        destruct (IH body true c lb _ ((i, PT V (of_nat j)) :: pe2) ob Hlf Hlb
                    (agreeK_cons Lf lb pe1 pe2 i (PT V (of_nat j)) ALf Hlbi) Eb) as (ob2 & Eb2 & R).
        rewrite Eb2. destruct ob as [a|a|v1], ob2 as [b2|b2|v2]; cbn [out_rel] in R; try contradiction.
        * eapply IHn; [|exact Hex]. eapply agreeK_sub; [exact R|]. intros x Hx. apply (seqb_In _ _ Hseq). exact Hx.
        * inversion Hex; subst o1. destruct R as [_ R]. eexists. split; [reflexivity|]. cbn [out_rel].
          eapply agreeK_sub; [exact R|]. intros x Hx. apply (seqb_In _ _ Hseq). apply Hlo. exact Hx.
        * inversion Hex; subst o1. eexists. split; [reflexivity|]. exact R.
    - (* while *)
      rewrite ll_while in Hlf.
      pose proof (live_while_split _ _ _ _ _ _ Hlive) as Hfix.
      destruct (loop_fix_while _ _ _ _ _ _ Hfix) as (c0 & lb & Hlb & ELf & Hseq).
      assert (Hlo : forall x, In x lo -> In x li) by (intros x Hx; rewrite ELf; apply In_sunion; right; exact Hx).
      assert (Hc : In c li) by (rewrite ELf; apply In_sunion; left; apply In_sunion; right; left; reflexivity).
      assert (Hlbs : forall x, In x lb -> In x li) by (intros x Hx; rewrite ELf; apply In_sunion; left; apply In_sunion; left; exact Hx).
      clear Hlive Hfix.
      assert (Hw : forall k pe1 pe2 o1, agreeK li pe1 pe2 -> while_iter fu c body k pe1 = Some o1 ->
                     exists o2, while_iter fu c body k pe2 = Some o2 /\ out_rel tail lo o1 o2);
        [|exact (Hw while_limit pe1 pe2 o1 A Hex)].
      clear pe1 pe2 o1 A Hex.
      induction k as [|k IHk]; intros pe1 pe2 o1 A Hex; cbn [AnalysisProofs.while_iter] in *;
        rewrite <- (A c (or_introl Hc)); destruct (plookup V pe1 c) as [vc|]; try discriminate Hex;
        destruct (ptruth V truth vc) as [[|]|]; try discriminate Hex.
      + inversion Hex; subst o1. eexists. split; [reflexivity|]. cbn [out_rel]. eapply agreeK_sub; [exact A | exact Hlo].
      + destruct (exec_block fu body pe1) as [ob|] eqn:Eb; [|discriminate Hex].
        destruct (IH body true c0 lb pe1 pe2 ob Hlf Hlb (agreeK_sub _ _ _ _ A Hlbs) Eb) as (ob2 & Eb2 & R).
        rewrite Eb2. destruct ob as [a|a|v1], ob2 as [b2|b2|v2]; cbn [out_rel] in R; try contradiction.
        * eapply IHk; [|exact Hex]. eapply agreeK_sub; [exact R|]. intros x Hx. apply (seqb_In _ _ Hseq). exact Hx.
        * inversion Hex; subst o1. destruct R as [_ R]. eexists. split; [reflexivity|]. cbn [out_rel].
          eapply agreeK_sub; [exact R|]. intros x Hx. apply (seqb_In _ _ Hseq). apply Hlo. exact Hx.
        * inversion Hex; subst o1. eexists. split; [reflexivity|]. exact R.
      + inversion Hex; subst o1. eexists. split; [reflexivity|]. cbn [out_rel]. eapply agreeK_sub; [exact A | exact Hlo].
    - (* break *)
      rewrite live_break in Hlive. inversion Hlive; subst li. inversion Hex; subst o1. cbn [ll_stmt] in Hlf.
      eexists. split; [reflexivity|]. cbn [out_rel]. split; [exact Hlf | exact A].
    - (* return *)
      rewrite live_return in Hlive. inversion Hlive; subst li. clear Hlive.
      fold (eval_rets V sem globals pe1) in Hex. fold (eval_rets V sem globals pe2).
      assert (Ae : agree_on (used_vars_list es) pe1 pe2).
      { eapply agreeK_on; [exact A|]. intros y Hy. left. exact Hy. }
      rewrite <- (eval_rets_agree V sem globals es pe1 pe2 Ae).
      destruct (eval_rets V sem globals pe1 es) as [vs|]; [|discriminate]. inversion Hex; subst o1.
      eexists. split; [reflexivity|]. reflexivity.
  Qed.


  Theorem live_block_sound_loops : forall fu, block_soundL fu.
  Proof.
    induction fu as [|fu IH]; intros ss tail lo li pe1 pe2 o1 Hlf Hlive A Hex; [discriminate Hex|].
    revert tail lo li pe1 pe2 o1 Hlf Hlive A Hex. induction ss as [|s rest IHs]; intros tail lo li pe1 pe2 o1 Hlf Hlive A Hex.
    - rewrite live_block_nil in Hlive. inversion Hlive; subst li. cbn in Hex. inversion Hex; subst o1.
      eexists. split; [reflexivity|]. exact A.
    - rewrite live_block_cons in Hlive. destruct (live_block cic afuel rest lo) as [l1|] eqn:El; [|discriminate].
      rewrite ll_block_cons in Hlf. apply andb_true_iff in Hlf. destruct Hlf as [Hls Hlr].
      rewrite exec_block_cons in Hex. rewrite exec_block_cons.
      destruct (exec_stmt1 fu s pe1) as [o|] eqn:Es; [|discriminate].
      destruct (stmt_soundL fu IH s _ l1 li pe1 pe2 o Hls Hlive A Es) as (o2 & Es2 & R). rewrite Es2.
      destruct o as [a|a|v1], o2 as [b|b|v2]; cbn [out_rel] in R; try contradiction.
      + eapply IHs; eassumption.
      + inversion Hex; subst o1. destruct R as [Ht R]. apply andb_true_iff in Ht. destruct Ht as [Ht Hn].
        destruct rest; [|discriminate Hn]. rewrite live_block_nil in El. inversion El; subst l1.
        eexists. split; [reflexivity|]. cbn [out_rel]. split; assumption.
      + inversion Hex; subst o1. eexists. split; [reflexivity|]. exact R.
  Qed.


  Theorem live_in_sound_loops : forall fuel s lo li pe1 pe2 o1,
    ll_stmt true s = true ->
    live_stmt cic afuel s lo = Some li ->
    (forall x, In x li \/ In x K -> plookup V pe1 x = plookup V pe2 x) ->
    exec_block fuel [s] pe1 = Some o1 ->
    exists o2, exec_block fuel [s] pe2 = Some o2 /\
      match o1, o2 with
      | ONormal _ a, ONormal _ b | OBreak _ a, OBreak _ b => forall x, In x lo \/ In x K -> plookup V a x = plookup V b x
      | OReturn _ v1, OReturn _ v2 => v1 = v2
      | _, _ => False
      end.
  Proof.
    intros fuel s lo li pe1 pe2 o1 Hlf Hlive A Hex.
    assert (H1 : ll_block true [s] = true).
    { rewrite ll_block_cons. cbn [is_nil andb ll_block]. rewrite Hlf. reflexivity. }
    assert (H2 : live_block cic afuel [s] lo = Some li).
    { rewrite live_block_cons, live_block_nil. exact Hlive. }
    destruct (live_block_sound_loops fuel [s] true lo li pe1 pe2 o1 H1 H2 A Hex) as (o2 & E2 & R).
    exists o2. split; [exact E2|]. destruct o1, o2; cbn [out_rel] in R; try contradiction; try exact R. apply R.
  Qed.
End LiveLoops.

(* the statement of C01_live_in_sound_full restricted to the class with loops, for the analysis that keeps the loop
   bound live (for_bound_live = true: decided by computation on the generated analysis, see LivenessProofs.v) *)
Theorem live_in_sound_loops_statement :
  for_bound_live = true -> live_in_sound_statement (fun s => ll_stmt true s = true).
Proof.
  intros Hv V sem truth trip of_nat while_limit globals cic afuel K Hs Hr fuel s lo li pe1 pe2 o1 Hc.
  exact (live_in_sound_loops V sem truth trip of_nat while_limit globals cic afuel K Hs Hr
           (fun i b body lo0 L => live_in_for_bound_repaired Hv cic afuel i b body lo0 L) fuel s lo li pe1 pe2 o1 Hc).
Qed.

(* the class and the hypotheses are inhabited: `for i in range(n): y = y + i` *)
Lemma live_loops_nonvacuous :
  ll_stmt true forb_stmt = true /\
  (exists li, live_stmt (fun _ => None) 5 forb_stmt ["y"] = Some li) /\
  (exists o, forb_exec forb_pe1 = Some o).
Proof. split; [reflexivity|]. split; eexists; vm_compute; reflexivity. Qed.
