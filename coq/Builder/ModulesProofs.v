(* Proofs about Model A (module trees): the names under which parameters are realised are the
   state_dict keys prefixed with the root's name, for trees of any depth and any mixture of
   Module / ModuleList / Sequential, under explicitly stated hypotheses; refutations outside them. *)
From Coq Require Import String List Bool Arith Lia FinFun.
Require Import OV.Builder.Strings OV.Builder.StringsProofs OV.Builder.Modules.
Import ListNotations.
Local Open Scope string_scope.

(* ------------------------------------------------------------------ induction principles *)
Section MtreeInd.
  Variable P : mtree -> Prop.
  Hypothesis H : forall k nm ps cs sb, Forall (fun kc => P (snd kc)) cs -> P (MT k nm ps cs sb).
  Fixpoint mtree_ind' (t : mtree) : P t :=
    match t with
    | MT k nm ps cs sb =>
      H k nm ps cs sb
        ((fix go (l : list (string * mtree)) : Forall (fun kc => P (snd kc)) l :=
            match l with
            | [] => Forall_nil _
            | (key, c) :: r => Forall_cons (key, c) (mtree_ind' c) (go r)
            end) cs)
    end.
End MtreeInd.

Section SpecInd.
  Variable P : spec -> Prop.
  Hypothesis HM : forall nm ps cs sb, Forall (fun kc => P (snd kc)) cs -> P (SMod nm ps cs sb).
  Hypothesis HC : forall seq i e l, Forall P i -> Forall P e -> Forall P l -> P (SCont seq i e l).
  Hypothesis HS : forall lo hi b, P b -> P (SSlice lo hi b).
  Fixpoint spec_ind' (s : spec) : P s :=
    let fl := (fix go (l : list spec) : Forall P l :=
                 match l with [] => Forall_nil _ | c :: r => Forall_cons c (spec_ind' c) (go r) end) in
    match s with
    | SMod nm ps cs sb =>
      HM nm ps cs sb
         ((fix go (l : list (string * spec)) : Forall (fun kc => P (snd kc)) l :=
             match l with
             | [] => Forall_nil _
             | (key, c) :: r => Forall_cons (key, c) (spec_ind' c) (go r)
             end) cs)
    | SCont seq i e l => HC seq i e l (fl i) (fl e) (fl l)
    | SSlice lo hi b => HS lo hi b (spec_ind' b)
    end.
End SpecInd.

(* ------------------------------------------------------------------ equations for the inner fixes *)
Definition cmap (f : string -> mtree -> mtree) (cs : list (string * mtree)) : list (string * mtree) :=
  map (fun kc => (fst kc, f (fst kc) (snd kc))) cs.

Lemma set_name_eq : forall n k nm ps cs sb,
  set_name n (MT k nm ps cs sb) =
  MT k (Some n) ps
     (match k with
      | KMod => cs
      | KList => cmap (fun key c => set_name (dot n key) c) cs
      | KSeq => cmap (fun key c => set_name key c) cs
      end) sb.
Proof.
  intros. destruct k; simpl; auto; f_equal; unfold cmap;
    induction cs as [|[key c] r IH]; simpl; auto; now rewrite IH.
Qed.

Lemma sd_entries_eq : forall pre k nm ps cs sb,
  sd_entries pre (MT k nm ps cs sb) =
  (map (fun p => (prefix pre (pe_key p), pe_id p)) ps ++
   flat_map (fun kc => sd_entries (prefix pre (fst kc)) (snd kc)) cs)%list.
Proof.
  intros. simpl. f_equal. induction cs as [|[key c] r IH]; simpl; auto. now rewrite IH.
Qed.

Lemma events_eq : forall cf insub rst st k nm ps cs sb,
  events cf insub rst st (MT k nm ps cs sb) =
  match k with
  | KList => flat_map (fun kc => events cf insub rst st (snd kc)) cs
  | _ =>
    let me := match nm with Some n => n | None => "" end in
    let st' := (st ++ [me])%list in
    let rst' := if insub then rst else st' in
    let qst := if realize_uses_root_scope cf then rst' else st' in
    (map (fun p => (pe_id p, qualify_init qst (pe_name p))) ps ++
     flat_map (fun kc => events cf (insub || sb) rst' st' (snd kc)) cs)%list
  end.
Proof.
  intros. destruct k; simpl.
  - f_equal. induction cs as [|[key c] r IH]; simpl; auto. now rewrite IH.
  - induction cs as [|[key c] r IH]; simpl; auto. now rewrite IH.
  - f_equal. induction cs as [|[key c] r IH]; simpl; auto. now rewrite IH.
Qed.

(* ------------------------------------------------------------------ the naming invariants *)
Definition child_acc (k : kind) (acc key : string) : string :=
  match k with KList => dot acc key | _ => key end.

(* t carries the accumulated dotted name acc, and so does everything below it, relative to the
   nearest callable ancestor *)
Inductive named : string -> mtree -> Prop :=
| Named : forall k acc ps cs sb,
    Forall (fun kc => named (child_acc k acc (fst kc)) (snd kc)) cs ->
    named acc (MT k (Some acc) ps cs sb).

(* everything below t is named correctly relative to t, whatever t's own name field is (a
   ModuleList propagates names downwards when it is given one) *)
Inductive shape_ok : mtree -> Prop :=
| ShapeList : forall nm ps cs sb,
    Forall (fun kc => shape_ok (snd kc)) cs -> shape_ok (MT KList nm ps cs sb)
| ShapeCall : forall k nm ps cs sb, k <> KList ->
    Forall (fun kc => named (fst kc) (snd kc)) cs -> shape_ok (MT k nm ps cs sb).

Lemma named_shape : forall t acc, named acc t -> shape_ok t.
Proof.
  induction t as [k nm ps cs sb IH] using mtree_ind'. intros acc Hn. inversion Hn; subst.
  destruct k.
  - apply ShapeCall; [discriminate|]. simpl in *. auto.
  - apply ShapeList. rewrite Forall_forall in *. intros kc Hin. eapply IH; eauto.
  - apply ShapeCall; [discriminate|]. simpl in *. auto.
Qed.

Lemma set_name_named : forall t n, shape_ok t -> named n (set_name n t).
Proof.
  induction t as [k nm ps cs sb IH] using mtree_ind'. intros n Hs. rewrite set_name_eq.
  constructor. inversion Hs; subst.
  - unfold cmap. rewrite Forall_map. simpl. rewrite Forall_forall in *. intros kc Hin. apply IH; auto.
  - destruct k; try congruence.
    + simpl. auto.
    + unfold cmap. rewrite Forall_map. simpl. rewrite Forall_forall in *. intros kc Hin.
      apply IH; auto. eapply named_shape; eauto.
Qed.

Lemma set_field_shape : forall t n, shape_ok t -> shape_ok (set_field n t).
Proof. intros [k nm ps cs sb] n H. simpl. inversion H; subst; [apply ShapeList | apply ShapeCall]; auto. Qed.

Lemma set_field_named : forall t n, shape_ok t -> t_kind t <> KList -> named n (set_field n t).
Proof.
  intros [k nm ps cs sb] n H Hk. simpl in *. constructor. inversion H; subst; try congruence.
  destruct k; try congruence; simpl; auto.
Qed.

Lemma t_name_set_name : forall n t, t_name (set_name n t) = Some n.
Proof. intros n [k nm ps cs sb]. rewrite set_name_eq. reflexivity. Qed.
Lemma t_kind_set_name : forall n t, t_kind (set_name n t) = t_kind t.
Proof. intros n [k nm ps cs sb]. rewrite set_name_eq. reflexivity. Qed.
Lemma t_kind_set_field : forall n t, t_kind (set_field n t) = t_kind t.
Proof. intros n [k nm ps cs sb]. reflexivity. Qed.

(* ------------------------------------------------------------------ static hypotheses, unfolded *)
Lemma keys_okb_eq : forall k nm ps cs sb,
  keys_okb (MT k nm ps cs sb) =
  (match k, ps with KList, _ :: _ => false | _, _ => true end) &&
  forallb (fun p => keyok (pe_key p) && String.eqb (pe_name p) (pe_key p)) ps &&
  nodup_strb (map pe_key ps) && nodup_strb (map fst cs) &&
  forallb (fun kc => keyok (fst kc) && keys_okb (snd kc)) cs.
Proof.
  intros. simpl. f_equal. induction cs as [|[key c] r IH]; simpl; auto. now rewrite IH.
Qed.

Lemma nosubb_eq : forall k nm ps cs sb,
  nosubb (MT k nm ps cs sb) = negb sb && forallb (fun kc => nosubb (snd kc)) cs.
Proof.
  intros. simpl. f_equal. induction cs as [|[key c] r IH]; simpl; auto. now rewrite IH.
Qed.

Lemma map_flat_map' : forall A B C (f : B -> C) (g : A -> list B) l,
  map f (flat_map g l) = flat_map (fun x => map f (g x)) l.
Proof. induction l; simpl; auto. now rewrite map_app, IHl. Qed.

Lemma flat_map_ext_in : forall A B (f g : A -> list B) l,
  (forall x, In x l -> f x = g x) -> flat_map f l = flat_map g l.
Proof.
  induction l; simpl; intros; auto. rewrite H by auto. f_equal. apply IHl. auto.
Qed.

Lemma prefix_empty : forall k, prefix "" k = k.
Proof. reflexivity. Qed.

Lemma nonempty_neq : forall s, nonempty s = true -> String.eqb s "" = false.
Proof. unfold nonempty; intros. now apply negb_true_iff. Qed.

Lemma dot_nonempty : forall a b, String.eqb (dot a b) "" = false.
Proof. intros. unfold dot. destruct a; reflexivity. Qed.

Lemma prefix_dot : forall pre key k, nonempty key = true ->
  prefix (prefix pre key) k = prefix pre (dot key k).
Proof.
  intros pre key k Hk. unfold prefix. destruct (String.eqb pre "") eqn:E.
  - now rewrite (nonempty_neq key Hk).
  - rewrite dot_nonempty. apply dot_assoc.
Qed.

Lemma prefix_nonempty : forall p k, nonempty p = true -> prefix p k = dot p k.
Proof. intros p k H. unfold prefix. now rewrite (nonempty_neq p H). Qed.

(* state_dict keys with a prefix = the relative keys, prefixed *)
Lemma sd_entries_pre : forall t pre, keys_okb t = true ->
  sd_entries pre t = map (fun e => (prefix pre (fst e), snd e)) (sd_entries "" t).
Proof.
  induction t as [k nm ps cs sb IH] using mtree_ind'. intros pre Hk.
  rewrite keys_okb_eq in Hk. repeat (apply andb_true_iff in Hk as [Hk ?]).
  rewrite !sd_entries_eq, map_app, map_map. f_equal.
  rewrite map_flat_map'. apply flat_map_ext_in. intros [key c] Hin. cbn [fst snd].
  rewrite forallb_forall in H. specialize (H _ Hin). cbn [fst snd] in H. apply andb_true_iff in H as [Hkey Hc].
  rewrite Forall_forall in IH. specialize (IH _ Hin). cbn [fst snd] in IH.
  rewrite (IH (prefix pre key) Hc), (IH (prefix "" key) Hc), map_map. apply map_ext. intros [k' i]. cbn [fst snd].
  assert (Hne : nonempty key = true) by (unfold keyok in Hkey; now apply andb_true_iff in Hkey as [_ ?]).
  f_equal. rewrite prefix_empty, (prefix_nonempty key k' Hne). now apply prefix_dot.
Qed.

(* ------------------------------------------------------------------ qualification *)
Lemma nonempty_parts_app : forall a b, nonempty_parts (a ++ b) = (nonempty_parts a ++ nonempty_parts b)%list.
Proof. intros. unfold nonempty_parts. apply filter_app. Qed.

Lemma join_snoc : forall ps x, ps <> [] -> join_with "." (ps ++ [x]) = dot (join_with "." ps) x.
Proof.
  induction ps as [|a r IH]; intros x H; [congruence|].
  destruct r as [|b r'].
  - reflexivity.
  - change (join_with "." ((a :: b :: r') ++ [x])) with (a ++ "." ++ join_with "." ((b :: r') ++ [x])).
    rewrite IH by discriminate.
    change (join_with "." (a :: b :: r')) with (a ++ "." ++ join_with "." (b :: r')).
    unfold dot. now rewrite !app_assoc_str.
Qed.

(* pushing a non-empty scope name = prefixing the name with it *)
Lemma qualify_push : forall st acc x, nonempty acc = true ->
  qualify_init (st ++ [acc]) x = qualify_init st (dot acc x).
Proof.
  intros st acc x Ha. unfold qualify_init. rewrite nonempty_parts_app.
  assert (E0 : nonempty_parts [acc] = [acc]) by (unfold nonempty_parts; simpl; now rewrite Ha).
  rewrite E0. destruct (nonempty_parts st) as [|a r] eqn:E.
  - reflexivity.
  - cbn [app]. change (a :: (r ++ [acc]))%list with ((a :: r) ++ [acc])%list.
    rewrite join_snoc by discriminate. apply dot_assoc.
Qed.

(* pushing the empty name (unnamed root) changes nothing *)
Lemma qualify_push_empty : forall st x, qualify_init (st ++ [""]) x = qualify_init st x.
Proof.
  intros. unfold qualify_init. rewrite nonempty_parts_app. simpl. now rewrite app_nil_r.
Qed.

(* ------------------------------------------------------------------ A1: events of a named tree *)
Definition scope_sane (cf : cfg) (insub : bool) (t : mtree) : Prop :=
  realize_uses_root_scope cf = false \/ (insub = false /\ nosubb t = true).

Lemma keyok_nonempty : forall k, keyok k = true -> nonempty k = true.
Proof. unfold keyok; intros k H; now apply andb_true_iff in H as [_ ?]. Qed.
Lemma keyok_dotfree : forall k, keyok k = true -> dotfree k = true.
Proof. unfold keyok; intros k H; now apply andb_true_iff in H as [? _]. Qed.

Lemma scope_sane_child : forall cf insub k nm ps cs sb kc,
  scope_sane cf insub (MT k nm ps cs sb) -> In kc cs -> scope_sane cf (insub || sb) (snd kc).
Proof.
  intros cf insub k nm ps cs sb kc [Hs | [Hi Hs]] Hin; [now left|].
  rewrite nosubb_eq in Hs. apply andb_true_iff in Hs as [Hsb Hs]. apply negb_true_iff in Hsb. subst.
  right. split; auto. rewrite forallb_forall in Hs. auto.
Qed.

Lemma scope_sane_qst : forall cf insub t (rst st' : list string),
  scope_sane cf insub t ->
  (if realize_uses_root_scope cf then (if insub then rst else st') else st') = st'.
Proof.
  intros cf insub t rst st' [Hs | [Hi Hs]].
  - now rewrite Hs.
  - subst. now destruct (realize_uses_root_scope cf).
Qed.

Lemma events_named : forall cf t, keys_okb t = true ->
  forall acc insub rst st, named acc t -> nonempty acc = true -> scope_sane cf insub t ->
  events cf insub rst st t =
  map (fun e => (snd e, qualify_init st (dot acc (fst e)))) (sd_entries "" t).
Proof.
  intros cf. induction t as [k nm ps cs sb IH] using mtree_ind'.
  intros Hk acc insub rst st Hn Ha Hs.
  rewrite keys_okb_eq in Hk.
  apply andb_true_iff in Hk as [Hk Hcs]. apply andb_true_iff in Hk as [Hk Hnd2].
  apply andb_true_iff in Hk as [Hk Hnd1]. apply andb_true_iff in Hk as [Hlp Hk].
  inversion Hn as [k0 acc0 ps0 cs0 sb0 Hch]; subst.
  rewrite events_eq, sd_entries_eq.
  rewrite Forall_forall in IH. rewrite Forall_forall in Hch. rewrite forallb_forall in Hcs.
  rewrite forallb_forall in Hk.
  destruct k.
  - (* plain Module *)
    cbv zeta. rewrite (scope_sane_qst cf insub _ rst (st ++ [acc])%list Hs).
    rewrite map_app, map_map. f_equal.
    + apply map_ext_in. intros p Hp. cbn [fst snd]. specialize (Hk _ Hp).
      apply andb_true_iff in Hk as [_ Hk]. apply String.eqb_eq in Hk. rewrite Hk.
      now rewrite qualify_push.
    + rewrite map_flat_map'. apply flat_map_ext_in. intros [key c] Hin. cbn [fst snd].
      specialize (Hcs _ Hin). cbn [fst snd] in Hcs. apply andb_true_iff in Hcs as [Hkey Hc].
      rewrite (IH _ Hin Hc key); [| exact (Hch _ Hin) | now apply keyok_nonempty
                                  | exact (scope_sane_child _ _ _ _ _ _ _ _ Hs Hin)].
      rewrite prefix_empty, (sd_entries_pre c key Hc), map_map. apply map_ext. intros [k' i]. cbn [fst snd].
      rewrite prefix_nonempty by now apply keyok_nonempty.
      now rewrite qualify_push.
  - (* ModuleList: iterated, children carry acc.key *)
    destruct ps as [|p ps']; [|discriminate].
    cbn [map app]. rewrite map_flat_map'. apply flat_map_ext_in. intros [key c] Hin. cbn [fst snd].
    specialize (Hcs _ Hin). cbn [fst snd] in Hcs. apply andb_true_iff in Hcs as [Hkey Hc].
    assert (Hs' : scope_sane cf insub c).
    { destruct Hs as [Hs | [Hi Hs]]; [now left|]. right. split; auto.
      rewrite nosubb_eq in Hs. apply andb_true_iff in Hs as [_ Hs]. rewrite forallb_forall in Hs.
      exact (Hs _ Hin). }
    rewrite (IH _ Hin Hc (dot acc key)); [| exact (Hch _ Hin) | apply negb_true_iff, dot_nonempty | exact Hs'].
    rewrite prefix_empty, (sd_entries_pre c key Hc), map_map. apply map_ext. intros [k' i]. cbn [fst snd].
    rewrite prefix_nonempty by now apply keyok_nonempty.
    now rewrite dot_assoc.
  - (* Sequential *)
    cbv zeta. rewrite (scope_sane_qst cf insub _ rst (st ++ [acc])%list Hs).
    rewrite map_app, map_map. f_equal.
    + apply map_ext_in. intros p Hp. cbn [fst snd]. specialize (Hk _ Hp).
      apply andb_true_iff in Hk as [_ Hk]. apply String.eqb_eq in Hk. rewrite Hk.
      now rewrite qualify_push.
    + rewrite map_flat_map'. apply flat_map_ext_in. intros [key c] Hin. cbn [fst snd].
      specialize (Hcs _ Hin). cbn [fst snd] in Hcs. apply andb_true_iff in Hcs as [Hkey Hc].
      rewrite (IH _ Hin Hc key); [| exact (Hch _ Hin) | now apply keyok_nonempty
                                  | exact (scope_sane_child _ _ _ _ _ _ _ _ Hs Hin)].
      rewrite prefix_empty, (sd_entries_pre c key Hc), map_map. apply map_ext. intros [k' i]. cbn [fst snd].
      rewrite prefix_nonempty by now apply keyok_nonempty.
      now rewrite qualify_push.
Qed.

(* ------------------------------------------------------------------ the root call *)
Lemma qualify_single : forall me x, qualify_init [me] x = prefix me x.
Proof.
  intros. unfold qualify_init, nonempty_parts, prefix. cbn [filter]. unfold nonempty.
  destruct (String.eqb me "") eqn:E; reflexivity.
Qed.

Lemma qualify_single_dot : forall me k x, qualify_init [me] (dot k x) = prefix me (dot k x).
Proof. intros; apply qualify_single. Qed.

Theorem events_root : forall cf t,
  t_kind t <> KList -> shape_ok t -> keys_okb t = true -> scope_sane cf false t ->
  events cf false [] [] t = map (fun e => (snd e, prefix (root_name t) (fst e))) (sd_entries "" t).
Proof.
  intros cf [k nm ps cs sb] Hkind Hshape Hk Hs. cbn [t_kind] in Hkind.
  pose proof Hk as Hk0. rewrite keys_okb_eq in Hk.
  apply andb_true_iff in Hk as [Hk Hcs]. apply andb_true_iff in Hk as [Hk Hnd2].
  apply andb_true_iff in Hk as [Hk Hnd1]. apply andb_true_iff in Hk as [Hlp Hk].
  rewrite forallb_forall in Hk, Hcs.
  inversion Hshape as [? ? ? ? Hch | ? ? ? ? ? _ Hch]; subst; [congruence|]. rewrite Forall_forall in Hch.
  rewrite events_eq, sd_entries_eq. unfold root_name. cbn [t_name].
  set (me := match nm with Some n => n | None => "" end).
  transitivity ((map (fun p => (pe_id p, qualify_init [me] (pe_name p))) ps ++
               flat_map (fun kc => events cf (false || sb) [me] [me] (snd kc)) cs)%list).
  { destruct k; try congruence; cbv zeta; cbn [app]; destruct (realize_uses_root_scope cf); reflexivity. }
  rewrite map_app, map_map. f_equal.
  - apply map_ext_in. intros p Hp. cbn [fst snd]. specialize (Hk _ Hp).
    apply andb_true_iff in Hk as [_ Hk]. apply String.eqb_eq in Hk. rewrite Hk. now rewrite qualify_single.
  - rewrite map_flat_map'. apply flat_map_ext_in. intros [key c] Hin. cbn [fst snd].
    specialize (Hcs _ Hin). cbn [fst snd] in Hcs. apply andb_true_iff in Hcs as [Hkey Hc].
    rewrite (events_named cf c Hc key); [| exact (Hch _ Hin) | now apply keyok_nonempty
                                         | exact (scope_sane_child _ _ _ _ _ _ _ _ Hs Hin)].
    rewrite prefix_empty, (sd_entries_pre c key Hc), map_map. apply map_ext. intros [k' i]. cbn [fst snd].
    rewrite (prefix_nonempty key k') by now apply keyok_nonempty. now rewrite qualify_single.
Qed.

(* ------------------------------------------------------------------ uniqueness of state_dict keys *)
Lemma sd_child_keys : forall key c, keyok key = true -> keys_okb c = true ->
  map fst (sd_entries (prefix "" key) c) = map (dot key) (map fst (sd_entries "" c)).
Proof.
  intros key c Hkey Hc. rewrite prefix_empty, (sd_entries_pre c key Hc), !map_map.
  apply map_ext. intros [k' i]. cbn [fst]. now rewrite prefix_nonempty by now apply keyok_nonempty.
Qed.

Lemma NoDup_children_keys : forall cs,
  NoDup (map fst cs) ->
  (forall kc, In kc cs -> keyok (fst kc) = true /\ keys_okb (snd kc) = true /\
                          NoDup (map fst (sd_entries "" (snd kc)))) ->
  NoDup (flat_map (fun kc => map fst (sd_entries (prefix "" (fst kc)) (snd kc))) cs).
Proof.
  induction cs as [|[key c] r IH]; simpl; intros Hnd H; [constructor|].
  inversion Hnd as [|? ? Hnotin Hnd']; subst.
  destruct (H (key, c) (or_introl eq_refl)) as [Hkey [Hc Hn]]. cbn [fst snd] in *.
  apply NoDup_app'.
  - rewrite sd_child_keys by auto. apply FinFun.Injective_map_NoDup; auto.
    intros x y E. exact (dot_inj_r _ _ _ E).
  - apply IH; auto.
  - intros x Hx Hy. apply in_flat_map in Hy as [[key2 c2] [Hin2 Hx2]]. cbn [fst snd] in Hx2.
    destruct (H (key2, c2) (or_intror Hin2)) as [Hkey2 [Hc2 _]]. cbn [fst snd] in *.
    rewrite sd_child_keys in Hx, Hx2 by auto.
    apply in_map_iff in Hx as [y [Ey _]]. apply in_map_iff in Hx2 as [y2 [Ey2 _]]. subst x.
    destruct (dot_inj key2 key y2 y) as [E _]; auto using keyok_dotfree.
    subst key2. apply Hnotin. change key with (fst (key, c2)). now apply in_map.
Qed.

Theorem sd_keys_nodup : forall t, keys_okb t = true -> NoDup (map fst (sd_entries "" t)).
Proof.
  induction t as [k nm ps cs sb IH] using mtree_ind'. intros Hk.
  rewrite keys_okb_eq in Hk.
  apply andb_true_iff in Hk as [Hk Hcs]. apply andb_true_iff in Hk as [Hk Hnd2].
  apply andb_true_iff in Hk as [Hk Hnd1]. apply andb_true_iff in Hk as [Hlp Hk].
  rewrite forallb_forall in Hk, Hcs. rewrite Forall_forall in IH.
  rewrite sd_entries_eq, map_app, map_map, map_flat_map'. cbn [fst].
  assert (Hall : forall kc, In kc cs -> keyok (fst kc) = true /\ keys_okb (snd kc) = true /\
                          NoDup (map fst (sd_entries "" (snd kc)))).
  { intros kc Hin. specialize (Hcs _ Hin). apply andb_true_iff in Hcs as [Hkey Hc]. auto. }
  apply NoDup_app'.
  - replace (map (fun x => prefix "" (pe_key x)) ps) with (map pe_key ps) by (apply map_ext; reflexivity).
    now apply nodup_strb_NoDup.
  - apply NoDup_children_keys; auto. now apply nodup_strb_NoDup.
  - intros x Hx Hy. apply in_map_iff in Hx as [p [Ep Hp]]. rewrite prefix_empty in Ep. subst x.
    apply in_flat_map in Hy as [[key c] [Hin Hx]]. cbn [fst snd] in Hx.
    destruct (Hall _ Hin) as [Hkey [Hc _]]. cbn [fst snd] in *.
    rewrite sd_child_keys in Hx by auto. apply in_map_iff in Hx as [y [Ey _]].
    specialize (Hk _ Hp). apply andb_true_iff in Hk as [Hk _].
    exact (dotfree_neq_dot _ key y (keyok_dotfree _ Hk) (eq_sym Ey)).
Qed.

(* ------------------------------------------------------------------ first-realisation and dict filters *)
Lemma first_by_id_id : forall ev seen,
  NoDup (map fst ev) -> (forall i, In i seen -> ~ In i (map fst ev)) -> first_by_id seen ev = ev.
Proof.
  induction ev as [|[i n] r IH]; simpl; intros seen Hn Hd; auto.
  inversion Hn; subst.
  destruct (existsb (Nat.eqb i) seen) eqn:E.
  - apply existsb_exists in E as [j [Hj Ej]]. apply Nat.eqb_eq in Ej. subst j.
    exfalso. exact (Hd i Hj (or_introl eq_refl)).
  - f_equal. apply IH; auto. intros j [Hj|Hj] Hin.
    + subst. contradiction.
    + exact (Hd j Hj (or_intror Hin)).
Qed.

Lemma dict_keys_id : forall l seen,
  NoDup l -> (forall x, In x seen -> ~ In x l) -> dict_keys seen l = l.
Proof.
  induction l as [|x r IH]; simpl; intros seen Hn Hd; auto.
  inversion Hn; subst.
  destruct (mem_str x seen) eqn:E.
  - apply mem_str_In in E. exfalso. exact (Hd x E (or_introl eq_refl)).
  - f_equal. apply IH; auto. intros y [Hy|Hy] Hin.
    + subst. contradiction.
    + exact (Hd y Hy (or_intror Hin)).
Qed.

Lemma nodup_natb_NoDup : forall l, nodup_natb l = true -> NoDup l.
Proof.
  induction l as [|x r IH]; simpl; intro H; constructor.
  - apply andb_true_iff in H as [H _]. apply negb_true_iff in H. intro Hin.
    assert (existsb (Nat.eqb x) r = true) by (apply existsb_exists; exists x; split; auto; apply Nat.eqb_refl).
    congruence.
  - apply andb_true_iff in H as [_ H]. auto.
Qed.

Lemma prefix_inj : forall r a b, prefix r a = prefix r b -> a = b.
Proof.
  intros r a b. unfold prefix. destruct (String.eqb r ""); auto. apply dot_inj_r.
Qed.

(* ------------------------------------------------------------------ tree-level theorems *)
Definition tree_hyps (cf : cfg) (t : mtree) : Prop :=
  t_kind t <> KList /\ shape_ok t /\ keys_okb t = true /\ nodup_natb (param_ids t) = true /\
  (realize_uses_root_scope cf = false \/ nosubb t = true).

Theorem realised_names_tree : forall cf t, tree_hyps cf t ->
  realised_names cf t = map (prefix (root_name t)) (sd_keys t).
Proof.
  intros cf t (Hkind & Hshape & Hk & Hids & Hs).
  assert (Hs' : scope_sane cf false t) by (destruct Hs; [left|right]; auto).
  unfold realised_names, sd_keys. rewrite (events_root cf t Hkind Hshape Hk Hs').
  assert (Hnd : NoDup (map (prefix (root_name t)) (map fst (sd_entries "" t)))).
  { apply FinFun.Injective_map_NoDup; [intros a b; apply prefix_inj | now apply sd_keys_nodup]. }
  rewrite first_by_id_id.
  - rewrite !map_map. cbn [snd]. rewrite <- (map_map fst (prefix (root_name t))).
    apply dict_keys_id; auto.
  - rewrite map_map. cbn [fst]. apply nodup_natb_NoDup. exact Hids.
  - intros i [].
Qed.

Theorem params_once_tree : forall cf t, tree_hyps cf t ->
  NoDup (realised_names cf t) /\ List.length (realised_names cf t) = List.length (param_ids t).
Proof.
  intros cf t H. rewrite (realised_names_tree cf t H). destruct H as (_ & _ & Hk & _ & _). split.
  - apply FinFun.Injective_map_NoDup; [intros a b; apply prefix_inj | now apply sd_keys_nodup].
  - unfold sd_keys, param_ids. now rewrite !map_length.
Qed.

(* ------------------------------------------------------------------ construction programs *)
Definition step_append (cf : cfg) (k : kind) (t : mtree) (c : spec) : mtree :=
  let key := dec (List.length (t_children t)) in
  add_child t key (finish cf c (register cf k (t_name t) key (build cf c))).

Lemma build_cont_eq : forall cf seq i e l,
  build cf (SCont seq i e l) =
  fold_left (step_append cf (ckind seq)) e
            (fold_left (step_append cf (ckind seq)) i (MT (ckind seq) None [] [] false)).
Proof.
  intros. cbn [build].
  set (go := fix go (l0 : list spec) (t : mtree) {struct l0} : mtree :=
               match l0 with
               | [] => t
               | c :: r =>
                 go r (add_child t (dec (List.length (t_children t)))
                                 (finish cf c (register cf (ckind seq) (t_name t) (dec (List.length (t_children t))) (build cf c))))
               end).
  assert (E : forall l0 t, go l0 t = fold_left (step_append cf (ckind seq)) l0 t).
  { induction l0; simpl; intros; auto. }
  now rewrite !E.
Qed.

Lemma finish_cont_eq : forall cf seq i e l t,
  finish cf (SCont seq i e l) t = fold_left (fun t c => step_append cf (t_kind t) t c) l t.
Proof.
  intros. cbn [finish]. revert t. induction l; simpl; intros; auto.
Qed.

Lemma build_mod_eq : forall cf nm ps cs sb,
  build cf (SMod nm ps cs sb) =
  MT KMod nm ps (map (fun kc => (fst kc, finish cf (snd kc) (setattr_child (fst kc) (build cf (snd kc))))) cs) sb.
Proof.
  intros. cbn [build]. f_equal. induction cs as [|[key c] r IH]; [reflexivity|].
  cbn [map fst snd]. now rewrite <- IH.
Qed.

Definition step_slice (cf : cfg) (t : mtree) (kc : string * mtree) : mtree :=
  let key := dec (List.length (t_children t)) in
  add_child t key (register cf KList (t_name t) key (snd kc)).

Lemma build_slice_eq : forall cf lo hi b,
  build cf (SSlice lo hi b) =
  fold_left (step_slice cf) (slice_list lo hi (t_children (build cf b))) (MT KList None [] [] false).
Proof.
  intros. cbn [build]. generalize (MT KList None [] [] false).
  induction (slice_list lo hi (t_children (build cf b))) as [|[key c] r IH]; simpl; intros; auto.
Qed.

Lemma consistentb_mod : forall u nm ps cs sb,
  consistentb u (SMod nm ps cs sb) =
  (match u, nm with
   | URoot, _ => true
   | _, None => true
   | UAttr key, Some n => String.eqb n key
   | UCont, Some _ => false
   end) && forallb (fun kc => consistentb (UAttr (fst kc)) (snd kc)) cs.
Proof.
  intros. cbn [consistentb]. f_equal. induction cs as [|[key c] r IH]; simpl; auto. now rewrite IH.
Qed.

Definition cont_child_ok (seq : bool) (c : spec) : bool :=
  consistentb UCont c && (if seq then negb (kind_eqb (spec_kind c) KList) else true).

Lemma consistentb_cont : forall u seq i e l,
  consistentb u (SCont seq i e l) =
  forallb (cont_child_ok seq) i && forallb (cont_child_ok seq) e && forallb (cont_child_ok seq) l.
Proof.
  intros. cbn [consistentb].
  assert (E : forall l0,
    (fix go (l : list spec) : bool :=
       match l with
       | [] => true
       | c :: r => consistentb UCont c && (if seq then negb (kind_eqb (spec_kind c) KList) else true) && go r
       end) l0 = forallb (cont_child_ok seq) l0).
  { induction l0 as [|c r IH]; [reflexivity|]. cbn [forallb]. unfold cont_child_ok at 1. now rewrite <- IH. }
  now rewrite !E.
Qed.

(* what the induction carries for every sub-program *)
Definition finish_facts (cf : cfg) (s : spec) : Prop :=
  forall t, t_kind t = spec_kind s ->
    (shape_ok t -> shape_ok (finish cf s t)) /\
    (forall acc, named acc t -> named acc (finish cf s t)) /\
    t_kind (finish cf s t) = t_kind t /\ t_name (finish cf s t) = t_name t.

Definition spec_facts (cf : cfg) (s : spec) : Prop :=
  shape_ok (build cf s) /\ t_kind (build cf s) = spec_kind s /\ t_name (build cf s) = spec_name s /\
  finish_facts cf s.

Lemma add_child_shape_list : forall t key c,
  t_kind t = KList -> shape_ok t -> shape_ok c -> shape_ok (add_child t key c).
Proof.
  intros [k nm ps cs sb] key c Hk Hs Hc. cbn in *. subst. inversion Hs; subst; try congruence.
  apply ShapeList. apply Forall_app; split; auto.
Qed.

Lemma add_child_shape_call : forall t key c,
  t_kind t <> KList -> shape_ok t -> named key c -> shape_ok (add_child t key c).
Proof.
  intros [k nm ps cs sb] key c Hk Hs Hc. cbn in *. inversion Hs; subst; try congruence.
  apply ShapeCall; auto. apply Forall_app; split; auto.
Qed.

Lemma add_child_named : forall t key c acc,
  named acc t -> named (child_acc (t_kind t) acc key) c -> named acc (add_child t key c).
Proof.
  intros [k nm ps cs sb] key c acc Hn Hc. cbn in *. inversion Hn; subst.
  constructor. apply Forall_app; split; auto.
Qed.

Lemma t_kind_add_child : forall t key c, t_kind (add_child t key c) = t_kind t.
Proof. intros [k nm ps cs sb]; reflexivity. Qed.
Lemma t_name_add_child : forall t key c, t_name (add_child t key c) = t_name t.
Proof. intros [k nm ps cs sb]; reflexivity. Qed.

Lemma spec_name_cont_child : forall seq c, cont_child_ok seq c = true -> spec_name c = None.
Proof.
  intros seq c H. unfold cont_child_ok in H. apply andb_true_iff in H as [H _].
  destruct c as [nm ps cs sb| |]; auto. rewrite consistentb_mod in H. apply andb_true_iff in H as [H _].
  destruct nm; auto; discriminate.
Qed.

Lemma named_name : forall acc t, named acc t -> t_name t = Some acc.
Proof. intros acc t H; inversion H; reflexivity. Qed.

(* one append to a container (constructor, early or late) keeps both invariants *)
Lemma step_append_facts : forall cf seq t c,
  t_kind t = ckind seq -> cont_child_ok seq c = true -> spec_facts cf c ->
  (shape_ok t -> shape_ok (step_append cf (ckind seq) t c)) /\
  (forall acc, named acc t -> named acc (step_append cf (ckind seq) t c)) /\
  t_kind (step_append cf (ckind seq) t c) = t_kind t /\
  t_name (step_append cf (ckind seq) t c) = t_name t.
Proof.
  intros cf seq t c Hk Hok (Hb & Hbk & Hbn & Hf).
  pose proof (spec_name_cont_child _ _ Hok) as Hnone. rewrite Hnone in Hbn.
  unfold step_append. set (key := dec (List.length (t_children t))).
  split; [|split; [|split]]; try apply t_kind_add_child; try apply t_name_add_child.
  - (* shape *)
    intro Hs. destruct seq; cbn [ckind] in *.
    + (* Sequential: the new child carries its bare key *)
      apply add_child_shape_call; [congruence | auto |].
      unfold register, register_seq. rewrite Hbn.
      assert (Hkc : t_kind (build cf c) <> KList).
      { unfold cont_child_ok in Hok. apply andb_true_iff in Hok as [_ Hok]. apply negb_true_iff in Hok.
        rewrite Hbk. intro E. rewrite E in Hok. discriminate. }
      destruct (container_renames_named_child cf).
      { apply Hf; [now rewrite t_kind_set_name | now apply set_name_named]. }
      apply Hf; [now rewrite t_kind_set_field | now apply set_field_named].
    + (* ModuleList *)
      apply add_child_shape_list; auto.
      unfold register, register_list. rewrite Hbn. destruct (t_name t) as [p|].
      * apply Hf; [now rewrite t_kind_set_name|]. eapply named_shape. now apply set_name_named.
      * destruct (unattached_list_propagates cf).
        -- apply Hf; [now rewrite t_kind_set_name|]. eapply named_shape. now apply set_name_named.
        -- apply Hf; [now rewrite t_kind_set_field|]. now apply set_field_shape.
  - (* named *)
    intros acc Hn. apply add_child_named; auto. rewrite Hk, (named_name _ _ Hn).
    destruct seq; cbn [ckind child_acc] in *.
    + unfold register, register_seq. rewrite Hbn.
      assert (Hkc : t_kind (build cf c) <> KList).
      { unfold cont_child_ok in Hok. apply andb_true_iff in Hok as [_ Hok]. apply negb_true_iff in Hok.
        rewrite Hbk. intro E. rewrite E in Hok. discriminate. }
      destruct (container_renames_named_child cf).
      { apply Hf; [now rewrite t_kind_set_name | now apply set_name_named]. }
      apply Hf; [now rewrite t_kind_set_field | now apply set_field_named].
    + unfold register, register_list. rewrite Hbn.
      apply Hf; [now rewrite t_kind_set_name | now apply set_name_named].
Qed.

Lemma fold_append_facts : forall cf seq l,
  Forall (spec_facts cf) l -> forallb (cont_child_ok seq) l = true ->
  forall t, t_kind t = ckind seq ->
  (shape_ok t -> shape_ok (fold_left (step_append cf (ckind seq)) l t)) /\
  (forall acc, named acc t -> named acc (fold_left (step_append cf (ckind seq)) l t)) /\
  t_kind (fold_left (step_append cf (ckind seq)) l t) = t_kind t /\
  t_name (fold_left (step_append cf (ckind seq)) l t) = t_name t.
Proof.
  induction l as [|c r IH]; intros HF Hok t Hk; simpl.
  - auto.
  - inversion HF; subst. simpl in Hok. apply andb_true_iff in Hok as [Hc Hr].
    destruct (step_append_facts cf seq t c Hk Hc H1) as (S1 & S2 & S3 & S4).
    destruct (IH H2 Hr (step_append cf (ckind seq) t c)) as (R1 & R2 & R3 & R4); [congruence|].
    split; [|split; [|split]]; try congruence.
    + intro Hs. apply R1. now apply S1.
    + intros acc Hn. apply R2. now apply S2.
Qed.

Lemma fold_dyn_kind : forall cf k l t, t_kind t = k ->
  fold_left (fun t c => step_append cf (t_kind t) t c) l t = fold_left (step_append cf k) l t.
Proof.
  induction l as [|c r IH]; simpl; intros t Hk; auto.
  rewrite Hk. apply IH. unfold step_append. now rewrite t_kind_add_child.
Qed.

Lemma named_of_shape : forall t n, shape_ok t -> t_kind t <> KList -> t_name t = Some n -> named n t.
Proof.
  intros [k nm ps cs sb] n Hs Hk Hn. cbn in *. subst. constructor.
  inversion Hs; subst; try congruence. destruct k; try congruence; auto.
Qed.

Lemma children_shape : forall t kc, shape_ok t -> In kc (t_children t) -> shape_ok (snd kc).
Proof.
  intros [k nm ps cs sb] kc Hs Hin. cbn in *.
  inversion Hs as [? ? ? ? Hch | ? ? ? ? ? _ Hch]; subst; rewrite Forall_forall in Hch.
  - auto.
  - eapply named_shape. eauto.
Qed.

Lemma In_firstn' : forall A n (l : list A) x, In x (firstn n l) -> In x l.
Proof. induction n; destruct l; simpl; intros x H; auto; try contradiction. destruct H; auto. Qed.
Lemma In_skipn' : forall A n (l : list A) x, In x (skipn n l) -> In x l.
Proof. induction n; destruct l; simpl; intros x H; auto. Qed.

Lemma slice_list_incl : forall A lo hi (l : list A) x, In x (slice_list lo hi l) -> In x l.
Proof.
  intros A lo hi l x H. unfold slice_list in H. apply (In_skipn' _ lo). eapply In_firstn'; eauto.
Qed.

Lemma fold_slice_facts : forall cf l,
  (forall kc, In kc l -> shape_ok (snd kc)) ->
  forall t, t_kind t = KList -> t_name t = None -> shape_ok t ->
  shape_ok (fold_left (step_slice cf) l t) /\
  t_kind (fold_left (step_slice cf) l t) = KList /\ t_name (fold_left (step_slice cf) l t) = None.
Proof.
  induction l as [|[key c] r IH]; simpl; intros Hall t Hk Hn Hs; auto.
  apply IH.
  - intros kc Hin. apply Hall. auto.
  - unfold step_slice. now rewrite t_kind_add_child.
  - unfold step_slice. now rewrite t_name_add_child.
  - unfold step_slice. apply add_child_shape_list; auto. cbn [snd].
    unfold register, register_list. rewrite Hn.
    pose proof (Hall (key, c) (or_introl eq_refl)) as Hc. cbn [snd] in Hc.
    destruct (t_name c); auto. destruct (unattached_list_propagates cf).
    + eapply named_shape. now apply set_name_named.
    + now apply set_field_shape.
Qed.

(* every consistent construction program yields a tree whose names are propagated correctly *)
Theorem spec_facts_all : forall cf s u, consistentb u s = true -> spec_facts cf s.
Proof.
  intros cf. induction s as [nm ps cs sb IH | seq i e l IHi IHe IHl | lo hi b IHb] using spec_ind'; intros u Hc.
  - (* class with attribute children *)
    rewrite consistentb_mod in Hc. apply andb_true_iff in Hc as [Hnm Hcs].
    rewrite forallb_forall in Hcs. rewrite Forall_forall in IH.
    unfold spec_facts. rewrite build_mod_eq. cbn [t_kind t_name spec_kind spec_name].
    split; [|split; [|split]]; auto.
    + apply ShapeCall; [discriminate|]. rewrite Forall_map. cbn [fst snd]. rewrite Forall_forall.
      intros [key c] Hin. cbn [fst snd]. specialize (Hcs _ Hin). cbn [fst snd] in Hcs.
      pose proof (IH _ Hin (UAttr key) Hcs) as HF. cbn [snd] in HF. destruct HF as (Hb & Hbk & Hbn & Hf).
      unfold setattr_child. destruct (t_name (build cf c)) as [n|] eqn:En.
      * (* explicitly named like its attribute *)
        assert (n = key /\ spec_kind c = KMod) as [-> Hkm].
        { destruct c as [nm' ps' cs' sb'| |]; cbn [spec_name] in Hbn; try discriminate. rewrite <- Hbn in Hcs.
          rewrite consistentb_mod in Hcs. apply andb_true_iff in Hcs as [Hcs _]. apply String.eqb_eq in Hcs. auto. }
        apply Hf; auto. apply named_of_shape; auto. rewrite Hbk, Hkm. discriminate.
      * apply Hf; [now rewrite t_kind_set_name | now apply set_name_named].
    + intros t Hk. cbn [finish]. auto.
  - (* container *)
    rewrite consistentb_cont in Hc. apply andb_true_iff in Hc as [Hc Hl]. apply andb_true_iff in Hc as [Hi He].
    assert (HFi : Forall (spec_facts cf) i).
    { rewrite Forall_forall in *. rewrite forallb_forall in Hi. intros c Hin. apply (IHi _ Hin UCont).
      specialize (Hi _ Hin). unfold cont_child_ok in Hi. now apply andb_true_iff in Hi as [? _]. }
    assert (HFe : Forall (spec_facts cf) e).
    { rewrite Forall_forall in *. rewrite forallb_forall in He. intros c Hin. apply (IHe _ Hin UCont).
      specialize (He _ Hin). unfold cont_child_ok in He. now apply andb_true_iff in He as [? _]. }
    assert (HFl : Forall (spec_facts cf) l).
    { rewrite Forall_forall in *. rewrite forallb_forall in Hl. intros c Hin. apply (IHl _ Hin UCont).
      specialize (Hl _ Hin). unfold cont_child_ok in Hl. now apply andb_true_iff in Hl as [? _]. }
    set (t0 := MT (ckind seq) None [] [] false).
    assert (Hs0 : shape_ok t0).
    { unfold t0. destruct seq; cbn [ckind]; [apply ShapeCall; [discriminate|constructor] | apply ShapeList; constructor]. }
    destruct (fold_append_facts cf seq i HFi Hi t0 eq_refl) as (A1 & _ & A3 & A4).
    destruct (fold_append_facts cf seq e HFe He (fold_left (step_append cf (ckind seq)) i t0)) as (B1 & _ & B3 & B4);
      [now rewrite A3|].
    unfold spec_facts. rewrite build_cont_eq. fold t0. cbn [spec_kind spec_name].
    split; [|split; [|split]].
    + apply B1, A1, Hs0.
    + now rewrite B3, A3.
    + now rewrite B4, A4.
    + intros t Hk. cbn [spec_kind] in Hk. rewrite finish_cont_eq, (fold_dyn_kind cf (ckind seq)) by auto.
      destruct (fold_append_facts cf seq l HFl Hl t Hk) as (C1 & C2 & C3 & C4). auto.
  - (* slice of a container *)
    cbn [consistentb] in Hc. apply andb_true_iff in Hc as [_ Hc].
    destruct (IHb UCont Hc) as (Hb & _ & _ & _).
    unfold spec_facts. rewrite build_slice_eq. cbn [spec_kind spec_name].
    destruct (fold_slice_facts cf (slice_list lo hi (t_children (build cf b)))) with (t := MT KList None [] [] false)
      as (S1 & S2 & S3); auto.
    + intros kc Hin. apply (children_shape (build cf b)); auto. eapply slice_list_incl; eauto.
    + apply ShapeList. constructor.
    + repeat split; auto.
Qed.

Theorem construct_shape : forall cf s, consistentb URoot s = true -> shape_ok (construct cf s).
Proof.
  intros cf s H. destruct (spec_facts_all cf s URoot H) as (Hb & Hk & _ & Hf).
  unfold construct. now apply Hf.
Qed.

Lemma construct_kind : forall cf s, consistentb URoot s = true -> t_kind (construct cf s) = spec_kind s.
Proof.
  intros cf s H. destruct (spec_facts_all cf s URoot H) as (Hb & Hk & _ & Hf).
  unfold construct. destruct (Hf (build cf s) Hk) as (_ & _ & E & _). congruence.
Qed.

(* ------------------------------------------------------------------ the property theorems (model A) *)
(* static hypotheses evaluated on the constructed tree: dict keys are identifiers / indices and
   distinct, parameters are unnamed or named like their attribute, no Parameter object is shared,
   and (only while Parameter._realize qualifies with the root builder's scope) no forward enters a
   subgraph body *)
Definition static_okb (cf : cfg) (t : mtree) : bool :=
  keys_okb t && nodup_natb (param_ids t) && (negb (realize_uses_root_scope cf) || nosubb t).

Definition program_okb (cf : cfg) (s : spec) : bool :=
  consistentb URoot s && negb (kind_eqb (spec_kind s) KList) && static_okb cf (construct cf s).

Lemma program_ok_hyps : forall cf s, program_okb cf s = true -> tree_hyps cf (construct cf s).
Proof.
  intros cf s H. unfold program_okb, static_okb in H.
  apply andb_true_iff in H as [H Hst]. apply andb_true_iff in H as [Hc Hk].
  apply andb_true_iff in Hst as [Hst Hsub]. apply andb_true_iff in Hst as [Hkeys Hids].
  unfold tree_hyps. repeat split; auto.
  - rewrite construct_kind by auto. intro E. rewrite E in Hk. discriminate.
  - now apply construct_shape.
  - apply orb_true_iff in Hsub as [Hsub|Hsub]; auto. left. now apply negb_true_iff.
Qed.

Theorem param_names_eq_state_dict : forall cf s, program_okb cf s = true ->
  realised_names cf (construct cf s) =
  map (prefix (root_name (construct cf s))) (sd_keys (construct cf s)).
Proof. intros. apply realised_names_tree. now apply program_ok_hyps. Qed.

Theorem params_once : forall cf s, program_okb cf s = true ->
  NoDup (realised_names cf (construct cf s)) /\
  List.length (realised_names cf (construct cf s)) = List.length (param_ids (construct cf s)).
Proof. intros. apply params_once_tree. now apply program_ok_hyps. Qed.

(* ------------------------------------------------------------------ outside the hypotheses: witnesses *)
Definition leaf (nm : option string) (id : nat) : spec := SMod nm [PE "weight" id "weight"] [] false.
Definition names_match (cf : cfg) (s : spec) : bool :=
  list_str_eqb (realised_names cf (construct cf s))
               (map (prefix (root_name (construct cf s))) (sd_keys (construct cf s))).

(* W1: a child that already has a name, appended to a ModuleList that already has a name, keeps its
   own name: initializer root.mine.weight, state_dict key layers.1.weight *)
Definition w_named_append : spec :=
  SMod (Some "root") [] [("layers", SCont false [leaf None 0] [] [leaf (Some "mine") 1])] false.
(* the same child passed to the constructor is renamed when the list is attached *)
Definition w_named_init : spec :=
  SMod (Some "root") [] [("layers", SCont false [leaf None 0; leaf (Some "mine") 1] [] [])] false.

Theorem named_child_appended_refuted :
  static_okb cfg_pinned (construct cfg_pinned w_named_append) = true /\
  names_match cfg_pinned w_named_append = false /\
  names_match cfg_pinned w_named_init = true /\
  names_match cfg_fixed w_named_append = true.
Proof. vm_compute. repeat split; reflexivity. Qed.

(* W2: one Parameter object registered in two modules (weight tying): realised once under the first
   path, state_dict lists both keys *)
Definition w_shared : spec :=
  SMod (Some "root") [] [("a", leaf None 0); ("b", leaf None 0)] false.
Theorem shared_parameter_refuted :
  consistentb URoot w_shared = true /\ keys_okb (construct cfg_pinned w_shared) = true /\
  realised_names cfg_pinned (construct cfg_pinned w_shared) = ["root.a.weight"] /\
  sd_keys (construct cfg_pinned w_shared) = ["a.weight"; "b.weight"].
Proof. vm_compute. repeat split; reflexivity. Qed.

(* W3: two modules called inside a subgraph body: Parameter._realize qualifies with the ROOT builder's
   scope, which did not see the pushes made on the child builder; both parameters are stored under
   root.weight and the second overwrites the first *)
Definition w_subgraph : spec :=
  SMod (Some "root") [] [("a", leaf None 0); ("b", leaf None 1)] true.
Theorem module_in_subgraph_refuted :
  consistentb URoot w_subgraph = true /\ keys_okb (construct cfg_pinned w_subgraph) = true /\
  nodup_natb (param_ids (construct cfg_pinned w_subgraph)) = true /\
  realised_names cfg_pinned (construct cfg_pinned w_subgraph) = ["root.weight"] /\
  sd_keys (construct cfg_pinned w_subgraph) = ["a.weight"; "b.weight"] /\
  names_match cfg_fixed w_subgraph = true.
Proof. vm_compute. repeat split; reflexivity. Qed.

(* W4: scope names are joined with '.', so a name that contains '.' makes qualification ambiguous;
   at tree level a child explicitly named "a.b" collides with the path a.b and one initializer is lost *)
Theorem qualify_not_injective_refuted :
  exists st1 n1 st2 n2, (st1, n1) <> (st2, n2) /\ qualify_init st1 n1 = qualify_init st2 n2.
Proof. exists ["a.b"], "c", ["a"], "b.c". split; [discriminate | reflexivity]. Qed.

Definition w_dotted : spec :=
  SMod (Some "root") []
       [("a", SMod None [] [("b", leaf None 0)] false); ("c", leaf (Some "a.b") 1)] false.
Theorem dotted_name_collision_refuted :
  nodup_natb (param_ids (construct cfg_pinned w_dotted)) = true /\
  List.length (param_ids (construct cfg_pinned w_dotted)) = 2 /\
  realised_names cfg_pinned (construct cfg_pinned w_dotted) = ["root.a.b.weight"].
Proof. vm_compute. repeat split; reflexivity. Qed.

(* W5: a ModuleList nested in a ModuleList that is never given a name (iterated as the root): the
   inner list's children keep their bare keys *)
Definition w_nested_unattached : spec := SCont false [SCont false [leaf None 0] [] []] [] [].
Theorem nested_unattached_list_refuted :
  consistentb URoot w_nested_unattached = true /\
  static_okb cfg_pinned (construct cfg_pinned w_nested_unattached) = true /\
  realised_names cfg_pinned (construct cfg_pinned w_nested_unattached) = ["0.weight"] /\
  sd_keys (construct cfg_pinned w_nested_unattached) = ["0.0.weight"] /\
  names_match cfg_fixed w_nested_unattached = true.
Proof. vm_compute. repeat split; reflexivity. Qed.

(* the hypotheses of the positive theorems are satisfiable on a non-trivial program: depth 4, all three
   kinds, constructor / early / late appends, a slice, a consistently named child, an unnamed root *)
Definition ex_program (root : option string) : spec :=
  SMod root [PE "scale" 0 "scale"]
    [("layers", SCont false
        [SMod None [PE "w" 1 "w"] [("mlp", SCont true [leaf None 2; leaf None 3] [] [leaf None 4])] false]
        [SCont false [leaf None 5] [] [leaf None 6]]
        [leaf None 7]);
     ("head", leaf (Some "head") 8);
     ("tail", SSlice 1 3 (SCont false [leaf None 9; leaf None 10; leaf None 11] [] []))] false.
Example ex_program_ok : program_okb cfg_pinned (ex_program (Some "model")) = true /\
                        program_okb cfg_pinned (ex_program None) = true /\
                        program_okb cfg_fixed (ex_program (Some "model")) = true.
Proof. vm_compute. repeat split; reflexivity. Qed.
Example ex_program_names :
  realised_names cfg_pinned (construct cfg_pinned (ex_program (Some "model"))) =
  ["model.scale"; "model.layers.0.w"; "model.layers.0.mlp.0.weight"; "model.layers.0.mlp.1.weight";
   "model.layers.0.mlp.2.weight"; "model.layers.1.0.weight"; "model.layers.1.1.weight";
   "model.layers.2.weight"; "model.head.weight"; "model.tail.0.weight"; "model.tail.1.weight"].
Proof. vm_compute. reflexivity. Qed.

(* ====================================================================================== sharing *)
(* Part 4 of C18: module trees in which Parameter objects (and whole sub-modules) are shared.
   General facts for EVERY tree (any names, any sharing), then the characterisation of the realised
   names under the hypotheses of the positive theorems minus "no Parameter object is shared". *)
From Coq Require Import Permutation.

(* ------------------------------------------------------------------ first_occ *)
Lemma first_by_id_map : forall A (idf : A -> nat) (nf : A -> string) l seen,
  first_by_id seen (map (fun e => (idf e, nf e)) l) = map (fun e => (idf e, nf e)) (first_occ idf seen l).
Proof.
  induction l as [|x r IH]; intros seen; simpl; auto.
  destruct (existsb (Nat.eqb (idf x)) seen); simpl; now rewrite IH.
Qed.

Lemma first_by_id_occ : forall ev seen, first_by_id seen ev = first_occ fst seen ev.
Proof.
  induction ev as [|[i n] r IH]; intros seen; simpl; auto.
  destruct (existsb (Nat.eqb i) seen); now rewrite IH.
Qed.

Lemma first_occ_map : forall A B (f : A -> B) (idb : B -> nat) l seen,
  first_occ idb seen (map f l) = map f (first_occ (fun a => idb (f a)) seen l).
Proof.
  induction l as [|x r IH]; intros seen; simpl; auto.
  destruct (existsb (Nat.eqb (idb (f x))) seen); simpl; now rewrite IH.
Qed.

Lemma first_occ_ext : forall A (f g : A -> nat) l seen, (forall a, f a = g a) ->
  first_occ f seen l = first_occ g seen l.
Proof.
  induction l as [|x r IH]; intros seen E; simpl; auto.
  rewrite (E x). destruct (existsb (Nat.eqb (g x)) seen); now rewrite IH.
Qed.

Lemma first_occ_incl : forall A (idf : A -> nat) l seen x, In x (first_occ idf seen l) -> In x l.
Proof.
  induction l as [|y r IH]; intros seen x H; simpl in *; auto.
  destruct (existsb (Nat.eqb (idf y)) seen).
  - right. eapply IH; eauto.
  - destruct H as [H|H]; auto. right. eapply IH; eauto.
Qed.

Lemma first_occ_length : forall A (idf : A -> nat) l seen,
  List.length (first_occ idf seen l) <= List.length l.
Proof.
  induction l as [|y r IH]; intros seen; simpl; auto.
  destruct (existsb (Nat.eqb (idf y)) seen); simpl.
  - specialize (IH seen). lia.
  - specialize (IH (idf y :: seen)). lia.
Qed.

Lemma existsb_eqb_In : forall x l, existsb (Nat.eqb x) l = true <-> In x l.
Proof.
  intros x l. rewrite existsb_exists. split.
  - intros [y [Hy E]]. apply Nat.eqb_eq in E. now subst.
  - intro H. exists x. split; auto. apply Nat.eqb_refl.
Qed.

Lemma existsb_eqb_notIn : forall x l, existsb (Nat.eqb x) l = false <-> ~ In x l.
Proof.
  intros x l. rewrite <- existsb_eqb_In. destruct (existsb (Nat.eqb x) l); split; intro H; congruence.
Qed.

(* the surviving identities are pairwise different and none was seen before *)
Lemma first_occ_ids : forall A (idf : A -> nat) l seen,
  NoDup (map idf (first_occ idf seen l)) /\
  (forall i, In i seen -> ~ In i (map idf (first_occ idf seen l))).
Proof.
  induction l as [|y r IH]; intros seen; simpl.
  - split; [constructor | intros i _ []].
  - destruct (existsb (Nat.eqb (idf y)) seen) eqn:E.
    + apply IH.
    + destruct (IH (idf y :: seen)) as [Hn Hd]. simpl. split.
      * constructor; auto. apply Hd. now left.
      * intros i Hi [Hy|Hin].
        -- subst i. apply existsb_eqb_notIn in E. contradiction.
        -- apply (Hd i); auto. now right.
Qed.

(* nothing is dropped exactly when no identity repeats (and none was seen before) *)
Lemma first_occ_full : forall A (idf : A -> nat) l seen,
  List.length (first_occ idf seen l) = List.length l ->
  NoDup (map idf l) /\ (forall i, In i seen -> ~ In i (map idf l)).
Proof.
  induction l as [|y r IH]; intros seen H; simpl in *.
  - split; [constructor | intros i _ []].
  - destruct (existsb (Nat.eqb (idf y)) seen) eqn:E.
    + pose proof (first_occ_length A idf r seen). lia.
    + simpl in H. injection H as H. destruct (IH (idf y :: seen) H) as [Hn Hd]. split.
      * constructor; auto. apply Hd. now left.
      * intros i Hi [Hy|Hin].
        -- subst i. apply existsb_eqb_notIn in E. contradiction.
        -- apply (Hd i); auto. now right.
Qed.

Lemma first_occ_id : forall A (idf : A -> nat) l seen,
  NoDup (map idf l) -> (forall i, In i seen -> ~ In i (map idf l)) -> first_occ idf seen l = l.
Proof.
  induction l as [|y r IH]; intros seen Hn Hd; simpl in *; auto.
  inversion Hn; subst.
  destruct (existsb (Nat.eqb (idf y)) seen) eqn:E.
  - apply existsb_eqb_In in E. exfalso. apply (Hd _ E). now left.
  - f_equal. apply IH; auto. intros i [Hi|Hi] Hin.
    + subst. contradiction.
    + apply (Hd i Hi). now right.
Qed.

Lemma NoDup_map_first_occ : forall A B (g : A -> B) (idf : A -> nat) l seen,
  NoDup (map g l) -> NoDup (map g (first_occ idf seen l)).
Proof.
  induction l as [|y r IH]; intros seen Hn; simpl in *; [constructor|].
  inversion Hn as [|? ? Hnotin Hn']; subst.
  destruct (existsb (Nat.eqb (idf y)) seen); simpl; auto.
  constructor; auto. intro Hin. apply Hnotin.
  apply in_map_iff in Hin as [z [Ez Hz]]. apply in_map_iff. exists z. split; auto.
  eapply first_occ_incl; eauto.
Qed.

Lemma NoDup_nodup_natb : forall l, NoDup l -> nodup_natb l = true.
Proof.
  induction l as [|x r IH]; intro H; simpl; auto. inversion H; subst.
  apply andb_true_iff. split; auto. apply negb_true_iff. now apply existsb_eqb_notIn.
Qed.

Lemma dict_keys_length : forall l seen, List.length (dict_keys seen l) <= List.length l.
Proof.
  induction l as [|x r IH]; intros seen; simpl; auto.
  destruct (mem_str x seen); simpl.
  - specialize (IH seen). lia.
  - specialize (IH (x :: seen)). lia.
Qed.

(* ------------------------------------------------------------------ facts for every tree *)
Lemma lp_okb_eq : forall k nm ps cs sb,
  lp_okb (MT k nm ps cs sb) =
  (match k, ps with KList, _ :: _ => false | _, _ => true end) && forallb (fun kc => lp_okb (snd kc)) cs.
Proof.
  intros. simpl. f_equal. induction cs as [|[key c] r IH]; simpl; auto. now rewrite IH.
Qed.

(* the identities reached by the call are the registered identities, in state_dict order *)
Lemma event_ids : forall t cf insub rst st pre, lp_okb t = true ->
  map fst (events cf insub rst st t) = map snd (sd_entries pre t).
Proof.
  induction t as [k nm ps cs sb IH] using mtree_ind'. intros cf insub rst st pre Hl.
  rewrite lp_okb_eq in Hl. apply andb_true_iff in Hl as [Hlp Hcs]. rewrite forallb_forall in Hcs.
  rewrite Forall_forall in IH.
  rewrite events_eq, sd_entries_eq, map_app, map_map, (map_flat_map' _ _ _ snd). cbn [snd].
  destruct k.
  - cbv zeta. rewrite map_app, map_map, map_flat_map'. cbn [fst]. f_equal.
    apply flat_map_ext_in. intros kc Hin. apply IH; auto.
  - destruct ps as [|p ps']; [|discriminate]. cbn [map app]. rewrite map_flat_map'.
    apply flat_map_ext_in. intros kc Hin. apply IH; auto.
  - cbv zeta. rewrite map_app, map_map, map_flat_map'. cbn [fst]. f_equal.
    apply flat_map_ext_in. intros kc Hin. apply IH; auto.
Qed.

(* every registered Parameter OBJECT is realised exactly once, in the order of its first registration:
   for every tree, whatever its names, with Parameter objects or whole sub-modules shared *)
Theorem realised_ids_distinct : forall cf t, lp_okb t = true ->
  realised_ids cf t = distinct_ids t /\ NoDup (realised_ids cf t) /\
  (forall i, In i (param_ids t) <-> In i (realised_ids cf t)).
Proof.
  intros cf t Hl.
  assert (E : realised_ids cf t = distinct_ids t).
  { unfold realised_ids, distinct_ids, first_entries.
    rewrite first_by_id_occ.
    rewrite <- (first_occ_map _ _ fst (fun i => i)), <- (first_occ_map _ _ snd (fun i => i)).
    now rewrite (event_ids t cf false [] [] "" Hl). }
  split; [exact E|]. rewrite E. unfold distinct_ids, first_entries.
  rewrite <- (first_occ_map _ _ snd (fun i => i)). fold (param_ids t). split.
  - pose proof (first_occ_ids nat (fun i => i) (param_ids t) []) as [Hn _]. now rewrite map_id in Hn.
  - intro i. split.
    + (* completeness: every identity has a first occurrence *)
      assert (G : forall l seen, In i l -> ~ In i seen -> In i (first_occ (fun j => j) seen l)).
      { induction l as [|y r IHl]; intros seen Hin Hs; simpl in *; [contradiction|].
        destruct (existsb (Nat.eqb y) seen) eqn:Ey.
        - destruct Hin as [->|Hin]; [apply existsb_eqb_In in Ey; contradiction | auto].
        - destruct (Nat.eq_dec y i) as [->|Hne]; [now left|]. right. destruct Hin as [->|Hin]; [congruence|].
          apply IHl; auto. intros [->|H']; auto. }
      intro Hin. apply G; auto.
    + apply first_occ_incl.
Qed.

Lemma realised_length_le : forall cf t, lp_okb t = true ->
  List.length (realised_names cf t) <= List.length (distinct_ids t).
Proof.
  intros cf t Hl. destruct (realised_ids_distinct cf t Hl) as [E _]. rewrite <- E.
  unfold realised_names, realised_ids.
  etransitivity; [apply dict_keys_length|]. now rewrite !map_length.
Qed.

(* sharing always shows: if some identity is registered twice, there are fewer initializers than
   state_dict keys -- for every tree (in particular for shared sub-modules, whatever their names) *)
Theorem names_eq_implies_no_sharing : forall cf t, lp_okb t = true ->
  List.length (realised_names cf t) = List.length (sd_keys t) -> nodup_natb (param_ids t) = true.
Proof.
  intros cf t Hl Hlen. pose proof (realised_length_le cf t Hl) as Hle.
  unfold distinct_ids, first_entries in Hle. rewrite map_length in Hle.
  assert (Hfull : List.length (first_occ snd [] (sd_entries "" t)) = List.length (sd_entries "" t)).
  { pose proof (first_occ_length _ snd (sd_entries "" t) []). unfold sd_keys in Hlen. rewrite map_length in Hlen. lia. }
  apply NoDup_nodup_natb. exact (proj1 (first_occ_full _ snd _ [] Hfull)).
Qed.

(* ------------------------------------------------------------------ sd_entries3 *)
Lemma sd_entries3_eq : forall pre k nm ps cs sb,
  sd_entries3 pre (MT k nm ps cs sb) =
  (map (fun p => (prefix pre (pe_key p), pe_id p, prefix pre (pe_name p))) ps ++
   flat_map (fun kc => sd_entries3 (prefix pre (fst kc)) (snd kc)) cs)%list.
Proof.
  intros. simpl. f_equal. induction cs as [|[key c] r IH]; simpl; auto. now rewrite IH.
Qed.

Lemma sd_entries3_proj : forall t pre, map fst (sd_entries3 pre t) = sd_entries pre t.
Proof.
  induction t as [k nm ps cs sb IH] using mtree_ind'. intros pre. rewrite Forall_forall in IH.
  rewrite sd_entries3_eq, sd_entries_eq, map_app, map_map, map_flat_map'. cbn [fst]. f_equal.
  apply flat_map_ext_in. intros kc Hin. apply IH; auto.
Qed.

Lemma keys_shb_eq : forall k nm ps cs sb,
  keys_shb (MT k nm ps cs sb) =
  (match k, ps with KList, _ :: _ => false | _, _ => true end) &&
  forallb (fun p => keyok (pe_key p)) ps &&
  nodup_strb (map pe_key ps) && nodup_strb (map fst cs) &&
  forallb (fun kc => keyok (fst kc) && keys_shb (snd kc)) cs.
Proof.
  intros. simpl. f_equal. induction cs as [|[key c] r IH]; simpl; auto. now rewrite IH.
Qed.

Lemma keys_shb_lp : forall t, keys_shb t = true -> lp_okb t = true.
Proof.
  induction t as [k nm ps cs sb IH] using mtree_ind'. intro H. rewrite Forall_forall in IH.
  rewrite keys_shb_eq in H. rewrite lp_okb_eq.
  apply andb_true_iff in H as [H Hcs]. apply andb_true_iff in H as [H _].
  apply andb_true_iff in H as [H _]. apply andb_true_iff in H as [Hlp _].
  apply andb_true_iff. split; auto. rewrite forallb_forall in *. intros kc Hin.
  specialize (Hcs _ Hin). apply andb_true_iff in Hcs as [_ Hc]. apply IH; auto.
Qed.

(* the tree with every Parameter renamed to its key: same state_dict, and `keys_okb` of it is `keys_shb` *)
Definition pe_by_key (p : pentry) : pentry := PE (pe_key p) (pe_id p) (pe_key p).
Fixpoint by_key (t : mtree) : mtree :=
  let 'MT k nm ps cs sb := t in
  MT k nm (map pe_by_key ps)
     ((fix go (l : list (string * mtree)) : list (string * mtree) :=
         match l with [] => [] | (key, c) :: r => (key, by_key c) :: go r end) cs) sb.

Lemma by_key_eq : forall k nm ps cs sb,
  by_key (MT k nm ps cs sb) = MT k nm (map pe_by_key ps) (map (fun kc => (fst kc, by_key (snd kc))) cs) sb.
Proof.
  intros. simpl. f_equal. induction cs as [|[key c] r IH]; simpl; auto. now rewrite IH.
Qed.

Lemma sd_entries_by_key : forall t pre, sd_entries pre (by_key t) = sd_entries pre t.
Proof.
  induction t as [k nm ps cs sb IH] using mtree_ind'. intros pre. rewrite Forall_forall in IH.
  rewrite by_key_eq, !sd_entries_eq, map_map. f_equal.
  rewrite flat_map_concat_map, map_map, <- flat_map_concat_map. cbn [fst snd].
  apply flat_map_ext_in. intros kc Hin. apply IH; auto.
Qed.

Lemma keys_okb_by_key : forall t, keys_shb t = true -> keys_okb (by_key t) = true.
Proof.
  induction t as [k nm ps cs sb IH] using mtree_ind'. intro H. rewrite Forall_forall in IH.
  rewrite keys_shb_eq in H. rewrite by_key_eq, keys_okb_eq.
  apply andb_true_iff in H as [H Hcs]. apply andb_true_iff in H as [H Hnd2].
  apply andb_true_iff in H as [H Hnd1]. apply andb_true_iff in H as [Hlp Hk].
  repeat (apply andb_true_iff; split).
  - destruct k; auto. destruct ps; auto.
  - rewrite forallb_forall in *. intros p Hp. apply in_map_iff in Hp as [q [<- Hq]]. cbn.
    rewrite (Hk _ Hq). apply String.eqb_refl.
  - now rewrite map_map.
  - now rewrite map_map.
  - rewrite forallb_forall in *. intros kc Hin. apply in_map_iff in Hin as [kc0 [<- Hin0]]. cbn [fst snd].
    specialize (Hcs _ Hin0). apply andb_true_iff in Hcs as [Hkey Hc]. rewrite Hkey. cbn. apply IH; auto.
Qed.

Lemma sd_keys_nodup_sh : forall t, keys_shb t = true -> NoDup (map fst (sd_entries "" t)).
Proof.
  intros t H. rewrite <- (sd_entries_by_key t ""). apply sd_keys_nodup. now apply keys_okb_by_key.
Qed.

Definition pre3 (pre : string) (e : string * nat * string) : string * nat * string :=
  (prefix pre (e3_key e), e3_id e, prefix pre (e3_name e)).

Lemma sd_entries3_pre : forall t pre, keys_shb t = true ->
  sd_entries3 pre t = map (pre3 pre) (sd_entries3 "" t).
Proof.
  induction t as [k nm ps cs sb IH] using mtree_ind'. intros pre Hk.
  rewrite keys_shb_eq in Hk. repeat (apply andb_true_iff in Hk as [Hk ?]).
  rewrite !sd_entries3_eq, map_app, map_map. f_equal.
  rewrite map_flat_map'. apply flat_map_ext_in. intros [key c] Hin. cbn [fst snd].
  rewrite forallb_forall in H. specialize (H _ Hin). cbn [fst snd] in H. apply andb_true_iff in H as [Hkey Hc].
  rewrite Forall_forall in IH. specialize (IH _ Hin). cbn [fst snd] in IH.
  rewrite (IH (prefix pre key) Hc), (IH (prefix "" key) Hc), map_map. apply map_ext. intros [[k' i] n'].
  unfold pre3, e3_key, e3_id, e3_name. cbn [fst snd].
  assert (Hne : nonempty key = true) by now apply keyok_nonempty.
  rewrite prefix_empty, !(prefix_nonempty key _ Hne), !prefix_dot by auto. reflexivity.
Qed.

(* ------------------------------------------------------------------ events of a named tree, own names *)
Lemma events_named3 : forall cf t, keys_shb t = true ->
  forall acc insub rst st, named acc t -> nonempty acc = true -> scope_sane cf insub t ->
  events cf insub rst st t =
  map (fun e => (e3_id e, qualify_init st (dot acc (e3_name e)))) (sd_entries3 "" t).
Proof.
  intros cf. induction t as [k nm ps cs sb IH] using mtree_ind'.
  intros Hk acc insub rst st Hn Ha Hs.
  rewrite keys_shb_eq in Hk.
  apply andb_true_iff in Hk as [Hk Hcs]. apply andb_true_iff in Hk as [Hk Hnd2].
  apply andb_true_iff in Hk as [Hk Hnd1]. apply andb_true_iff in Hk as [Hlp Hk].
  inversion Hn as [k0 acc0 ps0 cs0 sb0 Hch]; subst.
  rewrite events_eq, sd_entries3_eq.
  rewrite Forall_forall in IH. rewrite Forall_forall in Hch. rewrite forallb_forall in Hcs.
  assert (Hchild : forall insub' rst' st' key c, In (key, c) cs -> named key c ->
            scope_sane cf insub' c ->
            events cf insub' rst' (st' ++ [acc]) c =
            map (fun e => (e3_id e, qualify_init st' (dot acc (e3_name e)))) (sd_entries3 (prefix "" key) c)).
  { intros insub' rst' st' key c Hin Hnc Hsc.
    specialize (Hcs _ Hin). cbn [fst snd] in Hcs. apply andb_true_iff in Hcs as [Hkey Hc].
    rewrite (IH _ Hin Hc key); [| exact Hnc | now apply keyok_nonempty | exact Hsc].
    rewrite prefix_empty, (sd_entries3_pre c key Hc), map_map. apply map_ext. intros [[k' i] n'].
    unfold pre3, e3_key, e3_id, e3_name. cbn [fst snd].
    rewrite prefix_nonempty by now apply keyok_nonempty.
    now rewrite qualify_push. }
  destruct k.
  - cbv zeta. rewrite (scope_sane_qst cf insub _ rst (st ++ [acc])%list Hs).
    rewrite map_app, map_map. f_equal.
    + apply map_ext. intros p. unfold e3_id, e3_name. cbn [fst snd]. rewrite prefix_empty. now rewrite qualify_push.
    + rewrite map_flat_map'. apply flat_map_ext_in. intros [key c] Hin. cbn [fst snd].
      apply Hchild; auto. exact (Hch _ Hin). exact (scope_sane_child _ _ _ _ _ _ _ _ Hs Hin).
  - destruct ps as [|p ps']; [|discriminate].
    cbn [map app]. rewrite map_flat_map'. apply flat_map_ext_in. intros [key c] Hin. cbn [fst snd].
    specialize (Hcs _ Hin). cbn [fst snd] in Hcs. apply andb_true_iff in Hcs as [Hkey Hc].
    assert (Hs' : scope_sane cf insub c).
    { destruct Hs as [Hs | [Hi Hs]]; [now left|]. right. split; auto.
      rewrite nosubb_eq in Hs. apply andb_true_iff in Hs as [_ Hs]. rewrite forallb_forall in Hs.
      exact (Hs _ Hin). }
    rewrite (IH _ Hin Hc (dot acc key)); [| exact (Hch _ Hin) | apply negb_true_iff, dot_nonempty | exact Hs'].
    rewrite prefix_empty, (sd_entries3_pre c key Hc), map_map. apply map_ext. intros [[k' i] n'].
    unfold pre3, e3_key, e3_id, e3_name. cbn [fst snd].
    rewrite prefix_nonempty by now apply keyok_nonempty.
    now rewrite dot_assoc.
  - cbv zeta. rewrite (scope_sane_qst cf insub _ rst (st ++ [acc])%list Hs).
    rewrite map_app, map_map. f_equal.
    + apply map_ext. intros p. unfold e3_id, e3_name. cbn [fst snd]. rewrite prefix_empty. now rewrite qualify_push.
    + rewrite map_flat_map'. apply flat_map_ext_in. intros [key c] Hin. cbn [fst snd].
      apply Hchild; auto. exact (Hch _ Hin). exact (scope_sane_child _ _ _ _ _ _ _ _ Hs Hin).
Qed.

Theorem events_root3 : forall cf t,
  t_kind t <> KList -> shape_ok t -> keys_shb t = true -> scope_sane cf false t ->
  events cf false [] [] t =
  map (fun e => (e3_id e, prefix (root_name t) (e3_name e))) (sd_entries3 "" t).
Proof.
  intros cf [k nm ps cs sb] Hkind Hshape Hk Hs. cbn [t_kind] in Hkind.
  pose proof Hk as Hk0. rewrite keys_shb_eq in Hk.
  apply andb_true_iff in Hk as [Hk Hcs]. apply andb_true_iff in Hk as [Hk Hnd2].
  apply andb_true_iff in Hk as [Hk Hnd1]. apply andb_true_iff in Hk as [Hlp Hk].
  rewrite forallb_forall in Hcs.
  inversion Hshape as [? ? ? ? Hch | ? ? ? ? ? _ Hch]; subst; [congruence|]. rewrite Forall_forall in Hch.
  rewrite events_eq, sd_entries3_eq. unfold root_name. cbn [t_name].
  set (me := match nm with Some n => n | None => "" end).
  transitivity ((map (fun p => (pe_id p, qualify_init [me] (pe_name p))) ps ++
               flat_map (fun kc => events cf (false || sb) [me] [me] (snd kc)) cs)%list).
  { destruct k; try congruence; cbv zeta; cbn [app]; destruct (realize_uses_root_scope cf); reflexivity. }
  rewrite map_app, map_map. f_equal.
  - apply map_ext. intros p. unfold e3_id, e3_name. cbn [fst snd]. now rewrite prefix_empty, qualify_single.
  - rewrite map_flat_map'. apply flat_map_ext_in. intros [key c] Hin. cbn [fst snd].
    specialize (Hcs _ Hin). cbn [fst snd] in Hcs. apply andb_true_iff in Hcs as [Hkey Hc].
    rewrite (events_named3 cf c Hc key); [| exact (Hch _ Hin) | now apply keyok_nonempty
                                          | exact (scope_sane_child _ _ _ _ _ _ _ _ Hs Hin)].
    rewrite prefix_empty, (sd_entries3_pre c key Hc), map_map. apply map_ext. intros [[k' i] n'].
    unfold pre3, e3_key, e3_id, e3_name. cbn [fst snd].
    rewrite (prefix_nonempty key n') by now apply keyok_nonempty. now rewrite qualify_single.
Qed.

(* ------------------------------------------------------------------ the initializer dict *)
Lemma dict_set_fresh : forall k v d, ~ In k (map fst d) -> dict_set k v d = (d ++ [(k, v)])%list.
Proof.
  induction d as [|[k' v'] r IH]; intro H; simpl in *; auto.
  destruct (String.eqb k k') eqn:E.
  - apply String.eqb_eq in E. subst. exfalso. apply H. now left.
  - f_equal. apply IH. intro Hin. apply H. now right.
Qed.

Lemma fold_dict_set_fresh : forall (l : list (nat * string)) d,
  NoDup (map snd l) -> (forall k, In k (map fst d) -> ~ In k (map snd l)) ->
  fold_left (fun d e => dict_set (snd e) (fst e) d) l d = (d ++ map (fun e => (snd e, fst e)) l)%list.
Proof.
  induction l as [|[i n] r IH]; intros d Hn Hd; simpl in *.
  - now rewrite app_nil_r.
  - inversion Hn; subst. rewrite dict_set_fresh.
    + rewrite IH; auto.
      * now rewrite <- app_assoc.
      * intros k Hk Hin. rewrite map_app in Hk. apply in_app_or in Hk as [Hk|[Hk|[]]].
        -- apply (Hd k Hk). now right.
        -- cbn in Hk. subst. contradiction.
    + intro Hin. apply (Hd n Hin). now left.
Qed.

(* ------------------------------------------------------------------ tree-level theorems with sharing *)
Definition tree_sh_hyps (cf : cfg) (t : mtree) : Prop :=
  t_kind t <> KList /\ shape_ok t /\ keys_shb t = true /\ first_named_okb t = true /\
  (realize_uses_root_scope cf = false \/ nosubb t = true).

Lemma first_entries_3 : forall t,
  first_entries t = map fst (first_occ e3_id [] (sd_entries3 "" t)).
Proof.
  intro t. unfold first_entries. rewrite <- (sd_entries3_proj t ""), first_occ_map. reflexivity.
Qed.

(* what is realised, in full: the (identity, name) pairs that Parameter._realize stores *)
Lemma realised_pairs_sh : forall cf t, tree_sh_hyps cf t ->
  first_by_id [] (events cf false [] [] t) =
  map (fun e => (snd e, prefix (root_name t) (fst e))) (first_entries t).
Proof.
  intros cf t (Hkind & Hshape & Hk & Hfn & Hs).
  assert (Hs' : scope_sane cf false t) by (destruct Hs; [left|right]; auto).
  rewrite (events_root3 cf t Hkind Hshape Hk Hs').
  rewrite (first_by_id_map _ e3_id (fun e => prefix (root_name t) (e3_name e))).
  rewrite first_entries_3, map_map. apply map_ext_in. intros e He.
  unfold first_named_okb in Hfn. rewrite forallb_forall in Hfn. specialize (Hfn _ He).
  apply String.eqb_eq in Hfn. rewrite Hfn. reflexivity.
Qed.

Lemma first_keys_nodup : forall t r, keys_shb t = true -> NoDup (map (prefix r) (first_keys t)).
Proof.
  intros t r Hk. apply FinFun.Injective_map_NoDup; [intros a b; apply prefix_inj|].
  unfold first_keys, first_entries. apply NoDup_map_first_occ. now apply sd_keys_nodup_sh.
Qed.

(* the realised names are the names of the FIRST registration of every Parameter object *)
Theorem realised_names_sharing : forall cf t, tree_sh_hyps cf t ->
  realised_names cf t = map (prefix (root_name t)) (first_keys t).
Proof.
  intros cf t H. unfold realised_names. rewrite (realised_pairs_sh cf t H).
  destruct H as (_ & _ & Hk & _ & _).
  rewrite map_map. cbn [snd]. unfold first_keys. rewrite <- (map_map fst (prefix (root_name t))).
  apply dict_keys_id; [| intros x []]. exact (first_keys_nodup t (root_name t) Hk).
Qed.

Theorem init_dict_sharing : forall cf t, tree_sh_hyps cf t ->
  init_dict cf t = map (fun e => (prefix (root_name t) (fst e), snd e)) (first_entries t).
Proof.
  intros cf t H. unfold init_dict. rewrite (realised_pairs_sh cf t H).
  destruct H as (_ & _ & Hk & _ & _).
  rewrite fold_dict_set_fresh.
  - cbn [app]. rewrite map_map. reflexivity.
  - rewrite map_map. cbn [snd]. rewrite <- (map_map fst (prefix (root_name t))).
    exact (first_keys_nodup t (root_name t) Hk).
  - intros k [].
Qed.

(* every Parameter OBJECT is an initializer exactly once: pairwise different names, as many as there
   are distinct objects, each object stored under exactly one of them *)
Theorem params_once_sharing : forall cf t, tree_sh_hyps cf t ->
  NoDup (realised_names cf t) /\
  List.length (realised_names cf t) = List.length (distinct_ids t) /\
  map snd (init_dict cf t) = distinct_ids t /\ NoDup (distinct_ids t) /\
  map fst (init_dict cf t) = realised_names cf t.
Proof.
  intros cf t H. rewrite (realised_names_sharing cf t H), (init_dict_sharing cf t H).
  pose proof H as (_ & _ & Hk & _ & _). repeat split.
  - exact (first_keys_nodup t (root_name t) Hk).
  - unfold first_keys, distinct_ids. now rewrite !map_length.
  - rewrite map_map. reflexivity.
  - unfold distinct_ids, first_entries. apply (proj1 (first_occ_ids _ snd (sd_entries "" t) [])).
  - rewrite map_map. unfold first_keys. now rewrite map_map.
Qed.

(* THE CHARACTERISATION: names = root + state_dict keys exactly when no Parameter object is shared *)
Theorem names_eq_iff_no_sharing_tree : forall cf t, tree_sh_hyps cf t ->
  (realised_names cf t = map (prefix (root_name t)) (sd_keys t) <-> nodup_natb (param_ids t) = true).
Proof.
  intros cf t H. split.
  - intro E. pose proof H as (_ & _ & Hk & _ & _).
    apply (names_eq_implies_no_sharing cf t (keys_shb_lp t Hk)). rewrite E. now rewrite map_length.
  - intro Hn. rewrite (realised_names_sharing cf t H). f_equal.
    unfold first_keys, first_entries, sd_keys. f_equal.
    apply first_occ_id; [| intros i []]. apply nodup_natb_NoDup. exact Hn.
Qed.

(* the same for the names as sets / in any order *)
Theorem names_perm_iff_no_sharing_tree : forall cf t, tree_sh_hyps cf t ->
  (Permutation (realised_names cf t) (map (prefix (root_name t)) (sd_keys t))
   <-> nodup_natb (param_ids t) = true).
Proof.
  intros cf t H. split.
  - intro P. pose proof H as (_ & _ & Hk & _ & _).
    apply (names_eq_implies_no_sharing cf t (keys_shb_lp t Hk)).
    rewrite (Permutation_length P). now rewrite map_length.
  - intro Hn. rewrite (proj2 (names_eq_iff_no_sharing_tree cf t H) Hn). apply Permutation_refl.
Qed.

(* ------------------------------------------------------------------ decidable hypotheses *)
Lemma namedb_named : forall t acc, namedb acc t = true -> named acc t.
Proof.
  induction t as [k nm ps cs sb IH] using mtree_ind'. intros acc H. rewrite Forall_forall in IH.
  assert (E : namedb acc (MT k nm ps cs sb) =
              (match nm with Some n => String.eqb n acc | None => false end) &&
              forallb (fun kc => namedb (child_acc k acc (fst kc)) (snd kc)) cs).
  { clear. cbn [namedb]. f_equal. induction cs as [|[key c] r IHr]; [reflexivity|].
    cbn [forallb fst snd]. rewrite <- IHr. destruct k; reflexivity. }
  rewrite E in H. apply andb_true_iff in H as [Hn Hc]. destruct nm as [n|]; [|discriminate].
  apply String.eqb_eq in Hn. subst n. constructor. rewrite Forall_forall. rewrite forallb_forall in Hc.
  intros kc Hin. apply IH; auto.
Qed.

Lemma shape_okb_ok : forall t, shape_okb t = true -> shape_ok t.
Proof.
  induction t as [k nm ps cs sb IH] using mtree_ind'. intro H. rewrite Forall_forall in IH.
  assert (E : shape_okb (MT k nm ps cs sb) =
              forallb (fun kc => match k with KList => shape_okb (snd kc) | _ => namedb (fst kc) (snd kc) end) cs).
  { clear. cbn [shape_okb]. induction cs as [|[key c] r IHr]; [reflexivity|].
    cbn [forallb fst snd]. rewrite <- IHr. destruct k; reflexivity. }
  rewrite E in H. rewrite forallb_forall in H. destruct k.
  - apply ShapeCall; [discriminate|]. rewrite Forall_forall. intros kc Hin. apply namedb_named. exact (H _ Hin).
  - apply ShapeList. rewrite Forall_forall. intros kc Hin. apply IH; auto.
  - apply ShapeCall; [discriminate|]. rewrite Forall_forall. intros kc Hin. apply namedb_named. exact (H _ Hin).
Qed.

Lemma tree_sh_okb_hyps : forall cf t, tree_sh_okb cf t = true -> tree_sh_hyps cf t.
Proof.
  intros cf t H. unfold tree_sh_okb, sharing_okb in H.
  apply andb_true_iff in H as [H Hst]. apply andb_true_iff in H as [Hk Hshape].
  apply andb_true_iff in Hst as [Hst Hsub]. apply andb_true_iff in Hst as [Hkeys Hfn].
  unfold tree_sh_hyps. repeat split; auto.
  - intro E. rewrite E in Hk. discriminate.
  - now apply shape_okb_ok.
  - apply orb_true_iff in Hsub as [Hsub|Hsub]; auto. left. now apply negb_true_iff.
Qed.

Lemma program_sh_ok_hyps : forall cf s, program_sh_okb cf s = true -> tree_sh_hyps cf (construct cf s).
Proof.
  intros cf s H. unfold program_sh_okb, sharing_okb in H.
  apply andb_true_iff in H as [H Hst]. apply andb_true_iff in H as [Hc Hk].
  apply andb_true_iff in Hst as [Hst Hsub]. apply andb_true_iff in Hst as [Hkeys Hfn].
  unfold tree_sh_hyps. repeat split; auto.
  - rewrite construct_kind by auto. intro E. rewrite E in Hk. discriminate.
  - now apply construct_shape.
  - apply orb_true_iff in Hsub as [Hsub|Hsub]; auto. left. now apply negb_true_iff.
Qed.

(* ------------------------------------------------------------------ program-level theorems with sharing *)
Theorem param_names_first_registration : forall cf s, program_sh_okb cf s = true ->
  realised_names cf (construct cf s) =
  map (prefix (root_name (construct cf s))) (first_keys (construct cf s)).
Proof. intros. apply realised_names_sharing. now apply program_sh_ok_hyps. Qed.

Theorem param_objects_once : forall cf s, program_sh_okb cf s = true ->
  let t := construct cf s in
  NoDup (realised_names cf t) /\
  List.length (realised_names cf t) = List.length (distinct_ids t) /\
  map snd (init_dict cf t) = distinct_ids t /\ NoDup (distinct_ids t) /\
  map fst (init_dict cf t) = realised_names cf t.
Proof. intros. apply params_once_sharing. now apply program_sh_ok_hyps. Qed.

Theorem names_eq_iff_no_sharing : forall cf s, program_sh_okb cf s = true ->
  (realised_names cf (construct cf s) =
   map (prefix (root_name (construct cf s))) (sd_keys (construct cf s))
   <-> nodup_natb (param_ids (construct cf s)) = true).
Proof. intros. apply names_eq_iff_no_sharing_tree. now apply program_sh_ok_hyps. Qed.

Theorem names_perm_iff_no_sharing : forall cf s, program_sh_okb cf s = true ->
  (Permutation (realised_names cf (construct cf s))
     (map (prefix (root_name (construct cf s))) (sd_keys (construct cf s)))
   <-> nodup_natb (param_ids (construct cf s)) = true).
Proof. intros. apply names_perm_iff_no_sharing_tree. now apply program_sh_ok_hyps. Qed.

(* the positive theorems are instances: without sharing the first registrations are all registrations *)
Lemma keys_okb_sh : forall t, keys_okb t = true ->
  keys_shb t = true /\ (forall pre e, In e (sd_entries3 pre t) -> e3_name e = e3_key e).
Proof.
  induction t as [k nm ps cs sb IH] using mtree_ind'. intro H. rewrite Forall_forall in IH.
  rewrite keys_okb_eq in H. rewrite keys_shb_eq.
  apply andb_true_iff in H as [H Hcs]. apply andb_true_iff in H as [H Hnd2].
  apply andb_true_iff in H as [H Hnd1]. apply andb_true_iff in H as [Hlp Hk].
  rewrite forallb_forall in Hk, Hcs. split.
  - repeat (apply andb_true_iff; split); auto.
    + apply forallb_forall. intros p Hp. specialize (Hk _ Hp). now apply andb_true_iff in Hk as [? _].
    + apply forallb_forall. intros kc Hin. specialize (Hcs _ Hin). apply andb_true_iff in Hcs as [Hkey Hc].
      rewrite Hkey. cbn. exact (proj1 (IH _ Hin Hc)).
  - intros pre e He. rewrite sd_entries3_eq in He. apply in_app_or in He as [He|He].
    + apply in_map_iff in He as [p [<- Hp]]. specialize (Hk _ Hp). apply andb_true_iff in Hk as [_ Hk].
      apply String.eqb_eq in Hk. unfold e3_name, e3_key. cbn [fst snd]. now rewrite Hk.
    + apply in_flat_map in He as [kc [Hin He]]. specialize (Hcs _ Hin). apply andb_true_iff in Hcs as [_ Hc].
      exact (proj2 (IH _ Hin Hc) _ _ He).
Qed.

Theorem program_okb_sh : forall cf s, program_okb cf s = true ->
  program_sh_okb cf s = true /\ nodup_natb (param_ids (construct cf s)) = true.
Proof.
  intros cf s H. unfold program_okb, static_okb in H. unfold program_sh_okb, sharing_okb.
  apply andb_true_iff in H as [H Hst]. apply andb_true_iff in Hst as [Hst Hsub].
  apply andb_true_iff in Hst as [Hkeys Hids]. destruct (keys_okb_sh _ Hkeys) as [Hsh Hnm].
  split; auto. rewrite H, Hsh, Hsub. cbn. rewrite andb_true_r.
  unfold first_named_okb. apply forallb_forall. intros e He.
  apply String.eqb_eq. apply (Hnm ""). eapply first_occ_incl; eauto.
Qed.

(* ------------------------------------------------------------------ examples and witnesses (sharing) *)
(* one Parameter object in every position: same module under two keys (0: scale/gain), siblings in a
   Sequential (2), three registrations across containers (2 again, late append to the ModuleList),
   parent and child (4), two unrelated modules (1) *)
Definition ex_shared (root : option string) : spec :=
  SMod root [PE "scale" 0 "scale"; PE "gain" 0 "scale"]
    [("layers", SCont false
        [SMod None [PE "w" 1 "w"] [("mlp", SCont true [leaf None 2; leaf None 2] [] [leaf None 3])] false]
        [] [leaf None 2]);
     ("head", SMod (Some "head") [PE "w" 1 "w"; PE "weight" 4 "weight"] [("inner", leaf None 4)] false);
     ("tail", leaf None 5)] false.

Example ex_shared_ok :
  program_sh_okb cfg_pinned (ex_shared (Some "model")) = true /\
  program_sh_okb cfg_fixed (ex_shared (Some "model")) = true /\
  program_sh_okb cfg_fixed (ex_shared None) = true /\
  nodup_natb (param_ids (construct cfg_fixed (ex_shared (Some "model")))) = false /\
  program_okb cfg_fixed (ex_shared (Some "model")) = false.
Proof. vm_compute. repeat split; reflexivity. Qed.

Example ex_shared_names :
  realised_names cfg_fixed (construct cfg_fixed (ex_shared (Some "model"))) =
  ["model.scale"; "model.layers.0.w"; "model.layers.0.mlp.0.weight"; "model.layers.0.mlp.2.weight";
   "model.head.weight"; "model.tail.weight"] /\
  sd_keys (construct cfg_fixed (ex_shared (Some "model"))) =
  ["scale"; "gain"; "layers.0.w"; "layers.0.mlp.0.weight"; "layers.0.mlp.1.weight"; "layers.0.mlp.2.weight";
   "layers.1.weight"; "head.w"; "head.weight"; "head.inner.weight"; "tail.weight"] /\
  init_dict cfg_fixed (construct cfg_fixed (ex_shared (Some "model"))) =
  [("model.scale", 0); ("model.layers.0.w", 1); ("model.layers.0.mlp.0.weight", 2);
   ("model.layers.0.mlp.2.weight", 3); ("model.head.weight", 4); ("model.tail.weight", 5)].
Proof. vm_compute. repeat split; reflexivity. Qed.

(* the no-sharing side of the equivalence is inhabited by the depth-4 program of the positive theorems *)
Example ex_unshared_ok :
  program_sh_okb cfg_pinned (ex_program (Some "model")) = true /\
  nodup_natb (param_ids (construct cfg_pinned (ex_program (Some "model")))) = true.
Proof. vm_compute. repeat split; reflexivity. Qed.

(* a shared Parameter registered under a different key FIRST in call order than in construction order is
   outside the hypotheses: its own name is the key of the registration executed first *)
Definition w_shared_late_first : spec :=
  SMod (Some "root") [] [("l", SCont false [SCont false [] [] [SMod None [PE "w" 0 "v"] [] false];
                                            SMod None [PE "v" 0 "v"] [] false] [] [])] false.
Theorem shared_first_named_refuted :
  consistentb URoot w_shared_late_first = true /\ keys_shb (construct cfg_fixed w_shared_late_first) = true /\
  first_named_okb (construct cfg_fixed w_shared_late_first) = false /\
  realised_names cfg_fixed (construct cfg_fixed w_shared_late_first) = ["root.l.0.0.v"] /\
  sd_keys (construct cfg_fixed w_shared_late_first) = ["l.0.0.w"; "l.1.v"].
Proof. vm_compute. repeat split; reflexivity. Qed.

(* --- shared SUB-MODULES at the level of object graphs: the object appears as identical subtrees *)
Definition m_leaf (nm : string) (id : nat) : mtree := MT KMod (Some nm) [PE "w" id "w"] [] false.
(* registered under the same key in two parents: all hypotheses hold, the sharing theorems apply *)
Definition w_submod_same_key : mtree :=
  MT KMod (Some "root") []
     [("x", MT KMod (Some "x") [] [("a", m_leaf "a" 0)] false);
      ("y", MT KMod (Some "y") [] [("a", m_leaf "a" 0)] false)] false.
(* registered under two keys of one parent: the second registration keeps the name "a" *)
Definition w_submod_two_keys : mtree :=
  MT KMod (Some "root") [] [("a", m_leaf "a" 0); ("b", m_leaf "a" 0)] false.
(* first registered (named) as x.a, but called first through y.b: the initializer name root.y.a.w is not
   root + any state_dict key *)
Definition w_submod_misnamed : mtree :=
  MT KMod (Some "root") []
     [("y", MT KMod (Some "y") [] [("b", m_leaf "a" 0)] false);
      ("x", MT KMod (Some "x") [] [("a", m_leaf "a" 0)] false)] false.
(* self.b = m; self.l = ModuleList([m, other]): the list renames the object to l.0 *)
Definition w_submod_list_renames : mtree :=
  MT KMod (Some "root") []
     [("b", m_leaf "l.0" 0);
      ("l", MT KList (Some "l") [] [("0", m_leaf "l.0" 0); ("1", m_leaf "l.1" 1)] false)] false.

Example ex_submod_same_key :
  tree_sh_okb cfg_fixed w_submod_same_key = true /\ tree_sh_okb cfg_pinned w_submod_same_key = true /\
  nodup_natb (param_ids w_submod_same_key) = false /\
  realised_names cfg_fixed w_submod_same_key = ["root.x.a.w"] /\
  sd_keys w_submod_same_key = ["x.a.w"; "y.a.w"].
Proof. vm_compute. repeat split; reflexivity. Qed.

Theorem shared_submodule_refuted :
  (* without `shape_ok` the description by first registrations fails ... *)
  sharing_okb cfg_fixed w_submod_misnamed = true /\ shape_okb w_submod_misnamed = false /\
  realised_names cfg_fixed w_submod_misnamed = ["root.y.a.w"] /\
  map (prefix (root_name w_submod_misnamed)) (first_keys w_submod_misnamed) = ["root.y.b.w"] /\
  sd_keys w_submod_misnamed = ["y.b.w"; "x.a.w"] /\
  (* ... also when a container renames the shared object: the name is a state_dict key, of the second registration *)
  sharing_okb cfg_fixed w_submod_list_renames = true /\ shape_okb w_submod_list_renames = false /\
  realised_names cfg_fixed w_submod_list_renames = ["root.l.0.w"; "root.l.1.w"] /\
  sd_keys w_submod_list_renames = ["b.w"; "l.0.w"; "l.1.w"] /\
  (* ... although `shape_ok` is not necessary *)
  shape_okb w_submod_two_keys = false /\
  realised_names cfg_fixed w_submod_two_keys = map (prefix "root") (first_keys w_submod_two_keys).
Proof. vm_compute. repeat split; reflexivity. Qed.

(* aliasing after construction: self.head2 = self.head under another key / the same key elsewhere *)
Definition ex_alias_base : spec :=
  SMod (Some "model") []
    [("enc", SMod None [] [("proj", leaf None 0)] false);
     ("dec", SMod None [PE "w" 1 "w"] [] false)] false.
Example ex_alias_same_key :
  match aliases (construct cfg_fixed ex_alias_base) [(["enc"; "proj"], ["dec"], "proj")] with
  | Some t => tree_sh_okb cfg_fixed t = true /\ nodup_natb (param_ids t) = false /\
              alias_keys_match (construct cfg_fixed ex_alias_base) [(["enc"; "proj"], ["dec"], "proj")] = true /\
              realised_names cfg_fixed t = ["model.enc.proj.weight"; "model.dec.w"] /\
              sd_keys t = ["enc.proj.weight"; "dec.w"; "dec.proj.weight"]
  | None => False
  end.
Proof. vm_compute. repeat split; reflexivity. Qed.
Example ex_alias_other_key :
  match aliases (construct cfg_fixed ex_alias_base) [(["enc"; "proj"], ["dec"], "out")] with
  | Some t => shape_okb t = false /\
              alias_keys_match (construct cfg_fixed ex_alias_base) [(["enc"; "proj"], ["dec"], "out")] = false
  | None => False
  end.
Proof. vm_compute. repeat split; reflexivity. Qed.

(* What is NOT proved for shared sub-modules: that aliasing programs whose keys match the shared module's
   name always produce object graphs satisfying `shape_ok` (then the sharing theorems apply).  Missing:
   the induction over `graft_at` showing `shape_ok` is preserved when `named key c` is grafted under a
   plain Module; programs that register an existing module in a ModuleList / Sequential (the container
   renames the object) are not expressible as construction programs at all. *)
Definition shared_submodule_names_full : Prop :=
  forall cf s al t,
    consistentb URoot s = true -> spec_kind s <> KList ->
    alias_dsts_ok al = true -> alias_keys_match (construct cf s) al = true ->
    aliases (construct cf s) al = Some t -> sharing_okb cf t = true ->
    realised_names cf t = map (prefix (root_name t)) (first_keys t) /\
    (realised_names cf t = map (prefix (root_name t)) (sd_keys t) <-> nodup_natb (param_ids t) = true).

(* proved: the same conclusion for every object graph, however it was built, that satisfies the
   decidable hypotheses `tree_sh_okb` (names propagated); the harness evaluates them on the object
   graphs it observes on the real code *)
Theorem shared_submodule_names_partial : forall cf t, tree_sh_okb cf t = true ->
  realised_names cf t = map (prefix (root_name t)) (first_keys t) /\
  (realised_names cf t = map (prefix (root_name t)) (sd_keys t) <-> nodup_natb (param_ids t) = true) /\
  map snd (init_dict cf t) = distinct_ids t /\ NoDup (distinct_ids t).
Proof.
  intros cf t H. apply tree_sh_okb_hyps in H. split; [|split].
  - now apply realised_names_sharing.
  - now apply names_eq_iff_no_sharing_tree.
  - destruct (params_once_sharing cf t H) as (_ & _ & A & B & _). auto.
Qed.

(* ====================================================================================== name collisions *)
(* Parameter._realize with the proposed check: ValueError when the qualified name is already used by a
   DIFFERENT Parameter object (`call_result true`); as read the earlier initializer is silently replaced
   (`call_result false`).  Facts for EVERY tree (any names, sharing of parameters and sub-modules). *)

Lemma NoDup_snoc : forall (A : Type) (l : list A) x, NoDup l -> ~ In x l -> NoDup (l ++ [x]).
Proof.
  induction l as [|y r IH]; intros x Hn Hx; simpl.
  - constructor; [intros []|constructor].
  - inversion Hn; subst. constructor.
    + intro Hin. apply in_app_or in Hin as [Hin|[Hin|[]]]; [contradiction|]. subst. apply Hx. now left.
    + apply IH; auto. intro Hin. apply Hx. now right.
Qed.

(* as read: never raises, the dict is `init_dict` (last write wins) *)
Lemma realise_all_as_read : forall evs d,
  realise_all false evs d = Returned (fold_left (fun d e => dict_set (snd e) (fst e) d) evs d).
Proof. induction evs as [|[i n] r IH]; intros d; simpl; auto. Qed.

(* checked: returns exactly when the names are pairwise different (and different from those present),
   and then nothing was overwritten *)
Lemma realise_all_checked : forall evs d, NoDup (map fst d) ->
  (NoDup (map fst d ++ map snd evs) ->
   realise_all true evs d = Returned (d ++ map (fun e => (snd e, fst e)) evs)) /\
  (~ NoDup (map fst d ++ map snd evs) ->
   exists n, realise_all true evs d = Raised n /\ In n (map snd evs)).
Proof.
  induction evs as [|[i n] r IH]; intros d Hd.
  - simpl. rewrite !app_nil_r. split; [reflexivity|]. intro H. contradiction.
  - cbn [realise_all map fst snd andb]. destruct (mem_str n (map fst d)) eqn:E.
    + apply mem_str_In in E. split.
      * intro Hn. exfalso. apply NoDup_remove_2 in Hn. apply Hn. apply in_or_app. now left.
      * intros _. exists n. split; [reflexivity|now left].
    + assert (Hnot : ~ In n (map fst d)) by (intro Hin; apply mem_str_In in Hin; congruence).
      rewrite (dict_set_fresh n i d Hnot).
      assert (Hd' : NoDup (map fst (d ++ [(n, i)]))).
      { rewrite map_app. cbn [map fst]. now apply NoDup_snoc. }
      destruct (IH (d ++ [(n, i)])%list Hd') as [IH1 IH2].
      assert (Eapp : (map fst (d ++ [(n, i)]) ++ map snd r = map fst d ++ n :: map snd r)%list).
      { rewrite map_app. cbn [map fst]. now rewrite <- app_assoc. }
      rewrite Eapp in IH1, IH2. split.
      * intro Hn. rewrite (IH1 Hn). now rewrite <- app_assoc.
      * intro Hn. destruct (IH2 Hn) as [m [Hm Hin]]. exists m. split; [exact Hm|now right].
Qed.

Lemma init_dict_no_collision : forall cf t, collision_free cf t = true ->
  init_dict cf t = map (fun e => (snd e, fst e)) (first_by_id [] (events cf false [] [] t)).
Proof.
  intros cf t H. unfold collision_free in H. apply nodup_strb_NoDup in H.
  unfold init_dict. rewrite fold_dict_set_fresh; [reflexivity | exact H | intros k []].
Qed.

(* the two variants of the call, in terms of `collision_free` and `init_dict` *)
Theorem call_result_spec : forall cf t,
  call_result false cf t = Returned (init_dict cf t) /\
  returns (call_result true cf t) = collision_free cf t /\
  (collision_free cf t = true -> call_result true cf t = Returned (init_dict cf t)) /\
  (collision_free cf t = false -> exists n, call_result true cf t = Raised n /\ In n (realised_names cf t)).
Proof.
  intros cf t. split; [apply realise_all_as_read|].
  unfold call_result.
  destruct (realise_all_checked (first_by_id [] (events cf false [] [] t)) [] (NoDup_nil _)) as [H1 H2].
  cbn [map app] in H1, H2.
  destruct (collision_free cf t) eqn:E.
  - pose proof E as E'. unfold collision_free in E'. apply nodup_strb_NoDup in E'.
    rewrite (H1 E'). cbn [app returns]. rewrite (init_dict_no_collision cf t E).
    repeat split; auto. discriminate.
  - assert (Hn : ~ NoDup (map snd (first_by_id [] (events cf false [] [] t)))).
    { intro Hn. apply nodup_strb_NoDup in Hn. unfold collision_free in E. congruence. }
    destruct (H2 Hn) as [n [Hr Hin]]. rewrite Hr. cbn [returns].
    repeat split; auto; try discriminate. intros _. exists n. split; auto.
    unfold realised_names.
    assert (G : forall l seen, In n l -> ~ In n seen -> In n (dict_keys seen l)).
    { induction l as [|y r IHl]; intros seen Hi Hs; simpl in *; [contradiction|].
      destruct (mem_str y seen) eqn:Ey.
      - destruct Hi as [->|Hi]; [apply mem_str_In in Ey; contradiction | auto].
      - destruct (string_dec y n) as [->|Hne]; [now left|]. right. destruct Hi as [->|Hi]; [congruence|].
        apply IHl; auto. intros [->|H']; auto. }
    apply G; auto.
Qed.

(* (a) WITH THE CHECK: whenever the call returns, every Parameter object of the tree is an initializer
   exactly once and no two objects share a name -- for every tree, whatever its names, with Parameter
   objects or whole sub-modules shared (a ModuleList carrying parameters of its own excluded: never called) *)
Theorem collision_check_fixed : forall cf t d, lp_okb t = true ->
  call_result true cf t = Returned d ->
  d = init_dict cf t /\ NoDup (map fst d) /\ map snd d = distinct_ids t /\ NoDup (distinct_ids t) /\
  List.length d = List.length (distinct_ids t) /\
  (forall i, In i (param_ids t) <-> In i (map snd d)) /\
  map fst d = realised_names cf t.
Proof.
  intros cf t d Hl Hr.
  destruct (call_result_spec cf t) as (_ & Hret & Hok & Hbad).
  destruct (collision_free cf t) eqn:E.
  - rewrite (Hok eq_refl) in Hr. inversion Hr; subst d. clear Hr.
    pose proof E as E'. unfold collision_free in E'. apply nodup_strb_NoDup in E'.
    destruct (realised_ids_distinct cf t Hl) as (Eid & Hnd & Hin).
    rewrite (init_dict_no_collision cf t E), !map_map. cbn [fst snd].
    fold (realised_ids cf t). rewrite map_length. repeat split.
    + exact E'.
    + exact Eid.
    + now rewrite <- Eid.
    + rewrite <- Eid. unfold realised_ids. now rewrite map_length.
    + apply Hin.
    + apply Hin.
    + unfold realised_names. symmetry. apply dict_keys_id; [exact E' | intros x []].
  - destruct (Hbad eq_refl) as [n [Hn _]]. rewrite Hn in Hr. discriminate.
Qed.

(* (c) under the hypotheses of the sharing theorems (hence of the positive theorems) no collision
   happens: the check never fires, both variants return the same dict *)
Theorem no_collision_tree : forall cf t, tree_sh_hyps cf t -> collision_free cf t = true.
Proof.
  intros cf t H. unfold collision_free. rewrite (realised_pairs_sh cf t H).
  destruct H as (_ & _ & Hk & _ & _).
  rewrite map_map. cbn [snd]. apply nodup_strb_NoDup.
  unfold first_keys. rewrite <- (map_map fst (prefix (root_name t))).
  exact (first_keys_nodup t (root_name t) Hk).
Qed.

Theorem check_never_fires_tree : forall cf t, tree_sh_hyps cf t ->
  forall chk, call_result chk cf t = Returned (init_dict cf t).
Proof.
  intros cf t H chk. destruct (call_result_spec cf t) as (Hf & _ & Hok & _).
  destruct chk; [apply Hok; now apply no_collision_tree | exact Hf].
Qed.

Theorem check_never_fires : forall cf s, program_sh_okb cf s = true ->
  forall chk, call_result chk cf (construct cf s) = Returned (init_dict cf (construct cf s)).
Proof. intros cf s H. apply check_never_fires_tree. now apply program_sh_ok_hyps. Qed.

Theorem check_never_fires_okb : forall cf s, program_okb cf s = true ->
  forall chk, call_result chk cf (construct cf s) = Returned (init_dict cf (construct cf s)).
Proof. intros cf s H. apply check_never_fires. exact (proj1 (program_okb_sh cf s H)). Qed.

(* --- (b) witnesses of the silent loss (as read) that the check turns into an error *)
(* class A: self.bias = p1;  class B: self.bias = P2; self.scale = p1;  root: a = A(p1); self.b = B(p1); self.a = a.
   p1 keeps the name "bias" of its first registration (in A); B is called first: P2 and p1 are both realised
   as root.b.bias, P2 is lost (C18:naming:shared-parameter-name-collision) *)
Definition w_collide_shared : mtree :=
  MT KMod (Some "root") []
     [("b", MT KMod (Some "b") [PE "bias" 2 "bias"; PE "scale" 1 "bias"] [] false);
      ("a", MT KMod (Some "a") [PE "bias" 1 "bias"] [] false)] false.
(* m = Leaf(); x = Box(a=m); y = Box(a=Leaf2(), b=m); root = Box("root", y=y, x=x): m keeps the name "a", is called
   first through y.b and realised as root.y.a.w, which is the name of Leaf2's parameter (C18:naming:shared-submodule) *)
Definition w_collide_submod : mtree :=
  MT KMod (Some "root") []
     [("y", MT KMod (Some "y") [] [("a", m_leaf "a" 1); ("b", m_leaf "a" 0)] false);
      ("x", MT KMod (Some "x") [] [("a", m_leaf "a" 0)] false)] false.
(* no sharing at all: two Parameter objects given the same explicit name *)
Definition w_collide_explicit : mtree :=
  MT KMod (Some "root") [PE "w" 0 "w"; PE "v" 1 "w"] [] false.

Theorem silent_loss_refuted :
  (* as read: the call returns, two objects registered, ONE initializer *)
  lp_okb w_collide_shared = true /\ distinct_ids w_collide_shared = [2; 1] /\
  call_result false cfg_fixed w_collide_shared = Returned [("root.b.bias", 1)] /\
  call_result true cfg_fixed w_collide_shared = Raised "root.b.bias" /\
  lp_okb w_collide_submod = true /\ distinct_ids w_collide_submod = [1; 0] /\
  call_result false cfg_fixed w_collide_submod = Returned [("root.y.a.w", 0)] /\
  call_result true cfg_fixed w_collide_submod = Raised "root.y.a.w" /\
  distinct_ids w_collide_explicit = [0; 1] /\
  call_result false cfg_pinned w_collide_explicit = Returned [("root.w", 1)] /\
  call_result true cfg_pinned w_collide_explicit = Raised "root.w".
Proof. vm_compute. repeat split; reflexivity. Qed.

(* non-vacuity of (a): the call returns on a program with one Parameter object in every position
   (legal weight tying: 11 registrations, 6 objects, 6 initializers), with the check on *)
Example ex_shared_returns_checked :
  call_result true cfg_fixed (construct cfg_fixed (ex_shared (Some "model"))) =
  Returned [("model.scale", 0); ("model.layers.0.w", 1); ("model.layers.0.mlp.0.weight", 2);
            ("model.layers.0.mlp.2.weight", 3); ("model.head.weight", 4); ("model.tail.weight", 5)] /\
  lp_okb (construct cfg_fixed (ex_shared (Some "model"))) = true /\
  List.length (sd_keys (construct cfg_fixed (ex_shared (Some "model")))) = 11.
Proof. vm_compute. repeat split; reflexivity. Qed.
(* ... and (a) also covers trees OUTSIDE the hypotheses of the sharing theorems on which the call returns:
   the shared sub-module called first under another key (names are not state_dict keys, nothing is lost) *)
Example ex_misnamed_returns_checked :
  tree_sh_okb cfg_fixed w_submod_misnamed = false /\
  call_result true cfg_fixed w_submod_misnamed = Returned [("root.y.a.w", 0)] /\
  distinct_ids w_submod_misnamed = [0].
Proof. vm_compute. repeat split; reflexivity. Qed.
