(* C13 (session 6): the renaming hypothesis of the soundness theorems, discharged for the exporter's own renamer.
   The exporter wraps its base renamer (the clean-up, or the short names under rename=True) in _make_unique_name_mapper
   (Export/Unique.v uniq_fn): on the names it has been handed, that function is injective whatever the base is, so the
   conjunct `nodupb (map t NN)` of nested_okb / emit_okb holds for every graph whose names are in the sequence. *)
From Coq Require Import List String Bool.
Require Import OV.Export.Cleanup OV.Export.CleanupProofs OV.Export.Unique OV.Export.UniqueProofs.
Require Import OV.Graph.Syntax OV.Script.Syntax OV.Script.Translate OV.Export.Emit OV.Export.EmitProofs OV.Export.EmitCF.
Import ListNotations.
Local Open Scope string_scope.

Lemma alookup_in : forall a y m, In (a, y) m -> exists y', alookup a m = Some y' /\ In (a, y') m.
Proof.
  intros a y m. induction m as [|[k v] t IH]; intros H; [contradiction|]. cbn [alookup].
  destruct (String.eqb a k) eqn:E.
  - apply String.eqb_eq in E. subst k. exists v. split; [reflexivity | left; reflexivity].
  - destruct H as [H|H]; [inversion H; subst; rewrite String.eqb_refl in E; discriminate|].
    destruct (IH H) as (y' & A & B). exists y'. split; [exact A | right; exact B].
Qed.

Theorem uniq_fn_injective_on_seq : forall base seq m, uniq_map base seq = Some m ->
  forall a b, In a seq -> In b seq -> uniq_fn base seq a = uniq_fn base seq b -> a = b.
Proof.
  intros base seq m Hm a b Ha Hb E. destruct (uniq_map_injective base seq m Hm) as (I1 & I2 & I3).
  unfold uniq_fn in E. rewrite Hm in E.
  destruct (I3 a Ha) as (ya & Ia). destruct (I3 b Hb) as (yb & Ib).
  destruct (alookup_in a ya m Ia) as (ya' & La & Ia'). destruct (alookup_in b yb m Ib) as (yb' & Lb & Ib').
  rewrite La, Lb in E. subst yb'. exact (I1 a b ya' Ia' Ib').
Qed.

Lemma nodupb_map_of_inj : forall (f : string -> string) l,
  nodupb l = true -> (forall a b, In a l -> In b l -> f a = f b -> a = b) -> nodupb (map f l) = true.
Proof.
  intros f. induction l as [|x t IH]; intros Hn Hi; [reflexivity|]. cbn [map].
  apply nodupb_cons in Hn. destruct Hn as [Hn1 Hn2].
  assert (G : negb (memb (f x) (map f t)) && nodupb (map f t) = true).
  { apply andb_true_iff. split.
    - apply negb_true_iff. apply memb_false_In. intros C. apply in_map_iff in C. destruct C as (y & E & Hy).
      assert (y = x) by (apply Hi; [right; exact Hy | left; reflexivity | exact E]). subst y. contradiction.
    - apply IH; [exact Hn2|]. intros a b Ha Hb. apply Hi; right; assumption. }
  exact G.
Qed.

(* the injectivity conjunct of the soundness theorems' side conditions, for the exporter's own renamer *)
Theorem renamer_injectivity_discharged : forall base seq m rm NN,
  uniq_map base seq = Some m -> nodupb NN = true -> (forall x, In x NN -> In x seq /\ ~ In x (map fst rm)) ->
  nodupb (map (tr (uniq_fn base seq) rm) NN) = true.
Proof.
  intros base seq m rm NN Hm Hn Hin. apply nodupb_map_of_inj; [exact Hn|].
  assert (Htr : forall x, In x NN -> tr (uniq_fn base seq) rm x = uniq_fn base seq x).
  { intros x Hx. unfold tr, tr_with. destruct (lookup_assoc x rm) as [s|] eqn:E; [|reflexivity].
    exfalso. apply (proj2 (Hin x Hx)). clear -E. unfold lookup_assoc in E. induction rm as [|[k v] t IH]; [discriminate E|].
    cbn [map fst]. destruct (String.eqb k x) eqn:Ek; [left; apply String.eqb_eq; exact Ek | right; apply IH; exact E]. }
  intros a b Ha Hb E. rewrite (Htr a Ha), (Htr b Hb) in E.
  exact (uniq_fn_injective_on_seq base seq m Hm a b (proj1 (Hin a Ha)) (proj1 (Hin b Hb)) E).
Qed.
