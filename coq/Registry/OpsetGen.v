(* C17 -- the finite, regenerated statement: every generated class (Gen/OpsetMethods.v, re-extracted from
   onnxscript/onnx_opset/_impl/*.py on every check) passes the computable test against every ONNX schema
   (Gen/OpsetSchemas.v, re-extracted from onnx.defs).  Proved by evaluation; an edited default, version,
   parameter or forwarded name makes this file fail to compile. *)
From Coq Require Import List String ZArith Bool.
Import ListNotations.
Require Import OV.Registry.OpsetMethod OV.Registry.OpsetMethodProofs OV.Registry.OpsetEmit OV.Registry.OpsetEmitProofs
               OV.Registry.OpsetChain OV.Registry.OpsetChainProofs.
Require OV.Gen.OpsetMethods OV.Gen.OpsetSchemas.

Definition gen_schemas := OV.Gen.OpsetSchemas.schemas.
Definition gen_classes := OV.Gen.OpsetMethods.classes.

(* the exemptions claimed on this tree (regenerated: deprecated schemas whose deprecation-version class
   defines no method of its own; [] once the generator emits a method for deprecated schemas too) *)
Definition gen_exempt_ops := OV.Gen.OpsetMethods.exempt_ops.
Definition gen_exempt : schema -> bool := exempt_in gen_exempt_ops.

(* the opsets the generator is told to leave out (regenerated from the documented `--exclude` of opgen/__main__.py) *)
Definition gen_excluded : list ckey := OV.Gen.OpsetMethods.excluded_opsets.

(* the installed onnx.defs is a well-formed registry for the generator: per-method preconditions, unique
   (name, domain, since_version), versions >= 1, distinct class names, no gap below any generated class *)
Lemma gen_reg_wf : reg_wfb gen_exempt gen_excluded gen_schemas = true.
Proof. vm_compute. reflexivity. Qed.

(* the checked-in classes -- names, base classes, (domain, version), method lists -- ARE the classes the model
   generator emits from onnx.defs (decided by evaluation on the regenerated data) *)
Lemma gen_classes_are_emitted : gen_classes = emit_classes gen_exempt gen_excluded gen_schemas.
Proof. apply classes_eqb_eq. vm_compute. reflexivity. Qed.

(* ... so the registry test on the 33 classes is a corollary of the generator theorem *)
Lemma gen_registry_ok : registry_ok gen_exempt gen_schemas gen_classes = true.
Proof. rewrite gen_classes_are_emitted. exact (emitted_registry_ok _ _ _ gen_reg_wf). Qed.

(* the generator: every onnx.defs schema passes the well-formedness test of the generator theorem, and the
   methods of every checked-in class are exactly what the model generator emits for that class *)
Lemma gen_schemas_wf : forallb schema_wfb gen_schemas = true.
Proof. vm_compute. reflexivity. Qed.

Lemma gen_classes_emitted : classes_emitted gen_exempt gen_schemas gen_classes = true.
Proof. vm_compute. reflexivity. Qed.

Lemma gen_methods_by_generator : forall c, In c gen_classes -> forall m, In m (c_methods c) ->
  exists s, In s gen_schemas /\ s_domain s = c_domain c /\ s_since s = c_version c /\ gen_exempt s = false /\
            m = emit_method s /\ method_ok m s = true /\
            exists s', static_schema gen_schemas m = Some s' /\
                       s_name s' = s_name s /\ s_domain s' = s_domain s /\ s_since s' = s_since s.
Proof. exact (classes_emitted_ok _ _ _ gen_classes_emitted gen_schemas_wf). Qed.

Lemma gen_sound : forall c, In c gen_classes ->
  forall op s, dyn_getitem gen_schemas c op = Some s -> gen_exempt s = false ->
    (covered c = true -> exists m, static_lookup gen_classes c op = Some m) /\
    forall m, static_lookup gen_classes c op = Some m ->
      static_schema gen_schemas m = Some s /\ mirrors m s /\
      forall V (a : args V) pe ke, bind m a = Some (pe, ke) ->
        exists n, call_method gen_schemas m a = Some n /\ n_inputs n = strip (a_pos a) /\ node_equiv s n (bare_node s a).
Proof. exact (registry_sound _ _ _ gen_registry_ok). Qed.

Lemma gen_coverage : forall c, In c gen_classes -> covered c = true ->
  forall op s, dyn_getitem gen_schemas c op = Some s -> gen_exempt s = false ->
    exists m, static_lookup gen_classes c op = Some m.
Proof. intros c I C op s R D. destruct (gen_sound c I op s R D) as [H _]. auto. Qed.

Lemma gen_dynamic : forall c, In c gen_classes -> forall op,
    (dyn_contains gen_schemas c op = true <-> exists s, dyn_getitem gen_schemas c op = Some s) /\
    (forall s, dyn_getitem gen_schemas c op = Some s -> gen_exempt s = false -> getattr_schema gen_schemas gen_classes c op = Some s) /\
    (dyn_getitem gen_schemas c op = None -> getattr_schema gen_schemas gen_classes c op = None /\ static_lookup gen_classes c op = None).
Proof. exact (dynamic_lookup_agrees _ _ _ gen_registry_ok). Qed.

(* live operators are never exempt, so the statements above cover at least what they covered before *)
Lemma gen_exempt_live : forall s, s_deprecated s = false -> gen_exempt s = false.
Proof. intros. apply exempt_in_live; auto. Qed.

(* on a tree where no exemption is claimed (the repaired generator) the statement covers every operator
   onnx.defs resolves, deprecated or not, and eager = translation for all of them *)
Lemma gen_sound_when_repaired : gen_exempt_ops = [] ->
  forall c, In c gen_classes -> forall op s, dyn_getitem gen_schemas c op = Some s ->
    getattr_schema gen_schemas gen_classes c op = Some s /\
    (covered c = true -> exists m, static_lookup gen_classes c op = Some m) /\
    forall m, static_lookup gen_classes c op = Some m -> static_schema gen_schemas m = Some s /\ mirrors m s.
Proof.
  intros E c I op s R.
  assert (gen_exempt s = false) as X by (unfold gen_exempt; rewrite E; apply exempt_in_nil).
  destruct (gen_sound c I op s R X) as [H1 H2]. destruct (gen_dynamic c I op) as [_ [H3 _]].
  split; [apply H3; auto|]. split; auto. intros m L. destruct (H2 m L) as [A [B _]]. auto.
Qed.

(* the generated data is not degenerate: the hypotheses of gen_sound are met by opset13.Softmax *)
Example gen_nonempty :
  match find_class gen_classes "Opset13" with
  | Some c => match static_lookup gen_classes c "Softmax", dyn_getitem gen_schemas c "Softmax" with
              | Some m, Some s => negb (s_deprecated s) && Z.eqb (s_since s) 13 && covered c
              | _, _ => false
              end
  | None => false
  end = true.
Proof. vm_compute. reflexivity. Qed.
