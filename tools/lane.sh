#!/bin/bash
# lane.sh <seed ids...>: try seeds one after the other from the isolated snapshot (VERIF_HOME), log to ${LLOG:-/var/tmp/osv/lanes.log}
for s in "$@"; do VERIF_HOME=${VERIF_HOME:-/verif} /verif/tools/try_seed.py $s quick 2>&1 | grep -v WARNING | cut -c1-700 >> ${LLOG:-/var/tmp/osv/lanes.log}; done
