(* C09 -- MaterializeReshapeShape: the materialised constant reshapes to exactly the annotated
   (truthful) output shape, for every binding; refuted as shipped for a static 0 beside a symbol. *)
From Coq Require Import String ZArith List Bool Lia ZifyBool.
Require Import OV.Shape.SymDim OV.Shape.SymDimProofs OV.Shape.PartialEval OV.Shape.PartialEvalProofs OV.Shape.Materialize.
Import ListNotations.
Open Scope Z_scope.

Definition keep (d : Z) : bool := negb (d =? -1).

Lemma resolve0_true : forall cx c, resolve0 true cx c = Some c.
Proof.
  intros cx c; revert cx. induction c as [|d c IH]; intros cx; simpl; [reflexivity|].
  rewrite andb_false_r. rewrite IH. reflexivity.
Qed.

(* no symbolic dim: the constant is the runtime shape itself *)
Lemma mat_zero_sym : forall rho o co, Forall2 (denotes rho) o co -> Forall (fun n => 0 <= n) co ->
  count_sym o = 0%nat ->
  map mat_dim o = co /\ filter keep co = co /\ count_m1 co = 0%nat /\ existsb (fun d => d <? -1) co = false.
Proof.
  unfold count_sym, count_m1. intros rho o co F. induction F as [|d n o co D F IH]; intros N C; simpl in *.
  - auto.
  - inversion N; subst. destruct d as [z| |]; simpl in *; try discriminate.
    destruct (IH H2 C) as [A [B [K L]]]. subst z.
    unfold keep at 1. destruct (n =? -1) eqn:E; [lia|]. simpl.
    destruct (n <? -1) eqn:E2; [lia|]. simpl. rewrite A, B. auto.
Qed.

Lemma mat_one_sym : forall rho o co, Forall2 (denotes rho) o co -> Forall (fun n => 0 <= n) co ->
  count_sym o = 1%nat -> existsb is_zero_int o = false ->
  exists v, zprod co = zprod (filter keep (map mat_dim o)) * v
         /\ zprod (filter keep (map mat_dim o)) <> 0
         /\ count_m1 (map mat_dim o) = 1%nat
         /\ existsb (fun d => d <? -1) (map mat_dim o) = false
         /\ existsb (fun d => d =? 0) (map mat_dim o) = false
         /\ map (fun d => if d =? -1 then v else d) (map mat_dim o) = co.
Proof.
  intros rho o co F. induction F as [|d n o co D F IH]; intros N C Z0.
  - discriminate.
  - inversion N; subst. simpl in Z0. apply orb_false_iff in Z0 as [Zd Z0].
    destruct d as [z|s|]; simpl in D.
    + (* an int dim in front *)
      subst z. unfold count_sym in C. simpl in C, Zd.
      destruct (IH H2 C Z0) as [v [P [Q [K [L [M R]]]]]]. exists v.
      assert (E : (n =? -1) = false) by lia.
      assert (E2 : (n <? -1) = false) by lia.
      assert (Kn : keep n = true) by (unfold keep; rewrite E; reflexivity).
      unfold count_m1 in *. simpl. rewrite Kn, E, E2, Zd. simpl. rewrite R.
      repeat split; auto.
      * rewrite P. ring.
      * nia.
    + (* the named dim: the rest is all ints *)
      unfold count_sym in C. simpl in C. injection C as C.
      destruct (mat_zero_sym rho o co F H2 C) as [A [B [K L]]].
      exists n. unfold count_m1 in *. simpl. rewrite A, B, K, L. simpl.
      assert (NZ : existsb (fun d => d =? 0) co = false).
      { clear - F Z0 A. subst co. induction o as [|d o IH]; simpl in *; [reflexivity|].
        apply orb_false_iff in Z0 as [Z1 Z2]. inversion F; subst.
        rewrite (IH H4 Z2). destruct d; simpl in *; try rewrite Z1; reflexivity. }
      assert (NM : map (fun d => if d =? -1 then n else d) co = co).
      { clear - H2. induction H2; simpl; [reflexivity|]. rewrite IHForall. destruct (x =? -1) eqn:E; [lia|reflexivity]. }
      assert (PZ : zprod co <> 0).
      { clear - NZ. induction co; simpl in *; [lia|]. apply orb_false_iff in NZ as [N1 N2]. specialize (IHco N2). nia. }
      repeat split; auto. ring. rewrite NM; reflexivity.
    + unfold count_sym in C. simpl in C. injection C as C.
      destruct (mat_zero_sym rho o co F H2 C) as [A [B [K L]]].
      exists n. unfold count_m1 in *. simpl. rewrite A, B, K, L. simpl.
      assert (NZ : existsb (fun d => d =? 0) co = false).
      { clear - F Z0 A. subst co. induction o as [|d o IH]; simpl in *; [reflexivity|].
        apply orb_false_iff in Z0 as [Z1 Z2]. inversion F; subst.
        rewrite (IH H4 Z2). destruct d; simpl in *; try rewrite Z1; reflexivity. }
      assert (NM : map (fun d => if d =? -1 then n else d) co = co).
      { clear - H2. induction H2; simpl; [reflexivity|]. rewrite IHForall. destruct (x =? -1) eqn:E; [lia|reflexivity]. }
      assert (PZ : zprod co <> 0).
      { clear - NZ. induction co; simpl in *; [lia|]. apply orb_false_iff in NZ as [N1 N2]. specialize (IHco N2). nia. }
      repeat split; auto. ring. rewrite NM; reflexivity.
Qed.

(* cx: runtime shape of `data`; co: runtime shape of the original Reshape output (so the element
   counts agree); o its truthful annotation.  The rewritten node Reshape(data, dims, allowzero=1)
   produces exactly co. *)
Theorem materialize_sound : forall o dims, mat_dims_fixed o = Some dims ->
  forall rho cx co, shape_denotes rho o co -> Forall (fun n => 0 <= n) co -> zprod cx = zprod co ->
  reshape_out true cx dims = Some co.
Proof.
  unfold mat_dims_fixed, mat_dims_old. intros o dims H rho cx co Ho Hn Hp.
  destruct (Nat.eqb (count_sym o) 1) eqn:C1; simpl in H.
  - destruct (existsb is_zero_int o) eqn:Z0; [discriminate|].
    apply Nat.eqb_eq in C1. rewrite C1 in H. simpl in H. inversion H; subst dims.
    destruct (mat_one_sym rho o co Ho Hn C1 Z0) as [v [P [Q [K [L [M R]]]]]].
    unfold reshape_out. rewrite L, K, M. simpl. rewrite resolve0_true.
    fold keep. rewrite Hp, P.
    destruct (zprod (filter keep (map mat_dim o)) =? 0) eqn:E; [lia|].
    rewrite Z.mul_comm. rewrite Z.mod_mul by lia. simpl. rewrite Z.div_mul by lia. rewrite R. reflexivity.
  - destruct (Nat.leb (count_sym o) 1) eqn:C2; [|discriminate]. inversion H; subst dims.
    assert (C0 : count_sym o = 0%nat).
    { apply Nat.leb_le in C2. apply Nat.eqb_neq in C1. lia. }
    destruct (mat_zero_sym rho o co Ho Hn C0) as [A [B [K L]]].
    unfold reshape_out. rewrite A, L, K. simpl. rewrite andb_false_r. rewrite resolve0_true. simpl.
    rewrite Hp, Z.eqb_refl. reflexivity.
Qed.

(* as shipped: output annotated [0, N]; data has 0 elements; the original produces [0, 4], the
   materialised [0, -1] with allowzero=1 is rejected (0 together with -1) *)
Lemma materialize_old_refuted : exists o dims rho cx co,
  mat_dims_old o = Some dims /\ shape_denotes rho o co /\ Forall (fun n => 0 <= n) co /\ zprod cx = zprod co /\
  reshape_out true cx dims <> Some co.
Proof.
  exists [DInt 0; DSym "N"], [0; -1], (fun _ => 4%nat), [0], [0; 4].
  split; [reflexivity|]. split; [repeat constructor|]. split; [repeat constructor; lia|]. split; [reflexivity|].
  vm_compute. discriminate.
Qed.

Example materialize_example :
  mat_dims_fixed [DInt 2; DSym "N"; DInt 3] = Some [2; -1; 3]
  /\ reshape_out true [6; 7] [2; -1; 3] = Some [2; 7; 3].
Proof. split; reflexivity. Qed.

(* ---- Flatten2Reshape (_basic_rules.py): refutation witness only (no soundness theorem) ------------
   Flatten(x, axis) has shape [prod(front); prod(back)]; the rule emits Reshape(x, [0; -1]) (allowzero=0)
   for x:[N, M], axis=1.  With an empty batch the -1 cannot be inferred. *)
Definition flatten_out (cx : list Z) (axis : nat) : list Z := [zprod (firstn axis cx); zprod (skipn axis cx)].
Lemma flatten_to_reshape_refuted : exists cx,
  Forall (fun n => 0 <= n) cx /\ reshape_out false cx [0; -1] <> Some (flatten_out cx 1).
Proof. exists [0; 4]. split; [repeat constructor; lia|]. vm_compute. discriminate. Qed.

(* ---- collapse_slice2 (_collapse_slices.py): the rule fires when data and Slice output have the same
   shape under _ir_utils.same_shape (sound: iu_same_shape_sound) and all steps are 1.  Along one axis a
   step-1 Slice is a window `firstn n (skipn k l)`; a window as long as the axis is the whole axis. *)
Lemma window_full : forall {A} (l : list A) k n,
  List.length (firstn n (skipn k l)) = List.length l -> firstn n (skipn k l) = l.
Proof.
  intros A l k n H. rewrite firstn_length, skipn_length in H.
  destruct l as [|a l]; [destruct k; destruct n; reflexivity|].
  assert (P : (0 < List.length (a :: l))%nat) by (simpl; lia).
  assert (k = 0%nat) by lia. subst. rewrite Nat.sub_0_r in H.
  change (skipn 0 (a :: l)) with (a :: l). apply firstn_all2. lia.
Qed.
