(* C07 model, part 2: topological order ("every node reads only what is defined before it") per container, with
   ONNX scoping: a node of an If/Loop body may read what is visible at the node that holds the body.  A container is
   the main graph or the body of a model-local function (a `graph` with inputs and no enclosing scope); a model is a
   list of containers.  Also: the executable conditions under which one application of Rewrite/Apply.v -- the
   replacement inserted right after the window, as `apply_nodes` prescribes -- keeps the order, their evaluation
   along a path (If/Loop bodies), over a pass and over the containers of a model; and a stable topological sort (the
   repair the implementation runs after rules whose pattern has several output nodes).

   No proofs in this file. *)
From Coq Require Import List String Bool Arith.
Require Import OV.Graph.Syntax OV.Graph.Sem OV.Graph.Names OV.Graph.Wf.
Require Import OV.Rewrite.Apply.
Import ListNotations.
Local Open Scope list_scope.

(* vis: the names visible before the node *)
Fixpoint topo_node (vis : list vname) (n : node) {struct n} : bool :=
  let 'Node _ _ ins _ _ subs := n in
  all_in (present ins) vis &&
  (fix go (l : list (string * graph)) : bool :=
     match l with [] => true | (_, g) :: t => topo_graph vis g && go t end) subs
with topo_graph (vis : list vname) (g : graph) {struct g} : bool :=
  let 'Graph gi gn ns _ := g in
  (fix go (vis : list vname) (l : list node) {struct l} : bool :=
     match l with [] => true | n :: t => topo_node vis n && go (n_outs n ++ vis) t end) (gi ++ gn ++ vis) ns.

Fixpoint topo_nodes (vis : list vname) (ns : list node) : bool :=
  match ns with [] => true | n :: t => topo_node vis n && topo_nodes (n_outs n ++ vis) t end.

Fixpoint topo_subs (vis : list vname) (l : list (string * graph)) : bool :=
  match l with [] => true | (_, g) :: t => topo_graph vis g && topo_subs vis t end.

(* what is visible after a node list *)
Definition vis_after (vis : list vname) (ns : list node) : list vname := defs_nodes ns ++ vis.

(* ---- one application keeps the order: executable conditions ------------------------------------ *)
(* the surviving part of the window *)
Definition window_kept (a : app) (ns : list node) : list node :=
  kept (a_remove a) (a_dead a) (a_mask a) (firstn (List.length (a_mask a)) ns).

(* (1) what remains of the window is ordered: for a removing rule the matched nodes are independent of the later
       unmatched nodes of the window (movableb, also a side condition of the soundness theorem); for a keeping rule
       the dead names rename outputs of the root only;
   (2) the replacement, placed right after the window, reads only what is visible there and is itself ordered;
   (3) a name defined in the window and mentioned after it is still defined (by a surviving node or by the
       replacement -- the pattern outputs) or visible from outside *)
Definition order_okb (vis : list vname) (a : app) (ns : list node) : bool :=
  let k := List.length (a_mask a) in
  let win := firstn k ns in
  let rest := skipn k ns in
  let K := window_kept a ns in
  app_wf a ns &&
  (if a_remove a then movableb (a_mask a) win
   else disjointb (map fst (a_dead a)) (defs_nodes (removelast win))) &&
  topo_nodes (vis_after vis K) (a_new a) &&
  forallb (fun x => negb (mem x (names_nodes rest)) || mem x (defs_nodes K ++ defs_nodes (a_new a) ++ vis))
          (defs_nodes win).

(* the same at the graph a path leads to; the visible names are accumulated on the way down *)
Fixpoint order_ok_at (vis : list vname) (p : path) (a : app) (g : graph) : bool :=
  let 'Graph gi gn ns _ := g in
  let vis0 := gi ++ gn ++ vis in
  match p with
  | [] => order_okb vis0 a ns
  | (idx, key) :: p' =>
    match nth_error ns idx with
    | Some n =>
      match find_sub key (n_subs n) with
      | Some sg => order_ok_at (vis_after vis0 (firstn idx ns)) p' a sg
      | None => false
      end
    | None => false
    end
  end.

(* a pass over one container: every application is checked on the graph it is applied to.
   ext: names visible everywhere in the container without a position in a node list (the initializers registered by
   replacements; [] otherwise) *)
Fixpoint order_ok_pass (ext : list vname) (l : list (path * app)) (g : graph) : bool :=
  match l with
  | [] => true
  | (p, a) :: t =>
    order_ok_at ext p a g &&
    match apply_at p a g with Some g' => order_ok_pass ext t g' | None => false end
  end.

(* ---- a model: the main graph and the bodies of the model-local functions ------------------------- *)
Definition model_sorted (ext : list vname) (cs : list graph) : bool := forallb (topo_graph ext) cs.

(* (container index, path, application) *)
Fixpoint apply_model_pass (l : list (nat * path * app)) (cs : list graph) : option (list graph) :=
  match l with
  | [] => Some cs
  | (c, p, a) :: t =>
    match nth_error cs c with
    | Some g => match apply_at p a g with Some g' => apply_model_pass t (set_nth c g' cs) | None => None end
    | None => None
    end
  end.

Fixpoint order_ok_model (ext : list vname) (l : list (nat * path * app)) (cs : list graph) : bool :=
  match l with
  | [] => true
  | (c, p, a) :: t =>
    match nth_error cs c with
    | Some g =>
      order_ok_at ext p a g &&
      match apply_at p a g with Some g' => order_ok_model ext t (set_nth c g' cs) | None => false end
    | None => false
    end
  end.

(* ---- stable topological sort of one node list (Graph.sort() / Function.sort() of onnx_ir, one level) -------- *)
(* first node of the list that is ready (reads only visible names), and the list without it *)
Fixpoint pick_ready (vis : list vname) (ns : list node) : option (node * list node) :=
  match ns with
  | [] => None
  | n :: t =>
    if topo_node vis n then Some (n, t)
    else match pick_ready vis t with Some (m, t') => Some (m, n :: t') | None => None end
  end.

(* None: a node can never become ready (cycle / undefined name) *)
Fixpoint stable_sort (fuel : nat) (vis : list vname) (ns : list node) : option (list node) :=
  match ns with
  | [] => Some []
  | _ =>
    match fuel with
    | O => None
    | S f =>
      match pick_ready vis ns with
      | Some (n, rest) =>
        match stable_sort f (n_outs n ++ vis) rest with Some l => Some (n :: l) | None => None end
      | None => None
      end
    end
  end.

(* ---- the replay of the correspondence, order part: the pass the implementation performed on one container
        satisfies the order conditions at every application (evaluated by the harness next to check_host) *)
Definition check_order (ext : list vname) (l : list (path * app * list vname)) (g : graph) : bool :=
  topo_graph ext g && order_ok_pass ext (map fst l) g.
