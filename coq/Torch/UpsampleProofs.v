(* C08 -- upsample output extents: where the size path is taken the extent is PyTorch's; the scales path is refuted twice. *)
From Coq Require Import ZArith List Bool QArith Lia.
Require Import OV.Torch.Onnx OV.Torch.F32 OV.Torch.Upsample.
Import ListNotations.
Local Open Scope Z_scope.

Lemma upsample_size_path : forall k ns size scales,
  aten_upsample_uses_scales k scales = false -> (k = UVec -> size <> []) ->
  aten_upsample_extents k ns size scales = torch_upsample_extents k ns size scales.
Proof.
  intros k ns size scales Hu Hv. unfold aten_upsample_extents, torch_upsample_extents. rewrite Hu.
  destruct k; try reflexivity. destruct size; [exfalso; apply (Hv eq_refl); reflexivity | reflexivity].
Qed.

Lemma upsample_size_only : forall ns size scales,
  aten_upsample_extents USizeOnly ns size scales = size /\ torch_upsample_extents USizeOnly ns size scales = size.
Proof. intros. split; reflexivity. Qed.

(* aten.upsample_nearest1d(x[.., 4], output_size = [7], scales = 2.0): PyTorch 7, the graph 8 *)
Lemma upsample_nearest_ignores_output_size_refuted : exists ns size scales,
  torch_upsample_extents UNearest ns size scales = size /\ aten_upsample_extents UNearest ns size scales <> size.
Proof. exists [4], [7], [Some 2%Q]. split; [reflexivity | vm_compute; discriminate]. Qed.

(* scale 1.16 (the double 0x3FF28F5C28F5C28F = 5224175567749775 / 2^52) on 25 elements: PyTorch floor(28.99..) = 28, float32 gives 29 *)
Lemma upsample_scale_float32_refuted : exists n q,
  0 < n /\ torch_scale_extent n q = 28 /\ onnx_scale_extent n q = 29.
Proof. exists 25, (5224175567749775 # 4503599627370496)%Q. split; [lia|]. split; vm_compute; reflexivity. Qed.

Lemma upsample_vec_scales_refuted : exists ns scales,
  aten_upsample_extents UVec ns [] scales <> torch_upsample_extents UVec ns [] scales.
Proof. exists [25], [Some (5224175567749775 # 4503599627370496)%Q]. vm_compute. discriminate. Qed.
