(* C17 -- model of the generated opset classes (onnxscript/onnx_opset/_impl/*.py), of the ONNX schema
   registry as seen through onnx.defs.get_schema, of Opset._prepare_inputs / Opset.__getitem__ /
   __contains__ / __getattr__ (onnxscript/_internal/values.py) and of what one eager call of a generated
   method hands to the evaluator (Op.__call__ -> eval_op -> one-node model).
   The data (every generated method, every schema) is regenerated from the sources into Gen/OpsetMethods.v
   and Gen/OpsetSchemas.v on every check.  No proofs in this file. *)
From Coq Require Import List String ZArith Bool.
Import ListNotations.
Open Scope string_scope.
Open Scope list_scope.

(* ------------------------------------------------------------------ data *)

(* Attribute values and defaults.  Floats are carried as the repr of the float32-rounded value
   (ONNX FLOAT attributes are 32 bit); anything else that is not a plain literal is a hash. *)
Inductive dflt :=
| DNone                      (* Python None / no default in the schema *)
| DInt (z : Z)
| DFloat (s : string)
| DStr (s : string)
| DInts (l : list Z)
| DFloats (l : list string)
| DStrs (l : list string)
| DOther (h : string).

Inductive pkind := PReq | POpt | PVar | PKwReq | PKw.
(* PReq  positional parameter without default        def f(self, X, ...)
   POpt  positional parameter `= None`               def f(self, X=None, ...)
   PVar  *name
   PKwReq keyword-only without default, PKw keyword-only with a default *)
Record param := mkP { p_name : string; p_kind : pkind; p_dflt : dflt }.

(* def <m_name>(self, <m_params>):
       schema = get_schema(<m_op>, <m_since>, <m_domain>)
       op = Op(self, <m_opname>, schema)
       return op( *self._prepare_inputs(schema, <m_prepare>), <m_forwards: keyword=name>)
   m_prepare = None when op(...) has no positional argument at all. *)
Record method := mkM {
  m_name : string; m_params : list param;
  m_op : string; m_since : Z; m_domain : string;
  m_opname : string;
  m_prepare : option (list (string * bool));      (* (name, starred) *)
  m_forwards : list (string * string) }.          (* (keyword, name of the forwarded variable) *)

Record cls := mkC { c_name : string; c_base : option string; c_domain : string; c_version : Z; c_methods : list method }.

Inductive ikind := IReq | IOpt | IVar.            (* OpSchema.FormalParameterOption Single | Optional | Variadic *)
Record attr := mkA { a_name : string; a_required : bool; a_dflt : dflt }.
Record schema := mkS {
  s_domain : string; s_name : string; s_since : Z; s_deprecated : bool;
  s_inputs : list (string * ikind); s_attrs : list attr }.

(* ------------------------------------------------------------------ equality tests *)

Fixpoint list_eqb {A} (e : A -> A -> bool) (a b : list A) : bool :=
  match a, b with
  | [], [] => true
  | x :: a', y :: b' => e x y && list_eqb e a' b'
  | _, _ => false
  end.

Definition dflt_eqb (a b : dflt) : bool :=
  match a, b with
  | DNone, DNone => true
  | DInt x, DInt y => Z.eqb x y
  | DFloat x, DFloat y => String.eqb x y
  | DStr x, DStr y => String.eqb x y
  | DInts x, DInts y => list_eqb Z.eqb x y
  | DFloats x, DFloats y => list_eqb String.eqb x y
  | DStrs x, DStrs y => list_eqb String.eqb x y
  | DOther x, DOther y => String.eqb x y
  | _, _ => false
  end.

Definition is_none (d : dflt) : bool := match d with DNone => true | _ => false end.

Definition oz_eqb (a b : option Z) : bool :=
  match a, b with Some x, Some y => Z.eqb x y | None, None => true | _, _ => false end.

Fixpoint assoc {A} (k : string) (l : list (string * A)) : option A :=
  match l with [] => None | (k', v) :: t => if String.eqb k' k then Some v else assoc k t end.

Fixpoint memb (k : string) (l : list string) : bool :=
  match l with [] => false | x :: t => String.eqb x k || memb k t end.

Fixpoint nodupb (l : list string) : bool :=
  match l with [] => true | x :: t => negb (memb x t) && nodupb t end.

Fixpoint forallb2 {A B} (f : A -> B -> bool) (a : list A) (b : list B) : bool :=
  match a, b with
  | [], [] => true
  | x :: a', y :: b' => f x y && forallb2 f a' b'
  | _, _ => false
  end.

(* all-or-nothing traversal *)
Fixpoint map_opt {A B} (f : A -> option B) (l : list A) : option (list B) :=
  match l with
  | [] => Some []
  | x :: t => match f x, map_opt f t with Some y, Some r => Some (y :: r) | _, _ => None end
  end.

(* ------------------------------------------------------------------ onnx.defs.get_schema *)

(* get_schema(name, N, domain): the registered schema of that name and domain with the greatest
   since_version <= N; raises (None here) when there is none.  Deprecated schemas are returned too. *)
Definition matches (name : string) (N : Z) (dom : string) (s : schema) : bool :=
  String.eqb (s_name s) name && String.eqb (s_domain s) dom && Z.leb (s_since s) N.

Fixpoint best_since (reg : list schema) (name : string) (N : Z) (dom : string) : option Z :=
  match reg with
  | [] => None
  | s :: t =>
    let r := best_since t name N dom in
    if matches name N dom s then
      match r with Some k => Some (Z.max k (s_since s)) | None => Some (s_since s) end
    else r
  end.

Definition has_key (name : string) (k : Z) (dom : string) (s : schema) : bool :=
  String.eqb (s_name s) name && String.eqb (s_domain s) dom && Z.eqb (s_since s) k.

Definition resolve (reg : list schema) (name : string) (N : Z) (dom : string) : option schema :=
  match best_since reg name N dom with
  | Some k => find (has_key name k dom) reg
  | None => None
  end.

(* ------------------------------------------------------------------ does a method mirror a schema? *)

Definition is_input (p : param) : bool := match p_kind p with PReq | POpt | PVar => true | _ => false end.
Definition is_kw (p : param) : bool := negb (is_input p).
Definition in_params (m : method) : list param := filter is_input (m_params m).
Definition kw_params (m : method) : list param := filter is_kw (m_params m).

Definition is_ivar (i : string * ikind) : bool := match snd i with IVar => true | _ => false end.
Definition has_variadic (s : schema) : bool := existsb is_ivar (s_inputs s).

(* the generator's one renaming: an input that shares its name with an attribute gets a trailing "_"
   (Split-1 `split`); inputs are positional so the parameter name is otherwise free of meaning *)
Definition input_param_name (s : schema) (n : string) : string :=
  if existsb (fun a => String.eqb (a_name a) n) (s_attrs s) then (n ++ "_")%string else n.

(* kinds: Single -> no default; Optional -> `= None`, except that Python cannot give a default to a
   positional parameter that precedes *args (Loop, Scan-8): there the optional input has no default and
   the caller writes None; Variadic -> *name *)
Definition kind_ok (s : schema) (k : pkind) (i : ikind) : bool :=
  match i, k with
  | IReq, PReq => true
  | IOpt, POpt => negb (has_variadic s)
  | IOpt, PReq => has_variadic s
  | IVar, PVar => true
  | _, _ => false
  end.

Definition input_ok (s : schema) (p : param) (i : string * ikind) : bool :=
  String.eqb (p_name p) (input_param_name s (fst i)) && kind_ok s (p_kind p) (snd i) && is_none (p_dflt p).

(* attribute -> keyword-only parameter of the same name; required -> no default; otherwise the default
   is the schema default, None when the schema has none *)
Definition attr_ok (p : param) (a : attr) : bool :=
  String.eqb (p_name p) (a_name a) &&
  if a_required a then match p_kind p with PKwReq => true | _ => false end
  else match p_kind p with PKw => dflt_eqb (p_dflt p) (a_dflt a) | _ => false end.

Definition prepare_of (ins : list param) : list (string * bool) :=
  map (fun p => (p_name p, match p_kind p with PVar => true | _ => false end)) ins.
Definition forwards_of (kws : list param) : list (string * string) := map (fun p => (p_name p, p_name p)) kws.

Definition prepare_ok (m : method) : bool :=
  match m_prepare m with
  | Some pl => list_eqb (fun a b => String.eqb (fst a) (fst b) && Bool.eqb (snd a) (snd b)) pl (prepare_of (in_params m))
  | None => match in_params m with [] => true | _ => false end
  end.

Definition forwards_ok (m : method) : bool :=
  list_eqb (fun a b => String.eqb (fst a) (fst b) && String.eqb (snd a) (snd b)) (m_forwards m) (forwards_of (kw_params m)).

(* Python's parameter order: no positional parameter after a keyword-only one *)
Fixpoint inputs_first (l : list param) : bool :=
  match l with
  | [] => true
  | p :: t => if is_input p then inputs_first t else forallb is_kw t
  end.
Definition params_split_ok (m : method) : bool := inputs_first (m_params m).

Definition method_ok (m : method) (s : schema) : bool :=
  String.eqb (m_op m) (s_name s) && String.eqb (m_domain m) (s_domain s) &&
  String.eqb (m_opname m) (s_name s) && String.eqb (m_name m) (s_name s) &&
  params_split_ok m &&
  nodupb (map p_name (m_params m)) &&
  forallb2 (input_ok s) (in_params m) (s_inputs s) &&
  forallb2 attr_ok (kw_params m) (s_attrs s) &&
  prepare_ok m && forwards_ok m.

(* the same test, itemised, for the failure report of the harness *)
Definition method_diag (m : method) (s : schema) : list string :=
  (if String.eqb (m_op m) (s_name s) && String.eqb (m_domain m) (s_domain s) && String.eqb (m_opname m) (s_name s)
      && String.eqb (m_name m) (s_name s) then [] else ["name"]) ++
  (if params_split_ok m && nodupb (map p_name (m_params m)) then [] else ["parameter-order"]) ++
  (if forallb2 (input_ok s) (in_params m) (s_inputs s) then [] else ["inputs"]) ++
  (if Nat.eqb (List.length (kw_params m)) (List.length (s_attrs s))
      && forallb2 (fun p a => String.eqb (p_name p) (a_name a)) (kw_params m) (s_attrs s)
   then List.concat (map (fun pa => if attr_ok (fst pa) (snd pa) then [] else [("default:" ++ a_name (snd pa))%string])
                    (combine (kw_params m) (s_attrs s)))
   else ["attributes"]) ++
  (if prepare_ok m then [] else ["prepare-inputs"]) ++
  (if forwards_ok m then [] else ["forwarding"]).

(* ------------------------------------------------------------------ classes: Python attribute lookup *)

Fixpoint find_class (cs : list cls) (n : string) : option cls :=
  match cs with [] => None | c :: t => if String.eqb (c_name c) n then Some c else find_class t n end.

(* the method resolution order of a single-inheritance chain; None = base not found / chain longer
   than the number of classes (cyclic) -- Python would already refuse such a module *)
Fixpoint mro (fuel : nat) (cs : list cls) (c : cls) : option (list cls) :=
  match c_base c with
  | None => Some [c]
  | Some b =>
    match fuel with
    | O => None
    | S f => match find_class cs b with
             | Some bc => option_map (cons c) (mro f cs bc)
             | None => None
             end
    end
  end.

Definition all_methods (cs : list cls) (c : cls) : option (list method) :=
  option_map (fun l => List.concat (map c_methods l)) (mro (List.length cs) cs c).

(* getattr(opsetN, op) when the class (or a base) defines it: the first definition along the MRO *)
Definition lookup_in (ms : list method) (op : string) : option method :=
  find (fun m => String.eqb (m_name m) op) ms.
Definition static_lookup (cs : list cls) (c : cls) (op : string) : option method :=
  match all_methods cs c with
  | Some ms => lookup_in ms op
  | None => None
  end.

(* Opset.__getitem__ : Op(self, name, get_schema(name, self.version, self.domain)) or None *)
Definition dyn_getitem (reg : list schema) (c : cls) (op : string) : option schema :=
  resolve reg op (c_version c) (c_domain c).
(* Opset.__contains__ *)
Definition dyn_contains (reg : list schema) (c : cls) (op : string) : bool :=
  match dyn_getitem reg c op with Some _ => true | None => false end.
(* the schema `opsetN.op` denotes: through the generated method when the class has one, else
   Opset.__getattr__ (same lookup as __getitem__, AttributeError instead of None) *)
Definition static_schema (reg : list schema) (m : method) : option schema :=
  resolve reg (m_op m) (m_since m) (m_domain m).
Definition getattr_schema (reg : list schema) (cs : list cls) (c : cls) (op : string) : option schema :=
  match static_lookup cs c op with
  | Some m => static_schema reg m
  | None => dyn_getitem reg c op
  end.

(* ------------------------------------------------------------------ the finite statement *)

Fixpoint nodup_names (seen : list string) (l : list string) : list string :=
  match l with
  | [] => []
  | x :: t => if memb x seen then nodup_names seen t else x :: nodup_names (x :: seen) t
  end.

Definition names_of (reg : list schema) (dom : string) : list string :=
  nodup_names [] (map s_name (filter (fun s => String.eqb (s_domain s) dom) reg)).

(* a static method must exist for the opsets onnxscript exports by name: opset1..opset23 of the default
   domain and every generated class of the other domains; beyond that a missing method falls back to
   Opset.__getattr__, which denotes the same schema *)
Definition cover_bound : Z := 23%Z.
Definition covered (c : cls) : bool := negb (String.eqb (c_domain c) "") || Z.leb (c_version c) cover_bound.

(* Exemptions.  `ex s = true` claims nothing for the operator whose schema at the class's version is s.
   The three instances in use:
     s_deprecated            every schema ONNX marks deprecated (the statement of the first rounds);
     exempt_in l             only the deprecated schemas of the (domain, operator) pairs listed in l -- the list
                             is regenerated on every check (Gen/OpsetMethods.exempt_ops: deprecated schemas for
                             which the class of the deprecation version defines no method of its own) and every
                             entry with an inherited older method is reported by the harness under its own key;
     fun _ => false          no exemption: the repaired generator (a method is generated for a deprecated
                             schema like for any other). *)
Definition exempt_in (l : list (string * string)) (s : schema) : bool :=
  s_deprecated s && existsb (fun e => String.eqb (fst e) (s_domain s) && String.eqb (snd e) (s_name s)) l.
Definition no_exemption (s : schema) : bool := false.

(* one (class, operator) pair; ms = all methods visible on the class, nearest definition first. *)
Definition pair_ok (ex : schema -> bool) (reg : list schema) (ms : list method) (c : cls) (op : string) : bool :=
  match dyn_getitem reg c op with
  | None => match lookup_in ms op with None => true | Some _ => false end
  | Some s =>
    if ex s then true else
    match lookup_in ms op with
    | None => negb (covered c)
    | Some m =>
      oz_eqb (best_since reg (m_op m) (m_since m) (m_domain m)) (Some (s_since s)) && method_ok m s
    end
  end.

Definition pair_diag (ex : schema -> bool) (reg : list schema) (ms : list method) (c : cls) (op : string) : list string :=
  match dyn_getitem reg c op with
  | None => match lookup_in ms op with None => [] | Some _ => ["no-such-operator"] end
  | Some s =>
    if ex s then [] else
    match lookup_in ms op with
    | None => if covered c then ["missing-method"] else []
    | Some m =>
      (if oz_eqb (best_since reg (m_op m) (m_since m) (m_domain m)) (Some (s_since s)) then [] else ["schema-version"])
      ++ method_diag m s
    end
  end.

(* every operator name of the class's domain and every method name visible on the class *)
Definition class_ops (reg : list schema) (ms : list method) (c : cls) : list string :=
  nodup_names [] (map s_name (filter (fun s => String.eqb (s_domain s) (c_domain c)) reg) ++ map m_name ms).

Definition class_ok (ex : schema -> bool) (reg : list schema) (cs : list cls) (c : cls) : bool :=
  match all_methods cs c with
  | None => false
  | Some ms => forallb (pair_ok ex reg ms c) (class_ops reg ms c)
  end.

Definition registry_ok (ex : schema -> bool) (reg : list schema) (cs : list cls) : bool :=
  nodupb (map c_name cs) && forallb (class_ok ex reg cs) cs.

(* failure report: (class, operator, what differs) *)
Definition registry_failures (ex : schema -> bool) (reg : list schema) (cs : list cls) : list (string * string * list string) :=
  List.concat (map (fun c =>
    match all_methods cs c with
    | None => [(c_name c, "", ["broken-base-chain"])]
    | Some ms =>
      List.concat (map (fun op => match pair_diag ex reg ms c op with [] => [] | d => [(c_name c, op, d)] end) (class_ops reg ms c))
    end) cs).

(* (class, operator, version the inherited method names, version of the deprecated schema):
   a method inherited past the version at which ONNX deprecated the operator *)
Definition deprecated_inherited (reg : list schema) (cs : list cls) : list (string * string * Z * Z) :=
  List.concat (map (fun c =>
    match all_methods cs c with
    | None => []
    | Some ms =>
      List.concat (map (fun op =>
        match dyn_getitem reg c op, lookup_in ms op with
        | Some s, Some m =>
          if s_deprecated s && negb (oz_eqb (best_since reg (m_op m) (m_since m) (m_domain m)) (Some (s_since s)))
          then [(c_name c, op, m_since m, s_since s)] else []
        | _, _ => []
        end) (class_ops reg ms c))
    end) cs).

(* ------------------------------------------------------------------ one eager call *)

Section Call.
  Variable V : Type.                              (* tensor values; None = Python None *)

  (* a call  opsetN.Op(v1, ..., vk, a1=x1, ...)  : positional actuals and keyword actuals.
     (Passing an input by keyword is legal Python for non-variadic inputs but is not modelled.) *)
  Record args := mkArgs { a_pos : list (option V); a_kw : list (string * dflt) }.

  (* what reaches the evaluator, i.e. the one-node model that is executed:
     NodeProto(op_type, domain, inputs with None -> "", attributes) under opset_import (domain, version) *)
  Record node := mkN { n_op : string; n_domain : string; n_version : Z;
                       n_inputs : list (option V); n_attrs : list (string * dflt) }.

  (* Opset._prepare_inputs:  while input_list and input_list[-1] is None: input_list.pop() *)
  Fixpoint strip (l : list (option V)) : list (option V) :=
    match l with
    | [] => []
    | x :: t => match strip t, x with
                | [], None => []
                | t', _ => x :: t'
                end
    end.

  (* Python binding of the positional actuals: name -> (is *args, values) *)
  Fixpoint bind_pos (ps : list param) (actuals : list (option V)) : option (list (string * (bool * list (option V)))) :=
    match ps with
    | [] => match actuals with [] => Some [] | _ => None end          (* TypeError: too many positional arguments *)
    | p :: ps' =>
      match p_kind p with
      | PReq => match actuals with
                | [] => None                                           (* TypeError: missing required argument *)
                | a :: r => option_map (cons (p_name p, (false, [a]))) (bind_pos ps' r)
                end
      | POpt => match actuals with
                | [] => option_map (cons (p_name p, (false, [None]))) (bind_pos ps' [])
                | a :: r => option_map (cons (p_name p, (false, [a]))) (bind_pos ps' r)
                end
      | PVar => option_map (cons (p_name p, (true, actuals))) (bind_pos ps' [])
      | _ => None
      end
    end.

  (* keyword actuals: every keyword names a keyword-only parameter, no keyword twice, every keyword-only
     parameter without default is given *)
  Definition bind_kw (kws : list param) (given : list (string * dflt)) : option (list (string * dflt)) :=
    if forallb (fun kv => memb (fst kv) (map p_name kws)) given && nodupb (map fst given) then
      map_opt (fun p => match assoc (p_name p) given with
                        | Some v => Some (p_name p, v)
                        | None => match p_kind p with PKw => Some (p_name p, p_dflt p) | _ => None end
                        end) kws
    else None.

  Definition bind (m : method) (a : args) :=
    match bind_pos (in_params m) (a_pos a), bind_kw (kw_params m) (a_kw a) with
    | Some pe, Some ke => Some (pe, ke)
    | _, _ => None
    end.

  (* one argument of self._prepare_inputs(schema, x, *y): a plain name must be a tensor parameter, a
     starred one the *args parameter (anything else is outside the model: None) *)
  Definition prep_arg (pe : list (string * (bool * list (option V)))) (a : string * bool) : option (list (option V)) :=
    match assoc (fst a) pe with
    | Some (isvar, vals) => if Bool.eqb isvar (snd a) then Some vals else None
    | None => None
    end.

  (* the body of a generated method followed by Op.__call__ -> eval_op -> _prepare_model_and_inputs_for_eager:
     node of schema.name in schema.domain under opset_import schema.since_version, inputs as prepared,
     keyword arguments whose value is None dropped *)
  Definition call_method (reg : list schema) (m : method) (a : args) : option node :=
    match static_schema reg m, bind m a with
    | Some sch, Some (pe, ke) =>
      match (match m_prepare m with
             | None => Some []
             | Some pl => option_map (fun ls => strip (List.concat ls)) (map_opt (prep_arg pe) pl)
             end),
            map_opt (fun f => option_map (pair (fst f)) (assoc (snd f) ke)) (m_forwards m) with
      | Some ins, Some kwargs =>
        Some (mkN (s_name sch) (s_domain sch) (s_since sch) ins (filter (fun kv => negb (is_none (snd kv))) kwargs))
      | _, _ => None
      end
    | _, _ => None
    end.

  (* the node one writes by hand for the same call: the inputs given, only the attributes given *)
  Definition bare_node (s : schema) (a : args) : node :=
    mkN (s_name s) (s_domain s) (s_since s) (a_pos a) (filter (fun kv => negb (is_none (snd kv))) (a_kw a)).

  (* what an attribute of a node means: its value when present, the schema default when absent *)
  Definition schema_default (s : schema) (k : string) : dflt :=
    match find (fun a => String.eqb (a_name a) k) (s_attrs s) with Some a => a_dflt a | None => DNone end.
  Definition effective (s : schema) (n : node) (k : string) : dflt :=
    match assoc k (n_attrs n) with Some v => v | None => schema_default s k end.

  (* same operator, same opset version, same inputs up to trailing omitted ones, and every attribute
     means the same value *)
  Definition node_equiv (s : schema) (n1 n2 : node) : Prop :=
    n_op n1 = n_op n2 /\ n_domain n1 = n_domain n2 /\ n_version n1 = n_version n2 /\
    strip (n_inputs n1) = strip (n_inputs n2) /\
    forall k, effective s n1 k = effective s n2 k.
End Call.

Arguments mkArgs {V}.
Arguments mkN {V}.
Arguments a_pos {V}.
Arguments a_kw {V}.
Arguments n_op {V}.
Arguments n_domain {V}.
Arguments n_version {V}.
Arguments n_inputs {V}.
Arguments n_attrs {V}.
Arguments strip {V}.
Arguments bind_pos {V}.
Arguments bind {V}.
Arguments prep_arg {V}.
Arguments call_method {V}.
Arguments bare_node {V}.
Arguments effective {V}.
Arguments node_equiv {V}.

(* ------------------------------------------------------------------ correspondence helpers (V := Z) *)

Definition oV_eqb (a b : option Z) : bool := oz_eqb a b.
Definition kv_eqb (a b : string * dflt) : bool := String.eqb (fst a) (fst b) && dflt_eqb (snd a) (snd b).

(* the attribute lists are compared as sets of pairs (Python dict order = order of the keywords) *)
Definition attrs_sub (a b : list (string * dflt)) : bool := forallb (fun x => existsb (kv_eqb x) b) a.

Definition node_eqb (a b : node Z) : bool :=
  String.eqb (n_op a) (n_op b) && String.eqb (n_domain a) (n_domain b) && Z.eqb (n_version a) (n_version b) &&
  list_eqb oV_eqb (n_inputs a) (n_inputs b) &&
  Nat.eqb (List.length (n_attrs a)) (List.length (n_attrs b)) && attrs_sub (n_attrs a) (n_attrs b) && attrs_sub (n_attrs b) (n_attrs a).

Definition onode_eqb (a b : option (node Z)) : bool :=
  match a, b with Some x, Some y => node_eqb x y | None, None => true | _, _ => false end.

(* a recorded real call: (class, method, arguments, what the evaluator received or None if Python raised) *)
Definition call_case := (string * string * args Z * option (node Z))%type.
Definition call_agrees (reg : list schema) (cs : list cls) (c : call_case) : bool :=
  let '(cn, op, a, obs) := c in
  match find_class cs cn with
  | Some k => match static_lookup cs k op with
              | Some m => onode_eqb (call_method reg m a) obs
              | None => false
              end
  | None => false
  end.

Fixpoint disagreeing {A} (f : A -> bool) (i : nat) (l : list A) : list nat :=
  match l with [] => [] | x :: t => ((if f x then [] else [i]) ++ disagreeing f (S i) t) end.

(* observed dynamic lookup: (class, name, since_version of opset[name] or None, name in opset,
   since_version of the schema `getattr(opset, name)` denotes or None, is it a generated method) *)
Definition dyn_case := (string * string * option Z * bool * option Z * bool)%type.
Definition since_of (o : option schema) : option Z := option_map s_since o.
Definition dyn_agrees (reg : list schema) (cs : list cls) (c : dyn_case) : bool :=
  let '(cn, op, item, cont, ga, is_static) := c in
  match find_class cs cn with
  | Some k =>
    oz_eqb (since_of (dyn_getitem reg k op)) item && Bool.eqb (dyn_contains reg k op) cont &&
    oz_eqb (since_of (getattr_schema reg cs k op)) ga &&
    Bool.eqb (match static_lookup cs k op with Some _ => true | None => false end) is_static
  | None => false
  end.

(* observed get_schema: (domain, name, N, since_version or None, deprecated) *)
Definition res_case := (string * string * Z * option Z * bool)%type.
Definition res_agrees (reg : list schema) (c : res_case) : bool :=
  let '(dom, name, N, since, dep) := c in
  match resolve reg name N dom with
  | Some s => oz_eqb (Some (s_since s)) since && Bool.eqb (s_deprecated s) dep
  | None => match since with None => true | _ => false end
  end.
