(* C09 -- the shape-value part of onnxscript/optimizer/_constant_folding.py: the symbolic value
   (an ir.Shape) the optimizer records for INT64 shape tensors, and the simplifications it derives
   from it (Reshape/Expand/Abs -> Identity, ExpandIdentity rule).  Model file: definitions only.

   A shape-value expression `sv` describes how an INT64 1-D tensor is computed in the model:
     SConst l            constant / initializer with <= 10 elements (get_shape_value, size_limit=10)
     SShape x start end  Shape(v, start, end) of a value annotated with the symbolic shape x
     SGather v idx       Gather(v, idx, axis=0) with a constant 1-D index tensor
     SConcat a b         Concat(a, b, axis=0)      (n-ary Concat = nested)
     SAdd a b            Add(a, b)
     SAbs v              Abs(v)
     SOpaque v           a value-preserving computation on v for which the optimizer has no partial evaluator
                         (the harness uses Neg(Neg(v)), Unsqueeze(Squeeze(v)), Cast to INT32 and back, Reshape to [1,n] and
                         back); ordinary constant folding still applies when v is constant
     SKeep v             a value-preserving node whose evaluator FORWARDS the recorded value: Squeeze (_propagate_shape_value),
                         Reshape whose target has <= 1 entries (reshape(): propagate), Identity (sym value = the input value,
                         consumers are re-pointed), Cast to the element type the value already has (replaced by Identity).
                         The tensor keeps its elements in row-major order; only its rank may change. *)
From Coq Require Import String ZArith List Bool DecimalString.
Require Import OV.Shape.SymDim.
Import ListNotations.
Open Scope Z_scope.

Inductive sv :=
| SConst (l : list Z)
| SShape (x : list dim) (start : Z) (stop : option Z)
| SGather (v : sv) (idx : list Z)
| SConcat (a b : sv)
| SAdd (a b : sv)
| SAbs (v : sv)
| SOpaque (v : sv)
| SKeep (v : sv).

(* ---- Python list slicing l[start:stop] (step 1); the ONNX Shape operator clamps the same way -- *)
Definition clamp_index (len i : Z) : Z :=
  let j := if i <? 0 then i + len else i in Z.max 0 (Z.min len j).
Definition pyslice {A} (l : list A) (start : Z) (stop : option Z) : list A :=
  let len := Z.of_nat (List.length l) in
  let a := clamp_index len start in
  let b := match stop with Some e => clamp_index len e | None => len end in
  firstn (Z.to_nat (b - a)) (skipn (Z.to_nat a) l).

(* ---- Python list indexing l[i] (negative wraps once, else IndexError); ONNX Gather likewise --- *)
Definition py_index {A} (l : list A) (i : Z) : option A :=
  let len := Z.of_nat (List.length l) in
  if (0 <=? i) && (i <? len) then nth_error l (Z.to_nat i)
  else if (i <? 0) && (- len <=? i) then nth_error l (Z.to_nat (i + len))
  else None.
Fixpoint gather {A} (l : list A) (idx : list Z) : option (list A) :=
  match idx with
  | [] => Some []
  | i :: idx' => match py_index l i, gather l idx' with
                 | Some d, Some r => Some (d :: r)
                 | _, _ => None
                 end
  end.

(* ---- Add: `dim if isinstance(dim, int) else dim.value`; f"{dim0}+{dim1}" -------------------- *)
Definition show_dim (d : dim) : option string :=
  match d with
  | DInt z => Some (NilZero.string_of_int (Z.to_int z))
  | DSym s => Some s
  | DUnk => None                                 (* .value is None -> the evaluator gives up *)
  end.
Definition is_neg_int (d : dim) : bool := match d with DInt z => z <? 0 | _ => false end.
(* as shipped *)
Definition add_dims_old (d0 d1 : dim) : option dim :=
  match d0, d1 with
  | DInt a, DInt b => Some (DInt (a + b))
  | _, _ => match show_dim d0, show_dim d1 with
            | Some s0, Some s1 => Some (DSym (s0 ++ "+" ++ s1))
            | _, _ => None
            end
  end.
(* repaired: a symbolic dim is assumed non-negative everywhere else (Abs evaluator), so no name is
   invented for symbol + negative constant *)
Definition add_dims (d0 d1 : dim) : option dim :=
  match d0, d1 with
  | DInt a, DInt b => Some (DInt (a + b))
  | _, _ => if is_neg_int d0 || is_neg_int d1 then None else add_dims_old d0 d1
  end.

Definition no_neg (s : list dim) : bool := negb (existsb is_neg_int s).      (* the Abs evaluator's test *)
Definition all_int (s : list dim) : bool := forallb (fun d => match d with DInt _ => true | _ => false end) s.
Definition abs_dim (d : dim) : dim := match d with DInt z => DInt (Z.abs z) | _ => d end.

(* ---- what the optimizer knows about the tensor: state.get_shape_value --------------------- *)
Fixpoint sv_sym (e : sv) : option (list dim) :=
  match e with
  | SConst l => if Nat.leb (List.length l) 10 then Some (map DInt l) else None
  | SShape x start stop => Some (pyslice x start stop)
  | SGather v idx => match sv_sym v with Some s => gather s idx | None => None end
  | SConcat a b => match sv_sym a, sv_sym b with Some s, Some t => Some (s ++ t)%list | _, _ => None end
  | SAdd a b => match sv_sym a, sv_sym b with
                | Some [d0], Some [d1] => option_map (fun d => [d]) (add_dims d0 d1)
                | _, _ => None
                end
  | SAbs v => match sv_sym v with
              | Some s => if no_neg s then Some s                         (* Abs -> Identity(input) *)
                          else if all_int s then Some (map abs_dim s)      (* an all-int value is a constant: folded *)
                          else None
              | None => None
              end
  | SOpaque v => match sv_sym v with
                 | Some s => if all_int s then Some s else None      (* an all-int value is a constant: folded *)
                 | None => None
                 end
  | SKeep v => sv_sym v
  end.

(* the same with the Add evaluator as shipped *)
Fixpoint sv_sym_old (e : sv) : option (list dim) :=
  match e with
  | SConst l => if Nat.leb (List.length l) 10 then Some (map DInt l) else None
  | SShape x start stop => Some (pyslice x start stop)
  | SGather v idx => match sv_sym_old v with Some s => gather s idx | None => None end
  | SConcat a b => match sv_sym_old a, sv_sym_old b with Some s, Some t => Some (s ++ t)%list | _, _ => None end
  | SAdd a b => match sv_sym_old a, sv_sym_old b with
                | Some [d0], Some [d1] => option_map (fun d => [d]) (add_dims_old d0 d1)
                | _, _ => None
                end
  | SAbs v => match sv_sym_old v with
              | Some s => if no_neg s then Some s                         (* Abs -> Identity(input) *)
                          else if all_int s then Some (map abs_dim s)      (* an all-int value is a constant: folded *)
                          else None
              | None => None
              end
  | SOpaque v => match sv_sym_old v with
                 | Some s => if all_int s then Some s else None      (* an all-int value is a constant: folded *)
                 | None => None
                 end
  | SKeep v => sv_sym_old v
  end.

(* the decisions (sym = what the optimizer recorded) *)
Definition reshape_is_identity_with (sym : sv -> option (list dim)) (x : option (list dim)) (e : sv) : bool :=
  match x, sym e with Some xs, Some s => cf_same_shape xs s | _, _ => false end.
(* expand() evaluator: symbolic branch `_same_shape(input_shape, expanded_sym_shape)`; for a constant target the
   test `input_shape.dims == tuple(ints)` coincides with it (a shape equal to ints has no unknown dim) *)
Definition expand_is_identity_with (sym : sv -> option (list dim)) (x : option (list dim)) (e : sv) : bool :=
  match x, sym e with Some xs, Some s => cf_same_shape xs s | _, _ => false end.
Definition abs_is_identity_with (sym : sv -> option (list dim)) (e : sv) : bool :=
  match sym e with Some s => no_neg s | None => false end.
Definition reshape_is_identity := reshape_is_identity_with sv_sym.
Definition expand_is_identity := expand_is_identity_with sv_sym.
Definition abs_is_identity := abs_is_identity_with sv_sym.
Definition abs_is_identity_old := abs_is_identity_with sv_sym_old.
(* ExpandIdentity rule / constant branch: x_shape.dims == tuple(const.tolist()) *)
Definition expand_identity_const (x : list dim) (e : list Z) : bool := shape_ir_eqb x (map DInt e).

(* ---- runtime meaning ------------------------------------------------------------------------ *)
Definition dim_val (rho : valuation) (d : dim) : Z :=
  match d with DInt z => z | DSym s => Z.of_nat (rho s) | DUnk => 0 end.

(* The Add evaluator invents the NAME "a+b" for the sum.  A binding respects those names when the
   name is bound to the sum (i.e. no dimension of the model is literally called "a+b" and bound to
   something else). Checked at every Add of the expression. *)
Fixpoint plus_closed (rho : valuation) (e : sv) : Prop :=
  match e with
  | SGather v _ => plus_closed rho v
  | SAbs v => plus_closed rho v
  | SOpaque v => plus_closed rho v
  | SKeep v => plus_closed rho v
  | SConcat a b => plus_closed rho a /\ plus_closed rho b
  | SAdd a b => plus_closed rho a /\ plus_closed rho b /\
      match sv_sym a, sv_sym b with
      | Some [d0], Some [d1] =>
          match add_dims d0 d1 with
          | Some (DSym n) => Z.of_nat (rho n) = dim_val rho d0 + dim_val rho d1
          | _ => True
          end
      | _, _ => True
      end
  | _ => True
  end.

(* contents of the tensor at run time, for a binding rho (relation: unknown dims of SShape are free) *)
Inductive sv_runs (rho : valuation) : sv -> list Z -> Prop :=
| RConst : forall l, sv_runs rho (SConst l) l
| RShape : forall x cx start stop, shape_denotes rho x cx -> sv_runs rho (SShape x start stop) (pyslice cx start stop)
| RGather : forall v c idx r, sv_runs rho v c -> gather c idx = Some r -> sv_runs rho (SGather v idx) r
| RConcat : forall a b ca cb, sv_runs rho a ca -> sv_runs rho b cb -> sv_runs rho (SConcat a b) (ca ++ cb)
| RAdd : forall a b ca cb, sv_runs rho a [ca] -> sv_runs rho b [cb] -> sv_runs rho (SAdd a b) [ca + cb]
| RAbs : forall v c, sv_runs rho v c -> sv_runs rho (SAbs v) (map Z.abs c)
| ROpaque : forall v c, sv_runs rho v c -> sv_runs rho (SOpaque v) c
| RKeep : forall v c, sv_runs rho v c -> sv_runs rho (SKeep v) c.

(* ---- ONNX Reshape: output shape for input shape cx and requested shape c --------------------- *)
Fixpoint zprod (l : list Z) : Z := match l with [] => 1 | a :: t => a * zprod t end.
(* 0 copies the input dim (allowzero = 0); lockstep walk over the input shape *)
Fixpoint resolve0 (allowzero : bool) (cx c : list Z) : option (list Z) :=
  match c with
  | [] => Some []
  | d :: c' =>
      let here := if (d =? 0) && negb allowzero then (match cx with a :: _ => Some a | [] => None end) else Some d in
      match here, resolve0 allowzero (tl cx) c' with
      | Some v, Some r => Some (v :: r)
      | _, _ => None
      end
  end.
Definition count_m1 (l : list Z) : nat := List.length (filter (fun d => d =? -1) l).
Definition reshape_out (allowzero : bool) (cx c : list Z) : option (list Z) :=
  if existsb (fun d => d <? -1) c then None
  else if Nat.ltb 1 (count_m1 c) then None
  else if allowzero && existsb (fun d => d =? 0) c && Nat.ltb 0 (count_m1 c) then None
  else match resolve0 allowzero cx c with
       | None => None
       | Some r =>
           if Nat.eqb (count_m1 c) 0 then (if zprod r =? zprod cx then Some r else None)
           else let p := zprod (filter (fun d => negb (d =? -1)) r) in
                if p =? 0 then None
                else if (zprod cx) mod p =? 0 then Some (map (fun d => if d =? -1 then zprod cx / p else d) r) else None
       end.

(* ---- correspondence helpers ---------------------------------------------------------------- *)
Inductive consumer := CReshape | CExpand | CAbs.
(* (consumer, annotation of the data input x (None = no shape), shape-value expression, consumer removed by optimize()) *)
Definition pe_case := (consumer * option (list dim) * sv * bool)%type.
Definition pe_decide_with (sym : sv -> option (list dim)) (c : consumer) (x : option (list dim)) (e : sv) : bool :=
  match c with
  | CReshape => reshape_is_identity_with sym x e
  | CExpand => expand_is_identity_with sym x e
  | CAbs => abs_is_identity_with sym e
  end.
(* code: 0 = the implementation agrees with both models, 1 = only with the shipped Add evaluator, 2 = only with the
   repaired one, 3 = with neither *)
Definition pe_code (c : pe_case) : nat :=
  let '(k, x, e, obs) := c in
  ((if Bool.eqb (pe_decide_with sv_sym k x e) obs then 0 else 1) + (if Bool.eqb (pe_decide_with sv_sym_old k x e) obs then 0 else 2))%nat.
Fixpoint pe_report (i : nat) (cs : list pe_case) : list (nat * nat) :=
  match cs with
  | [] => []
  | c :: t => (match pe_code c with O => [] | k => [(i, k)] end) ++ pe_report (S i) t
  end.

Definition reshape_case := (bool * list Z * list Z * option (list Z))%type.
Definition reshape_agrees (c : reshape_case) : bool :=
  let '(az, cx, t, obs) := c in
  match reshape_out az cx t, obs with
  | Some a, Some b => forallb2 Z.eqb a b
  | None, None => true
  | _, _ => false
  end.
