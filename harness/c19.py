"""C19 -- ONNX Runtime fusions preserve numerical results (DESIGN.md section 5, C19).

Attention family (mha / sdpa_via_mha / attention / gqa), instance->group normalisation and cos/sin cache: models in
coq/Fusion/{Attn,GroupNorm,CosSin}.v, theorems in Props/C19_attention.v, generators + correspondence in c19_attn2.py.

Per fusion family:
  * Coq: the matched expression is algebraically the documented function of the fused operator, over every
    field / all vector lengths (coq/Fusion/*.v, Props/C19.v), and the side conditions are modelled executably;
  * correspondence: the real fusion function is applied to generated instances and near misses; fired? and the
    attributes of the fused node are compared with the Coq model evaluated on the same parameters (inside Coq);
  * direct oracle: onnxruntime (optimisations disabled) on the model before vs after, >= 3 random inputs,
    dtype tolerances.
Violations of the standard-domain fusions (rules/fusion/*) are keyed `C19:rules.fusion:...`.
"""
from __future__ import annotations

import itertools
import math
from fractions import Fraction

import numpy as np

from harness import c19_attn as A
from harness import c19_attn2 as A2
from harness import c19_misc as M
from harness import c19_norm as N
from harness import common
from harness.c19_build import (MS, apply_ir, close, feeds_for, find, nodes_of, ops_of, ort_run)
from harness.common import cbool, clist, cnat, copt, cz

PROPERTY = "C19"
LEVEL = "proof"

DT = {"float32": "FLOAT", "float16": "FLOAT16", "float64": "DOUBLE", "int32": "INT32", "int64": "INT64"}


# ============================================================================================= infrastructure
class St:
    def __init__(self, ctx):
        self.ctx = ctx
        self.np_rng = np.random.default_rng(ctx.rng.randrange(2 ** 31))
        self.n_inputs = 3
        self.stats = {}          # family -> dict(instances, fired, not_fired, invalid, known)
        self.cases = {"norm": [], "mm": [], "rot": [], "sdpa": [], "bgelu": [], "attn": [], "gn": [], "cs": [], "sm": [], "gqan": [], "atts": []}
        self.meta = {k: [] for k in self.cases}
        self.structural_only = set()
        # which variant of a repaired side condition the implementation is (False = as read at bbeff32, True = repaired):
        # decided by the finding-class probe of each family; case texts carry @name@ placeholders resolved in coq_correspondence
        self.flags = {}
        self.by_dtype = {}       # family -> dtype -> [instances, fired]

    def flag_text(self, text):
        import re
        return re.sub(r"@([A-Za-z0-9_.:-]+)@", lambda m_: cbool(bool(self.flags.get(m_.group(1), False))), text)

    def stat(self, fam, k, n=1):
        d = self.stats.setdefault(fam, {"instances": 0, "fired": 0, "not_fired": 0, "invalid_instance": 0, "finding_class": 0})
        d[k] = d.get(k, 0) + n

    def add_case(self, stream, text, meta):
        self.cases[stream].append(text)
        self.meta[stream].append(meta)


def dtype_of(params):
    """element type of the instance's floating-point data (for the per-dtype counts of the evidence)"""
    if isinstance(params, dict):
        for k in ("dtype", "xdtype"):
            if params.get(k) in ("float16", "float32", "float64"):
                return params[k]
        if "in_dtype" in params or "shape" in params and "axis" in params and "opset" in params:
            return params.get("in_dtype", "float16")          # softmax upcast removal: float16 data by construction
    return "float32"


def probe(st, fam, g, fn, params, *, expect=None, finding=None, fused_ops=(), cls=None, scale=1.0, slack=1.0,
          runner=None, post=None, out=None):
    """Apply the real fusion `fn` (ir.Model -> count, in place) to the instance and observe the property.

    expect: True/False = the rule must / must not fire on this instance (correspondence with the model of `check`);
            None = either is acceptable (only the direct oracle applies).
    finding: key of a known-finding class this instance belongs to (then `expect` is ignored: after a fix the rule may
             either refuse or fuse correctly).
    Returns (fired, rewritten proto or None)."""
    ctx = st.ctx
    st.stat(fam, "instances")
    ctx.case(cls if cls is not None else (fam,))
    dt_ = dtype_of(params)
    st.by_dtype.setdefault(fam, {}).setdefault(dt_, [0, 0])[0] += 1
    try:
        m = g.model()
    except Exception as e:  # an instance this builder cannot express as a valid model: not an observation
        st.stat(fam, "invalid_instance")
        return None, None
    feeds = [feeds_for(g, st.np_rng, scale=scale) for _ in range(st.n_inputs)]
    for f_ in feeds:
        f_.update(getattr(g, "fixed_feeds", {}))       # inputs whose values are part of the instance (e.g. run-time Slice bounds)
    run = runner or ort_run
    try:
        before = [ort_run(m, f) for f in feeds]
    except Exception:
        st.stat(fam, "invalid_instance")      # the instance itself does not run (not a statement about the fusion)
        return None, None
    replay = {"family": fam, "params": params}

    def report(kind, what):
        if finding is not None:
            st.stat(fam, "finding_class")
            ctx.violation(finding, what, replay)
        else:
            ctx.violation(f"C19:{fam}:{kind}", what, replay)

    try:
        m2, cnt = apply_ir(m, fn)
    except Exception as e:
        report(f"raises:{type(e).__name__}", f"fusion raised {type(e).__name__}: {str(e)[:160]} on {params}")
        return None, None
    fired = bool(cnt) if not isinstance(cnt, dict) else any(cnt.values())
    if fused_ops:
        fired = any(find(m2, o) for o in fused_ops) and fired
    st.stat(fam, "fired" if fired else "not_fired")
    if fired:
        st.by_dtype[fam][dt_][1] += 1
    if post is not None:
        m2 = post(m2)
    bad = None
    after = None
    try:
        for f, b in zip(feeds, before):
            after = run(m2, f)
            ok, why = close(b, after, slack=slack)
            if not ok:
                bad = why
                break
    except Exception as e:
        bad = f"rewritten model fails in onnxruntime: {str(e)[:220]}"
    if out is not None:
        out.update(bad=bad, feeds=feeds, before=before, after=after)
    if bad:
        report("outputs-differ", f"{params}: {bad}")
    if finding is None and expect is not None and fired != expect and not bad:
        ctx.tie_broken("correspondence", f"{fam}:fired", f"{params}: rule {'fired' if fired else 'did not fire'}, model of check says {'fire' if expect else 'no fire'}")
    return fired, m2


def attr_of(m2, op_type, domain=None):
    ns = find(m2, op_type, domain)
    return ns[0][2] if ns else None


def feq(a, b, rel=1e-6):
    return a is not None and b is not None and abs(a - b) <= rel * max(abs(a), abs(b), 1e-30)


def pick(rng, xs):
    return xs[rng.randrange(len(xs))]


def copt_dt(d):
    return "None" if d is None else f"(Some {DT[d]})"


def coptz2(v):
    # a missing attribute is printed as -999 (never what a model predicts)
    return "None" if v is None else f"(Some ({cz(-999 if v[0] is None else v[0])}, {cz(-999 if v[1] is None else v[1])}))"


def cshape(s):
    return "None" if s is None else f"(Some {clist(s, cz)})"


# ============================================================================================= RMS normalisation
def fam_rms(st):
    from onnxscript.rewriter.ort_fusions.rms_normalization import fuse_rms_normalization as f_ort
    from onnxscript.rewriter.rules.fusion._rms_normalization import fuse_rms_normalization as f_std
    ctx, rng = st.ctx, st.ctx.rng
    n = 14 if ctx.tier == "quick" else 200
    for variant, fn, opset, fused in (("rms_norm", f_ort, 18, "SimplifiedLayerNormalization"),
                                      ("rules.fusion:rms_norm", f_std, 23, "RMSNormalization")):
        std = variant.startswith("rules")
        # typed configurations (xdtype, compute, cast_back, sdtype, scale_cast, out dtype)
        typed = [("float32", None, None, "float32", None, "float32"),
                 ("float16", "float32", "float16", "float16", None, "float16"),
                 ("float64", None, None, "float64", None, "float64"),
                 ("float32", "float64", "float32", "float32", None, "float32"),
                 ("float16", None, None, "float16", None, "float16"),            # stash would be FLOAT16: must not fire
                 ("int32", "float32", None, "float32", None, "float32")]         # integer x: must not fire
        if not std:
            typed.append(("float16", "float32", None, "float32", None, "float32"))   # X f16, scale f32 (ORT: T != V allowed)
        insts = []
        for i in range(n):
            rank = pick(rng, [1, 2, 3, 3, 3, 4])
            shape = [rng.randrange(1, 5) for _ in range(rank - 1)] + [pick(rng, [1, 2, 3, 8, 16, 17])]
            t = typed[i % len(typed)]
            p = dict(shape=shape, xdtype=t[0], compute=t[1], cast_back=t[2], sdtype=t[3], scale_cast=t[4], out_dtype=t[5],
                     mul_order=bool(rng.randrange(2)), eps=pick(rng, [1e-6, 1e-5, 1e-3, 0.5]), eps_shape=pick(rng, [[], [], [1]]),
                     opset=opset)
            if rng.random() < 0.3 and rank >= 2:
                p["decl_shape"] = ["B"] + shape[1:]
            nm = None
            r = rng.random()
            if r < 0.08:
                nm, p["axes"] = "axes", (0,) if rank > 1 else (-1,)
                if rank == 1:
                    nm = None
            elif r < 0.16:
                nm, p["exponent"] = "exponent", 3.0
            elif r < 0.22:
                nm, p["eps_kind"] = "eps-not-constant", "input"
            elif r < 0.3:
                # attribute absent = operator default (keepdims 1 / noop_with_empty_axes 0): same function, but the pattern
                # names both attributes, so the rule must leave the model alone (or, if it ever fuses, still agree)
                nm, p["reduce_attrs"] = "reduce-attr-absent", pick(rng, [("keepdims",), ("noop_with_empty_axes",), ()])
            insts.append((p, nm, None))
        # finding classes
        insts.append((dict(shape=[2, 3, 8], xdtype="float32", compute=None, cast_back=None, sdtype="float32", scale_cast=None,
                           out_dtype="float32", mul_order=True, eps=1e-6, eps_shape=[1, 1, 1, 1], opset=opset), None,
                      f"C19:{variant}:epsilon-or-scale-rank-exceeds-input-rank"))
        insts.append((dict(shape=[2, 3, 8], xdtype="float32", compute=None, cast_back=None, sdtype="float32", scale_cast=None,
                           out_dtype="float32", mul_order=False, eps=1e-6, eps_shape=[], scale_shape=[2, 1, 1, 8], opset=opset), None,
                      f"C19:{variant}:epsilon-or-scale-rank-exceeds-input-rank"))
        if not std:
            for xd, comp in (("float16", "float32"), ("float32", None)):
                insts.append((dict(shape=[2, 3, 8], xdtype=xd, compute=comp, cast_back=None, sdtype="float16", scale_cast="float32",
                                   out_dtype="float32", mul_order=True, eps=1e-6, eps_shape=[], opset=opset), None,
                              "C19:rms_norm:scale-cast-changes-output-dtype"))
        for p, near, finding in insts:
            g = N.rms_model(p)
            struct_ok = near is None
            eps_ok = p.get("eps_kind") != "input"
            model_fires = (p["xdtype"] in ("float32", "float16", "float64") and p["sdtype"] in ("float32", "float16", "float64")
                           and (p["compute"] or p["xdtype"]) in ("float32", "float64") and eps_ok)
            expect = struct_ok and model_fires
            cls = (variant, len(p["shape"]), p["xdtype"], p["compute"], p["cast_back"], p["sdtype"], p["mul_order"], tuple(p["eps_shape"]), near, finding is not None)
            in_scale = pick(rng, [1.0, 1.0, 1e-3])       # rows of magnitude 1e-3: variance ~ epsilon, a wrong epsilon is visible
            p["input_scale"] = in_scale
            fired, m2 = probe(st, variant, g, fn, p, expect=expect, finding=finding, fused_ops=(fused,), cls=cls + (in_scale,), scale=in_scale)
            if fired is None:
                continue
            rank_finding = finding is not None and finding.endswith("rank-exceeds-input-rank")
            if rank_finding and p["eps_shape"] == [1, 1, 1, 1]:
                st.flags["rank_guard:" + variant] = not fired        # the witness of C19_rms_rank_as_read_refuted decides the variant
            if finding is not None and not rank_finding:
                continue
            obs = None
            if fired:
                a = attr_of(m2, fused)
                obs = (a.get("axis"), a.get("stash_type"))
                if not feq(a.get("epsilon"), float(np.float32(p["eps"])) if (p["compute"] or p["xdtype"]) != "float64" else p["eps"], 1e-5):
                    ctx.tie_broken("correspondence", f"{variant}:epsilon", f"{p}: fused epsilon {a.get('epsilon')} != {p['eps']}")
                ins = find(m2, fused)[0][3]
                if ins[:2] != ["x", "scale"]:
                    ctx.tie_broken("correspondence", f"{variant}:inputs", f"{p}: fused inputs {ins}")
            if struct_ok:
                ranks = (len(p["shape"]), len(p["eps_shape"]) if eps_ok else 0, len(p.get("scale_shape", [p["shape"][-1]])))
                st.add_case("norm", f"CRms @rank_guard:{variant}@ {DT[p['xdtype']]} {DT[p['sdtype']]} {copt_dt(p['compute'])} {cbool(eps_ok)} "
                                    f"(Some {cnat(ranks[0])}) (Some {cnat(ranks[1])}) (Some {cnat(ranks[2])}) {coptz2(obs)}", (variant, p, obs))
        ctx.sample({"family": variant, "instance": insts[0][0]})


# ============================================================================================= Skip normalisations
def fam_skip(st):
    from onnxscript.rewriter.ort_fusions.skip_normalization import (fuse_skip_layer_normalization as f_ln,
                                                                     fuse_skip_rms_normalization as f_rms)
    ctx, rng = st.ctx, st.ctx.rng
    n = 16 if ctx.tier == "quick" else 200
    for kind, fn, fused in (("rms", f_rms, "SkipSimplifiedLayerNormalization"), ("ln", f_ln, "SkipLayerNormalization")):
        fam = "skip_rms_norm" if kind == "rms" else "skip_layer_norm"
        for i in range(n + 6):
            B, S, D = rng.randrange(1, 4), rng.randrange(1, 5), pick(rng, [1, 2, 4, 8, 16, 17])
            p = dict(kind=kind, B=B, S=S, D=D, dtype=pick(rng, ["float32", "float32", "float16"]),
                     bias=[None, "pre", "post"][i % 3], add_order=(i // 3) % 2,
                     epsilon=pick(rng, [None, 1e-6, 1e-5, 1e-3]), use_sum=rng.random() < 0.7,
                     stash_type=pick(rng, [None, None, 1]))
            near = None
            r = rng.random()
            forced = i >= n
            if forced:
                # always present: every bias mode with the attributes ABSENT (epsilon -> operator default 1e-5, stash_type -> 1)
                # or epsilon explicit, on low-variance rows so that a wrong epsilon in the fused node is visible
                p.update(D=pick(rng, [4, 8, 16]), dtype="float32", epsilon=None if i - n < 3 else 1e-3, stash_type=None)
                D = p["D"]
                r = 1.0
            ishape, sshape, gshape, bshape = [B, S, D], [B, S, D], [D], [D]
            if r < 0.07:
                near, ishape, sshape = "rank2", [S, D], [S, D]
                p.update(input_shape=ishape, skip_shape=sshape, out_shape=[S, D])
            elif r < 0.14 and B > 1:
                near, sshape = "skip-broadcast", [1, S, D]
                p.update(skip_shape=sshape)
            elif r < 0.2 and D > 1:
                near, gshape = "gamma[1]", [1]
                p.update(gamma_shape=gshape)
            elif r < 0.26 and D > 1 and p["bias"]:
                near, bshape = "bias[1]", [1]
                p.update(bias_shape=bshape)
            elif r < 0.32:
                near = "axis"
                p["axis"] = 2          # same axis, but the pattern requires the attribute value -1
            elif r < 0.4:
                near = "axis"
                p["axis"] = None       # attribute absent (operator default -1): same function, pattern names axis=-1
            in_scale = 1e-3 if forced else pick(rng, [1.0, 1.0, 1e-3])
            p["input_scale"] = in_scale
            g = N.skip_model(p)
            model_in = (ishape, sshape, gshape, [D] if kind == "ln" else None, bshape if p["bias"] else None)
            expect_py = near is None
            model_has_bias = bool(p["bias"])
            if near == "bias[1]" and p["bias"] == "pre":
                # rule SET: the pre-bias rule refuses, the no-bias rule then matches with input := Add(input, bias) of shape [B,S,D]
                expect_py, model_has_bias = True, False
                model_in = (ishape, sshape, gshape, model_in[3], None)
            cls = (fam, p["bias"], p["add_order"], p["dtype"], p["epsilon"] is None, p["use_sum"], near, D == 1, B == 1, in_scale,
                   p.get("axis", -1), p["stash_type"])
            fired, m2 = probe(st, fam, g, fn, p, expect=expect_py, fused_ops=(fused,), cls=cls, scale=in_scale)
            if fired is None:
                continue
            if fired:
                a = attr_of(m2, fused, MS)
                want = p["epsilon"] if p["epsilon"] is not None else 1e-5
                if not feq(a.get("epsilon"), float(np.float32(want)), 1e-5):
                    ctx.tie_broken("correspondence", f"{fam}:epsilon", f"{p}: fused epsilon {a.get('epsilon')} != {want}")
                ins = find(m2, fused, MS)[0][3]
                nb = 5 if kind == "ln" else 4
                has_bias_in = len(ins) >= nb and ins[nb - 1] != ""
                if near is None and (has_bias_in != bool(p["bias"]) or set(ins[:2]) != {"input", "skip"} or ins[2] != "gamma"):
                    ctx.tie_broken("correspondence", f"{fam}:inputs", f"{p}: fused inputs {ins}")
            if near != "axis":
                st.add_case("norm", f"CSkip {cbool(model_has_bias)} {cbool(kind == 'ln')} {cshape(model_in[0])} {cshape(model_in[1])} "
                                    f"{cshape(model_in[2])} {cshape(model_in[3])} {cshape(model_in[4])} {cz(p['stash_type'] or 1)} {cbool(fired)}",
                            (fam, p, fired))
        # always present: a SYMBOLIC sequence length on the input against a skip that is broadcast over it (static 1), both Add
        # orders -- whichever operand the rule binds first, a symbolic dim must not unify with a different static size
        # (the contrib operator needs skip of the input's shape: a fused node fails in onnxruntime)
        for order in (0, 1):
            B, S, D = 2, 3, pick(rng, [8, 16])
            p = dict(kind=kind, B=B, S=S, D=D, dtype="float32", bias=None, add_order=order, epsilon=1e-5, use_sum=False, stash_type=None,
                     input_shape=[B, S, D], skip_shape=[B, 1, D], decl_input_shape=["B", "S", D], decl_skip_shape=["B", 1, D],
                     decl_out_shape=["B", "S", D], input_scale=1.0)
            probe(st, fam, N.skip_model(p), fn, p, expect=False, fused_ops=(fused,), cls=(fam, "symbolic-S-vs-static-1", order))
        ctx.sample({"family": fam, "instance": p})


# ============================================================================================= LayerNormalization (rules/fusion)
def fam_layer_norm(st):
    from onnxscript.rewriter.rules.fusion._layer_norm import fuse_layer_normalization as fn
    ctx, rng = st.ctx, st.ctx.rng
    fam = "rules.fusion:layer_norm"
    n = 16 if ctx.tier == "quick" else 200
    for i in range(n):
        rank = pick(rng, [1, 2, 3, 3, 4])
        shape = [rng.randrange(1, 5) for _ in range(rank - 1)] + [pick(rng, [2, 3, 8, 16, 17])]
        p = dict(shape=shape, dtype=pick(rng, ["float32", "float32", "float64", "float16"]), sq=("mul", "pow")[i % 2],
                 norm=("recip", "div")[(i // 2) % 2], eps=pick(rng, [1e-6, 1e-5, 1e-3]), eps_shape=pick(rng, [[], [], [1]]))
        near = None
        r = rng.random()
        if r < 0.08 and rank > 1:
            near, p["axes"] = "axes", (0,)
        elif r < 0.16 and p["sq"] == "pow":
            near, p["exponent"] = "exponent", 3.0
        elif r < 0.22:
            near, p["keepdims_attr"] = "keepdims-absent", False      # operator default 1: same function, pattern names keepdims=1
        elif r < 0.45:
            p["bias_shape"] = [shape[-1]]          # LayerNormBiasFusion fires on the result of LayerNormFusion
        in_scale = pick(rng, [1.0, 1.0, 1e-3])
        p["input_scale"] = in_scale
        g = N.layer_norm_model(p)
        expect = near is None and p["dtype"] in ("float32", "float64")
        cls = (fam, rank, p["dtype"], p["sq"], p["norm"], tuple(p["eps_shape"]), near, "bias_shape" in p)
        fired, m2 = probe(st, fam, g, fn, p, expect=expect, fused_ops=("LayerNormalization",), cls=cls + (in_scale,), scale=in_scale)
        if fired is None:
            continue
        obs = None
        if fired:
            a = attr_of(m2, "LayerNormalization")
            obs = (a.get("axis"), a.get("stash_type"))
            if not feq(a.get("epsilon"), float(np.float32(p["eps"])) if p["dtype"] != "float64" else p["eps"], 1e-5):
                ctx.tie_broken("correspondence", f"{fam}:epsilon", f"{p}: fused epsilon {a.get('epsilon')}")
            ins = find(m2, "LayerNormalization")[0][3]
            want_ins = ["x", "scale"] + (["bias"] if "bias_shape" in p else [])
            if ins != want_ins:
                ctx.tie_broken("correspondence", f"{fam}:inputs", f"{p}: fused inputs {ins}, expected {want_ins}")
        if near is None:
            st.add_case("norm", f"CLn @rank_guard:{fam}@ {DT[p['dtype']]} true (Some {cnat(rank)}) (Some {cnat(len(p['eps_shape']))}) (Some 1) {coptz2(obs)}", (fam, p, obs))
    # LayerNormalization + bias (existing node), axis / epsilon / stash_type forwarded
    nlb = 6 if ctx.tier == "quick" else 60
    for i in range(nlb + 4):
        shape = [rng.randrange(1, 4), rng.randrange(1, 4), pick(rng, [2, 8, 17])]
        axis = pick(rng, [None, -1, -1, 1, 2])
        p = dict(shape=shape, dtype=pick(rng, ["float32", "float16"]), axis=axis, epsilon=pick(rng, [None, 1e-3]),
                 order=pick(rng, [0, 0, 0, 1]))
        if i >= nlb:      # always present: epsilon / axis absent or explicit, float32, the rule fires
            p.update(dtype="float32", order=0, epsilon=(None, 1e-3)[(i - nlb) % 2], axis=(None, 1)[(i - nlb) // 2])
            axis = p["axis"]
        p["bias_shape"] = shape[(axis if axis is not None else -1):]
        g = N.ln_bias_model(p)
        in_scale = 1e-3 if i >= nlb else pick(rng, [1.0, 1e-3])          # epsilon absent -> the ONNX default 1e-5 must survive the rewrite
        p["input_scale"] = in_scale
        fired, m2 = probe(st, fam, g, fn, p, expect=p["order"] == 0, fused_ops=("LayerNormalization",),
                          cls=(fam, "ln+bias", p["dtype"], axis, p["order"], p["epsilon"], in_scale), scale=in_scale)
        if fired and p["order"] == 0:
            a = attr_of(m2, "LayerNormalization")
            if a.get("axis") != axis and not (axis is None and "axis" not in a):
                ctx.tie_broken("correspondence", f"{fam}:bias:axis", f"{p}: attributes {a}")
            if ("epsilon" in a) != (p["epsilon"] is not None) or (p["epsilon"] is not None and not feq(a["epsilon"], float(np.float32(p["epsilon"])), 1e-5)):
                ctx.tie_broken("correspondence", f"{fam}:bias:epsilon", f"{p}: attributes {a} (epsilon must be forwarded, or stay absent = default 1e-5)")
            if len(find(m2, "LayerNormalization")[0][3]) != 3:
                ctx.tie_broken("correspondence", f"{fam}:bias:inputs", f"{p}")
    # finding classes
    probe(st, fam, N.ln_bias_model(dict(shape=[2, 3, 8], dtype="float32", bias_shape=[8], n_out=3)), fn, {"ln+bias": "3 declared outputs"},
          finding="C19:rules.fusion:layer_norm_bias:multi-output-LayerNormalization-raises", cls=(fam, "finding", 1))
    key = "C19:rules.fusion:layer_norm:epsilon-or-scale-rank-exceeds-input-rank"
    f_eps, _ = probe(st, fam, N.layer_norm_model(dict(shape=[2, 3, 8], dtype="float32", sq="mul", norm="recip", eps=1e-5, eps_shape=[1, 1, 1, 1])), fn,
                     {"eps_shape": [1, 1, 1, 1]}, finding=key, fused_ops=("LayerNormalization",), cls=(fam, "finding", 3))
    st.flags["rank_guard:" + fam] = f_eps is False           # the witness of C19_ln_rank_as_read_refuted decides the variant
    f_sc, m2 = probe(st, fam, N.layer_norm_model(dict(shape=[2, 3, 8], dtype="float32", sq="mul", norm="recip", eps=1e-5, scale_shape=[1, 1, 1, 8])), fn,
                     {"scale_shape": [1, 1, 1, 8]}, finding=key, fused_ops=("LayerNormalization",), cls=(fam, "finding", 2))
    for fired_, re_, rs_ in ((f_eps, 4, 1), (f_sc, 0, 4)):
        if fired_ is not None:
            st.add_case("norm", f"CLn @rank_guard:{fam}@ FLOAT true (Some 3) (Some {re_}) (Some {rs_}) {coptz2((-1, 1) if fired_ else None)}", (fam, "finding class", fired_))
    for bshape in ([1, 2, 3, 8], [3, 8], [1, 1, 8]):
        finding = key if len(bshape) > 3 else None
        f_b, m2 = probe(st, fam, N.ln_bias_model(dict(shape=[2, 3, 8], dtype="float32", bias_shape=bshape)), fn,
                        {"ln+bias": f"bias {bshape} against x of rank 3"}, finding=finding, cls=(fam, "ln+bias rank", len(bshape)))
        if f_b is not None and m2 is not None:
            st.add_case("norm", f"CLnBias @rank_guard:{fam}@ (Some 3) (Some {len(bshape)}) {cbool(len(find(m2, 'LayerNormalization')[0][3]) == 3)}", (fam, "ln+bias", bshape))


# ============================================================================================= GELU
def fam_gelu(st):
    from onnxscript.rewriter.ort_fusions.erfgelu import fuse_erfgelu
    from onnxscript.rewriter.ort_fusions.gelu import fuse_gelu
    ctx, rng = st.ctx, st.ctx.rng
    n = 5 if ctx.tier == "quick" else 50
    table = (("tanh", fuse_gelu, "FastGelu", "gelu_tanh"), ("erf", fuse_gelu, "Gelu", "gelu_erf"),
             ("erf1", fuse_erfgelu, "Gelu", "erfgelu1"), ("erf2", fuse_erfgelu, "Gelu", "erfgelu2"))
    for variant, fn, fused, fam in table:
        for i in range(n):
            rank = rng.randrange(1, 5)
            shape = [rng.randrange(1, 5) for _ in range(rank)]
            p = dict(variant=variant, dtype="float32", shape=shape, const_node=bool(rng.randrange(2)))
            probe(st, fam, M.gelu_model(p), fn, p, expect=True, fused_ops=(fused,), cls=(fam, rank, p["const_node"]), scale=2.5)
            if i < 2:     # the same instance in float16 (half-precision constants: the matcher's tolerance decides, either outcome)
                p16 = dict(p, dtype="float16")
                probe(st, fam, M.gelu_model(p16), fn, p16, expect=None, fused_ops=(fused,), cls=(fam, rank, p["const_node"], "f16"), scale=2.5)
        # near misses: a changed constant / flipped operands must not be fused into the operator (or must still agree)
        nears = [dict(k=dict(half=0.25)), dict(k=dict(one=2.0)), dict(flip=True)]
        nears += [dict(k=dict(c=0.05)), dict(k=dict(s2pi=0.8)), dict(k=dict(three=2.0))] if variant == "tanh" else [dict(k=dict(sqrt2=1.5))]
        for nm in nears:
            p = dict(variant=variant, dtype="float32", shape=[2, 3, 4], **nm)
            probe(st, fam, M.gelu_model(p), fn, p, expect=False, fused_ops=(fused,), cls=(fam, "near", str(nm)), scale=2.5)
        p = dict(variant=variant, dtype="float16", shape=[2, 3, 4])       # half-precision constants: either outcome
        probe(st, fam, M.gelu_model(p), fn, p, expect=None, fused_ops=(fused,), cls=(fam, "f16"), scale=2.5)
        # the other rule set must leave it alone
        other = fuse_erfgelu if fn is fuse_gelu else fuse_gelu
        p = dict(variant=variant, dtype="float32", shape=[3, 4], other_ruleset=True)
        probe(st, fam, M.gelu_model(p), other, p, expect=False, cls=(fam, "other-ruleset"), scale=2.5)


def fam_bias_gelu(st):
    from onnxscript.rewriter.ort_fusions.bias_gelu import fuse_bias_gelu as fn
    ctx, rng = st.ctx, st.ctx.rng
    fam = "bias_gelu"
    n = 14 if ctx.tier == "quick" else 150
    for i in range(n):
        rank = rng.randrange(1, 5)
        D = pick(rng, [2, 3, 8, 17])
        ish = [rng.randrange(1, 4) for _ in range(rank - 1)] + [D]
        p = dict(dtype=pick(rng, ["float32", "float32", "float16"]), input_shape=ish, bias_shape=[D], out_shape=ish,
                 gelu=("onnx", "contrib")[i % 2], order=(i // 2) % 2, bias_const=rng.random() < 0.3)
        approx = None
        if p["gelu"] == "onnx":
            approx = pick(rng, [None, None, "none", "tanh"])
            p["approximate"] = approx
        brank = 1
        r = rng.random()
        if r < 0.1 and rank >= 2:
            p["bias_shape"], brank = ish[-2:], 2
        elif r < 0.2:
            p["bias_shape"], brank = [], 0
        g = M.bias_gelu_model(p)
        # the rule is commuted: either operand of the Add may play the role of `bias`
        a_sh, b_sh = p["input_shape"], p["bias_shape"]
        roles = [(a_sh, b_sh), (b_sh, a_sh)]                      # (input, bias)
        good = [r_ for r_ in roles if len(r_[1]) == 1 and len(r_[0]) >= 1 and r_[0][-1] == r_[1][0]]
        bad_role = any(len(b_) == 1 and (len(i_) == 0 or i_[-1] != b_[0]) for i_, b_ in roles)
        finding = "C19:bias_gelu:bias-length-differs-from-input-last-dim" if (bad_role and not good and approx != "tanh") else None
        expect = approx != "tanh" and bool(good)
        fired, m2 = probe(st, fam, g, fn, p, expect=expect, finding=finding, fused_ops=("BiasGelu",),
                          cls=(fam, rank, p["dtype"], p["gelu"], p["order"], approx, brank, finding is not None), scale=2.0)
        if fired is None:
            continue
        ca = {"tanh": "ApproxTanh", "none": "ApproxNone", None: "ApproxAbsent"}[approx]
        if fired:
            ins = find(m2, "BiasGelu", MS)[0][3]
            used = (a_sh, b_sh) if ins[0] == "input" else (b_sh, a_sh)
            st.add_case("bgelu", f"({ca}, {cshape(used[1])}, {cshape(used[0])}, true)", (fam, p, ins))
        else:
            for i_, b_ in roles:
                st.add_case("bgelu", f"({ca}, {cshape(b_)}, {cshape(i_)}, false)", (fam, p, "not fired"))
    # Coq witness of C19_bias_gelu_check_old_insufficient_refuted replayed: row of length 1 against a bias of length 2 (and relatives)
    key = "C19:bias_gelu:bias-length-differs-from-input-last-dim"
    for ish, bsh, osh in (([1], [2], [2]), ([2, 3, 1], [8], [2, 3, 8]), ([2, 3, 8], [1], [2, 3, 8])):
        for gel in ("onnx", "contrib"):
            p = dict(dtype="float32", input_shape=ish, bias_shape=bsh, out_shape=osh, gelu=gel, order=0)
            probe(st, fam, M.bias_gelu_model(p), fn, p, finding=key, cls=(fam, "finding", tuple(ish), tuple(bsh), gel))


# ============================================================================================= softmax upcast removal
def fam_softmax(st):
    from onnxscript.rewriter.ort_fusions import softmax as sm
    ctx, rng = st.ctx, st.ctx.rng
    fam = "softmax"
    fn = lambda m: sm.rules.apply_to_model(m)  # noqa: E731
    n = 10 if ctx.tier == "quick" else 100
    for i in range(n):
        rank = rng.randrange(1, 5)
        shape = [rng.randrange(1, 6) for _ in range(rank)]
        axis = pick(rng, [None] + list(range(-rank, rank)))
        p = dict(shape=shape, axis=axis, opset=pick(rng, [13, 18]))
        near = None
        r = rng.random()
        if r < 0.1:
            near = "f32-input"
            p.update(in_dtype="float32")
        elif r < 0.2:
            near = "upcast-to-double"
            p.update(up="float64")
        elif r < 0.3:
            near = "downcast-to-f32"
            p.update(down="float32")
        fired, m2 = probe(st, fam, M.softmax_model(p), fn, p, expect=near is None, cls=(fam, rank, axis is None, near), scale=pick(rng, [1.0, 4.0, 30.0]))
        if fired is None:
            continue
        st.add_case("sm", f"CSoftmax (Some {DT[p.get('in_dtype', 'float16')]}) {DT[p.get('up', 'float32')]} {DT[p.get('down', 'float16')]} {cbool(fired)}", (fam, p, fired))
        if fired:
            sm_nodes = find(m2, "Softmax")
            if find(m2, "Cast") or len(sm_nodes) != 1 or sm_nodes[0][2].get("axis") != axis:
                # the model of rewrite: both Casts gone, the axis attribute forwarded as matched (absent stays absent)
                ctx.tie_broken("correspondence", f"{fam}:rewrite", f"{p}: {ops_of(m2)} {sm_nodes}")


# ============================================================================================= FusedMatMul
def eff_perm(tb, t, n):
    p = list(range(n))
    if tb:
        p = [*p[1:n - 1], p[0], p[n - 1]]
    if t:
        p[n - 2], p[n - 1] = p[n - 1], p[n - 2]
    return p


def cattrs(a):
    return "(" + ", ".join(cbool(bool(a.get(k, 0))) for k in ("transA", "transB", "transBatchA", "transBatchB")) + ")"


def cperm(perm):
    return "None" if perm is None else f"(Some {clist(perm, cnat)})"


def fam_matmul(st):
    from onnxscript.rewriter.ort_fusions import fused_matmul_rule_sets as fm
    ctx, rng = st.ctx, st.ctx.rng
    fam = "fused_matmul"
    fn = lambda m: fm.fused_matmul_rule_sets().apply_to_model(m)  # noqa: E731
    quick = ctx.tier == "quick"
    # ---- Div
    for i in range(12 if quick else 120):
        dt = pick(rng, ["float32", "float32", "float16"])
        m_, k_, n_ = rng.randrange(1, 5), rng.randrange(1, 5), rng.randrange(1, 5)
        batch = [rng.randrange(1, 3) for _ in range(rng.randrange(0, 3))]
        use_fused = i % 2 == 1
        attrs = {}
        xs, ys = batch + [m_, k_], batch + [k_, n_]
        if use_fused:
            if rng.randrange(2):
                attrs["transA"] = 1
                xs = batch + [k_, m_]
            if rng.randrange(2):
                attrs["transB"] = 1
                ys = batch + [n_, k_]
            if rng.randrange(2):
                attrs["alpha"] = pick(rng, [0.5, 0.4, 2.0])
        c = pick(rng, [0.7, 2.0, -3.0, 0.125, 8.0])
        p = dict(dtype=dt, xshape=xs, yshape=ys, mm="FusedMatMul" if use_fused else "MatMul", attrs=attrs, c=c,
                 cshape=pick(rng, [[], [], [1]]), const_node=bool(rng.randrange(2)))
        near = None
        r = rng.random()
        if r < 0.1:
            near = "divisor-not-constant"
            p["c_kind"] = "input"
        elif r < 0.2 and n_ > 1:
            near = "divisor-vector"
            p["cshape"] = [n_]
        fired, m2 = probe(st, fam, M.matmul_div_model(p), fn, p, expect=near is None, fused_ops=("FusedMatMul",),
                          cls=(fam, "div", dt, use_fused, len(batch), tuple(p["cshape"]), tuple(sorted(attrs)), near))
        if fired and near is None:
            a = attr_of(m2, "FusedMatMul", MS)
            cval = float(np.array(c, dtype={"float32": np.float32, "float16": np.float16}[dt]))
            want = attrs.get("alpha", 1.0) / cval
            if not feq(a.get("alpha"), float(np.float32(want)), 1e-5) or any(a.get(k, 0) != attrs.get(k, 0) for k in ("transA", "transB")):
                # the model of rewrite: alpha' = alpha / c, other attributes kept
                ctx.tie_broken("correspondence", f"{fam}:div:alpha", f"{p}: attributes {a}, expected alpha {want}")
    for cs, dt, c, key in (([1, 1], "float32", 0.7, "C19:fused_matmul:div:singleton-divisor-of-rank>=2-raises"),
                           ([1, 1, 1], "float32", 0.7, "C19:fused_matmul:div:singleton-divisor-of-rank>=2-raises"),
                           ([], "int32", 2, "C19:fused_matmul:div:integer-matmul"),
                           ([], "float32", 0.0, "C19:fused_matmul:div:zero-divisor-raises")):
        p = dict(dtype=dt, xshape=[3, 4], yshape=[4, 5], mm="MatMul", c=c, cshape=cs)
        probe(st, fam, M.matmul_div_model(p), fn, p, finding=key, cls=(fam, "finding", key))

    # ---- Transpose on an operand / on the output
    def inv_apply(perm, target):
        """raw shape r with [r[i] for i in perm] == target"""
        r = [None] * len(perm)
        for i, pi in enumerate(perm):
            r[pi] = target[i]
        return r

    def operand_instance(nrank, r2, pos, mm, perm, tb, t, tbo, to, alpha):
        """(Fused)MatMul with a Transpose(perm | absent) on operand `pos` (rank nrank); the other operand has rank r2.
        tb/t: transBatch/trans flags of the transposed side, tbo/to of the other side.  Returns params or None."""
        dims = rng.sample(dims_pool, nrank)
        eperm = perm if perm is not None else list(range(nrank))[::-1]
        sp = [dims[i] for i in eperm]
        spp = [sp[i] for i in eff_perm(tb, t, nrank)] if nrank >= 2 else sp
        nn = 7
        if nrank == 1:
            K = spp[0]
            batch = []
            M_ = N_ = None
        elif pos == 1:
            batch, M_, K = spp[:-2], spp[-2], spp[-1]
        else:
            batch, K, N_ = spp[:-2], spp[-2], spp[-1]
        # effective (after its own flags) shape of the other operand
        if r2 == 1:
            oeff = [K]
        else:
            core = [K, nn] if pos == 1 else [nn, K]
            nb = r2 - 2
            bd = []
            for j in range(nb):                       # right-aligned broadcast against `batch`
                k = len(batch) - nb + j
                bd.append(pick(rng, [batch[k], batch[k], 1]) if k >= 0 else rng.randrange(1, 3))
            oeff = bd + core
        oraw = inv_apply(eff_perm(tbo, to, r2), oeff) if r2 >= 2 else oeff
        side, oside = ("A", "B") if pos == 1 else ("B", "A")
        attrs = {}
        for flag, nm in ((tb, "transBatch" + side), (t, "trans" + side), (tbo, "transBatch" + oside), (to, "trans" + oside)):
            if flag:
                attrs[nm] = 1
        if alpha is not None:
            attrs["alpha"] = alpha
        xs, ys = (dims, oraw) if pos == 1 else (oraw, dims)
        return dict(dtype=pick(rng, ["float32", "float32", "float16"]), xshape=xs, yshape=ys, mm=mm, pos=pos, perm=perm, attrs=attrs), nrank, r2

    def operand_case(inst, finding=None):
        p, nrank, r2 = inst
        g = M.transpose_matmul_model(p)
        attrs, pos, mm, perm = p["attrs"], p["pos"], p["mm"], p["perm"]
        cls = (fam, "operand", pos, mm, nrank, r2, "absent" if perm is None else tuple(perm),
               tuple(sorted(k for k in attrs if k != "alpha")), "alpha" in attrs, finding is not None)
        fired, m2 = probe(st, fam, g, fn, p, expect=None, finding=finding, cls=cls)
        if fired is None or finding is not None:
            return
        obs = None
        if fired and not find(m2, "Transpose"):
            a = attr_of(m2, "FusedMatMul", MS)
            obs = a
            if find(m2, "FusedMatMul", MS)[0][3] != ["x", "y"] or not feq(a.get("alpha", 1.0), attrs.get("alpha", 1.0)):
                ctx.tie_broken("correspondence", f"{fam}:operand", f"{p}: inputs/alpha changed: {find(m2, 'FusedMatMul', MS)[0]}")
        st.add_case("mm", f"COperand {cbool(mm == 'FusedMatMul')} {cnat(pos)} {cperm(perm)} (Some {cnat(nrank)}) (Some {cnat(r2)}) {cattrs(attrs)} "
                          f"{'None' if obs is None else '(Some ' + cattrs(obs) + ')'}", (p, obs))

    dims_pool = [2, 3, 4, 5, 6]
    insts = []
    # (a) Transpose WITHOUT perm (default: reverse all axes) and with the last-two swap, every rank pair incl. mixed ranks
    #     and 1-D, both positions, plain and already-fused consumer with each trans flag combination
    grid = []
    for nrank in (1, 2, 3, 4):
        for r2 in (1, 2, 3, 4):
            for pos in (1, 2):
                for mm in ("MatMul", "FusedMatMul"):
                    for perm_kind in ("absent", "swap"):
                        grid.append((nrank, r2, pos, mm, perm_kind))
    rng.shuffle(grid)
    keep_absent = [c for c in grid if c[4] == "absent"]
    keep_swap = [c for c in grid if c[4] == "swap"]
    if quick:
        keep_absent = [c for c in keep_absent if c[0] >= 2][:36] + [c for c in keep_absent if c[0] == 1][:4]
        keep_swap = keep_swap[:24]
    for nrank, r2, pos, mm, perm_kind in keep_absent + keep_swap:
        perm = None if perm_kind == "absent" else (eff_perm(0, 1, nrank) if nrank >= 2 else [0])
        fusedmm = mm == "FusedMatMul"
        t = rng.randrange(2) if fusedmm and nrank >= 2 else 0
        to = rng.randrange(2) if fusedmm and r2 >= 2 and nrank >= 2 else 0
        if r2 == 1 or nrank == 1:
            t = to = 0                        # trans flags on 1-D operands: onnxruntime's own behaviour, not this rule's
        tbo = rng.randrange(2) if fusedmm and r2 == nrank and nrank >= 3 and rng.random() < 0.3 else 0
        alpha = 0.5 if fusedmm and rng.random() < 0.3 else None
        insts.append(operand_instance(nrank, r2, pos, mm, perm, 0, t, tbo, to, alpha))
    # (b) the perms the batch rules accept (+ random others), equal ranks, every (transBatch, trans) of the transposed side
    combos = []
    for nrank in (2, 3, 4, 5):
        perms = list(itertools.permutations(range(nrank))) if nrank <= 4 else None
        for pos in (1, 2):
            for mm in ("MatMul", "FusedMatMul"):
                for tb in ((0, 1) if mm == "FusedMatMul" and nrank >= 3 else (0,)):
                    for t in ((0, 1) if mm == "FusedMatMul" else (0,)):
                        cand = [eff_perm(0, 1, nrank), eff_perm(1, 0, nrank), eff_perm(1, 1, nrank),
                                [nrank - 1] + list(range(nrank - 1)), [nrank - 2] + list(range(nrank - 2)) + [nrank - 1],
                                [nrank - 1] + list(range(1, nrank - 1)) + [0], list(range(nrank))]
                        cand.append(list(pick(rng, perms)) if perms else rng.sample(range(nrank), nrank))
                        for perm in cand:
                            if sorted(perm) == list(range(nrank)):
                                combos.append((nrank, pos, mm, tb, t, perm))
    rng.shuffle(combos)
    seen = set()
    count, target = 0, (40 if quick else 400)
    for nrank, pos, mm, tb, t, perm in combos:
        keyc = (nrank, pos, mm, tb, t, tuple(perm))
        if keyc in seen or count >= target:
            continue
        seen.add(keyc)
        fusedmm = mm == "FusedMatMul"
        to = rng.randrange(2) if fusedmm else 0
        tbo = rng.randrange(2) if fusedmm and nrank >= 3 and rng.random() < 0.3 else 0
        alpha = 0.5 if fusedmm and rng.random() < 0.3 else None
        insts.append(operand_instance(nrank, nrank, pos, mm, perm, tb, t, tbo, to, alpha))
        count += 1
    for inst in insts:
        p_, nr_, r2_ = inst
        # Transpose without perm feeding a FusedMatMul that the simple rule refuses: the batch rules index attributes["perm"]
        kerr = p_["mm"] == "FusedMatMul" and p_["perm"] is None and (nr_ != 2 or r2_ == 1)
        operand_case(inst, finding="C19:fused_matmul:batch-rule-transpose-without-perm-raises-KeyError" if kerr else None)
    ctx.cover(fused_matmul_operand_instances=len(insts),
              fused_matmul_perm_absent=sum(1 for i in insts if i[0]["perm"] is None),
              fused_matmul_mixed_rank=sum(1 for i in insts if i[1] != i[2]))
    # classes of the (fixed) findings, probed on every run
    for pos in (1, 2):
        operand_case((dict(dtype="float32", xshape=[3, 4], yshape=[4, 5], mm="FusedMatMul", pos=pos, perm=[0, 1], attrs={}), 2, 2),
                     finding="C19:fused_matmul:batch-rule-on-rank2-identity-perm")
    operand_case((dict(dtype="float32", xshape=[4, 3], yshape=[4], mm="MatMul", pos=1, perm=[1, 0], attrs={}), 2, 1),
                 finding="C19:fused_matmul:transposed-operand-with-1d-other-operand")
    operand_case((dict(dtype="float32", xshape=[4], yshape=[4, 5], mm="MatMul", pos=1, perm=[0], attrs={}), 1, 2),
                 finding="C19:fused_matmul:rank1-transpose-perm-raises")

    # ---- Transpose of the output: rank pairs incl. mixed, perm absent / explicit, every flag combination
    for i in range(16 if quick else 120):
        mm = ("MatMul", "FusedMatMul")[i % 2]
        tA, tB = (rng.randrange(2), rng.randrange(2)) if mm == "FusedMatMul" else (0, 0)
        m_, k_, n_ = rng.sample([2, 3, 4, 5], 3)
        rx, ry = pick(rng, [(2, 2), (2, 2), (2, 2), (3, 3), (3, 2), (2, 3), (1, 2), (2, 1)])
        if 1 in (rx, ry):
            tA = tB = 0
        xs = [k_] if rx == 1 else ([k_, m_] if tA else [m_, k_])
        ys = [k_] if ry == 1 else ([n_, k_] if tB else [k_, n_])
        bsz = rng.randrange(2, 4)
        if rx == 3:
            xs = [bsz] + xs
        if ry == 3:
            ys = [bsz] + ys
        orank = max(rx, ry) if min(rx, ry) >= 2 else max(rx, ry) - 1
        perm = pick(rng, [None, None, list(range(orank))[::-1], eff_perm(0, 1, orank) if orank >= 2 else [0], list(range(orank))])
        attrs = {}
        if tA:
            attrs["transA"] = 1
        if tB:
            attrs["transB"] = 1
        if mm == "FusedMatMul" and rng.randrange(2):
            attrs["alpha"] = 0.5
        p = dict(dtype=pick(rng, ["float32", "float32", "float16"]), xshape=xs, yshape=ys, mm=mm, pos=0, perm=perm, attrs=attrs)
        finding = "C19:fused_matmul:FusedMatMulTranspose:transA!=transB" if (tA != tB and (rx, ry) == (2, 2) and perm != [0, 1]) else None
        fired, m2 = probe(st, fam, M.transpose_matmul_model(p), fn, p, expect=None, finding=finding,
                          cls=(fam, "output", mm, tA, tB, "absent" if perm is None else tuple(perm), rx, ry))
        if fired is None:
            continue
        obs = None
        if fired and not find(m2, "Transpose"):
            obs = attr_of(m2, "FusedMatMul", MS)
            if find(m2, "FusedMatMul", MS)[0][3] != ["y", "x"] or not feq(obs.get("alpha", 1.0), attrs.get("alpha", 1.0)):
                ctx.tie_broken("correspondence", f"{fam}:output", f"{p}: {find(m2, 'FusedMatMul', MS)[0]}")
        st.add_case("mm", f"COutput {cperm(perm)} (Some {cnat(rx)}) (Some {cnat(ry)}) {cattrs(attrs)} "
                          f"{'None' if obs is None else '(Some ' + cattrs(obs) + ')'}", (p, obs))
    # Coq witnesses of C19_fused_matmul_transpose_output_old_refuted: transA=1, transB=0, x: 1x2, y: 1x1; and a square one
    for xs, ys in (([1, 2], [1, 1]), ([2, 2], [2, 2])):
        p = dict(dtype="float32", xshape=xs, yshape=ys, mm="FusedMatMul", pos=0, perm=[1, 0], attrs={"transA": 1})
        probe(st, fam, M.transpose_matmul_model(p), fn, p, finding="C19:fused_matmul:FusedMatMulTranspose:transA!=transB", cls=(fam, "finding", "witness", tuple(xs)))


# ============================================================================================= rotary embedding
def fam_rotary(st):
    from onnxscript.rewriter.ort_fusions.rotary_embedding import fuse_partial_rotary_embedding as f_prot
    from onnxscript.rewriter.ort_fusions.rotary_embedding import fuse_rotary_embedding as f_rot
    from onnxscript.rewriter.rules.fusion._rotary_embedding import fuse_partial_rotary_embedding as f_prot23
    from onnxscript.rewriter.rules.fusion._rotary_embedding import fuse_rotary_embedding as f_rot23
    ctx, rng = st.ctx, st.ctx.rng
    n = 12 if ctx.tier == "quick" else 150
    MAXI = 2 ** 63 - 1
    for i in range(n + 4):
        std = i % 2 == 1 or i >= n           # the last four: every batch spelling of freqs, always present
        fam = "rules.fusion:rotary_embedding" if std else "rotary_embedding"
        B, H, S = rng.randrange(1, 3), rng.randrange(1, 5), rng.randrange(1, 5)
        if i >= n:
            B = 2
        D = pick(rng, [2, 4, 6, 8, 16]) if std else pick(rng, [2, 4, 5, 6, 8, 16])
        h = D // 2
        dt = pick(rng, ["float32", "float32", "float16"])
        slices = (0, h, h, pick(rng, [MAXI, D, D + 3]))
        near = None
        r = rng.random()
        if r < 0.12 and D >= 4:
            near, slices = "uneven-halves", (0, h - 1, h - 1, MAXI)
        elif r < 0.2 and D >= 4:
            near, slices = "start-not-0", (1, h, h, MAXI)
        rank, d1 = 4, H
        if std:
            p = dict(dtype=dt, xshape=[B, H, S, D], fshape=[B, S, h], slices=slices)
            bk = rng.randrange(5) if i < n else i - n
            if i >= n:
                near, slices = None, (0, h, h, MAXI)
                p["slices"] = slices
            if bk == 0:
                p["fshape"] = [1, S, h]                                   # batch broadcast in the pattern (the fixed finding's class)
            elif bk == 1:
                p.update(decl_xshape=["B", H, S, D], decl_fshape=["B", S, h])     # one named symbol: provably equal
            elif bk == 2:
                p.update(decl_xshape=["B", H, S, D], decl_fshape=["Bf", S, h])    # two symbols
            elif bk == 3:
                p.update(decl_xshape=[None, H, S, D], decl_fshape=[None, S, h])   # unnamed dims: never provably equal
            g = M.rotary23_model(p)
            fn, fused, dom = f_rot23, "RotaryEmbedding", ""
        else:
            p = dict(dtype=dt, xshape=[B, H, S, D], cshape=pick(rng, [[B, 1, S, D], [1, 1, S, D], [S, D]]), slices=slices)
            if near is None and rng.random() < 0.15:
                near = "symbolic-num-heads"
                p["decl_xshape"] = [B, "H", S, D]
                d1 = None
            g = M.rotary_model(p)
            fn, fused, dom = f_rot, "RotaryEmbedding", "ai.onnxruntime._fusion"
        if near in ("uneven-halves", "start-not-0") and D % 2 == 1:
            near = None if slices[:3] == (0, h, h) else near
        expect = near is None
        bfind = "C19:rules.fusion:rotary_embedding:freqs-batch-broadcast" if std and p["fshape"][0] == 1 and B > 1 else None   # (fixed) class
        fired, m2 = probe(st, fam, g, fn, p, expect=expect, finding=bfind, fused_ops=(fused,),
                          cls=(fam, dt, D % 2, D, near, slices[3] == MAXI, tuple(map(str, p.get("decl_fshape", p.get("fshape", ())))) if std else None))
        if fired is None:
            continue
        obs = None
        if fired:
            a = attr_of(m2, fused, dom)
            obs = a.get("num_heads")
            if a.get("interleaved") != 0:
                ctx.tie_broken("correspondence", f"{fam}:interleaved", f"{p}: {a}")
        st.add_case("rot", f"CRot {cnat(rank)} {copt(d1, cz)} (Some {cz(D)}) {cz(slices[0])} {cz(slices[1])} {cz(slices[2])} {cz(slices[3])} {copt(obs, cz)}", (fam, p, obs))
        if std and fired:
            def code(d, names={}):
                return d if isinstance(d, int) else (-1 if d is None else names.setdefault(d, -2 - len(names)))
            names = {}
            fcodes = [code(d, names) for d in p.get("decl_fshape", p["fshape"])]
            xb = code(p.get("decl_xshape", p["xshape"])[0], names)
            expanded = bool(find(m2, "Expand"))
            st.add_case("rot", f"CRopeExpand @rope23_repaired@ (Some {clist(fcodes, cz)}) {cz(xb)} {cbool(expanded)}", (fam, p, expanded))
    # finding: freqs with batch 1 broadcast against x with batch > 1 (opset-23 op wants caches of x's batch)
    p = dict(dtype="float32", xshape=[2, 4, 3, 8], fshape=[1, 3, 4])
    f_, m2_ = probe(st, "rules.fusion:rotary_embedding", M.rotary23_model(p), f_rot23, p,
                    finding="C19:rules.fusion:rotary_embedding:freqs-batch-broadcast", cls=("rot23", "finding"))
    st.flags["rope23_repaired"] = bool(f_ and find(m2_, "Expand"))      # the witness of C19_rope23_as_read_refuted decides the variant
    p = dict(domain="ms", dtype="float32", B=2, H=4, S=3, D=8, r=4, num_heads_absent=True)
    probe(st, "partial_rotary_embedding", M.partial_rotary_model(p), f_prot, p,
          finding="C19:partial_rotary_embedding:num_heads-absent", cls=("partial", "finding"))
    # partial rotary
    for i in range(8 if ctx.tier == "quick" else 80):
        std = i % 2 == 1
        fam = "rules.fusion:partial_rotary_embedding" if std else "partial_rotary_embedding"
        B, H, S = rng.randrange(1, 3), rng.randrange(1, 4), rng.randrange(1, 4)
        D = pick(rng, [4, 8, 16])
        r = pick(rng, [x for x in (2, 4, 8, 16) if x <= D])
        p = dict(domain="" if std else "ms", dtype=pick(rng, ["float32", "float32", "float16"]), B=B, H=H, S=S, D=D, r=r)
        near = None
        u = rng.random()
        il = None
        if u < 0.15 and r + 1 <= D:
            near = "start2-mismatch"
            p["start2"] = r + 1
        elif u < 0.3:
            near, il = "interleaved", 1
            p["attrs"] = {"interleaved": 1}
        elif u < 0.45:
            il = 0
            p["attrs"] = {"interleaved": 0}
        elif u < 0.55:
            near = "rotary_embedding_dim-present"
            p["attrs"] = {"rotary_embedding_dim": r}
        finding = None
        if near is None and rng.random() < 0.25:
            p["num_heads_absent"] = True          # optional for a 4-D input; required by ORT's contrib op once rotary_embedding_dim is set
            if not std:
                finding = "C19:partial_rotary_embedding:num_heads-absent"
        g = M.partial_rotary_model(p)
        fn = f_prot23 if std else f_prot
        fired, m2 = probe(st, fam, g, fn, p, expect=near is None, finding=finding, cls=(fam, D, r, near, il, p.get("num_heads_absent", False)))
        if fired is None or finding is not None:
            continue
        a = attr_of(m2, "RotaryEmbedding", "" if std else MS)
        obs = a.get("rotary_embedding_dim") if fired else None
        st.add_case("rot", f"CPartial {cz(r)} {cz(p.get('start2', r))} {cbool(near == 'rotary_embedding_dim-present')} {copt(il, cz)} {copt(obs, cz)}", (fam, p, obs))
        if fired and ((a.get("num_heads") != H and not p.get("num_heads_absent")) or find(m2, "RotaryEmbedding")[0][3][0] != "x"):
            ctx.tie_broken("correspondence", f"{fam}:attrs", f"{p}: {a}")


# ============================================================================================= SDPA
def cq(v):
    f = Fraction(v)
    return f"({f.numerator} # {f.denominator})" if f.numerator >= 0 else f"(({f.numerator}) # {f.denominator})"


def cscaling(s, npdt):
    if s is None:
        return "SNone"
    v = float(np.array(s[1], dtype=npdt))
    return f"({'SMul' if s[0] == 'Mul' else 'SDiv'} {cq(v)})"


def fam_sdpa(st):
    from onnxscript.rewriter.ort_fusions.sdpa import fuse_sdpa
    from onnxscript.rewriter.ort_fusions.sdpa_via_mha import replace_sdpa_by_mha
    ctx, rng = st.ctx, st.ctx.rng
    fam = "sdpa"

    def both(m):
        c = fuse_sdpa(m, apply_shape_inference=True)
        replace_sdpa_by_mha(m)
        return c
    n = 20 if ctx.tier == "quick" else 200
    for i in range(n):
        B, H, S, Skv = rng.randrange(1, 3), rng.randrange(1, 5), rng.randrange(1, 5), rng.randrange(1, 6)
        Dh = pick(rng, [2, 4, 8, 16])
        Dv = pick(rng, [Dh, Dh, 4])
        dt = pick(rng, ["float32", "float32", "float32", "float32", "float16"])
        npdt = np.float32 if dt == "float32" else np.float16
        default = 1.0 / math.sqrt(Dh)

        def sc(v):
            kind = pick(rng, ["Mul", "Div"])
            return (kind, v if kind == "Mul" else 1.0 / v)
        mode = i % 4
        qs = ks = qks = None
        if mode == 0:
            qks = sc(default)
        elif mode == 1:
            rt = math.sqrt(default)
            qs, ks = sc(rt), sc(rt)
        elif mode == 2:
            qs, ks, qks = (sc(pick(rng, [0.5, 0.25, 2.0])) if rng.randrange(2) else None for _ in range(3))
        p = dict(dtype=dt, B=B, H=H, S=S, Skv=Skv, Dh=Dh, Dv=Dv, key_kind=pick(rng, ["BHSd-T", "BHSd-3d", "BSHd"]),
                 q_scale=qs, k_scale=ks, qk_scale=qks, nan_guard=rng.random() < 0.2,
                 mask=pick(rng, [None, None, [B, 1, S, Skv], [1, 1, S, Skv], [B, H, S, Skv], [S, Skv], [B, 1, 1, Skv]]))
        near = None
        u = rng.random()
        if u < 0.08:
            near = "softmax-axis"
            p["softmax_axis"] = pick(rng, [2, None])       # None: attribute absent (default -1): same function, pattern names axis=-1
        elif u < 0.16 and p["key_kind"] == "BHSd-T" and Skv != Dh:
            near = "key-not-transposed"
            p.update(kperm=[0, 1, 2, 3], kshape=[B, H, Dh, Skv])
        g = M.sdpa_model(p)
        # structural observation of the SDPA node itself (before it is lowered to MultiHeadAttention)
        try:
            m1, c1 = apply_ir(g.model(), fuse_sdpa)
        except Exception as e:
            ctx.violation(f"C19:{fam}:raises:{type(e).__name__}", f"fuse_sdpa raised on {p}: {e}", {"family": fam, "params": p})
            continue
        sd = find(m1, "SDPA")
        fired, m2 = probe(st, fam, g, both, p, expect=near is None, fused_ops=("MultiHeadAttention",),
                          cls=(fam, dt, p["key_kind"], qs and qs[0], ks and ks[0], qks and qks[0], p["mask"] is None or len(p["mask"]), near, mode))
        if fired is None or near is not None:
            continue
        if bool(sd) != bool(fired):
            ctx.tie_broken("correspondence", f"{fam}:lowering", f"{p}: SDPA fused {bool(sd)} but lowered {fired}")
        if sd:
            a = sd[0][2]
            if a.get("key_format") != ("BSHd" if p["key_kind"] == "BSHd" else "BHSd"):
                ctx.tie_broken("correspondence", f"{fam}:key_format", f"{p}: {a}")
            if len(sd[0][3]) != (4 if p["mask"] is not None else 3):
                ctx.tie_broken("correspondence", f"{fam}:inputs", f"{p}: {sd[0][3]}")
            obs = a.get("scale")
            mha = attr_of(m2, "MultiHeadAttention", MS) if fired else None
            if mha is not None and (mha.get("num_heads") != H or ("scale" in mha) != (obs is not None)
                                    or (obs is not None and not feq(mha.get("scale"), obs))):
                ctx.tie_broken("correspondence", f"{fam}:mha-attrs", f"{p}: SDPA {a} lowered to {mha}")
            if dt == "float32":   # half-precision constants are not within 1e-6 of 1/sqrt(Dh): outside the model's band
                st.add_case("sdpa", f"({cscaling(qs, npdt)}, {cscaling(ks, npdt)}, {cscaling(qks, npdt)}, Some {Dh}%positive, "
                                    f"{'None' if obs is None else '(Some ' + cq(obs) + ')'})", (p, obs))
    st.structural_only.add("ai.onnxruntime._fusion::SDPA (intermediate op; observed after replace_sdpa_by_mha / mha / gqa lowering)")


# ============================================================================================= attention family (direct oracle only)
def fam_attention(st):
    from onnxscript.rewriter.ort_fusions._core import fuse_xformers, optimize_for_ort
    ctx, rng = st.ctx, st.ctx.rng
    counts_seen = {}

    def fx(m):
        _, c = fuse_xformers(m)
        return {k: v for k, v in c.items() if v}

    def ofo(m):
        _, c = optimize_for_ort(m)
        return {k: v for k, v in c.items() if v}
    n = 14 if ctx.tier == "quick" else 120
    for i in range(n):
        B, S, H = rng.randrange(1, 3), rng.randrange(1, 5), rng.randrange(1, 5)
        Dh = pick(rng, [2, 4, 8, 16])
        p = dict(dtype=pick(rng, ["float32", "float32", "float16"]), B=B, S=S, H=H, Dh=Dh, key_kind=pick(rng, ["T", "BSHd"]),
                 scale=pick(rng, [("qk", "Mul"), ("qk", "Div"), ("q", "Mul"), None]))
        if rng.random() < 0.3:
            p["scale_value"] = pick(rng, [0.2, 0.5])
        mode = i % 4
        St_ = S
        if mode == 1:
            p["past"] = rng.randrange(1, 4)
            St_ = S + p["past"]
        elif mode == 2:
            p["proj"] = True
            p["proj_bias"] = bool(rng.randrange(2))
            p["out_proj"] = bool(rng.randrange(2))
        elif mode == 3:
            p["Skv"] = rng.randrange(1, 6)
            St_ = p["Skv"]
        if rng.random() < 0.5:
            p["mask"] = pick(rng, [[B, 1, S, St_], [1, 1, S, St_], [B, H, S, St_], [S, St_], [B, 1, 1, St_]])
        if rng.random() < 0.3:
            p["B_decl"], p["S_decl"] = "B", "S"
        g, _ = A.attention_model(p)
        which = ("fuse_xformers", fx) if i % 2 == 0 else ("optimize_for_ort", ofo)
        fam = "pipeline:" + which[0]
        got = {}

        def fn(m, _f=which[1]):
            c = _f(m)
            got.update(c)
            return c
        slack = 4.0 if p["dtype"] == "float16" else 2.0
        fired, m2 = probe(st, fam, g, fn, p, expect=None, cls=(fam, p["dtype"], mode, p["key_kind"], p.get("mask") is not None and len(p["mask"]), p["scale"], "B_decl" in p),
                          slack=slack)
        for k, v in got.items():
            counts_seen[k] = counts_seen.get(k, 0) + v
        if fired is not None and fired and not any(("::" in o) for o in ops_of(m2)):
            ctx.tie_broken("correspondence", fam, f"{p}: fusion counts {got} but no fused operator in the result")
    ctx.cover(pipeline_fusion_counts=dict(sorted(counts_seen.items())))
    if counts_seen.get("sdpa", 0) == 0 or counts_seen.get("mha1", 0) + counts_seen.get("mha2", 0) == 0:
        ctx.tie_broken("harness", "pipeline:generator-degenerate", f"attention instances never reached SDPA/MHA fusion: {counts_seen}")


def fam_gqa(st):
    """GroupQueryAttention: the repo's own Phi-style block (gqa_test.py builder) at other sizes; direct oracle only.
    onnxruntime's CPU kernel wants batch 1 with a past, so B = 1 throughout."""
    import onnxscript.optimizer
    from onnx_ir.passes.common import ShapeInferencePass
    from onnxscript.rewriter.ort_fusions._core import fuse_xformers
    from onnxscript.rewriter.ort_fusions.gqa import fuse_gqa
    from onnxscript.rewriter.ort_fusions.sdpa import fuse_sdpa
    from onnxscript.rewriter.ort_fusions.sdpa_via_mha import replace_sdpa_by_mha
    ctx, rng = st.ctx, st.ctx.rng
    fam = "gqa"

    def rules(m):
        ShapeInferencePass()(m)
        onnxscript.optimizer.optimize(m)
        c = {"sdpa": fuse_sdpa(m), "gqa": fuse_gqa(m)}
        replace_sdpa_by_mha(m)        # an SDPA node that no fusion consumed is lowered, as fuse_xformers does
        return c

    def fx(m):
        return {k: v for k, v in fuse_xformers(m)[1].items() if v}
    insts = []
    for i in range(4 if ctx.tier == "quick" else 24):
        Hkv = pick(rng, [1, 2, 3])
        insts.append(dict(S=rng.randrange(1, 6), past=rng.randrange(1, 8), Dh=pick(rng, [16, 16, 32]), H=Hkv * pick(rng, [1, 2, 4]), Hkv=Hkv))
    insts.append(dict(S=3, past=2, Dh=8, H=4, Hkv=2, finding="C19:gqa:head-size-not-multiple-of-16"))
    insts.append(dict(S=2, past=3, Dh=24, H=2, Hkv=1, finding="C19:gqa:head-size-not-multiple-of-16"))
    gqa_fired = 0
    for i, p in enumerate(insts):
        finding = p.pop("finding", None)
        st.stat(fam, "instances")
        ctx.case((fam, p["Dh"], p["H"] // p["Hkv"], p["Hkv"], p["S"] == 1, finding is not None))
        try:
            m, spec = A.gqa_instance(p)
            feeds = [{k: st.np_rng.random(sh).astype(np.float32) for k, (_, sh) in spec.items()} for _ in range(2)]
            before = [ort_run(m, f) for f in feeds]
        except Exception as e:
            st.stat(fam, "invalid_instance")
            continue
        which = ("rules", rules) if i % 2 == 0 else ("fuse_xformers", fx)
        replay = {"family": fam, "params": p, "via": which[0]}
        try:
            m2, cnt = apply_ir(m, which[1])
        except Exception as e:
            ctx.violation(finding or f"C19:{fam}:raises:{type(e).__name__}", f"{which[0]} raised {e!r} on {p}", replay)
            continue
        fired = bool(find(m2, "GroupQueryAttention", MS))
        st.stat(fam, "fired" if fired else "not_fired")
        gqa_fired += fired
        if finding is not None and p["Dh"] == 8:
            st.flags["gqa_head16"] = not fired               # the witness of C19_gqa_check_head_size_refuted decides the variant
        bad = None
        try:
            for f, b in zip(feeds, before):
                ok, why = close(b, ort_run(m2, f), slack=10.0)        # gqa_test.py itself uses rtol = atol = 1e-3
                if not ok:
                    bad = why
                    break
        except Exception as e:
            bad = f"rewritten model fails in onnxruntime: {str(e)[:220]}"
        if bad:
            if finding:
                st.stat(fam, "finding_class")
            ctx.violation(finding or f"C19:{fam}:outputs-differ", f"{p} via {which[0]} (fusions {cnt}): {bad}", replay)
        elif fired:
            a = attr_of(m2, "GroupQueryAttention", MS)
            if a.get("num_heads") != p["H"] or a.get("kv_num_heads") != p["Hkv"] or a.get("do_rotary") != 1:
                ctx.tie_broken("correspondence", f"{fam}:attrs", f"{p}: {a}")
    if gqa_fired == 0:
        ctx.tie_broken("harness", "generator-degenerate:gqa", "GroupQueryAttention fusion never fired")


def fam_repo_models(st):
    """The repo's own cut-out models (fixed sizes) through optimize_for_ort, with fresh random inputs."""
    from onnxscript.rewriter.ort_fusions._core import optimize_for_ort
    import onnx_ir as ir
    ctx = st.ctx
    # smollm_test_1 (670 MB) in the quick tier: the staged family (c19_stages) runs optimize_for_ort on it and compares the returned
    # model with the original on onnxruntime with the same inputs (its inputs are integer ids: nothing random to vary here)
    names = [("_rotary_embedding_models", "test_case_1"), ("_rotary_embedding_models", "test_case_2"),
             ("_rotary_embedding_models", "partial_rotary_test_case")]
    if ctx.tier == "thorough":
        names += [("_smollm_1", "smollm_test_1"), ("_whisper_encoder", "whisper_encoder_test"), ("_bart_encoder", "bart_encoder_test"), ("_smollm_2", "smollm_test_2"),
                  ("_whisper_decoder", "whisper_decoder_test")]
    import importlib
    np.random.seed(ctx.seed % (2 ** 31))          # the repo's builders draw their weights from the global NumPy generator
    seen = {}
    for mod, fn in names:
        fam = "pipeline:repo-model"
        try:
            t = getattr(importlib.import_module("onnxscript.rewriter.models." + mod), fn)()
            model = t.get_onnx_model()
            inputs = t.get_ort_inputs()
        except Exception as e:
            st.stat(fam, "invalid_instance")
            continue
        st.stat(fam, "instances")
        ctx.case((fam, mod, fn))
        proto = ir.serde.serialize_model(model)
        feeds = []
        for _ in range(2):
            f = {}
            for k, v in inputs.items():
                v = np.asarray(v)
                f[k] = (st.np_rng.standard_normal(v.shape).astype(v.dtype) if v.dtype.kind == "f" else v)
            feeds.append(f)
        try:
            before = [ort_run(proto, f) for f in feeds]
        except Exception:
            st.stat(fam, "invalid_instance")
            continue
        try:
            m2, cnt = apply_ir(proto, lambda m: {k: v for k, v in optimize_for_ort(m)[1].items() if v})
        except Exception as e:
            ctx.violation(f"C19:{fam}:{fn}:raises:{type(e).__name__}", f"optimize_for_ort raised on {mod}.{fn}: {e}", {"model": f"{mod}.{fn}"})
            continue
        for k, v in cnt.items():
            seen[k] = seen.get(k, 0) + v
        st.stat(fam, "fired" if cnt else "not_fired")
        try:
            for f, b in zip(feeds, before):
                ok, why = close(b, ort_run(m2, f), slack=10.0)     # the repo's own tests use rtol = atol = 1e-3
                if not ok:
                    ctx.violation(f"C19:{fam}:{fn}:outputs-differ", f"{mod}.{fn}: {why} (fusions {cnt})", {"model": f"{mod}.{fn}", "counts": cnt})
                    break
        except Exception as e:
            ctx.violation(f"C19:{fam}:{fn}:outputs-differ", f"{mod}.{fn}: rewritten model fails in onnxruntime: {str(e)[:200]}", {"model": f"{mod}.{fn}", "counts": cnt})
    ctx.cover(repo_model_fusion_counts=dict(sorted(seen.items())))


# ============================================================================================= instance -> group normalisation
def fam_group_norm(st):
    """com.microsoft.GroupNorm has no CPU kernel in this onnxruntime build: the rewritten model is evaluated with
    onnx.reference + a NumPy implementation of the documented operator (structural + algebraic check)."""
    import onnx.reference
    import onnx.reference.op_run
    from onnxscript.rewriter.ort_fusions import instance_to_group_normalization as ign
    ctx, rng = st.ctx, st.ctx.rng
    fam = "instance_to_group_norm"

    class GroupNorm(onnx.reference.op_run.OpRun):
        op_domain = MS

        def _run(self, x, gamma, beta, activation=0, channels_last=1, epsilon=1e-5, groups=1):
            return (M.group_norm_reference(x, gamma, beta, groups, epsilon, channels_last, activation),)

    def ref_runner(m, feeds):
        return onnx.reference.ReferenceEvaluator(m, new_ops=[GroupNorm]).run(None, feeds)
    fn = lambda m: ign.rules.apply_to_model(m)  # noqa: E731
    for i in range(8 if ctx.tier == "quick" else 60):
        groups = pick(rng, [1, 2, 4])
        C = groups * pick(rng, [1, 2, 3])
        p = dict(dtype=pick(rng, ["float32", "float16"]), N=rng.randrange(1, 3), C=C, H=rng.randrange(1, 4), W=rng.randrange(1, 4),
                 groups=groups, epsilon=pick(rng, [1e-5, 1e-3]), wseed=i)
        near = None
        u = rng.random()
        if u < 0.15:
            near, p["norm_weight"] = "norm-weight-not-1", 2.0
        elif u < 0.3:
            near, p["norm_bias"] = "norm-bias-not-0", 0.5
        elif u < 0.4:
            near, p["wshape"] = "weight-not-[C,1,1]", [1, 1]
        if near == "weight-not-[C,1,1]":
            p["bshape"] = [1, 1]
        g = M.group_norm_model(p)
        fired, m2 = probe(st, fam, g, fn, p, expect=near is None, fused_ops=("GroupNorm",), runner=ref_runner,
                          cls=(fam, p["dtype"], groups, C // groups, near), slack=5.0 if p["dtype"] == "float16" else 2.0)
        if fired:
            a = attr_of(m2, "GroupNorm", MS)
            if a.get("groups") != groups or a.get("channels_last") != 1 or a.get("activation") != 0 or not feq(a.get("epsilon"), float(np.float32(p["epsilon"])), 1e-5):
                ctx.tie_broken("correspondence", f"{fam}:attrs", f"{p}: {a}")
    st.structural_only.add("com.microsoft::GroupNorm (no CPU kernel: evaluated with a NumPy implementation of the documented operator)")


def fam_mha(st):
    A2.fam_mha(st, probe)


def fam_sdpa_lowering(st):
    A2.fam_sdpa_lowering(st, probe)


def fam_attention_rule(st):
    A2.fam_attention_rule(st, probe)


def fam_gqa_rule(st):
    A2.fam_gqa_rule(st, probe)


def fam_group_norm2(st):
    A2.fam_group_norm2(st, probe)


def fam_cos_sin(st):
    A2.fam_cos_sin(st, probe)


def fam_pipeline_stages(st):
    from harness import c19_stages
    c19_stages.fam_pipeline_stages(st)


def fam_gqa_norm(st):
    from harness import c19_gqanorm
    c19_gqanorm.fam_gqa_norm(st)


def fam_float16(st):
    from harness import c19_f16
    c19_f16.fam_float16(st, probe)


FAMILIES = [fam_pipeline_stages, fam_rms, fam_skip, fam_layer_norm, fam_gelu, fam_bias_gelu, fam_softmax, fam_matmul, fam_rotary, fam_sdpa,
            fam_attention, fam_gqa, fam_repo_models, fam_mha, fam_sdpa_lowering, fam_attention_rule, fam_gqa_rule, fam_gqa_norm, fam_group_norm2, fam_cos_sin, fam_float16]


def coq_correspondence(st):
    ctx = st.ctx
    streams = (("norm", "OV.Fusion.Norm", "list norm_case", "disagreeing norm_agrees 0 cases"),
               ("mm", "OV.Fusion.MatMul", "list mm_case", "mm_disagreeing 0 cases"),
               ("rot", "OV.Fusion.Rotary", "list rot_case", "rot_disagreeing 0 cases"),
               ("sdpa", "OV.Fusion.Sdpa", "list sdpa_case", "sdpa_disagreeing 0 cases"),
               ("attn", "OV.Fusion.Attn", "list attn_case", "attn_disagreeing 0 cases"),
               ("gn", "OV.Fusion.GroupNorm", "list gn_case", "gn_disagreeing 0 cases"),
               ("cs", "OV.Fusion.CosSin", "list cs_case", "cs_disagreeing 0 cases"),
               ("sm", "OV.Fusion.Softmax", "list softmax_case", "softmax_disagreeing 0 cases"),
               ("gqan", "OV.Fusion.GqaNorm", "list gqa_case", "gqa_case_disagreeing 0 cases"),
               ("atts", "OV.Fusion.AttSlice", "list att_slice_case", "att_slice_disagreeing 0 cases"),
               ("bgelu", "OV.Fusion.Gelu", "list bias_gelu_case", "(fix d (i : nat) (cs : list bias_gelu_case) : list nat := match cs with [] => [] | c :: t => (if bias_gelu_agrees c then [] else [i]) ++ d (S i) t end) 0%nat cases"))
    for name, req, ty, expr in streams:
        cases = st.cases[name]
        if not cases:
            ctx.tie_broken("harness", f"correspondence:{name}", "no cases generated")
            continue
        pre = "Require Import OV.Fusion.Field.\n" + ("From Coq Require Import QArith.\nOpen Scope Q_scope.\n" if name == "sdpa" else "")
        cases = [st.flag_text(c) for c in cases]
        ok, vals, raw = ctx.coq_eval((["OV.Fusion.Norm"] if name == "sm" else ["OV.Fusion.Attn"] if name == "atts" else []) + [req], pre + f"Definition cases : {ty} := {clist(cases)}.\nEval vm_compute in ({expr}).", name="c19_" + name)
        if not ok or not vals:
            ctx.tie_broken("correspondence", f"{name}:model-evaluation", raw[-800:])
            continue
        bad = common.parse_nat_list(vals[-1])
        for i in bad[:10]:
            ctx.tie_broken("correspondence", f"{name}:model-vs-implementation", f"case {cases[i]} -- {st.meta[name][i]}")
        ctx.obligation(f"correspondence {name}: check/rewrite of the real fusion = Coq model on {len(cases)} instances", not bad)
        ctx.cover(**{f"corr_{name}_cases": len(cases)})


def regenerate(ctx):
    from harness import c19_pipeline
    ctx.pipeline_info = c19_pipeline.regenerate(ctx)


def run(ctx):
    ctx.trust("translator harness/c19_pipeline.py (Python ast, fail-closed) -> coq/Gen/C19Pipeline.v; the shape predicate pipeline_ok and the "
              "stage table of coq/Fusion/Pipeline.v are hand-written; the per-stage soundness hypotheses of C19_optimize_for_ort_composition "
              "are discharged only as far as the table says (Props theorems on rows / heads + check-sufficiency; the splice step is property C07)")
    ctx.assume("theorems are identities over an arbitrary field (Section hypothesis field_theory); float rounding, NaN/inf and the "
               "evaluation order of the fused kernels are outside the Coq model and are observed by the direct oracle with "
               "rtol/atol float32 1e-4/1e-5, float16 1e-2/1e-3 (atol scaled by the output magnitude)")
    ctx.assume("sqrt, erf, tanh, softmax, cos, sin are arbitrary functions in the theorems; Cast is the identity on the field")
    ctx.assume("float16 / float32 are not fields: for them the field identities say only that the model before and after a fusion compute "
               "the same real-valued function (any difference is rounding, not another formula); they give no bound on the rounding error and "
               "say nothing about overflow (float16 saturates at 65504), accumulation order or accumulator type of the fused kernels, NaN/inf, "
               "denormals; the index-algebra theorems (head splitting, kv repetition, Slice partitions, normalisation/Transpose commutation) "
               "involve no arithmetic and hold bit for bit at every dtype (Props/C19_session6.v header).  Measured per run: float16 floor per "
               "family, forced float16 instances + near misses of skip-norm / bias-GELU / rotary / SDPA, and a discrimination test showing the "
               "float16 tolerance rejects a deliberately wrong fused node on the same inputs (evidence: float16_discrimination)")
    ctx.assume("documented semantics of SimplifiedLayerNormalization/RMSNormalization, LayerNormalization, Skip*LayerNormalization, Gelu, "
               "FastGelu, BiasGelu, FusedMatMul (incl. transBatch), RotaryEmbedding are transcribed from the operator documents; "
               "each is measured against onnxruntime on every fired instance")
    ctx.assume("the matcher's constant tolerance (rel 1e-5) is not modelled: constants are either exact or far off in the generated instances")
    import logging
    logging.getLogger("onnx_ir").setLevel(logging.ERROR)       # ShapeInferencePass logs a traceback when partial inference fails
    ctx.check_props()
    st = St(ctx)
    import time
    walls = {}
    for fam in FAMILIES:
        t0 = time.time()
        fam(st)
        walls[fam.__name__] = round(time.time() - t0, 1)
    t0 = time.time()
    coq_correspondence(st)
    walls["coq_correspondence"] = round(time.time() - t0, 1)
    ctx.cover(family_wall_s=walls)
    total_fired = sum(d.get("fired", 0) for d in st.stats.values())
    ctx.cover(repaired_variants={k: bool(v) for k, v in sorted(st.flags.items())})
    ctx.cover(per_dtype_instances_fired={f: {d: {"instances": v[0], "fired": v[1]} for d, v in sorted(dd.items())} for f, dd in sorted(st.by_dtype.items())},
              tolerances={"float32": "rtol 1e-4, atol 1e-5 x output magnitude (stricter than the repo's own tests: rtol = atol = 1e-3 in ort_fusions/_test_utils.assert_allclose)",
                          "float16": "rtol 1e-2, atol 1e-3 x output magnitude (the float16 analogue: 1e-3 is one float16 ulp at 1.0, the repo has no float16 numeric test)",
                          "pipeline / gqa / repo models": "slack x2 - x10, i.e. up to the repo's rtol = atol = 1e-3"},
              float32_only_families={"gqa / gqa_rule / gqa_qk_norm": "the repo's Phi-style / Gemma-style block builders and the CPU GroupQueryAttention kernel with past are float32 here",
                                     "pipeline:repo-model": "the repo's cut-out models are float32"})
    # Is a float16 model expected to FUSE?  The GELU rules (gelu.py, erfgelu.py) match their constants (sqrt(2), sqrt(2/pi), 0.044715)
    # as Python floats with the matcher's rel_tol = 1e-5; rounded to half precision they are 4e-5 .. 1.5e-4 away, so a model exported in
    # float16 is left unchanged.  The repo's tests of these rules are float32 only and nothing documents half-precision support:
    # not firing satisfies the property (model unchanged); a floor on fired float16 instances is asserted everywhere else.
    not_expected = {"gelu_tanh": "constants 0.044715 / sqrt(2/pi) in half precision are outside rel_tol 1e-5",
                    "gelu_erf": "sqrt(2) in half precision (1.4140625) is outside rel_tol 1e-5",
                    "erfgelu1": "as gelu_erf", "erfgelu2": "as gelu_erf"}
    ctx.cover(float16_fusion_expected={f: (f not in not_expected) for f in sorted(st.by_dtype)}, float16_not_expected_because=not_expected,
              float16_fired_per_family={f: dd.get("float16", [0, 0])[1] for f, dd in sorted(st.by_dtype.items())})
    for fam_, dd in st.by_dtype.items():
        f16, f32 = dd.get("float16", [0, 0]), dd.get("float32", [0, 0])
        if fam_.startswith(("gqa", "pipeline:repo", "pipeline:stages")) or fam_ in ("softmax",):
            continue
        if f32[0] >= 6 and f16[0] == 0:
            ctx.tie_broken("harness", f"generator-degenerate:{fam_}:float16", f"no float16 instance of {fam_}: {dd}")
        if fam_ not in not_expected and f16[0] >= 3 and f16[1] == 0 and f32[1] > 0:
            ctx.tie_broken("harness", f"generator-degenerate:{fam_}:float16-never-fires", f"{fam_} fires in float32 but on none of {f16[0]} float16 instances: {dd}")
    ctx.cover(families=st.stats, fired_total=total_fired,
              structural_only=sorted(st.structural_only),
              executable_fused_ops=["SimplifiedLayerNormalization", "RMSNormalization", "LayerNormalization", "SkipSimplifiedLayerNormalization",
                                    "SkipLayerNormalization", "Gelu", "FastGelu", "BiasGelu", "FusedMatMul", "RotaryEmbedding (com.microsoft and opset 23)",
                                    "MultiHeadAttention", "Attention (three projections; packed MatMul + Slice)", "GroupQueryAttention (batch 1, head_size % 16 == 0, with / without past, q/k-norm)", "Softmax(float16)"],
              not_modelled=["rounding / kernel evaluation order of the fused attention kernels (direct oracle)",
                            "rotary embedding INSIDE the MHA/GQA rules (its own theorems cover the rotation; the rules with is_rotary are exercised through the gqa block and the repo models only)",
                            "attention.py rules with past (has_past = True): identity proved (C19_attention_fusion_identity_past), check modelled, no generated instance; gqa_packed_qkv, mha cross-attention rules, group_normalization_merge_silu not exercised",
                            "GQA batch > 1 (the CPU kernel's limit), float16 GQA; sliding window; the q/k-norm theorem is not composed with the rotary embedding and the key side's Concat with the past",
                            "NCHW<->NHWC Transposes around GroupNorm (layout only: NumPy reference of the documented operator)",
                            "cos_sin_cache const_freqs variants (freqs folded to a constant) and a configured max_pos_id",
                            "softmax upcast removal (a precision claim)", "matcher constant tolerance"],
              generator="per family: random shapes (rank 1-5, dims 1-17 incl. 1), dtypes f32/f16/f64, operand orders, optional inputs, epsilon/axis/"
                        "attribute values, near misses by one targeted mutation; known-finding classes probed on every run")
    for fam, d in st.stats.items():
        if d["instances"] >= 6 and d["fired"] == 0 and not fam.startswith("pipeline:repo"):
            ctx.tie_broken("harness", f"generator-degenerate:{fam}", f"no instance of {fam} fired: {d}")
    if ctx.tier == "thorough":
        ctx.coqchk(["Props.C19"])
