(* C11 property theorems, mixed basic + advanced indexing with any number of integer-tensor indices of any rank:
   statements only, each closed by `exact`, Print Assumptions beneath.

   Models: Index/AdvSpec.v.  Per source axis both NumPy and the front ends select positions (NumpySpec.np_index on
   the flattened components); they differ in the *arrangement* of the selected positions into result axes:
     np_arr      NumPy: all advanced indices (ints, rank-0 .. rank-n tensors) broadcast together; the block replaces
                 them at the first advanced index when they are adjacent, goes to the front otherwise;
     outer_arr   every axis in place -- what the chain of Gather ops emitted by Converter._translate_subscript_expr
                 (last axis first, axes renumbered past squeezed axes, after 9cf507a) and by Tensor.__getitem__ computes
                 (conv_nest / eager_nest = outer_arr of the view computed by ConverterIdx.run_conv / EagerIdx.run_eager).
   A form is the list of component kinds (slice | advanced index of rank r), omitted trailing axes being slices.

   Converter: proved for every index tuple (any number of constant ints, slices, tensor-valued indices of any rank):
   the emitted chain computes the per-axis view (sound + complete, Index/AdvChain.v, AdvConvProofs.v), hence NumPy's result
   exactly on the good forms (sound + complete) and the outer arrangement on the others.
   Eager: the same, Props/C11_summary.v (Index/AdvEagerProofs.v), together with the one-statement summary of the property. *)
From Coq Require Import ZArith List Bool.
Import ListNotations.
Require Import OV.Index.NumpySpec OV.Index.OnnxSlice OV.Index.ConverterIdx OV.Index.EagerIdx OV.Index.ViewProofs
               OV.Index.AdvSpec OV.Index.AdvConvProofs OV.Index.AdvProofs.
Open Scope Z_scope.

(* good forms: at most one tensor index of rank >= 1, in one block with the scalar indices or with no slice in front *)
Theorem C11_arrangement_agrees : forall its,
  good_form (form_of its) = true -> np_arr its = Some (outer_arr 0 its).
Proof. exact arrangement_agrees. Qed.
Print Assumptions C11_arrangement_agrees.

(* exact characterisation: a form is good iff NumPy's arrangement is the outer one on every instance of it *)
Theorem C11_arrangement_differs_iff : forall f,
  good_form f = true <-> (forall its, form_of its = f -> np_arr its = Some (outer_arr 0 its)).
Proof. exact arrangement_agrees_iff. Qed.
Print Assumptions C11_arrangement_differs_iff.

(* two or more tensor indices of rank >= 1 (findings two-1d-tensor-indices, several-tensor-indices-of-rank-2): on every
   instance on which NumPy returns, its result has a smaller rank: always a different tensor *)
Theorem C11_two_tensor_indices_rank_differs : forall its n,
  (2 <= length (filter is_nonscalar its))%nat -> np_arr its = Some n ->
  (length (fst n) < length (fst (outer_arr 0 its)))%nat.
Proof. exact two_tensor_indices_rank_differs. Qed.
Print Assumptions C11_two_tensor_indices_rank_differs.

(* every bad form has an index expression (X of shape (2,..,2), slices ':', scalars 0, tensor indices zeros of shape
   (1,..,1)) on which NumPy's result and the outer arrangement have different shapes
   (findings scalar-and-{1d,2d}-tensor-index-split-by-slice are instances of the one-tensor case) *)
Theorem C11_bad_form_witness : forall f, good_form f = false ->
  forall n m, np_nest (wit_shape f) (wit_idx f) = Some n -> outer_nest (wit_shape f) (wit_idx f) = Some m -> fst n <> fst m.
Proof. exact bad_form_witness. Qed.
Print Assumptions C11_bad_form_witness.

(* from the per-axis view to NumPy: any op chain that computes the per-axis view returns NumPy's result on a good form *)
Theorem C11_adv_sound_of_view_sound : forall (run : list Z -> list comp -> option view) shape aidx n,
  (forall v, run shape (map flat aidx) = Some v -> np_index shape (map flat aidx) = Some v) ->
  (length aidx <= length shape)%nat ->
  good_form (full_form shape aidx) = true ->
  option_map (fun v => outer_arr 0 (items aidx v)) (run shape (map flat aidx)) = Some n ->
  np_nest shape aidx = Some n.
Proof. exact adv_sound_of_view_sound. Qed.
Print Assumptions C11_adv_sound_of_view_sound.

(* partial (index class): one tensor index of any rank among slices -- A[I], A[:, I], A[i:j, I] *)
Theorem C11_converter_one_tensor_any_rank_sound_partial : forall shape aidx n,
  dims_ok shape -> (length aidx <= length shape)%nat ->
  hazard_free shape (map flat aidx) = true -> one_tensor_no_int (map flat aidx) = true ->
  good_form (full_form shape aidx) = true ->
  conv_nest shape aidx = Some n -> np_nest shape aidx = Some n.
Proof. exact conv_adv_one_tensor_sound. Qed.
Print Assumptions C11_converter_one_tensor_any_rank_sound_partial.

(* partial (index class): constant ints and slices *)
Theorem C11_converter_basic_adv_sound_partial : forall shape aidx n,
  dims_ok shape -> (length aidx <= length shape)%nat ->
  hazard_free shape (map flat aidx) = true -> tensor_free (map flat aidx) = true ->
  good_form (full_form shape aidx) = true ->
  conv_nest shape aidx = Some n -> np_nest shape aidx = Some n.
Proof. exact conv_adv_basic_sound. Qed.
Print Assumptions C11_converter_basic_adv_sound_partial.

(* partial (index class): eager, ints / rank-0 tensors / slices *)
Theorem C11_eager_scalar_adv_sound_partial : forall shape aidx n,
  dims_nat shape -> (length aidx <= length shape)%nat ->
  hazard_free shape (map flat aidx) = true -> t1_free (map flat aidx) = true ->
  good_form (full_form shape aidx) = true ->
  eager_nest shape aidx = Some n -> np_nest shape aidx = Some n.
Proof. exact eager_adv_scalar_sound. Qed.
Print Assumptions C11_eager_scalar_adv_sound_partial.

(* the full statements (whatever is returned is NumPy's result, for every index expression) are false ... *)
Definition C11_converter_adv_full : Prop := conv_adv_full.
Definition C11_eager_adv_full : Prop := eager_adv_full.
(* ... the statement restricted to good forms holds: every index tuple (any number of constant ints, slices and
   tensor-valued indices of any rank), every rank and shape *)
Definition C11_converter_adv_good_full : Prop := conv_adv_good_full.

Theorem C11_converter_adv_good_sound : forall shape aidx n,
  dims_ok shape -> (length aidx <= length shape)%nat -> hazard_free shape (map flat aidx) = true ->
  good_form (full_form shape aidx) = true ->
  conv_nest shape aidx = Some n -> np_nest shape aidx = Some n.
Proof. exact conv_adv_good_sound. Qed.
Print Assumptions C11_converter_adv_good_sound.

(* completeness (no spurious errors): on a good form where NumPy returns, the converter returns the same, unless it refuses a
   slice (tensor-valued step with an omitted bound) or the constant -1 goes through Slice + Squeeze (error, allowed) *)
Theorem C11_converter_adv_good_complete : forall shape aidx n,
  dims_ok shape -> hazard_free shape (map flat aidx) = true ->
  conv_accepts (map flat aidx) = true -> conv_minus1_ok (map flat aidx) = true ->
  good_form (full_form shape aidx) = true ->
  np_nest shape aidx = Some n -> conv_nest shape aidx = Some n.
Proof. exact conv_adv_good_complete. Qed.
Print Assumptions C11_converter_adv_good_complete.

(* the op chain itself, every index tuple, good form or not: it computes NumPy's per-axis view (sound and complete) ... *)
Theorem C11_converter_chain_is_per_axis_view_sound : forall shape idx v,
  dims_ok shape -> (length idx <= length shape)%nat -> hazard_free shape idx = true ->
  run_conv true shape idx = Some v -> np_index shape idx = Some v.
Proof. exact conv_view_sound_all. Qed.
Print Assumptions C11_converter_chain_is_per_axis_view_sound.

Theorem C11_converter_chain_is_per_axis_view_complete : forall shape idx v,
  dims_ok shape -> hazard_free shape idx = true -> conv_accepts idx = true -> conv_minus1_ok idx = true ->
  np_index shape idx = Some v -> run_conv true shape idx = Some v.
Proof. exact conv_view_complete_all. Qed.
Print Assumptions C11_converter_chain_is_per_axis_view_complete.

(* ... hence the converter's result IS the outer arrangement, also on the bad forms (where it differs from NumPy by
   C11_arrangement_differs_iff / C11_two_tensor_indices_rank_differs): accepted, never rescued by an error *)
Theorem C11_converter_result_is_outer_arrangement : forall shape aidx,
  dims_ok shape -> (length aidx <= length shape)%nat -> hazard_free shape (map flat aidx) = true ->
  conv_accepts (map flat aidx) = true -> conv_minus1_ok (map flat aidx) = true ->
  conv_nest shape aidx = outer_nest shape aidx.
Proof. exact conv_nest_is_outer_nest. Qed.
Print Assumptions C11_converter_result_is_outer_arrangement.

(* X[I, J], I = [0,1], J = [1,2], shape (3,4): graph shape (2,2), NumPy (2) *)
Theorem C11_converter_adv_full_refuted : ~ C11_converter_adv_full.
Proof. exact conv_adv_full_refuted. Qed.
Print Assumptions C11_converter_adv_full_refuted.

(* eager X[0, :, J], J = [-1], shape (2,3,4): eager shape (3,1), NumPy (1,3) *)
Theorem C11_eager_adv_full_refuted : ~ C11_eager_adv_full.
Proof. exact eager_adv_full_refuted. Qed.
Print Assumptions C11_eager_adv_full_refuted.
