"""C19: float16, the measured side.

The Coq identities are over an arbitrary field / carrier: for float16 they say the model before and after a fusion compute
the same real-valued function, nothing about rounding (Props/C19_session6.v header).  What is MEASURED per run:
  * every family has a floor of float16 instances that fire (c19.run: generator-degenerate:<family>:float16...);
  * this module: for skip-normalisation, bias-GELU, rotary embedding and SDPA, on every run and at every seed,
      - one forced float16 instance that must fire, with inputs / epsilon chosen so that the float16 tolerance
        (rtol 1e-2, atol 1e-3 x magnitude) separates the right fused model from a WRONG one: the fused node is altered
        (epsilon replaced by the operator default, bias dropped, cos/sin swapped, scale doubled) and the same comparator on
        the same inputs must reject the altered model -- otherwise the comparison would be vacuous at this dtype
        (harness tie `float16-tolerance-not-discriminating`);
      - the family's near misses at float16 (the rule must leave the model alone, or still agree).
"""
from __future__ import annotations

import copy

import numpy as np

from harness import c19_misc as M
from harness import c19_norm as N
from harness.c19_build import MS, close, find, ort_run


def _rel(a, b):
    a, b = np.asarray(a, np.float64), np.asarray(b, np.float64)
    m = float(np.max(np.abs(b))) if b.size else 0.0
    return float(np.max(np.abs(a - b)) / max(m, 1e-30)) if b.size else 0.0


def _node(m, op_type):
    return next(n for n in m.graph.node if n.op_type == op_type)


def _set_attr(n, name, value):
    from onnx import helper
    for a in list(n.attribute):
        if a.name == name:
            n.attribute.remove(a)
    n.attribute.append(helper.make_attribute(name, value))


def wrong_epsilon(op_type):
    def f(m):
        _set_attr(_node(m, op_type), "epsilon", 1e-5)
        return "epsilon of the fused node replaced by 1e-5 (the instance's is 1e-3)"
    return f


def wrong_drop_bias(m):
    n = _node(m, "BiasGelu")
    n.op_type = "Gelu"
    del n.input[1]
    return "BiasGelu(x, bias) replaced by Gelu(x): the bias is dropped"


def wrong_swap_cos_sin(m):
    n = _node(m, "RotaryEmbedding")
    k = len(n.input)
    n.input[k - 2], n.input[k - 1] = n.input[k - 1], n.input[k - 2]
    return "cos and sin operands of the fused RotaryEmbedding swapped"


def wrong_scale(m):
    n = _node(m, "MultiHeadAttention")
    cur = next((a.f for a in n.attribute if a.name == "scale"), None)
    _set_attr(n, "scale", float(2.0 * cur) if cur else 1.0)
    return "scale of the lowered MultiHeadAttention doubled (or set to 1.0 when absent)"


def fam_float16(st, probe):
    from onnxscript.rewriter.ort_fusions.bias_gelu import fuse_bias_gelu
    from onnxscript.rewriter.ort_fusions.sdpa import fuse_sdpa
    from onnxscript.rewriter.ort_fusions.sdpa_via_mha import replace_sdpa_by_mha
    from onnxscript.rewriter.ort_fusions.skip_normalization import (fuse_skip_layer_normalization as f_ln,
                                                                     fuse_skip_rms_normalization as f_rms)
    from onnxscript.rewriter.rules.fusion._rotary_embedding import fuse_rotary_embedding as f_rot23
    ctx, rng = st.ctx, st.ctx.rng
    disc, near16, fired16 = {}, {}, {}

    def sdpa_both(m):
        c = fuse_sdpa(m, apply_shape_inference=True)
        replace_sdpa_by_mha(m)
        return c

    def fire(fam, g, fn, p, fused, wrong, scale=1.0, dom=None):
        out = {}
        fired, m2 = probe(st, fam, g, fn, p, expect=True, fused_ops=(fused,), cls=(fam, "float16-forced", p.get("kind"), p.get("gelu")), scale=scale, out=out)
        if not fired or out.get("bad") or out.get("after") is None:
            return
        fired16[fam] = fired16.get(fam, 0) + 1
        m3 = copy.deepcopy(m2)
        what = wrong(m3)
        rec = {"wrong_model": what, "observed_rel_diff_right_model": _rel(out["after"][0], out["before"][-1][0])}
        try:
            detected, worst = False, 0.0
            for f_, b_ in zip(out["feeds"], out["before"]):
                got = ort_run(m3, f_)
                worst = max(worst, _rel(got[0], b_[0]))
                if not close(b_, got)[0]:
                    detected = True
            rec.update(detected=detected, rel_diff_wrong_model=worst)
        except Exception as e:
            rec.update(detected=None, error=str(e)[:160])
        disc.setdefault(fam, []).append(rec)
        if rec["detected"] is None:
            ctx.tie_broken("harness", f"float16-discrimination:{fam}", f"the altered model does not run: {rec['error']}")
        elif not rec["detected"]:
            ctx.tie_broken("harness", f"float16-tolerance-not-discriminating:{fam}",
                           f"{p}: {what}: still within the float16 tolerance of the source model (rel diff {rec['rel_diff_wrong_model']:.3g})")

    def near(fam, g, fn, p, fused, label):
        fired, _ = probe(st, fam, g, fn, p, expect=False, fused_ops=(fused,), cls=(fam, "float16-near-miss", label))
        if fired is not None:
            near16.setdefault(fam, []).append(label)

    # ---- skip normalisations: epsilon 1e-3 against rows of variance ~2e-3: the operator-default epsilon moves the output by ~20 %
    for kind, fn, fused in (("rms", f_rms, "SkipSimplifiedLayerNormalization"), ("ln", f_ln, "SkipLayerNormalization")):
        fam = "skip_rms_norm" if kind == "rms" else "skip_layer_norm"
        B, S, D = rng.randrange(1, 4), rng.randrange(1, 5), rng.choice([8, 16])
        base = dict(kind=kind, B=B, S=S, D=D, dtype="float16", bias=rng.choice([None, "pre", "post"]), add_order=rng.randrange(2),
                    epsilon=1e-3, use_sum=True, stash_type=None, input_scale=3e-2)
        fire(fam, N.skip_model(base), fn, base, fused, wrong_epsilon(fused), scale=3e-2)
        for label, upd in (("gamma[1]", dict(gamma_shape=[1])), ("axis=2", dict(axis=2)), ("axis-absent", dict(axis=None)),
                           ("rank2", dict(input_shape=[S, D], skip_shape=[S, D], out_shape=[S, D]))):
            p = dict(base, **upd)
            near(fam, N.skip_model(p), fn, p, fused, label)
    # ---- bias GELU
    fam = "bias_gelu"
    for gelu in ("onnx", "contrib"):
        ish = [rng.randrange(1, 4), rng.randrange(1, 4), rng.choice([8, 17])]
        base = dict(dtype="float16", input_shape=ish, bias_shape=[ish[-1]], out_shape=ish, gelu=gelu, order=rng.randrange(2))
        fire(fam, M.bias_gelu_model(base), fuse_bias_gelu, base, "BiasGelu", wrong_drop_bias, scale=2.0)
        nm = [("bias-rank-2", dict(bias_shape=ish[-2:])), ("bias-rank-0", dict(bias_shape=[]))]
        if gelu == "onnx":
            nm.append(("approximate=tanh", dict(approximate="tanh")))
        for label, upd in nm:
            p = dict(base, **upd)
            near(fam, M.bias_gelu_model(p), fuse_bias_gelu, p, "BiasGelu", label)
    # ---- rotary embedding (opset-23 operator: executable)
    fam = "rules.fusion:rotary_embedding"
    MAXI = 2 ** 63 - 1
    B, H, S, D = rng.randrange(1, 3), rng.randrange(1, 5), rng.randrange(2, 5), rng.choice([4, 8, 16])
    h = D // 2
    base = dict(dtype="float16", xshape=[B, H, S, D], fshape=[B, S, h], slices=(0, h, h, MAXI))
    fire(fam, M.rotary23_model(base), f_rot23, base, "RotaryEmbedding", wrong_swap_cos_sin)
    for label, sl in (("uneven-halves", (0, h - 1, h - 1, MAXI)), ("halves-swapped", (h, MAXI, 0, h))):
        p = dict(base, slices=sl)
        near(fam, M.rotary23_model(p), f_rot23, p, "RotaryEmbedding", label)
    # ---- SDPA (lowered to MultiHeadAttention)
    fam = "sdpa"
    B, H, S, Skv, Dh = rng.randrange(1, 3), rng.randrange(1, 4), rng.randrange(2, 5), rng.randrange(3, 6), 8
    base = dict(dtype="float16", B=B, H=H, S=S, Skv=Skv, Dh=Dh, Dv=Dh, key_kind="BHSd-T", q_scale=None, k_scale=None,
                qk_scale=("Mul", float(np.float16(1.0 / np.sqrt(Dh)))), nan_guard=False, mask=rng.choice([None, [B, 1, S, Skv]]))
    fire(fam, M.sdpa_model(base), sdpa_both, base, "MultiHeadAttention", wrong_scale)
    for label, upd in (("softmax-axis=2", dict(softmax_axis=2)), ("key-not-transposed", dict(kperm=[0, 1, 2, 3], kshape=[B, H, Dh, Skv]))):
        p = dict(base, **upd)
        near(fam, M.sdpa_model(p), sdpa_both, p, "MultiHeadAttention", label)

    ctx.cover(float16_discrimination=disc, float16_near_miss_per_family={k: sorted(v) for k, v in sorted(near16.items())},
              float16_forced_fired=fired16)
    for fam in ("skip_rms_norm", "skip_layer_norm", "bias_gelu", "rules.fusion:rotary_embedding", "sdpa"):
        if not fired16.get(fam):
            ctx.tie_broken("harness", f"generator-degenerate:{fam}:float16-forced", "the forced float16 instance did not fire")
        if len(near16.get(fam, [])) < 2:
            ctx.tie_broken("harness", f"generator-degenerate:{fam}:float16-near-miss", f"float16 near misses observed: {near16.get(fam)}")
