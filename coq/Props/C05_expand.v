(* C05, ExpandIdentity (_basic_rules.py): statements only. *)
From Coq Require Import ZArith List Bool.
Require Import OV.Rules.BShape OV.Rules.Expand OV.Rules.ExpandProofs.
Import ListNotations.
Open Scope Z_scope.

(* whenever check accepts (constant shape equal to the fully static annotated shape of x) Expand is the identity:
   result shape = x's shape and every in-range element equal; all ranks, dims 0 and 1 included;
   host_ok = the annotation has the real rank and its static dims are the real dims *)
Theorem C05_expand_identity : forall (V : Type) (t : tensor V) ds s,
  check (Some ds) (Some s) = true ->
  length (fst t) = length ds -> (forall i d, nth i ds None = Some d -> nth i (fst t) 0 = d) ->
  exists out, expand t s = Some out /\ fst out = fst t /\
    forall ix, in_range (fst t) ix -> snd out ix = snd t ix.
Proof. exact expand_identity_sound. Qed.
Print Assumptions C05_expand_identity.
