(* C07 model, part 5: patterns with SEVERAL OUTPUT NODES.

   onnx_ir.convenience.replace_nodes_and_values(graph, insertion_point, old_nodes, new_nodes, ...) does
       graph.insert_after(insertion_point, new_nodes); graph.remove(old_nodes)
   and onnxscript/rewriter/_rewrite_rule.py::_apply_to_graph_or_function passes the node being visited as the
   insertion point.  For a pattern with one output node the visited node is the last matched node of the list
   (Rewrite/Apply.v: the mask ends at the root).  For a pattern with several output nodes the visited node is ONE of
   the output nodes: matched nodes may sit after it, and the replacement -- which defines all pattern outputs -- may
   land after a consumer of one output or before the producer of one of its own inputs.
   RewriteRuleSet.apply_to_model therefore sorts every container afterwards (model.graph.sort(), function.sort();
   onnx_ir Graph.sort: Kahn's algorithm run from the sinks, the node with the LARGEST position first, result reversed).

   Here: the generalised application `mapp` (mask over the whole node list + position of the insertion point), its
   descent along a path, the order rule `rsort` (one node list) / `rsort_graph` (every nested list), and the replay
   of the container state (OV.Rewrite.State) over generalised applications.

   The order rule of the model, stated: the final node list of every graph is `rsort` of the spliced list, i.e. the
   reversal of the sequence obtained by repeatedly removing the LAST node none of whose outputs is read (directly or
   inside a nested graph) by a node still present.  A nested graph's reads count as reads of the node holding it
   (onnx_ir makes the nodes of the nested graph predecessors of the holder and the outer producer a predecessor of
   the nested reader; for the node lists the rewriter leaves behind the two formulations pick the same order unless
   two misplaced producers feed one holder -- the tie counts those, it does not reject them as long as the observed
   list is an ordered permutation).

   No proofs in this file. *)
From Coq Require Import List String ZArith Bool Arith.
Require Import OV.Graph.Syntax OV.Graph.Sem OV.Graph.Names OV.Graph.Wf.
Require Import OV.Rewrite.Apply OV.Rewrite.FnCall OV.Rewrite.Order OV.Rewrite.State.
Import ListNotations.
Local Open Scope string_scope.
Local Open Scope list_scope.

(* m_mask: one flag per node from the start of the list (true = matched; nodes beyond the mask are unmatched);
   m_at: position of the insertion point (the node being visited, itself matched);
   m_new / m_remove / m_dead: as in Apply.app *)
Record mapp := MApp { m_mask : list bool; m_at : nat; m_new : list node; m_remove : bool; m_dead : list (vname * vname) }.

Definition mapp_wf (m : mapp) (ns : list node) : bool :=
  Nat.ltb (m_at m) (List.length ns) && Nat.leb (List.length (m_mask m)) (List.length ns) && nth (m_at m) (m_mask m) false.

(* insert_after(insertion point, new nodes); remove(matched nodes) *)
Definition apply_multi (m : mapp) (ns : list node) : option (list node) :=
  let k := S (m_at m) in
  if mapp_wf m ns
  then Some (kept (m_remove m) (m_dead m) (firstn k (m_mask m)) (firstn k ns) ++ m_new m ++
             kept (m_remove m) (m_dead m) (skipn k (m_mask m)) (skipn k ns))
  else None.

(* a single-root application is the special case "the insertion point is the last flag of the mask" *)
Definition of_app (a : app) : mapp :=
  MApp (a_mask a) (pred (List.length (a_mask a))) (a_new a) (a_remove a) (a_dead a).

Fixpoint apply_at_m (p : path) (m : mapp) (g : graph) : option graph :=
  let 'Graph gi gn ns go := g in
  match p with
  | [] => option_map (fun ns' => Graph gi gn ns' go) (apply_multi m ns)
  | (idx, key) :: p' =>
    match nth_error ns idx with
    | Some (Node d op ins outs at_ subs) =>
      match find_sub key subs with
      | Some sg =>
        match apply_at_m p' m sg with
        | Some sg' => Some (Graph gi gn (set_nth idx (Node d op ins outs at_ (set_sub key sg' subs)) ns) go)
        | None => None
        end
      | None => None
      end
    | None => None
    end
  end.

(* the matched nodes, in the order of the graph *)
Definition m_matched (m : mapp) (ns : list node) : list node := sel (m_mask m) ns.
(* what remains of the list without the replacement *)
Definition m_kept (m : mapp) (ns : list node) : list node := kept (m_remove m) (m_dead m) (m_mask m) ns.

(* ---- the order rule ------------------------------------------------------------------------------------------- *)
(* z is a sink of (z :: rest): nobody, z included, reads what z defines *)
Definition sinkb (z : node) (rest : list node) : bool := disjointb (n_outs z) (uses_nodes (z :: rest)).

(* the first sink of `post` (pre: the nodes already passed over), and the list without it *)
Fixpoint pick_sink (pre post : list node) : option (node * list node) :=
  match post with
  | [] => None
  | n :: t => if sinkb n (pre ++ t) then Some (n, pre ++ t) else pick_sink (pre ++ [n]) t
  end.

(* L: the remaining nodes, LAST position first; result: the nodes in the order they are removed *)
Fixpoint rsort_rev (fuel : nat) (L : list node) : option (list node) :=
  match L with
  | [] => Some []
  | _ =>
    match fuel with
    | O => None
    | S f =>
      match pick_sink [] L with
      | Some (z, rest) => option_map (cons z) (rsort_rev f rest)
      | None => None                                   (* every remaining node is read by a remaining node: a cycle *)
      end
    end
  end.

(* None = ValueError("Graph contains a cycle, topological sort is not possible.") *)
Definition rsort (ns : list node) : option (list node) :=
  option_map (@rev node) (rsort_rev (List.length ns) (rev ns)).

Fixpoint opt_all {A} (l : list (option A)) : option (list A) :=
  match l with
  | [] => Some []
  | Some x :: t => option_map (cons x) (opt_all t)
  | None :: _ => None
  end.

(* Graph.sort() sorts the graph "and all subgraphs" *)
Fixpoint rsort_graph (fuel : nat) (g : graph) : option graph :=
  match fuel with
  | O => None
  | S f =>
    let 'Graph gi gn ns go := g in
    let sort_node := fun n : node =>
      let 'Node d o i ou at_ subs := n in
      option_map (Node d o i ou at_)
                 (opt_all (map (fun kg : string * graph => option_map (pair (fst kg)) (rsort_graph f (snd kg))) subs)) in
    match opt_all (map sort_node ns) with
    | Some ns1 => option_map (fun l => Graph gi gn l go) (rsort ns1)
    | None => None
    end
  end.

(* every node would be ordered if it saw every definition of the list: no name is read that nobody provides *)
Definition closedb (vis : list vname) (ns : list node) : bool := forallb (topo_node (defs_nodes ns ++ vis)) ns.

(* executable conditions on ONE generalised application under which a closed list stays closed (hence is sorted into an
   ordered list by the order rule whenever it has no cycle): the replacement reads only names that are visible, defined
   by a surviving node or by the replacement; a name defined by a matched node and still read by a surviving node is
   provided (the pattern outputs are: the replacement defines them) *)
Definition multi_order_okb (vis : list vname) (m : mapp) (ns : list node) : bool :=
  let K := m_kept m ns in
  let provided := defs_nodes K ++ defs_nodes (m_new m) ++ vis in
  mapp_wf m ns &&
  forallb (topo_node provided) (m_new m) &&
  forallb (fun x => negb (mem x (uses_nodes K)) || mem x provided) (defs_nodes (m_matched m ns)).

(* the same at the graph a path leads to; a nested graph sees every definition of the lists around it *)
Fixpoint multi_order_at (vis : list vname) (p : path) (m : mapp) (g : graph) : bool :=
  let 'Graph gi gn ns _ := g in
  let vis0 := gi ++ gn ++ vis in
  match p with
  | [] => multi_order_okb vis0 m ns
  | (idx, key) :: p' =>
    match nth_error ns idx with
    | Some n =>
      match find_sub key (n_subs n) with
      | Some sg => multi_order_at (defs_nodes ns ++ vis0) p' m sg
      | None => false
      end
    | None => false
    end
  end.

Fixpoint multi_order_pass (ext : list vname) (l : list (path * mapp)) (g : graph) : bool :=
  match l with
  | [] => true
  | (p, m) :: t =>
    multi_order_at ext p m g &&
    match apply_at_m p m g with Some g' => multi_order_pass ext t g' | None => false end
  end.

(* the observed container is a rearrangement of the model's container, at every nesting level (what validity needs
   besides the order itself, whatever the order rule) *)
Fixpoint remove1_by (eqb : node -> node -> bool) (n : node) (l : list node) : option (list node) :=
  match l with
  | [] => None
  | h :: t => if eqb n h then Some t else option_map (cons h) (remove1_by eqb n t)
  end.

Fixpoint permb_by (eqb : node -> node -> bool) (a b : list node) : bool :=
  match a with
  | [] => match b with [] => true | _ => false end
  | h :: t => match remove1_by eqb h b with Some b' => permb_by eqb t b' | None => false end
  end.

Fixpoint sim_graph (fuel : nat) (g h : graph) : bool :=
  match fuel with
  | O => false
  | S f =>
    let 'Graph gi gn ns go := g in
    let 'Graph hi hn ms ho := h in
    list_eqb String.eqb gi hi && list_eqb String.eqb gn hn && list_eqb String.eqb go ho &&
    permb_by (fun n m =>
                let 'Node d o i ou at_ s := n in
                let 'Node d' o' i' ou' at_' s' := m in
                String.eqb d d' && String.eqb o o' && list_eqb (opt_eqb String.eqb) i i' && list_eqb String.eqb ou ou' &&
                list_eqb (fun x y => String.eqb (fst x) (fst y) && attrv_eqb (snd x) (snd y)) at_ at_' &&
                list_eqb (fun x y => String.eqb (fst x) (fst y) && sim_graph f (snd x) (snd y)) s s') ns ms
  end.

(* ---- the container state over generalised applications ------------------------------------------------------------ *)
Inductive mevent :=
| MVisit (d : delta)
| MSplice (p : path) (m : mapp) (d : delta) (cmap : list (vname * vname)) (cattrs : list (list (string * attrv))).

Definition fn_okb_m (d : delta) (m : mapp) (s : graph) (ov : option string) (cmap : list (vname * vname))
           (cattrs : list (list (string * attrv))) : bool :=
  match d_fn d, ov with
  | None, _ => true
  | Some q, Some o =>
    list_eqb node_eqb (fq_body q) (fn_body cmap cattrs (m_matched m (g_nodes s))) &&
    (list_eqb String.eqb (fq_used q) (map n_dom (m_matched m (g_nodes s))) ||
     list_eqb String.eqb (fq_used q) (map n_dom (fq_body q))) &&
    match m_new m with
    | [c] => String.eqb (n_op c) (fq_name q ++ ":" ++ o)%string && String.eqb (n_dom c) (fq_dom q) &&
             match cmap with
             | [] => extract_okb (n_dom c) (n_op c) (fq_ins q) (m_matched m (g_nodes s)) (fq_outs q) &&
                     list_eqb (opt_eqb String.eqb) (n_ins c) (map Some (fq_ins q)) && list_eqb String.eqb (n_outs c) (fq_outs q)
             | _ => extract_const_okb (n_dom c) (n_op c) (fq_ins q) cmap cattrs (m_matched m (g_nodes s)) (fq_outs q) &&
                    list_eqb (opt_eqb String.eqb) (n_ins c) (map Some (fq_ins q)) && list_eqb String.eqb (n_outs c) (fq_outs q)
             end
    | _ => false
    end
  | Some _, None => false
  end.

(* codes as in State.run_events *)
Fixpoint run_mevents (fx : flags) (i : nat) (evs : list mevent) (g : graph) (s : mstate) : nat * nat * option (graph * mstate) :=
  match evs with
  | [] => (0, i, Some (g, s))
  | MVisit d :: t =>
    match visit fx d s with
    | Some s' => run_mevents fx (S i) t g s'
    | None => (2, i, None)
    end
  | MSplice p m d cmap cattrs :: t =>
    match site p g, apply_at_m p m g with
    | Some sg, Some g' =>
      match site p g' with
      | Some sg' =>
        match splice fx (used_in sg') d s with
        | Some (s', ov) =>
          if fn_okb_m d m sg ov cmap cattrs then run_mevents fx (S i) t g' s' else (5, i, None)
        | None => (2, i, None)
        end
      | None => (1, i, None)
      end
    | None, _ => (1, i, None)
    | _, None => (3, i, None)
    end
  end.

Definition check_state_m (fx : flags) (tops : list nat) (evs : list mevent) (g : graph) (s : mstate) (gf : graph) (sf : mstate)
  : nat * nat * nat :=
  match run_mevents fx 0 evs g s with
  | (0, i, Some (g', s')) => if graph_eqb g' gf then (0, i, state_diff tops s' sf) else (0, i, 9)
  | (c, i, _) => (c, i, 0)
  end.

(* the sort the implementation ran on a container, against the order rule.
   0: the observed container is rsort_graph of the container before the sort (and ordered);
   1: it is an ordered rearrangement of it (at every level) but not the one the one-level rule picks;
   2: neither -- the sort lost, duplicated or misplaced a node; 3: the model's sort finds a cycle *)
Definition check_sort (ext : list vname) (before after : graph) : nat :=
  match rsort_graph (S (depth_graph before)) before with
  | Some g => if graph_eqb g after then (if topo_graph ext after then 0 else 2)
              else if sim_graph (S (depth_graph before)) before after && topo_graph ext after then 1 else 2
  | None => 3
  end.
