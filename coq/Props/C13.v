(* C13 property theorems (names part): statements only, each closed by `exact`, Print Assumptions beneath.
   `kwlist` is the keyword table regenerated from onnxscript/backend/onnx_export.py on every run
   (Gen/ExportTables.v); its side condition kw_wf is re-established by computation on that finite table.
   The loop un-SSA theorems are in Props/C13_unssa.v. *)
From Coq Require Import List String.
Import ListNotations.
Require Import OV.Gen.ExportTables OV.Export.Cleanup OV.Export.CleanupProofs.
Local Open Scope string_scope.

(* the name clean-up of the exporter, with the keyword list found in the source *)
Definition clean : string -> string := cleanup kwlist.

Theorem C13_kwlist_wellformed : kw_wf kwlist = true.
Proof. vm_compute. reflexivity. Qed.
Print Assumptions C13_kwlist_wellformed.

(* every non-empty name (the exporter asserts non-emptiness) is turned into an ASCII Python identifier
   that is not one of the listed keywords -- for all strings *)
Theorem C13_cleanup_valid_identifier : forall s, s <> "" -> pynameb kwlist (clean s) = true.
Proof. exact (cleanup_valid_identifier kwlist C13_kwlist_wellformed). Qed.
Print Assumptions C13_cleanup_valid_identifier.

Example C13_cleanup_examples :
  clean "layers.0/foo:1" = "layers_0_foo_1" /\ clean "5" = "__5" /\ clean "if" = "r_if" /\ clean "_x1" = "_x1".
Proof. vm_compute. repeat split. Qed.

Theorem C13_cleanup_idempotent : forall s, s <> "" -> clean (clean s) = clean s.
Proof. exact (cleanup_idempotent kwlist C13_kwlist_wellformed). Qed.
Print Assumptions C13_cleanup_idempotent.

(* names that are already usable are kept: the round trip preserves them *)
Theorem C13_cleanup_keeps_valid_names : forall s, pynameb kwlist s = true -> clean s = s.
Proof. exact (cleanup_fixes_pynames kwlist). Qed.
Print Assumptions C13_cleanup_keeps_valid_names.

(* the clean-up is NOT injective: two distinct ONNX values can be given one Python variable
   (replayed on the real exporter by the harness: finding C13:names:collision-after-cleanup) *)
Theorem C13_cleanup_injective_refuted :
  exists a b, a <> b /\ a <> "" /\ b <> "" /\ clean a = clean b.
Proof. exact (cleanup_not_injective kwlist C13_kwlist_wellformed). Qed.
Print Assumptions C13_cleanup_injective_refuted.

Theorem C13_cleanup_injective_refuted_digit : clean "1x" = clean "__1x".
Proof. exact (cleanup_not_injective_digit kwlist C13_kwlist_wellformed). Qed.
Print Assumptions C13_cleanup_injective_refuted_digit.

(* the executable collision check decides injectivity of the clean-up on the names of one model:
   this is the hypothesis under which distinct ONNX values stay distinct Python variables *)
Theorem C13_collision_free_sound : forall names, collision_freeb kwlist names = true ->
  forall a b, In a names -> In b names -> clean a = clean b -> a = b.
Proof. exact (collision_free_sound kwlist). Qed.
Print Assumptions C13_collision_free_sound.

Theorem C13_collision_free_complete : forall names, collision_freeb kwlist names = false ->
  exists a b, In a names /\ In b names /\ a <> b /\ clean a = clean b.
Proof. exact (collision_free_complete kwlist). Qed.
Print Assumptions C13_collision_free_complete.

Example C13_collision_free_nontrivial :
  collision_freeb kwlist ["x"; "a.b"; "if"; "0"; "x"] = true /\ collision_freeb kwlist ["x"; "a.b"; "a_b"] = false.
Proof. vm_compute. split; reflexivity. Qed.

(* rename=True: one fresh short-name mapper applied to any sequence of names gives two names the same
   short name exactly when their cleaned names coincide (so it is injective on distinct cleaned names
   and inherits the collisions of the clean-up), and every short name is a usable Python name *)
Theorem C13_short_names_injective_on_cleaned : forall names st' rs,
  short_rename_all kwlist [] names = (st', rs) ->
  forall i j a b ra rb,
    nth_error names i = Some a -> nth_error names j = Some b ->
    nth_error rs i = Some ra -> nth_error rs j = Some rb ->
    (ra = rb <-> clean a = clean b).
Proof. exact (short_rename_injective_on_cleaned kwlist). Qed.
Print Assumptions C13_short_names_injective_on_cleaned.

Theorem C13_short_names_valid : forall k, pynameb kwlist (vname k) = true.
Proof. exact (fun k => vname_valid kwlist k C13_kwlist_wellformed). Qed.
Print Assumptions C13_short_names_valid.

Example C13_short_names_example :
  snd (short_rename_all kwlist [] ["x"; "a.b"; "y"; "a_b"; "x"]) = ["v1"; "v2"; "v3"; "v2"; "v1"].
Proof. vm_compute. reflexivity. Qed.
