(* C05, family _fuse_conv_affine.py: property theorems (statements only, closed by `exact`). *)
From Coq Require Import ZArith List Ring.
Require Import OV.Rules.ConvAffine OV.Rules.ConvAffineProofs.
Import ListNotations.
Open Scope Z_scope.

(* ConvAffineFusion: (W.x + b)*s + o = (W*s).x + (b*s + o) for EVERY convolution (padded taps included), any commutative ring *)
Theorem C05_convaffine_conv_then_affine :
  forall (F : Type) (zero one : F) (add mul sub : F -> F -> F) (opp : F -> F),
  ring_theory zero one add mul sub opp (@eq F) ->
  forall ws b xs s o,
    affine F add mul s o (conv_out F zero add mul ws b xs) =
    conv_out F zero add mul (scaled_w F mul ws s) (conv_affine_b F add mul b s o) xs.
Proof. exact conv_affine_sound. Qed.
Print Assumptions C05_convaffine_conv_then_affine.

(* AffineConvFusion: W.(x*s + o) + b = (W*s).x + (b + o*sum W) when every kernel tap reads a data element (no padding) *)
Theorem C05_convaffine_affine_then_conv :
  forall (F : Type) (zero one : F) (add mul sub : F -> F -> F) (opp : F -> F),
  ring_theory zero one add mul sub opp (@eq F) ->
  forall ws b xs s o, (length ws <= length xs)%nat ->
    conv_out F zero add mul ws b (map (fun v => Some (affine F add mul s o v)) xs) =
    conv_out F zero add mul (scaled_w F mul ws s) (affine_conv_b F zero add mul ws b o) (map Some xs).
Proof. exact affine_conv_sound. Qed.
Print Assumptions C05_convaffine_affine_then_conv.

Theorem C05_convaffine_padding_refuted : exists ws b s o,
  conv_out Z 0 Z.add Z.mul ws b [None] <>
  conv_out Z 0 Z.add Z.mul (scaled_w Z Z.mul ws s) (affine_conv_b Z 0 Z.add Z.mul ws b o) [None].
Proof. exact affine_conv_padding_refuted. Qed.
Print Assumptions C05_convaffine_padding_refuted.

(* shape of b[M]*scale + offset for one-element scale/offset of ranks rs, ro *)
Theorem C05_convaffine_bias_rank : forall M rs ro,
  length (bcast (bcast [M] (ones rs)) (ones ro)) = Nat.max 1 (Nat.max rs ro).
Proof. exact conv_affine_bias_rank. Qed.
Print Assumptions C05_convaffine_bias_rank.

(* as read, a [1,1,1,1]-shaped scale yields a rank-4 Conv bias (finding C05:convaffine:singleton-rank-gt1-bias) *)
Theorem C05_convaffine_bias_rank_refuted : exists M rs ro,
  length (bcast (bcast [M] (ones rs)) (ones ro)) <> 1%nat.
Proof. exact conv_affine_bias_rank_refuted. Qed.
Print Assumptions C05_convaffine_bias_rank_refuted.

Theorem C05_convaffine_fixed_rank_one : forall p out, ca_rule true p = Some out -> snd out = 1%nat /\
  (scale_rank p <= length (cw_shape p))%nat /\ (offset_rank p <= length (cw_shape p))%nat.
Proof. exact ca_fixed_rank_one. Qed.
Print Assumptions C05_convaffine_fixed_rank_one.
