"""C08 helper: argument generators for the second group of modelled families (c08_fams2)."""
from __future__ import annotations

from harness.c08_exec import spec
from harness.c08_gen import numel, pick_dtype, rand_shape, tensor


# ----------------------------------------------------------------------------- aten_diagonal

def gen_diagonal(rng, n):
    for i in range(n):
        r = rng.choice([2, 2, 2, 3, 3, 4])
        hi = {2: 5, 3: 4, 4: 3}[r]
        sh = [rng.randint(1, hi) for _ in range(r)]
        if i % 9 == 0:
            sh[rng.randrange(r)] = 0                       # an empty tensor now and then
        d1, d2 = rng.sample(range(r), 2)
        n1, n2 = sh[d1], sh[d2]
        if i % 4 != 3 and n1 == n2:                         # mostly non-square
            sh[d2] = n2 = max(0, n1 + rng.choice([-2, -1, 1, 2]))
        if rng.random() < 0.45:
            d1 -= r
        if rng.random() < 0.45:
            d2 -= r
        m = max(n1, n2)
        off = rng.choice([0, 1, -1, 2, -2, rng.randint(-m - 1, m + 1), rng.randint(-m - 1, m + 1), n2, -n1, n2 - 1, 1 - n1])
        dt = pick_dtype(rng, ("int64", "int64", "int32", "float32", "bool"))
        yield [tensor(rng, sh, dt, kind="rand" if i % 2 else "iota"), off, d1, d2], {}


# ----------------------------------------------------------------------------- pooling

def _pool_args(rng, e, i, dilation=True):
    batched = rng.random() < 0.6
    sp = [rng.randint(1, {1: 9, 2: 7, 3: 5}[e]) for _ in range(e)]
    sh = ([rng.randint(1, 2)] if batched else []) + [rng.randint(1, 2)] + sp
    ks = [rng.randint(1, min(3, m)) if rng.random() < 0.9 else rng.randint(1, 3) for m in sp]   # mostly kernel <= extent
    ps = [rng.randint(0, k // 2) for k in ks]
    if e > 1 and i % 3 == 0:                                # padding entries that differ (needs a kernel >= 2 somewhere)
        sp = [max(m, 2) for m in sp]
        sh = sh[:len(sh) - e] + sp
        ks = [max(k, 2) for k in ks]
        j = rng.randrange(e)
        ps = [1 if q == j else 0 for q in range(e)]
    st = [rng.randint(1, 3) for _ in range(e)]
    ds = [rng.choice([1, 1, 2]) for _ in range(e)] if dilation else [1] * e
    mode = rng.randrange(5)
    kernel = ks if mode else ks[0]                          # python int: all entries equal
    if not mode:
        ks = [ks[0]] * e
        ps = [min(p, ks[0] // 2) for p in ps]
    stride = rng.choice([[], [], st, st, st[0]])
    pk = rng.randrange(4)
    padding = ps if pk else ([ps[0]] if rng.random() < 0.5 else ps[0])
    dil = ds if rng.random() < 0.7 else ds[0]
    return sh, kernel, stride, padding, dil


def gen_max_pool(e):
    def gen(rng, n):
        for i in range(n):
            sh, kernel, stride, padding, dil = _pool_args(rng, e, i)
            yield [tensor(rng, sh, "float32", kind="rand"), kernel, stride, padding, dil, bool(rng.getrandbits(1))], {}
    return gen


def gen_avg_pool(e):
    def gen(rng, n):
        for i in range(n):
            sh, kernel, stride, padding, _ = _pool_args(rng, e, i, dilation=False)
            x = tensor(rng, sh, "float32", kind="rand")
            yield [x, kernel, stride, padding, bool(rng.getrandbits(1)), bool(rng.getrandbits(1))], {}
    return gen


# ----------------------------------------------------------------------------- constant_pad_nd / pad

def _pad_list(rng, sh, i, allow_negative=True):
    r = len(sh)
    pairs = rng.randint(0, r)
    pad = []
    single = i % 2 == 0 and pairs > 0                     # only one axis padded: values are compared along it
    keep = rng.randrange(pairs) if single else None
    for j in range(pairs):
        n = sh[r - 1 - j]
        if single and j != keep:
            pad += [0, 0]
            continue
        lo = -n if allow_negative else 0
        pb = rng.choice([0, 1, 2, max(lo, -1), lo, rng.randint(lo, 3)])
        rest = n + min(pb, 0)
        lo2 = -rest if allow_negative else 0
        pe = rng.choice([0, 1, 3, max(lo2, -1), lo2, rng.randint(lo2, 3)])
        pad += [pb, pe]
    return pad


def gen_constant_pad_nd(rng, n):
    for i in range(n):
        sh = rand_shape(rng, max_rank=3, min_rank=1)
        dt = pick_dtype(rng, ("int64", "int32", "float32"))
        v = rng.randint(-3, 9)
        yield [tensor(rng, sh, dt), _pad_list(rng, sh, i), float(v) if dt == "float32" or i % 5 == 0 else v], {}


def gen_pad(rng, n):
    for i in range(n):
        mode = "constant" if i % 4 else rng.choice(["reflect", "replicate"])
        if mode == "constant":
            sh = rand_shape(rng, max_rank=3, min_rank=1)
            v = rng.choice([None, None, float(rng.randint(-3, 9))])
            yield [tensor(rng, sh, "float32"), _pad_list(rng, sh, i)], {"mode": mode, "value": v}
        else:                                               # 2-D .. 4-D input, last one or two dims, 0 <= pad < extent
            sh = [rng.randint(2, 4) for _ in range(rng.randint(2, 3))]
            k = rng.randint(1, min(2, len(sh) - 1))
            pad = []
            for j in range(k):
                pad += [rng.randint(0, sh[-1 - j] - 1), rng.randint(0, sh[-1 - j] - 1)]
            yield [tensor(rng, sh, "float32"), pad], {"mode": mode}


# ----------------------------------------------------------------------------- unfold / unbind

def gen_unfold(rng, n):
    for i in range(n):
        if i % 25 == 0:
            yield [tensor(rng, [], pick_dtype(rng, ("int64", "float32"))), rng.choice([0, -1]), 1, rng.randint(1, 3)], {}
            continue
        sh = rand_shape(rng, max_rank=3, min_rank=1, allow_zero=(i % 7 == 0))
        d = rng.randint(-len(sh), len(sh) - 1)
        m = sh[d]
        size = rng.choice([rng.randint(0, m), rng.randint(0, m), m, 1, min(2, m)])
        step = rng.choice([1, 1, 2, 3, size + 1, max(1, size)])
        yield [tensor(rng, sh, pick_dtype(rng, ("int64", "int32", "float32", "bool"))), d, size, step], {}


def gen_unbind(rng, n):
    for i in range(n):
        sh = rand_shape(rng, max_rank=3, min_rank=1, allow_zero=False)
        d = rng.randint(-len(sh), len(sh) - 1)
        if i % 6 == 0:
            sh[d] = 1
        if i % 9 == 0 and len(sh) > 1:                      # an empty tensor whose unbound extent is not 0
            sh[(d + 1) % len(sh)] = 0
        yield [tensor(rng, sh, pick_dtype(rng, ("int64", "int32", "float32", "bool"))), d], {}


# ----------------------------------------------------------------------------- dim handling

def gen_gather(rng, n):
    for i in range(n):
        it = rng.choice(["int64", "int32"])
        if i % 8 == 0:                                      # rank-0 self
            ish = rng.choice([[], [1], [3]])
            yield [tensor(rng, [], pick_dtype(rng, ("int64", "float32"))), rng.choice([0, -1]), spec(it, ish, [0] * numel(ish))], {}
            continue
        if i % 8 == 1:                                      # rank-0 index on a rank-1 self
            m = rng.randint(1, 4)
            yield [tensor(rng, [m], pick_dtype(rng, ("int64", "float32"))), rng.choice([0, -1]), spec(it, [], [rng.randrange(m)])], {}
            continue
        sh = rand_shape(rng, max_rank=3, min_rank=1, allow_zero=False)
        d = rng.randint(-len(sh), len(sh) - 1)
        ish = [rng.randint(1, m) for m in sh]
        ish[d] = rng.randint(1, 4)
        idx = [rng.randrange(sh[d]) for _ in range(numel(ish))]
        yield [tensor(rng, sh, pick_dtype(rng, ("int64", "int32", "float32"))), d, spec(it, ish, idx)], {}


def gen_softmax(with_flag):
    def gen(rng, n):
        for i in range(n):
            sh = [] if i % 10 == 0 else rand_shape(rng, max_rank=3, min_rank=1, allow_zero=False)
            r = max(1, len(sh))
            x = tensor(rng, sh, "float32", kind="rand")
            yield [x, rng.randint(-r, r - 1)] + ([False] if with_flag else []), {}
    return gen


def gen_sort(rng, n):
    for i in range(n):
        sh = [] if i % 12 == 0 else rand_shape(rng, max_rank=3, min_rank=1, allow_zero=False)
        r = max(1, len(sh))
        dt = pick_dtype(rng, ("float32", "float32", "int64"))
        x = tensor(rng, sh, dt)                              # iota: distinct values, no ties
        perm = list(range(len(x["data"])))
        rng.shuffle(perm)
        x["data"] = [x["data"][p] for p in perm]
        yield [x, rng.randint(-r, r - 1), bool(rng.getrandbits(1))], {}
