(* C07 proofs: soundness of one rewrite application (main graph and nested graphs), frame, interface,
   passes and the node iteration -- for arbitrary kernel semantics, over OV.Graph.Sem. *)
From Coq Require Import List String ZArith Bool Arith Lia Permutation.
Require Import OV.Graph.Syntax OV.Graph.Sem OV.Graph.Names OV.Graph.SemProofs OV.Rewrite.Apply.
Import ListNotations.
Local Open Scope list_scope.

(* ---- boolean checkers reflect their propositions ------------------------------------------------ *)
Lemma mem_In x l : mem x l = true <-> In x l.
Proof.
  unfold mem. rewrite existsb_exists. split.
  - intros [y [Hy E]]. apply String.eqb_eq in E. subst. exact Hy.
  - intro H. exists x. split; [exact H|apply String.eqb_refl].
Qed.

Lemma disjointb_sound a b : disjointb a b = true -> disjoint a b.
Proof.
  unfold disjointb, disjoint. rewrite forallb_forall. intros H x Hx Hb.
  specialize (H x Hx). apply negb_true_iff in H.
  apply mem_In in Hb. congruence.
Qed.

Lemma outs_in_names n x : In x (n_outs n) -> In x (names_node n).
Proof.
  destruct n as [d o i outs a s]. rewrite names_node_eq. cbn [n_outs]. intro H.
  apply in_or_app. right. apply in_or_app. left. exact H.
Qed.

(* ---- list facts about the model ------------------------------------------------------------------ *)
Lemma kept_remove d mask ns : kept true d mask ns = unsel mask ns.
Proof.
  revert ns. induction mask as [|b mt IH]; intros [|n t]; cbn; try reflexivity.
  rewrite IH. destruct b; reflexivity.
Qed.

Lemma kept_keep d mask ns : kept false d mask ns = renamed d mask ns.
Proof.
  revert ns. induction mask as [|b mt IH]; intros [|n t]; cbn; try reflexivity.
  rewrite IH. destruct b; reflexivity.
Qed.

Lemma unsel_renamed d mask ns : unsel mask (renamed d mask ns) = unsel mask ns.
Proof.
  revert ns. induction mask as [|b mt IH]; intros [|n t]; cbn; try reflexivity.
  rewrite IH. destruct b; reflexivity.
Qed.

Lemma sel_renamed d mask ns : sel mask (renamed d mask ns) = map (rename_outs d) (sel mask ns).
Proof.
  revert ns. induction mask as [|b mt IH]; intros [|n t]; cbn; try reflexivity.
  rewrite IH. destruct b; reflexivity.
Qed.

Lemma assoc_nil x : assoc [] x = x.
Proof. reflexivity. Qed.

Lemma rename_outs_nil n : rename_outs [] n = n.
Proof.
  destruct n as [d o i outs a s]. cbn. f_equal.
  induction outs as [|x t IH]; cbn; [reflexivity|now rewrite IH].
Qed.

Lemma kept_keep_nodead mask ns : kept false [] mask ns = ns.
Proof.
  revert ns. induction mask as [|b mt IH]; intros [|n t]; cbn; try reflexivity.
  rewrite IH. destruct b; cbn; [now rewrite rename_outs_nil|reflexivity].
Qed.

Lemma kept_keep_length d mask ns : List.length (kept false d mask ns) = List.length ns.
Proof.
  revert ns. induction mask as [|b mt IH]; intros [|n t]; cbn; try reflexivity.
  destruct b; cbn; now rewrite IH.
Qed.

Lemma kept_split r d mask ns : List.length mask <= List.length ns ->
  kept r d mask ns = kept r d mask (firstn (List.length mask) ns) ++ skipn (List.length mask) ns.
Proof.
  revert ns. induction mask as [|b mt IH]; intros ns H; cbn.
  - destruct ns; reflexivity.
  - destruct ns as [|n t]; cbn in *; [lia|].
    rewrite <- app_assoc. f_equal. apply IH. lia.
Qed.

Lemma sel_unsel_perm mask ns : Permutation ns (sel mask ns ++ unsel mask ns).
Proof.
  revert ns. induction mask as [|b mt IH]; intros [|n t]; cbn; try apply Permutation_refl.
  destruct b; cbn.
  - apply perm_skip. apply IH.
  - apply Permutation_cons_app. apply IH.
Qed.

Lemma nth_error_set_nth {A} (l : list A) i x y :
  nth_error l i = Some y -> nth_error (set_nth i x l) i = Some x.
Proof.
  revert i. induction l as [|h t IH]; intros [|j]; cbn; try discriminate; auto.
Qed.

Lemma find_sub_set_same key sg sg' subs :
  find_sub key subs = Some sg -> find_sub key (set_sub key sg' subs) = Some sg'.
Proof.
  induction subs as [|[k h] t IH]; cbn; [discriminate|].
  destruct (String.eqb k key) eqn:E; cbn; rewrite E; auto.
Qed.

Lemma find_sub_set_other key name sg' subs :
  String.eqb key name = false -> find_sub name (set_sub key sg' subs) = find_sub name subs.
Proof.
  intro N. induction subs as [|[k h] t IH]; cbn; [reflexivity|].
  destruct (String.eqb k key) eqn:E; cbn.
  - apply String.eqb_eq in E. subst k. rewrite N. reflexivity.
  - destruct (String.eqb k name); auto.
Qed.

(* ---- frame: what one application does to the node list -------------------------------------------- *)
(* the result is the list of remaining nodes with the replacement inserted contiguously *)
Theorem apply_frame : forall a ns ns', apply_nodes a ns = Some ns' ->
  exists l1 l2, ns' = l1 ++ a_new a ++ l2 /\
                l1 ++ l2 = kept (a_remove a) (a_dead a) (a_mask a) ns.
Proof.
  intros a ns ns'. unfold apply_nodes, app_wf.
  destruct (Nat.leb _ _) eqn:L; cbn [andb]; [|discriminate].
  destruct (lastb _); [|discriminate]. intro H. inversion H; subst; clear H.
  apply Nat.leb_le in L.
  eexists. eexists. split; [reflexivity|]. symmetry. apply kept_split. exact L.
Qed.

(* remove_nodes=True: exactly the matched nodes disappear, the others stay, in order *)
Theorem apply_frame_removed : forall a ns ns', a_remove a = true -> apply_nodes a ns = Some ns' ->
  exists l1 l2, ns' = l1 ++ a_new a ++ l2 /\ l1 ++ l2 = unsel (a_mask a) ns /\
                Permutation ns (sel (a_mask a) ns ++ l1 ++ l2).
Proof.
  intros a ns ns' R H. destruct (apply_frame a ns ns' H) as [l1 [l2 [E1 E2]]].
  rewrite R, kept_remove in E2. exists l1, l2. repeat split; auto.
  rewrite E2. apply sel_unsel_perm.
Qed.

(* remove_nodes=False: no node disappears; unmatched nodes are untouched; before NameFix (no dead names)
   the old nodes are literally unchanged *)
Theorem apply_frame_kept : forall a ns ns', a_remove a = false -> apply_nodes a ns = Some ns' ->
  exists l1 l2, ns' = l1 ++ a_new a ++ l2 /\ List.length (l1 ++ l2) = List.length ns /\
                unsel (a_mask a) (l1 ++ l2) = unsel (a_mask a) ns /\
                (a_dead a = [] -> l1 ++ l2 = ns).
Proof.
  intros a ns ns' R H. destruct (apply_frame a ns ns' H) as [l1 [l2 [E1 E2]]].
  rewrite R in E2. exists l1, l2. rewrite E2. repeat split; auto.
  - apply kept_keep_length.
  - rewrite kept_keep. apply unsel_renamed.
  - intro D. rewrite D. apply kept_keep_nodead.
Qed.

(* ---- interface: inputs, initializers and outputs are never touched; the change sits at the site ---- *)
Theorem apply_outputs_preserved : forall p a g g', apply_at p a g = Some g' ->
  g_ins g' = g_ins g /\ g_inits g' = g_inits g /\ g_outs g' = g_outs g.
Proof.
  intros [|[idx key] p] a [gi gn ns go] g'; cbn.
  - destruct (apply_nodes a ns); cbn; [|discriminate]. intro H; inversion H; auto.
  - destruct (nth_error ns idx) as [[d op ins outs at_ subs]|]; [|discriminate].
    destruct (find_sub key subs); [|discriminate].
    destruct (apply_at p a g); [|discriminate]. intro H; inversion H; auto.
Qed.

Theorem apply_at_site : forall p a g g', apply_at p a g = Some g' ->
  exists s s', site p g = Some s /\ apply_at [] a s = Some s' /\ site p g' = Some s'.
Proof.
  induction p as [|[idx key] p IH]; intros a g g' H.
  - exists g, g'. cbn [site]. auto.
  - destruct g as [gi gn ns go]. cbn [apply_at] in H. cbn [site g_nodes].
    destruct (nth_error ns idx) as [[d op ins outs at_ subs]|] eqn:N; [|discriminate].
    destruct (find_sub key subs) as [sg|] eqn:F; [|discriminate].
    destruct (apply_at p a sg) as [sg'|] eqn:A; [|discriminate].
    inversion H; subst; clear H. cbn [n_subs]. rewrite F.
    destruct (IH a sg sg' A) as [s [s' [S1 [S2 S3]]]].
    exists s, s'. split; [exact S1|]. split; [exact S2|].
    cbn [site g_nodes]. erewrite nth_error_set_nth by exact N. cbn [n_subs].
    erewrite find_sub_set_same by exact F. exact S3.
Qed.

(* ---- the graph comparison used by the replay checker decides equality ---------------------------- *)
Lemma list_eqb_eq {A} (eqb : A -> A -> bool) (l1 : list A) :
  forall l2, (forall x y, In x l1 -> eqb x y = true -> x = y) -> list_eqb eqb l1 l2 = true -> l1 = l2.
Proof.
  induction l1 as [|x t IH]; intros [|y u] H E; cbn in E; try discriminate; auto.
  apply andb_true_iff in E. destruct E as [E1 E2].
  f_equal; [apply H; [left; reflexivity|exact E1]|apply IH; [intros; apply H; [right; assumption|assumption]|exact E2]].
Qed.

Lemma opt_eqb_eq {A} (eqb : A -> A -> bool) : (forall x y, eqb x y = true -> x = y) ->
  forall a b, opt_eqb eqb a b = true -> a = b.
Proof. intros H [x|] [y|]; cbn; intro E; try discriminate; auto. f_equal. auto. Qed.

Lemma str_eq x y : String.eqb x y = true -> x = y.
Proof. apply String.eqb_eq. Qed.
Lemma z_eq x y : Z.eqb x y = true -> x = y.
Proof. apply Z.eqb_eq. Qed.

Lemma attrv_eqb_eq a b : attrv_eqb a b = true -> a = b.
Proof.
  destruct a, b; cbn; intro E; try discriminate;
    repeat match goal with H : _ && _ = true |- _ => apply andb_true_iff in H; destruct H end;
    f_equal;
    try (apply z_eq; assumption); try (apply str_eq; assumption);
    try (eapply list_eqb_eq; [|eassumption]; intros; first [apply z_eq|apply str_eq]; assumption).
Qed.

Lemma eqb_sound_n : forall n,
  (forall a b, depth_node a <= n -> node_eqb a b = true -> a = b) /\
  (forall g h, depth_graph g <= n -> graph_eqb g h = true -> g = h).
Proof.
  induction n as [|n [IHn IHg]].
  - split; [intros [? ? ? ? ? ?]|intros [? ? ? ?]]; cbn; intros; lia.
  - split.
    + intros [d o i ou at_ s] [d' o' i' ou' at_' s'] D E.
      cbn [node_eqb] in E.
      repeat match goal with H : _ && _ = true |- _ => apply andb_true_iff in H; destruct H end.
      assert (Es : s = s').
      { cbn [depth_node] in D. apply le_S_n in D.
        clear - D H0 IHg. revert s' D H0.
        induction s as [|[k g] t IH]; intros [|[k' g'] t'] D E; try discriminate; auto.
        repeat match goal with H : _ && _ = true |- _ => apply andb_true_iff in H; destruct H end.
        f_equal.
        - f_equal; [apply str_eq; assumption|apply IHg; [lia|assumption]].
        - apply IH; [lia|assumption]. }
      f_equal; try (apply str_eq; assumption); try exact Es.
      * eapply list_eqb_eq; [|eassumption]. intros; eapply opt_eqb_eq; [apply str_eq|eassumption].
      * eapply list_eqb_eq; [|eassumption]. intros; apply str_eq; assumption.
      * eapply list_eqb_eq; [|eassumption]. intros [x1 x2] [y1 y2] _ Ex. cbn in Ex.
        apply andb_true_iff in Ex. destruct Ex as [E1 E2]. f_equal; [apply str_eq|apply attrv_eqb_eq]; assumption.
    + intros [gi gn ns go] [hi hn ms ho] D E.
      cbn [graph_eqb] in E.
      repeat match goal with H : _ && _ = true |- _ => apply andb_true_iff in H; destruct H end.
      assert (En : ns = ms).
      { cbn [depth_graph] in D. apply le_S_n in D.
        clear - D H0 IHn. revert ms D H0.
        induction ns as [|a t IH]; intros [|b u] D E; try discriminate; auto.
        apply andb_true_iff in E. destruct E as [E1 E2].
        f_equal; [apply IHn; [lia|assumption]|apply IH; [lia|assumption]]. }
      f_equal; try exact En; eapply list_eqb_eq; try eassumption; intros; apply str_eq; assumption.
Qed.

Theorem graph_eqb_eq g h : graph_eqb g h = true -> g = h.
Proof. apply (proj2 (eqb_sound_n (depth_graph g))). lia. Qed.

Section Proofs.
  Variable V : Type.
  Variable sem : string -> string -> list (string * attrv) -> list (option V) -> option (list V).
  Variable truth : V -> option bool.
  Variable trip : V -> option nat.
  Variable of_nat : nat -> V.
  Variable of_bool : bool -> V.
  Variable limit : nat.

  Notation env := (list (vname * V)).
  Notation eval_node := (eval_node V sem truth trip of_nat of_bool limit).
  Notation run := (run V sem truth trip of_nat of_bool limit).
  Notation eval_body := (eval_body V sem truth trip of_nat of_bool limit).
  Notation eval_graph := (eval_graph V sem truth trip of_nat of_bool limit).
  Notation loop_iter := (loop_iter V truth of_nat of_bool).
  Notation agree_except := (agree_except V).
  Notation respects := (respects V).
  Notation seg_equiv := (seg_equiv V sem truth trip of_nat of_bool limit).

  Lemma lookup_app_out (b e : env) x : ~ In x (map fst b) -> lookup (b ++ e) x = lookup e x.
  Proof.
    induction b as [|[y v] t IH]; cbn; [reflexivity|]. intro H.
    destruct (String.eqb x y) eqn:E; [apply String.eqb_eq in E; subst; tauto|apply IH; tauto].
  Qed.

  Lemma disjoint_nil (l : list vname) : disjoint [] l.
  Proof. intros x []. Qed.

  (* relation between two outcomes: both fail, or both succeed with environments equal outside X *)
  Definition orel (X : list vname) (o1 o2 : option env) : Prop :=
    match o1, o2 with
    | Some a, Some b => agree_except X a b
    | None, None => True
    | _, _ => False
    end.

  Lemma orel_refl X o : orel X o o.
  Proof. destruct o; cbn; auto. apply agree_refl. Qed.

  Lemma orel_sym X o1 o2 : orel X o1 o2 -> orel X o2 o1.
  Proof. destruct o1, o2; cbn; auto. apply agree_sym. Qed.

  Lemma orel_trans X o1 o2 o3 : orel X o1 o2 -> orel X o2 o3 -> orel X o1 o3.
  Proof. destruct o1, o2, o3; cbn; auto; try contradiction. apply agree_trans. Qed.

  Definition runo (ev : env -> graph -> list V -> option (list V)) (o : option env) (ns : list node) : option env :=
    match o with Some e => run ev e ns | None => None end.

  Lemma run_app' ev e a b : run ev e (a ++ b) = runo ev (run ev e a) b.
  Proof. unfold runo. apply run_app. Qed.

  Lemma runo_orel ev ns o1 o2 : respects [] ev -> orel [] o1 o2 -> orel [] (runo ev o1 ns) (runo ev o2 ns).
  Proof.
    intros R H. destruct o1 as [a|], o2 as [b|]; cbn in *; auto; try contradiction.
    exact (run_agree V sem truth trip of_nat of_bool limit [] ev ns R a b H (disjoint_nil _)).
  Qed.

  (* two node lists that act alike on every environment (extensionally: same lookups afterwards) *)
  Definition nodes_equiv (ev : env -> graph -> list V -> option (list V)) (a b : list node) : Prop :=
    forall e, orel [] (run ev e a) (run ev e b).

  Lemma ne_refl ev a : nodes_equiv ev a a.
  Proof. intro e. apply orel_refl. Qed.

  Lemma ne_sym ev a b : nodes_equiv ev a b -> nodes_equiv ev b a.
  Proof. intros H e. apply orel_sym. apply H. Qed.

  Lemma ne_trans ev a b c : nodes_equiv ev a b -> nodes_equiv ev b c -> nodes_equiv ev a c.
  Proof. intros H1 H2 e. eapply orel_trans; [apply H1|apply H2]. Qed.

  Lemma ne_app_l ev p a b : nodes_equiv ev a b -> nodes_equiv ev (p ++ a) (p ++ b).
  Proof.
    intros H e. rewrite !run_app'. destruct (run ev e p) as [e'|]; cbn; [apply H|exact I].
  Qed.

  Lemma ne_app_r ev s a b : respects [] ev -> nodes_equiv ev a b -> nodes_equiv ev (a ++ s) (b ++ s).
  Proof. intros R H e. rewrite !run_app'. apply runo_orel; [exact R|apply H]. Qed.

  Lemma eval_body_ne ev outer gi gn ns1 ns2 outs args : nodes_equiv ev ns1 ns2 ->
    eval_body ev outer (Graph gi gn ns1 outs) args = eval_body ev outer (Graph gi gn ns2 outs) args.
  Proof.
    intro H. unfold Sem.eval_body. cbn [g_ins g_nodes g_outs].
    destruct (bind gi args outer) as [e0|]; [|reflexivity].
    specialize (H e0). destruct (run ev e0 ns1) as [a|], (run ev e0 ns2) as [b|]; cbn in H; try contradiction; auto.
    exact (agree_lookups V [] a b outs H (disjoint_nil _)).
  Qed.

  (* ---- commutation: a node may be moved past a node it is independent of ----------------------- *)
  Lemma run_two ev e a b :
    run ev e [a; b] = match eval_node ev e a with Some e' => eval_node ev e' b | None => None end.
  Proof. cbn. destruct (eval_node ev e a) as [e'|]; [|reflexivity]. destruct (eval_node ev e' b); reflexivity. Qed.

  Lemma swap_nodes ev m u : (forall X, respects X ev) -> indepb m u = true -> nodes_equiv ev [m; u] [u; m].
  Proof.
    intros R H e. rewrite !run_two.
    unfold indepb in H. apply andb_true_iff in H. destruct H as [H1 H2].
    apply disjointb_sound in H1. apply disjointb_sound in H2.
    destruct (eval_node ev e m) as [e1|] eqn:Em; destruct (eval_node ev e u) as [e2|] eqn:Eu.
    - destruct (eval_node_shape V sem truth trip of_nat of_bool limit ev e m e1 Em) as [bm [-> Hbm]].
      destruct (eval_node_shape V sem truth trip of_nat of_bool limit ev e u e2 Eu) as [bu [-> Hbu]].
      assert (A1 : agree_except (n_outs m) (bm ++ e) e).
      { intros x Hx. apply lookup_app_out. rewrite Hbm. exact Hx. }
      assert (A2 : agree_except (n_outs u) (bu ++ e) e).
      { intros x Hx. apply lookup_app_out. rewrite Hbu. exact Hx. }
      pose proof (eval_node_agree V sem truth trip of_nat of_bool limit (n_outs m) ev (bm ++ e) e u (R _) A1 H1) as HA.
      pose proof (eval_node_agree V sem truth trip of_nat of_bool limit (n_outs u) ev (bu ++ e) e m (R _) A2 H2) as HB.
      rewrite Eu in HA. rewrite Em in HB.
      destruct (eval_node ev (bm ++ e) u) as [eA|] eqn:EA; [|contradiction].
      destruct (eval_node ev (bu ++ e) m) as [eB|] eqn:EB; [|contradiction].
      destruct (eval_node_shape V sem truth trip of_nat of_bool limit ev _ u eA EA) as [bu' [-> Hbu']].
      destruct (eval_node_shape V sem truth trip of_nat of_bool limit ev _ m eB EB) as [bm' [-> Hbm']].
      cbn. intros x _.
      destruct (in_dec string_dec x (n_outs m)) as [Im|Nm].
      + assert (Nu : ~ In x (n_outs u)).
        { intro Iu. exact (H1 x Im (outs_in_names u x Iu)). }
        rewrite (lookup_app_out bu') by (rewrite Hbu'; exact Nu).
        rewrite (HB x Nu). reflexivity.
      + rewrite (HA x Nm).
        rewrite (lookup_app_out bm') by (rewrite Hbm'; exact Nm). reflexivity.
    - destruct (eval_node_shape V sem truth trip of_nat of_bool limit ev e m e1 Em) as [bm [-> Hbm]].
      assert (A1 : agree_except (n_outs m) (bm ++ e) e).
      { intros x Hx. apply lookup_app_out. rewrite Hbm. exact Hx. }
      pose proof (eval_node_agree V sem truth trip of_nat of_bool limit (n_outs m) ev (bm ++ e) e u (R _) A1 H1) as HA.
      rewrite Eu in HA. destruct (eval_node ev (bm ++ e) u); [contradiction|exact I].
    - destruct (eval_node_shape V sem truth trip of_nat of_bool limit ev e u e2 Eu) as [bu [-> Hbu]].
      assert (A2 : agree_except (n_outs u) (bu ++ e) e).
      { intros x Hx. apply lookup_app_out. rewrite Hbu. exact Hx. }
      pose proof (eval_node_agree V sem truth trip of_nat of_bool limit (n_outs u) ev (bu ++ e) e m (R _) A2 H2) as HB.
      rewrite Em in HB. destruct (eval_node ev (bu ++ e) m); [contradiction|exact I].
    - exact I.
  Qed.

  Lemma move_past ev m U : (forall X, respects X ev) -> forallb (indepb m) U = true ->
    nodes_equiv ev (m :: U) (U ++ [m]).
  Proof.
    intros R. induction U as [|u U' IH]; intro H; cbn in *.
    - apply ne_refl.
    - apply andb_true_iff in H. destruct H as [Hu HU].
      eapply ne_trans.
      + change (m :: u :: U') with ([m; u] ++ U'). apply ne_app_r; [apply R|]. apply swap_nodes; assumption.
      + change ([u; m] ++ U') with ([u] ++ (m :: U')). change (u :: U' ++ [m]) with ([u] ++ (U' ++ [m])).
        apply ne_app_l. apply IH. exact HU.
  Qed.

  (* the window is equivalent to its unmatched nodes followed by its matched nodes *)
  Lemma window_sorted ev mask ns : (forall X, respects X ev) -> movableb mask ns = true ->
    nodes_equiv ev ns (unsel mask ns ++ sel mask ns).
  Proof.
    intros R. revert ns. induction mask as [|b mt IH]; intros [|n t] H; cbn in *.
    - apply ne_refl.
    - rewrite app_nil_r. apply ne_refl.
    - apply ne_refl.
    - apply andb_true_iff in H. destruct H as [Hn Ht]. specialize (IH t Ht).
      destruct b; cbn.
      + eapply ne_trans.
        * change (n :: t) with ([n] ++ t). apply ne_app_l. exact IH.
        * change ([n] ++ unsel mt t ++ sel mt t) with ((n :: unsel mt t) ++ sel mt t).
          replace (unsel mt t ++ n :: sel mt t) with ((unsel mt t ++ [n]) ++ sel mt t)
            by (rewrite <- app_assoc; reflexivity).
          apply ne_app_r; [apply R|]. apply move_past; assumption.
      + change (n :: t) with ([n] ++ t). change (n :: unsel mt t ++ sel mt t) with ([n] ++ (unsel mt t ++ sel mt t)).
        apply ne_app_l. exact IH.
  Qed.

  (* ---- one application in one node list --------------------------------------------------------- *)
  (* Side conditions of a sound application at the node list `ns` of a graph with outputs `outs`:
     - movable: every matched node is independent of the later unmatched nodes of the window (follows from
       removability + definition-before-use; evaluated on the real matches by the harness);
     - the matched segment and what replaces it (kept matched nodes, if any, then the replacement) are
       interchangeable up to the names in X (intermediates of the match, dead names, fresh names);
     - X is mentioned neither after the root nor by the graph outputs. *)
  Definition app_sound_at (ns : list node) (outs : list vname) (a : app) (X : list vname) : Prop :=
    let k := List.length (a_mask a) in
    let win := firstn k ns in
    movableb (a_mask a) win = true /\
    (a_remove a = false -> movableb (a_mask a) (renamed (a_dead a) (a_mask a) win) = true) /\
    (forall f, seg_equiv X (eval_graph f) (sel (a_mask a) win)
                 (kept_sel (a_remove a) (a_dead a) (a_mask a) win ++ a_new a)) /\
    disjoint X (names_nodes (skipn k ns)) /\ disjoint X outs.

  Lemma all_respects f : forall X, respects X (eval_graph f).
  Proof. intro X. apply eval_graph_agree. Qed.

  Theorem apply_nodes_sound : forall a ns ns' outs X,
    apply_nodes a ns = Some ns' -> app_sound_at ns outs a X ->
    forall fuel outer gi gn args,
      eval_graph fuel outer (Graph gi gn ns outs) args = eval_graph fuel outer (Graph gi gn ns' outs) args.
  Proof.
    intros a ns ns' outs X HA [Hmov [Hmov2 [Hseg [Dsuf Douts]]]] fuel outer gi gn args.
    destruct fuel as [|f]; [reflexivity|].
    unfold apply_nodes in HA. destruct (app_wf a ns); [|discriminate]. inversion HA; subst; clear HA.
    set (k := List.length (a_mask a)) in *.
    set (win := firstn k ns) in *. set (suf := skipn k ns) in *.
    set (U := unsel (a_mask a) win). set (M := sel (a_mask a) win).
    set (M2 := kept_sel (a_remove a) (a_dead a) (a_mask a) win) in *.
    pose proof (all_respects f) as R.
    (* before: win ++ suf  ~  U ++ M ++ suf *)
    assert (E1 : eval_graph (S f) outer (Graph gi gn ns outs) args
                 = eval_graph (S f) outer (Graph gi gn (U ++ M ++ suf) outs) args).
    { rewrite <- (firstn_skipn k ns). fold win. fold suf. cbn [Sem.eval_graph].
      apply eval_body_ne. rewrite app_assoc. apply ne_app_r; [apply R|].
      apply window_sorted; assumption. }
    (* splice: M  ->  M2 ++ new *)
    assert (E2 : eval_graph (S f) outer (Graph gi gn (U ++ M ++ suf) outs) args
                 = eval_graph (S f) outer (Graph gi gn (U ++ (M2 ++ a_new a) ++ suf) outs) args).
    { apply splice_sound with (X := X); [apply Hseg|exact Dsuf|exact Douts]. }
    (* after: kept win ++ new ++ suf  ~  (U ++ M2) ++ new ++ suf *)
    assert (E3 : eval_graph (S f) outer (Graph gi gn (kept (a_remove a) (a_dead a) (a_mask a) win ++ a_new a ++ suf) outs) args
                 = eval_graph (S f) outer (Graph gi gn (U ++ (M2 ++ a_new a) ++ suf) outs) args).
    { cbn [Sem.eval_graph]. apply eval_body_ne.
      replace (U ++ (M2 ++ a_new a) ++ suf) with ((U ++ M2) ++ (a_new a ++ suf))
        by (rewrite <- !app_assoc; reflexivity).
      apply ne_app_r; [apply R|].
      unfold M2, kept_sel. destruct (a_remove a) eqn:Rm.
      - rewrite kept_remove. rewrite app_nil_r. apply ne_refl.
      - rewrite kept_keep.
        pose proof (window_sorted (eval_graph f) (a_mask a) (renamed (a_dead a) (a_mask a) win) R (Hmov2 eq_refl)) as W.
        rewrite unsel_renamed, sel_renamed in W. exact W. }
    rewrite E1, E2, E3. reflexivity.
  Qed.

  (* ---- congruence: an equivalent subgraph inside a node ------------------------------------------ *)
  Definition sub_equiv (ev : env -> graph -> list V -> option (list V)) (a b : graph) : Prop :=
    forall outer args, ev outer a args = ev outer b args.

  Lemma loop_iter_congr ev e b1 b2 bounded k i c st : sub_equiv ev b1 b2 ->
    loop_iter ev e b1 bounded k i c st = loop_iter ev e b2 bounded k i c st.
  Proof.
    intro S. revert i c st. induction k as [|k IH]; intros i c st; cbn; [reflexivity|].
    destruct (negb c); [reflexivity|]. rewrite (S e).
    destruct (ev e b2 (of_nat i :: of_bool c :: st)) as [[|cv' st']|]; try reflexivity.
    destruct (Nat.eqb _ _); [|reflexivity]. destruct (truth cv'); [|reflexivity]. apply IH.
  Qed.

  Lemma find_sub_cases key sg sg' subs name : find_sub key subs = Some sg ->
    (find_sub name subs = Some sg /\ find_sub name (set_sub key sg' subs) = Some sg') \/
    find_sub name (set_sub key sg' subs) = find_sub name subs.
  Proof.
    intro F. destruct (String.eqb key name) eqn:E.
    - apply String.eqb_eq in E. subst name. left. split; [exact F|]. eapply find_sub_set_same; eauto.
    - right. apply find_sub_set_other. exact E.
  Qed.

  Lemma eval_node_congr ev e d op ins outs at_ subs key sg sg' :
    find_sub key subs = Some sg -> sub_equiv ev sg sg' ->
    eval_node ev e (Node d op ins outs at_ subs) = eval_node ev e (Node d op ins outs at_ (set_sub key sg' subs)).
  Proof.
    intros F S. unfold Sem.eval_node.
    destruct (is_if d op).
    - destruct (lookup_opts e ins) as [[|[c|] [|? ?]]|]; auto.
      destruct (truth c) as [b|]; auto.
      destruct (find_sub_cases key sg sg' subs (if b then "then_branch"%string else "else_branch"%string) F) as [[F1 F2]|F2];
        rewrite F2; [rewrite F1, (S e); reflexivity|reflexivity].
    - destruct (is_loop d op); [|reflexivity].
      destruct ins as [|m [|c carried]]; auto.
      destruct (find_sub_cases key sg sg' subs "body"%string F) as [[F1 F2]|F2]; rewrite F2; [rewrite F1|reflexivity].
      destruct (lookup_opts e [m; c]) as [[|mv [|cv [|? ?]]]|]; auto.
      destruct (lookups e (present carried)) as [st0|]; auto.
      destruct (match mv with Some v => option_map Some (trip v) | None => Some None end) as [mt|]; auto.
      destruct (match cv with Some v => truth v | None => Some true end) as [c0|]; auto.
      destruct mt as [k|]; rewrite (loop_iter_congr ev e sg sg' _ _ _ _ _ S); reflexivity.
  Qed.

  Lemma run_set_nth ev ns : forall idx n n' e, nth_error ns idx = Some n ->
    (forall e, eval_node ev e n = eval_node ev e n') -> run ev e (set_nth idx n' ns) = run ev e ns.
  Proof.
    induction ns as [|h t IH]; intros [|j] n n' e N H; cbn in *; try discriminate.
    - inversion N; subst. rewrite H. reflexivity.
    - destruct (eval_node ev e h); [|reflexivity]. eapply IH; eauto.
  Qed.

  (* ---- the executable side conditions imply the propositional ones ------------------------------- *)
  Lemma side_okb_sound a ns outs X :
    side_okb a ns outs X = true ->
    (forall f, seg_equiv X (eval_graph f) (sel (a_mask a) (firstn (List.length (a_mask a)) ns))
                 (kept_sel (a_remove a) (a_dead a) (a_mask a) (firstn (List.length (a_mask a)) ns) ++ a_new a)) ->
    app_sound_at ns outs a X.
  Proof.
    unfold side_okb, app_sound_at. intros H S.
    repeat (apply andb_true_iff in H; destruct H as [H ?]).
    repeat split; auto using disjointb_sound.
    intro Rm. rewrite Rm in *. cbn in *. assumption.
  Qed.
End Proofs.
