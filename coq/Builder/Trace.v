(* Model C of C18: a trace of builder calls, the graph GraphBuilder builds from it (`build`), and the
   direct reading of the calls (`replay`).

   Source modelled (pinned tree):
     _internal/tape_builder.py  BuilderBase.call_op (333-425): cast inputs (literal promotion, CastLike
                                for an operand whose like-value has no known dtype), outputs, node name,
                                add; _input_to_ir_value (223-252)
     _internal/builder.py       GraphBuilder._get_or_create_constant (598-643: constant cache of the ROOT
                                builder, initializers in the ROOT graph), _adapt_outputs,
                                _generate_node_name, build_graph/subgraph (211-300: child builder, scope
                                stack copied, outputs renamed to the declared names), call (704-749)
   Values are identified by creation order (an ir.Value object); a node refers to the *final* name of a
   value, so the renaming of subgraph outputs to their declared names is applied when the value is
   allocated (`renames`, collected from the trace beforehand).
   `shared_counter` is probed on the real code: false on the pinned tree (count = number of nodes of the
   CURRENT graph), true with proposed_fixes/C18_subgraph_name_counter.diff (count = number of nodes of
   all graphs of the builder tree).  No proofs in this file. *)
From Coq Require Import String List Bool Arith ZArith.
Require Import OV.Graph.Syntax OV.Graph.Sem OV.Builder.Strings OV.Builder.Naming.
Import ListNotations.
Local Open Scope string_scope.

(* Which dtype a literal is promoted with (tape_builder._cast_inputs; C12 owns the theorems, here it is an input
   of the model, encoded in l_name / l_val by the harness's independent rule and checked by the graph
   comparison and by the onnxruntime-vs-NumPy oracle): the dtype of the first ir.Value operand at a position
   with the same schema type variable -- for a HOMOGENEOUS variadic input (Max, Sum, Concat ...) all positions
   share it --; the dtype of the literal's own Python type (int64 / float32 / bool) when no operand binds the
   variable, and at every position of a HETEROGENEOUS variadic input after the first (Loop v_initial, Scan
   initial_state_and_scan_inputs), where `build_computes_trace`'s `lit_val (l_val l)` is that own-typed tensor. *)
(* a Python literal operand after promotion: `l_key` identifies the cache key (value, dtype) up to
   Python equality, `l_name` is the initializer name used if the key is new: const_<value>_<dtype> for a
   scalar, const_1d_<cache size> / const_str_<cache size> otherwise; `l_val` identifies the tensor *)
Inductive litname := LNFixed (s : string) | LNIndexed (pre : string).
Record lit := Lit { l_key : string; l_name : litname; l_val : string }.

Inductive operand :=
| OVal (id : nat)                (* an ir.Value created earlier *)
| OLit (l : lit)                 (* literal, dtype known (from the like-value or the Python type) *)
| OLitCast (l : lit) (like : nat)(* literal next to a value of unknown dtype: CastLike(const, like) *)
| ONone.                         (* omitted optional input *)

Inductive outspec := ODefault (n : nat) | ONamed (names : list string).

Inductive call :=
(* op.<Op>(args..., attrs..., _outputs=..., graph-valued attrs built with builder.subgraph just before);
   also op.call(function, ...) with dom/op of the function *)
| COp (st : list string) (dom op : string) (args : list operand) (attrs : list (string * attrv))
      (subs : list (string * sub)) (outs : outspec)
(* nodes appended by a mechanism that is not modelled here (call_inline): the observed nodes, their
   observed names, and the observed names of the values they define *)
| CRaw (nodes : list node) (nnames : list string) (newvals : list string)
with sub :=
(* builder.subgraph(trace_function, inputs=[ir.Value(name=i)...], outputs=[ir.Value(name=d)...]):
   the body calls, the ids of the returned values and the declared output names ("" = keep) *)
| Sub (ins : list string) (body : list call) (rets : list nat) (decl : list string).

Record bcfg := BCfg { shared_counter : bool }.
Definition bcfg_pinned := BCfg false.
Definition bcfg_fixed := BCfg true.

Record bst := BSt {
  b_names : list string;                     (* final name of value id i at position i *)
  b_cache : list (string * (string * lit));  (* constant cache of the root builder: key -> (name, literal) *)
  b_total : nat;                             (* nodes created so far by all builders of the tree *)
  b_nnames : list string;                    (* node names in creation order *)
  b_anon : list string                       (* names of the values no trace id refers to: outputs of the CastLike
                                                nodes inserted by _cast_inputs, in creation order *)
}.

Definition name_of (s : bst) (id : nat) : string := nth id (b_names s) "?undefined".

Fixpoint assoc_last {A} (k : nat) (l : list (nat * A)) : option A :=
  match l with
  | [] => None
  | (k', v) :: r => match assoc_last k r with Some x => Some x | None => if Nat.eqb k k' then Some v else None end
  end.

Fixpoint assoc_str {A} (k : string) (l : list (string * A)) : option A :=
  match l with
  | [] => None
  | (k', v) :: r => if String.eqb k k' then Some v else assoc_str k r
  end.

(* declared output names of all subgraphs: value id -> final name *)
Fixpoint zip_renames (rets : list nat) (decl : list string) : list (nat * string) :=
  match rets, decl with
  | r :: rt, d :: dt => (if String.eqb d "" then [] else [(r, d)]) ++ zip_renames rt dt
  | _, _ => []
  end.

Fixpoint renames_call (c : call) : list (nat * string) :=
  match c with
  | COp _ _ _ _ _ subs _ =>
    (fix go (l : list (string * sub)) : list (nat * string) :=
       match l with [] => [] | (_, sb) :: r => (renames_sub sb ++ go r)%list end) subs
  | CRaw _ _ _ => []
  end
with renames_sub (sb : sub) : list (nat * string) :=
  match sb with
  | Sub _ body rets decl =>
    ((fix go (l : list call) : list (nat * string) :=
        match l with [] => [] | c :: r => (renames_call c ++ go r)%list end) body ++ zip_renames rets decl)%list
  end.

Definition renames_calls (l : list call) : list (nat * string) := flat_map renames_call l.

Section Build.
  Variable cf : bcfg.
  Variable renames : list (nat * string).

  Definition cnt (s : bst) (local : nat) : nat := if shared_counter cf then b_total s else local.

  (* a new ir.Value: next id, generated name unless a subgraph declares another one for it *)
  Definition fresh (s : bst) (gen : string) : bst * string :=
    let id := List.length (b_names s) in
    let nm := match assoc_last id renames with Some d => d | None => gen end in
    (BSt (b_names s ++ [nm]) (b_cache s) (b_total s) (b_nnames s) (b_anon s), nm).

  Fixpoint fresh_many (s : bst) (gens : list string) : bst * list string :=
    match gens with
    | [] => (s, [])
    | g :: r => let '(s1, n) := fresh s g in let '(s2, ns) := fresh_many s1 r in (s2, n :: ns)
    end.

  (* one more node in some graph of the tree *)
  Definition bump (s : bst) (nname : string) : bst :=
    BSt (b_names s) (b_cache s) (S (b_total s)) (b_nnames s ++ [nname]) (b_anon s).

  Definition note_anon (s : bst) (o : string) : bst :=
    BSt (b_names s) (b_cache s) (b_total s) (b_nnames s) (b_anon s ++ [o]).

  (* _get_or_create_constant *)
  Definition promote (s : bst) (l : lit) : bst * string :=
    match assoc_str (l_key l) (b_cache s) with
    | Some (n, _) => (s, n)
    | None =>
      let n := match l_name l with
               | LNFixed x => x
               | LNIndexed p => p ++ dec (List.length (b_cache s))
               end in
      (BSt (b_names s) (b_cache s ++ [(l_key l, (n, l))]) (b_total s) (b_nnames s) (b_anon s), n)
    end.

  (* _cast_inputs: operands in order; a CastLike node per OLitCast *)
  Fixpoint resolve (st : list string) (s : bst) (local : nat) (args : list operand)
    : bst * nat * list (option vname) * list node :=
    match args with
    | [] => (s, local, [], [])
    | a :: r =>
      match a with
      | OVal id =>
        let '(s', local', ins, pre) := resolve st s local r in (s', local', Some (name_of s id) :: ins, pre)
      | ONone =>
        let '(s', local', ins, pre) := resolve st s local r in (s', local', None :: ins, pre)
      | OLit l =>
        let '(s1, n) := promote s l in
        let '(s', local', ins, pre) := resolve st s1 local r in (s', local', Some n :: ins, pre)
      | OLitCast l like =>
        let '(s1, n) := promote s l in
        let c := cnt s1 local in
        (* the CastLike output is an ir.Value nobody else holds: it gets a name but no id here *)
        let o := qualify_value st (base_name "CastLike" c) in
        let s3 := note_anon (bump s1 (node_name st "CastLike" c)) o in
        let nd := Node "" "CastLike" [Some n; Some (name_of s like)] [o] [] [] in
        let '(s', local', ins, pre) := resolve st s3 (S local) r in (s', local', Some o :: ins, nd :: pre)
      end
    end.

  Definition out_names (st : list string) (op : string) (c : nat) (outs : outspec) : list string :=
    match outs with
    | ODefault n => value_names st op c n
    | ONamed ns => explicit_names st ns
    end.

  Fixpoint build_call (c : call) (s : bst) (local : nat) {struct c} : bst * nat * list node :=
    match c with
    | COp st dom op args attrs subs outs =>
      let '(s1, sgs) :=
        (fix gos (l : list (string * sub)) (s : bst) {struct l} : bst * list (string * graph) :=
           match l with
           | [] => (s, [])
           | (k, sb) :: r =>
             let '(s', g) := build_sub sb s in
             let '(s'', gs) := gos r s' in (s'', (k, g) :: gs)
           end) subs s in
      let '(s2, local2, ins, pre) := resolve st s1 local args in
      let c := cnt s2 local2 in
      let '(s3, onames) := fresh_many s2 (out_names st op c outs) in
      let s4 := bump s3 (node_name st op c) in
      (s4, S local2, (pre ++ [Node dom op ins onames attrs sgs])%list)
    | CRaw nodes nnames newvals =>
      let '(s1, _) := fresh_many s newvals in
      (BSt (b_names s1) (b_cache s1) (b_total s1 + List.length nodes) (b_nnames s1 ++ nnames) (b_anon s1),
       local + List.length nodes, nodes)
    end
  with build_sub (sb : sub) (s : bst) {struct sb} : bst * graph :=
    match sb with
    | Sub ins body rets _ =>
      let '(s1, inames) := fresh_many s ins in
      let '(s2, nodes) :=
        (fix go (l : list call) (s : bst) (local : nat) {struct l} : bst * list node :=
           match l with
           | [] => (s, [])
           | c :: r =>
             let '(s', local', ns) := build_call c s local in
             let '(s'', ns') := go r s' local' in (s'', (ns ++ ns')%list)
           end) body s1 0 in
      (s2, Graph inames [] nodes (map (name_of s2) rets))
    end.

  Fixpoint build_calls (l : list call) (s : bst) (local : nat) : bst * list node :=
    match l with
    | [] => (s, [])
    | c :: r =>
      let '(s', local', ns) := build_call c s local in
      let '(s'', ns') := build_calls r s' local' in (s'', (ns ++ ns')%list)
    end.
End Build.

Definition init_state (ins : list string) : bst := BSt ins [] 0 [] [].

(* the root graph: inputs, the trace, the ids of the outputs *)
Definition build_state (cf : bcfg) (ins : list string) (tr : list call) : bst * list node :=
  build_calls cf (renames_calls tr) tr (init_state ins) 0.

Definition build (cf : bcfg) (ins : list string) (tr : list call) (outs : list nat) : graph :=
  let '(s, nodes) := build_state cf ins tr in
  Graph ins (map (fun e => fst (snd e)) (b_cache s)) nodes (map (name_of s) outs).

Definition build_node_names (cf : bcfg) (ins : list string) (tr : list call) : list string :=
  b_nnames (fst (build_state cf ins tr)).

(* ---------------------------------------------------------------- direct reading of a trace *)
Section Replay.
  Variable V : Type.
  Variable sem : string -> string -> list (string * attrv) -> list (option V) -> option (list V).
  Variable lit_val : string -> V.          (* the tensor a literal denotes (by l_val) *)

  Definition n_outs_of (outs : outspec) : nat :=
    match outs with ODefault n => n | ONamed ns => List.length ns end.

  (* operands in order; an OLitCast contributes CastLike(constant, like-value) *)
  Fixpoint replay_args (env : list V) (args : list operand) : option (list (option V)) :=
    match args with
    | [] => Some []
    | a :: r =>
      match a with
      | OVal id =>
        match nth_error env id, replay_args env r with
        | Some v, Some vs => Some (Some v :: vs)
        | _, _ => None
        end
      | ONone => match replay_args env r with Some vs => Some (None :: vs) | None => None end
      | OLit l =>
        match replay_args env r with Some vs => Some (Some (lit_val (l_val l)) :: vs) | None => None end
      | OLitCast l like =>
        match nth_error env like with
        | Some lv =>
          match sem "" "CastLike" [] [Some (lit_val (l_val l)); Some lv] with
          | Some [cv] =>
            match replay_args env r with
            | Some vs => Some (Some cv :: vs)
            | None => None
            end
          | _ => None
          end
        | None => None
        end
      end
    end.

  (* straight-line traces only: a call with graph-valued attributes or raw nodes has no reading here *)
  Definition replay_call (env : list V) (c : call) : option (list V) :=
    match c with
    | COp _ dom op args attrs [] outs =>
      match replay_args env args with
      | Some vs =>
        match sem dom op attrs vs with
        | Some rs => if Nat.eqb (List.length rs) (n_outs_of outs) then Some (env ++ rs)%list else None
        | None => None
        end
      | None => None
      end
    | _ => None
    end.

  Fixpoint replay_calls (env : list V) (tr : list call) : option (list V) :=
    match tr with
    | [] => Some env
    | c :: r => match replay_call env c with Some env' => replay_calls env' r | None => None end
    end.

  Fixpoint nth_all (env : list V) (ids : list nat) : option (list V) :=
    match ids with
    | [] => Some []
    | i :: r => match nth_error env i, nth_all env r with
                | Some v, Some vs => Some (v :: vs)
                | _, _ => None
                end
    end.

  Definition replay (tr : list call) (args : list V) (outs : list nat) : option (list V) :=
    match replay_calls args tr with
    | Some env => nth_all env outs
    | None => None
    end.
End Replay.

(* straight-line calls of ordinary operators / functions: no graph-valued attribute, not the
   structurally interpreted If / Loop, no operand that needs a CastLike node *)
Definition plain_operand (a : operand) : bool := match a with OLitCast _ _ => false | _ => true end.
Definition straight_call (c : call) : bool :=
  match c with
  | COp _ dom op args _ [] _ => negb (is_if dom op) && negb (is_loop dom op) && forallb plain_operand args
  | _ => false
  end.
Definition straight (tr : list call) : bool := forallb straight_call tr.

(* ---------------------------------------------------------------- correspondence helpers *)
Definition ostr_eqb (a b : option string) : bool :=
  match a, b with Some x, Some y => String.eqb x y | None, None => true | _, _ => false end.
Fixpoint list_eqb {A} (f : A -> A -> bool) (a b : list A) : bool :=
  match a, b with
  | [], [] => true
  | x :: s, y :: t => f x y && list_eqb f s t
  | _, _ => false
  end.
Definition lz_eqb := list_eqb Z.eqb.
Definition attrv_eqb (a b : attrv) : bool :=
  match a, b with
  | AInt x, AInt y => Z.eqb x y
  | AInts x, AInts y => lz_eqb x y
  | AStr x, AStr y => String.eqb x y
  | AStrs x, AStrs y => list_eqb String.eqb x y
  | AFloat x, AFloat y => Z.eqb x y
  | AFloats x, AFloats y => lz_eqb x y
  | ATensor d s p, ATensor d' s' p' => Z.eqb d d' && lz_eqb s s' && lz_eqb p p'
  | ARef x, ARef y => String.eqb x y
  | AOther x, AOther y => String.eqb x y
  | _, _ => false
  end.
Definition attr_eqb (a b : string * attrv) : bool := String.eqb (fst a) (fst b) && attrv_eqb (snd a) (snd b).

Fixpoint node_eqb (a b : node) {struct a} : bool :=
  match a, b with
  | Node d o i ou ats su, Node d' o' i' ou' ats' su' =>
    String.eqb d d' && String.eqb o o' && list_eqb ostr_eqb i i' && list_eqb String.eqb ou ou' &&
    list_eqb attr_eqb ats ats' &&
    (fix go (l l' : list (string * graph)) {struct l} : bool :=
       match l, l' with
       | [], [] => true
       | (k, g) :: r, (k', g') :: r' => String.eqb k k' && graph_eqb g g' && go r r'
       | _, _ => false
       end) su su'
  end
with graph_eqb (a b : graph) {struct a} : bool :=
  match a, b with
  | Graph i ii n o, Graph i' ii' n' o' =>
    list_eqb String.eqb i i' && list_eqb String.eqb ii ii' && list_eqb String.eqb o o' &&
    (fix go (l l' : list node) {struct l} : bool :=
       match l, l' with
       | [], [] => true
       | x :: r, y :: r' => node_eqb x y && go r r'
       | _, _ => false
       end) n n'
  end.

(* a case: inputs, trace, output ids, the graph observed on the real code, its node names in creation
   order *)
Definition tcase := (list string * list call * list nat * graph * list string)%type.
Definition tagrees (cf : bcfg) (c : tcase) : bool :=
  let '(ins, tr, outs, g, nn) := c in
  graph_eqb (build cf ins tr outs) g && list_eqb String.eqb (build_node_names cf ins tr) nn.
Definition tcase_graph (c : tcase) : graph := let '(_, _, _, g, _) := c in g.
Fixpoint tdisagreeing (cf : bcfg) (i : nat) (cs : list tcase) : list nat :=
  match cs with [] => [] | c :: t => ((if tagrees cf c then [] else [i]) ++ tdisagreeing cf (S i) t)%list end.

(* every value id used as an operand exists when it is used (n = number of values created so far) *)
Definition operand_ok (n : nat) (a : operand) : bool :=
  match a with OVal id => Nat.ltb id n | OLitCast _ id => Nat.ltb id n | _ => true end.
Fixpoint ids_ok (n : nat) (tr : list call) : bool :=
  match tr with
  | [] => true
  | COp _ _ _ args _ _ outs :: r =>
    forallb (operand_ok n) args &&
    ids_ok (n + match outs with ODefault k => k | ONamed ns => List.length ns end) r
  | CRaw _ _ nv :: r => ids_ok (n + List.length nv) r
  end.

Definition call_lits (c : call) : list lit :=
  match c with
  | COp _ _ _ args _ _ _ =>
    flat_map (fun a => match a with OLit l => [l] | OLitCast l _ => [l] | _ => [] end) args
  | CRaw _ _ _ => []
  end.
