(* C01, the eager half: eager evaluation (Script/Eager.v: the Python function run natively on Tensor wrappers and plain Python
   values, operator dispatch through the regenerated Tensor method table, dynamic_cast_inputs per evaluator call, bool() /
   range() on tensors, attribute parameters as Python values) agrees with the plain-Python reading (Script/PySem.v, extended
   to attribute parameters by Script/PySemAttrs.v), hence -- through C01_graph_eq_python_nested_partial -- with the graph.

   Statements only; each closed by `exact`; Print Assumptions beneath.

   The full statement C01_eager_eq_python_full (no class) is FALSE of the faithful model and of the code: the refuted
   theorem below gives four witnesses, each replayed on the real code by harness/c01_eager.py (stream by-construction).
   Proved (C01_eager_eq_python_partial): the class Script/EagerClass.v -- if / for / while / trailing break nested to ANY
   depth, any kernels, literals / module constants / attribute parameters as operands on either side of + - * & and on
   the right of every operator, attribute parameters forwarded as attributes to op calls and to called script functions,
   tuple assignment, calls of other script functions (their meaning abstract, as in the reading) -- under the autocast
   specification as kernel laws L0 / L1 / LA and a kernel that resolves reference attributes.
   Not covered (by construction different, excluded by the class): reads of a `for` loop variable; `%`; and / or / not;
   an operator without reflected Tensor method, or a comparison, with a Python value on the left; a returned Python
   value; a Python value passed as tensor argument to a script function.  Not covered (law L1 is false of the real
   kernels there): a float literal that is not a float32 value beside a float64 tensor (known finding). *)
From Coq Require Import List String ZArith Bool.
Require Import OV.Graph.Syntax OV.Graph.Sem OV.Script.Syntax OV.Script.Sets OV.Gen.Analysis OV.Gen.ScriptTables OV.Script.Translate
               OV.Script.PySem OV.Script.TranslateProofs OV.Script.TranslateNestDefs
               OV.Script.Eager OV.Script.PySemAttrs OV.Script.EagerClass OV.Script.EagerProofs OV.Script.EagerExamples OV.Script.EagerCombined.
Import ListNotations.
Local Open Scope string_scope.

Definition C01_eager_eq_python_full : Prop :=
  forall (V : Type) sem truth trip of_nat while_limit globals dyn_cast fun_cast is_float avals,
    (forall d o attrs args, sem d o (map (resolve1 avals) attrs) args = sem d o attrs args) ->
    (forall l c, const_val V sem l = Some c -> dyn_cast l None = Some c) ->
    (forall l c y r, const_val V sem l = Some c -> sem1 V sem "" "CastLike" [] [Some c; Some y] = Some r -> dyn_cast l (Some y) = Some r) ->
    forall fuel f xs vs,
      eval_script_attrs V sem truth trip of_nat while_limit globals fuel f xs avals = Some vs ->
      eval_eager V sem truth trip while_limit globals dyn_cast fun_cast is_float fuel f xs avals = Some vs.

(* whatever the kernels mean -- provided a Python value promoted dynamically is the tensor the static promotion
   (Constant, then CastLike to the tensor bound to the same type variable) denotes: L0, L1; the tensor an attribute
   parameter is promoted to is the tensor of its value: LA; the kernel resolves reference attributes by the attribute
   values of the call --, for S any set of names closed under the assignments of Python values, D the loop variables,
   every attribute parameter given a value: where the reading is defined, eager evaluation returns the same values *)
Theorem C01_eager_eq_python_partial :
  forall (V : Type) sem truth trip of_nat while_limit globals dyn_cast fun_cast is_float avals S D A,
    (forall d o attrs args, sem d o (map (resolve1 avals) attrs) args = sem d o attrs args) ->
    (forall l c, const_val V sem l = Some c -> dyn_cast l None = Some c) ->
    (forall l c y r, const_val V sem l = Some c -> sem1 V sem "" "CastLike" [] [Some c; Some y] = Some r -> dyn_cast l (Some y) = Some r) ->
    globals_in S globals = true ->
    (forall a, In a A -> exists l, lookup_assoc a avals = Some l) ->
    (forall a k l c, lookup_assoc a avals = Some l -> kind_ok k l = true -> attr_tensor V sem a k = Some c -> const_val V sem l = Some c) ->
    forall fuel f xs vs,
      attr_names f = A -> (forall a, In a A -> In a S) -> block_eok S D A (f_body f) = true ->
      eval_script_attrs V sem truth trip of_nat while_limit globals fuel f xs avals = Some vs ->
      eval_eager V sem truth trip while_limit globals dyn_cast fun_cast is_float fuel f xs avals = Some vs.
Proof. exact eager_eq_script. Qed.
Print Assumptions C01_eager_eq_python_partial.

(* the laws are satisfiable: a typed kernel semantics (operands of different types are refused) under the resolving
   wrapper, for every attribute binding ... *)
Theorem C01_eager_laws_satisfiable : forall avals,
  let sem := sem_res avals ty_sem in
  (forall d o attrs args, sem d o (map (resolve1 avals) attrs) args = sem d o attrs args) /\
  (forall l c, const_val tv sem l = Some c -> ty_dyn_cast l None = Some c) /\
  (forall l c y r, const_val tv sem l = Some c -> sem1 tv sem "" "CastLike" [] [Some c; Some y] = Some r -> ty_dyn_cast l (Some y) = Some r) /\
  (forall a k l c, lookup_assoc a avals = Some l -> kind_ok k l = true -> attr_tensor tv sem a k = Some c -> const_val tv sem l = Some c).
Proof. exact ty_laws. Qed.
Print Assumptions C01_eager_laws_satisfiable.

(* ... and so is the class, on a program with an attribute parameter (promoted next to a tensor and forwarded as an
   attribute), a literal variable multiplied from the left (reflected method), a for loop holding an if/else, a while loop
   ending in a conditional break; reading and (as the theorem says) eager evaluation agree on two inputs *)
Theorem C01_eager_nonvacuous :
  let S := scalar_names [] exe_f in
  attr_names exe_f = ["alpha"] /\ (forall a, In a ["alpha"] -> In a S) /\
  block_eok S (loop_vars 40 (f_body exe_f)) ["alpha"] (f_body exe_f) = true /\ globals_in S [] = true /\
  eager_class [] exe_f = true /\
  exe_script [(true, 1); (false, 2)]%Z = Some [(true, 20); (true, 12)]%Z /\
  exe_eager [(true, 1); (false, 2)]%Z = Some [(true, 20); (true, 12)]%Z /\
  exe_script [(true, 1); (false, 0)]%Z = Some [(true, 16); (true, 12)]%Z /\
  exe_eager [(true, 1); (false, 0)]%Z = Some [(true, 16); (true, 12)]%Z.
Proof. exact exe_hyps. Qed.
Print Assumptions C01_eager_nonvacuous.

(* where eager mode differs by construction (typed toy kernels; every witness is outside the class):
   a float tensor plus the `for` loop variable (eager promotes the Python int, the reading / graph has no value);
   2.0 / x (eager raises as long as the regenerated method table has no Tensor.__rtruediv__: bin_refl_ok "Div" = false;
   with the proposed patch the clause turns into agreement); a returned Python value (eager raises);
   integer tensor % float literal (the converter's fmod=1 gives the C remainder -1, Tensor.__mod__ the floor modulo 1) *)
Theorem C01_eager_differs_by_construction_refuted :
  (run_script d_loopvar [(true, 1); (false, 3)]%Z = None /\ run_eager d_loopvar [(true, 1); (false, 3)]%Z = Some [(true, 4)%Z]) /\
  (run_script d_rdiv [(true, 2)%Z] = Some [(true, 4)%Z] /\
   run_eager d_rdiv [(true, 2)%Z] = if bin_refl_ok "Div" then Some [(true, 4)%Z] else None) /\
  (run_script d_retscalar [(true, 2)%Z] = Some [(true, 3); (true, 2)]%Z /\ run_eager d_retscalar [(true, 2)%Z] = None) /\
  (run_script d_mod [(false, -3)%Z] = Some [(false, -1)%Z] /\ run_eager d_mod [(false, -3)%Z] = Some [(false, 1)%Z]) /\
  eager_class [] d_loopvar = false /\ eager_class [] d_rdiv = bin_refl_ok "Div" /\ eager_class [] d_retscalar = false /\ eager_class [] d_mod = false.
Proof. exact eager_differs_by_construction. Qed.
Print Assumptions C01_eager_differs_by_construction_refuted.

(* the wrapper that gives reference attributes their ONNX meaning satisfies the first hypothesis, for every kernel *)
Theorem C01_resolving_kernel : forall (V : Type) avals (sem0 : string -> string -> list (string * attrv) -> list (option V) -> option (list V))
  d o attrs args, sem_res avals sem0 d o (map (resolve1 avals) attrs) args = sem_res avals sem0 d o attrs args.
Proof. exact sem_res_resolves. Qed.
Print Assumptions C01_resolving_kernel.

(* the reading with attribute parameters extends the reading of Script/PySem.v *)
Theorem C01_reading_with_attributes_conservative :
  forall (V : Type) sem truth trip of_nat while_limit globals fuel f (xs : list V) avals,
    f_aparams f = [] ->
    eval_script_attrs V sem truth trip of_nat while_limit globals fuel f xs avals
    = eval_script V sem truth trip of_nat while_limit globals fuel f xs.
Proof. exact eval_script_attrs_nil. Qed.
Print Assumptions C01_reading_with_attributes_conservative.

(* the graph = reading statement for functions WITH attribute parameters (graph evaluated with the resolving kernel):
   not proved -- the simulation invariant of Script/Translate*Proofs.v binds every Python variable to a graph value (BV);
   an attribute parameter is re-materialised by a fresh Constant node at every use (BA).  Evidence: skeleton
   correspondence + four-way oracle + the eager theorem above. *)
Definition C01_graph_eq_python_attrs_full : Prop :=
  forall (V : Type) sem0 truth trip of_nat of_bool limit while_limit globals avals cic afuel orders f g xs vs fuel k,
    translate false globals cic afuel orders f = Some g ->
    eval_script_attrs V (sem_res avals sem0) truth trip of_nat while_limit globals fuel f xs avals = Some vs ->
    eval_graph V (sem_res avals sem0) truth trip of_nat of_bool limit k [] g xs = Some vs.

(* all three readings at once, for functions without attribute parameters in both classes: where the plain-Python
   reading is defined, the graph and eager evaluation return its values *)
Theorem C01_eager_graph_python_agree_partial :
  forall (V : Type) sem truth trip of_nat of_bool limit while_limit globals dyn_cast fun_cast is_float,
    (forall v : V, sem "" "Identity" [] [Some v] = Some [v]) ->
    (forall b, truth (of_bool b) = Some b) ->
    (forall v b, truth v = Some b -> exists r, sem "" "Not" [] [Some v] = Some [r] /\ truth r = Some (negb b)) ->
    (forall a b x y, truth a = Some x -> truth b = Some y ->
       exists r, sem "" "And" [] [Some a; Some b] = Some [r] /\ truth r = Some (x && y)) ->
    while_limit <= limit ->
    (forall z c, const_val V sem (LInt z) = Some c -> trip c = Some (Z.to_nat z)) ->
    (forall l c, const_val V sem l = Some c -> dyn_cast l None = Some c) ->
    (forall l c y r, const_val V sem l = Some c -> sem1 V sem "" "CastLike" [] [Some c; Some y] = Some r -> dyn_cast l (Some y) = Some r) ->
    forall wb cic afuel orders f g xs vs fuel2 k pre es S D,
      (wb = true -> forall v, exists b, truth v = Some b) ->
      (forall c b pe v, cic c = Some b -> eval_expr V sem globals pe c = Some v -> ptruth V truth v = Some b) ->
      f_body f = (pre ++ [SReturn es])%list -> pre_ok globals cic afuel wb 11 pre [SReturn es] [] = true -> forallb expr_ok es = true ->
      f_aparams f = [] -> NoDup (f_tparams f) ->
      block_eok S D [] (f_body f) = true -> globals_in S globals = true ->
      translate false globals cic afuel orders f = Some g ->
      eval_script V sem truth trip of_nat while_limit globals (Datatypes.S fuel2) f xs = Some vs ->
      stmt_depth_fuel <= k ->
      eval_graph V sem truth trip of_nat of_bool limit (Datatypes.S k) [] g xs = Some vs /\
      eval_eager V sem truth trip while_limit globals dyn_cast fun_cast is_float (Datatypes.S fuel2) f xs [] = Some vs.
Proof. exact three_way. Qed.
Print Assumptions C01_eager_graph_python_agree_partial.
