From Coq Require Import ZArith List Bool Lia.
Require Import OV.Rules.PadConv OV.Rules.PadConvProofs OV.Rules.PadConvND.
Import ListNotations.
Local Open Scope Z_scope.

(* --- Pad after Pad, all axes at once: induction on the axis list -------------------------------------------- *)
Lemma unshift_addp : forall p q idx, length p = length q -> unshift p (unshift q idx) = unshift (addp p q) idx.
Proof.
  induction p as [|[b1 e1] p IH]; intros [|[b2 e2] q] idx Hl; cbn in Hl; try discriminate.
  - reflexivity.
  - destruct idx as [|i idx]; cbn; [reflexivity|]. f_equal; [lia|]. apply IH. lia.
Qed.

Lemma plens_addp : forall p q ls, length p = length q -> plens q (plens p ls) = plens (addp p q) ls.
Proof.
  induction p as [|[b1 e1] p IH]; intros [|[b2 e2] q] ls Hl; cbn in Hl; try discriminate.
  - reflexivity.
  - destruct ls as [|n ls]; cbn; [reflexivity|]. f_equal; [lia|]. apply IH. lia.
Qed.

Lemma inside_addp : forall p q ls idx, length p = length q -> nonnegp p ->
  inside q (plens p ls) idx && inside p ls (unshift q idx) = inside (addp p q) ls idx.
Proof.
  induction p as [|[b1 e1] p IH]; intros [|[b2 e2] q] ls idx Hl Hn; cbn in Hl; try discriminate.
  - reflexivity.
  - inversion Hn as [|? ? [Hb He] Hn']; subst. cbn [fst snd] in *.
    destruct ls as [|n ls]; [reflexivity|]. destruct idx as [|i idx]; [reflexivity|].
    cbn [plens inside unshift addp]. rewrite <- (IH q ls idx) by (auto; lia).
    destruct (inside q (plens p ls) idx); destruct (inside p ls (unshift q idx));
      rewrite ?andb_true_r, ?andb_false_r; try reflexivity.
    apply eq_true_iff_eq. rewrite !andb_true_iff, !Z.leb_le, !Z.ltb_lt. lia.
Qed.

(* the inner test is only meaningful where the outer one succeeded; outside both sides are the pad value 0 *)
Theorem pad0N_pad0N : forall p q x idx, length p = length q -> nonnegp p ->
  atN (pad0N q (pad0N p x)) idx = atN (pad0N (addp p q) x) idx.
Proof.
  intros p q x idx Hl Hn. unfold pad0N, padcN. cbn [atN lens].
  rewrite <- (inside_addp p q (lens x) idx Hl Hn), (unshift_addp p q idx Hl).
  destruct (inside q (plens p (lens x)) idx); destruct (inside p (lens x) (unshift q idx)); reflexivity.
Qed.
Theorem pad0N_pad0N_lens : forall p q x, length p = length q -> lens (pad0N q (pad0N p x)) = lens (pad0N (addp p q) x).
Proof. intros. unfold pad0N, padcN. cbn [lens]. now apply plens_addp. Qed.

(* --- the kernel sum is extensional in the data ---------------------------------------------------------------- *)
Lemma sumn_ext : forall k g h, (forall t, (t < k)%nat -> g t = h t) -> sumn k g = sumn k h.
Proof. induction k as [|k IH]; intros g h H; cbn; [reflexivity|]. rewrite (IH g h), (H k); auto. Qed.
Lemma dotN_ext : forall ks w f g, (forall ts, f ts = g ts) -> dotN ks w f = dotN ks w g.
Proof.
  induction ks as [|k ks IH]; intros w f g H; cbn; [now rewrite H|].
  apply sumn_ext. intros t _. apply IH. intros. apply H.
Qed.

(* Conv(Pad_0(x; p); pads q) = Conv(x; pads p + q) for every number of axes, every kernel, strides, dilations, signal and
   output position; the output extents agree as well *)
Theorem fuse_pad_conv_nd_sound : forall w ks ss ds (p q : padsN) x,
  length p = length q -> nonnegp p ->
  convN_pads_lens ks ss ds q (pad0N p x) = convN_pads_lens ks ss ds (addp p q) x /\
  forall js, convN_pads_at w ks ss ds q (pad0N p x) js = convN_pads_at w ks ss ds (addp p q) x js.
Proof.
  intros w ks ss ds p q x Hl Hn. split.
  - unfold convN_pads_lens. now rewrite pad0N_pad0N_lens.
  - intro js. unfold convN_pads_at, convN_at. apply dotN_ext. intro ts. now apply pad0N_pad0N.
Qed.

(* ConvInteger with x_zero_point = 0 (what the repaired rule demands), any number of axes *)
Lemma pad0N_shift0 : forall q y idx, atN (pad0N q (shiftN 0 y)) idx = atN (pad0N q y) idx.
Proof. intros. unfold pad0N, padcN, shiftN. cbn [atN lens]. destruct (inside q (lens y) idx); [apply Z.sub_0_r|reflexivity]. Qed.
Theorem fuse_pad_convinteger_nd_zero_point_0 : forall w ks ss ds (p q : padsN) x js,
  length p = length q -> nonnegp p ->
  convintN_host_at w ks ss ds p q 0 x js = convintN_pads_at w ks ss ds (addp p q) 0 x js.
Proof.
  intros w ks ss ds p q x js Hl Hn. unfold convintN_host_at, convintN_pads_at, convN_at. apply dotN_ext. intro ts.
  rewrite !pad0N_shift0. now apply pad0N_pad0N.
Qed.
(* ... and not for another zero point *)
Theorem fuse_pad_convinteger_nd_zero_point_refuted : exists w ks ss ds p q zp x js,
  length p = length q /\ nonnegp p /\ convintN_host_at w ks ss ds p q zp x js <> convintN_pads_at w ks ss ds (addp p q) zp x js.
Proof.
  exists (fun _ => 1), [1; 1]%nat, [1; 1], [1; 1], [(1, 0); (0, 0)], [(0, 0); (0, 0)], 5,
         {| lens := [1; 1]; atN := fun _ => 7 |}, [0; 0].
  split; [reflexivity|]. split; [repeat constructor; cbn; lia|]. vm_compute. discriminate.
Qed.

(* the one-axis statement of Rules/PadConv.v is the instance with a one-element axis list *)
Lemma dotN_one_axis : forall k (w : nat -> Z) (f : Z -> Z),
  dotN [k] (fun ts => w (hd O ts)) (fun us => f (hd 0 us)) = dot w k f.
Proof. induction k as [|k IH]; intros w f; cbn in *; [reflexivity|]. rewrite <- IH. cbn. lia. Qed.

(* --- ONNX pads attribute format ------------------------------------------------------------------------------- *)
Lemma combine_zipadd : forall a1 a2 b1 b2, length a1 = length b1 -> length a2 = length b2 -> length a1 = length a2 ->
  combine (zipadd a1 b1) (zipadd a2 b2) = addp (combine b1 b2) (combine a1 a2).
Proof.
  induction a1 as [|x a1 IH]; intros [|y a2] [|u b1] [|v b2] H1 H2 H3; cbn in *; try discriminate; try reflexivity.
  f_equal; [f_equal; lia|]. apply IH; lia.
Qed.
Lemma zipadd_app : forall a a' b b', length a = length b -> zipadd (a ++ a') (b ++ b') = zipadd a b ++ zipadd a' b'.
Proof. induction a as [|x a IH]; intros a' [|y b] b' H; cbn in *; try discriminate; [reflexivity|]. f_equal. apply IH. lia. Qed.
Lemma zipadd_length : forall a b, length a = length b -> length (zipadd a b) = length a.
Proof. induction a as [|x a IH]; intros [|y b] H; cbn in *; try discriminate; [reflexivity|]. f_equal. apply IH. lia. Qed.
Lemma div2_double : forall n, Nat.div2 (n + n) = n.
Proof. induction n as [|n IH]; [reflexivity|]. replace (S n + S n)%nat with (S (S (n + n))) by lia. cbn. now rewrite IH. Qed.

(* the list the rule emits, zipadd(conv pads, pad pads) in the [begins.., ends..] format, is the per-axis sum *)
Theorem pairs_of_zipadd : forall cb ce pb pe n,
  length cb = n -> length ce = n -> length pb = n -> length pe = n ->
  pairs_of (zipadd (cb ++ ce) (pb ++ pe)) = addp (pairs_of (pb ++ pe)) (pairs_of (cb ++ ce)).
Proof.
  intros cb ce pb pe n H1 H2 H3 H4. unfold pairs_of.
  rewrite zipadd_app by congruence. rewrite !app_length, !zipadd_length by congruence.
  rewrite H1, H2, H3, H4, div2_double.
  rewrite !firstn_app, !skipn_app. rewrite zipadd_length by congruence. rewrite H1, H3, Nat.sub_diag. cbn [firstn skipn].
  rewrite !app_nil_r.
  replace (firstn n (zipadd cb pb)) with (zipadd cb pb) by (symmetry; apply firstn_all2; rewrite zipadd_length; lia).
  replace (skipn n (zipadd cb pb)) with (@nil Z) by (symmetry; apply skipn_all2; rewrite zipadd_length; lia).
  replace (firstn n pb) with pb by (symmetry; apply firstn_all2; lia).
  replace (skipn n pb) with (@nil Z) by (symmetry; apply skipn_all2; lia).
  replace (firstn n cb) with cb by (symmetry; apply firstn_all2; lia).
  replace (skipn n cb) with (@nil Z) by (symmetry; apply skipn_all2; lia).
  cbn [app]. apply combine_zipadd; congruence.
Qed.

(* --- flat view ------------------------------------------------------------------------------------------------ *)
Lemma flatN_length : forall (A B : Type) ks (g : list nat -> A) (h : list nat -> B), length (flatN ks g) = length (flatN ks h).
Proof.
  induction ks as [|k ks IH]; intros g h; cbn; [reflexivity|].
  generalize 0%nat. induction k as [|k IHk]; intro a; cbn; [reflexivity|]. rewrite !app_length. f_equal; [apply IH|apply IHk].
Qed.
Lemma dotl_app : forall a b c d, length a = length c -> dotl (a ++ b) (c ++ d) = dotl a c + dotl b d.
Proof. induction a as [|x a IH]; intros b [|y c] d H; cbn in *; try discriminate; [reflexivity|]. rewrite IH by lia. lia. Qed.

Theorem dotN_flat : forall ks w f, dotN ks w f = dotl (flatN ks w) (flatN ks (fun ts => f (map Z.of_nat ts))).
Proof.
  induction ks as [|k ks IH]; intros w f; [cbn; lia|]. cbn [dotN flatN].
  induction k as [|k IHk]; [reflexivity|].
  rewrite seq_S, !flat_map_app. cbn [sumn flat_map plus]. rewrite !app_nil_r.
  rewrite dotl_app.
  - rewrite <- IHk. f_equal. rewrite IH. reflexivity.
  - clear. generalize 0%nat. induction k as [|k IHk]; intro a; cbn; [reflexivity|]. rewrite !app_length. f_equal; [apply flatN_length|apply IHk].
Qed.

(* an n-D convolution output element = flattened kernel . patch, the patch not depending on the weights *)
Theorem convN_is_flat_dot : forall w ks ss ds x js,
  convN_at w ks ss ds x js = dotl (flatN ks w) (patchN ks ss ds x js).
Proof. intros. unfold convN_at, patchN. apply dotN_flat. Qed.

Example nd_example :
  let x := {| lens := [2; 2]; atN := fun idx => match idx with [i; j] => 1 + 2 * i + j | _ => 0 end |} in
  let w := fun ts => match ts with [a; b] => Z.of_nat (1 + a + 3 * b) | _ => 0 end in
  nonnegp [(1, 0); (0, 1)] /\
  map (convN_pads_at w [2; 2]%nat [1; 1] [1; 1] [(0, 1); (1, 0)] (pad0N [(1, 0); (0, 1)] x)) [[0; 0]; [1; 1]; [2; 2]] = [5; 35; 4] /\
  map (convN_pads_at w [2; 2]%nat [1; 1] [1; 1] [(1, 1); (1, 1)] x) [[0; 0]; [1; 1]; [2; 2]] = [5; 35; 4] /\
  convN_pads_lens [2; 2]%nat [1; 1] [1; 1] [(1, 1); (1, 1)] x = [3; 3] /\
  pairs_of [1; 2; 3; 4] = [(1, 3); (2, 4)].
Proof. cbn zeta. split; [repeat constructor; cbn; lia|]. repeat split; vm_compute; reflexivity. Qed.
