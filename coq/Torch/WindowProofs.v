(* C08 -- aten_unfold (Range / broadcast Add / Gather index construction + the trace-time perm), aten_unbind (Slice +
   Squeeze per slab), and the dim handling of aten_gather / aten_softmax family / aten_sort. *)
From Coq Require Import ZArith List Bool Lia ZifyBool.
Require Import OV.Torch.Onnx OV.Torch.Onnx2 OV.Torch.Spec OV.Torch.Spec2 OV.Torch.Aten OV.Torch.Aten2
               OV.Torch.Lemmas OV.Torch.ShapeProofs OV.Torch.StackProofs OV.Torch.DiagProofs OV.Torch.PoolProofs.
Import ListNotations.
Local Open Scope Z_scope.

(* ------------------------------------------------------------------ unfold along one axis *)
Lemma gather_run : forall A (c : nat) (xs : list A) st, 0 <= st -> st + Z.of_nat c <= zlen xs ->
  omap_all (gather1 xs) (map (fun t => st + t) (map Z.of_nat (seq 0 c))) = Some (firstn c (drop st xs)).
Proof.
  induction c; intros xs st H1 H2; [reflexivity|].
  cbn [seq map omap_all]. unfold gather1 at 1.
  replace ((- zlen xs <=? st + Z.of_nat 0) && (st + Z.of_nat 0 <? zlen xs)) with true by lia.
  replace (st + Z.of_nat 0 <? 0) with false by lia. replace (st + Z.of_nat 0) with st by lia.
  destruct (nthZ_some _ xs st ltac:(lia)) as [x Hx]. rewrite Hx.
  rewrite (nthZ_app_drop _ _ _ _ Hx). cbn [firstn].
  rewrite <- seq_shift. rewrite !map_map.
  specialize (IHc xs (st + 1) ltac:(lia) ltac:(lia)). rewrite map_map in IHc.
  rewrite (map_ext (fun x0 => st + Z.of_nat (S x0)) (fun x0 => st + 1 + Z.of_nat x0)) by (intro; lia).
  rewrite IHc. reflexivity.
Qed.

Lemma unfold_count_arith : forall n size step, 0 <= size <= n -> 0 < step ->
  range_count 0 (n - (size - 1)) step = (n - size) / step + 1.
Proof.
  intros n size step H1 H2. unfold range_count. rewrite ceil_div_pos by lia.
  replace (n - (size - 1) - 0 + step - 1) with ((n - size) + 1 * step) by lia.
  rewrite Z.div_add by lia. pose proof (Z.div_pos (n - size) step ltac:(lia) ltac:(lia)). lia.
Qed.

Lemma unfold_correct : forall A (xs : list A) size step out,
  torch_unfold xs size step = Some out -> aten_unfold xs size step = Some out.
Proof.
  intros A xs size step out. unfold torch_unfold, torch_unfold_count, aten_unfold, unfold_indices, onnx_range.
  destruct ((size <? 0) || (zlen xs <? size) || (step <=? 0)) eqn:Hd; [discriminate|]. cbn [obind].
  intro H; inversion H; subst out; clear H.
  replace (step =? 0) with false by lia. cbn [option_map obind].
  rewrite unfold_count_arith by lia.
  set (c := (zlen xs - size) / step + 1).
  assert (Hc : 0 <= (zlen xs - size) / step) by (apply Z.div_pos; lia).
  assert (Hlast : forall w, 0 <= w < c -> w * step + size <= zlen xs).
  { intros w Hw. pose proof (Z.mul_div_le (zlen xs - size) step ltac:(lia)). unfold c in Hw. nia. }
  unfold gather_windows, iota. rewrite !map_map. rewrite omap_all_compose.
  apply omap_all_map. intros w Hw. apply in_seq in Hw.
  unfold gather_axis.
  pose proof (gather_run A (Z.to_nat size) xs (0 + Z.of_nat w * step)) as Hg.
  rewrite Hg; [unfold take; f_equal; f_equal; f_equal; lia | lia |].
  specialize (Hlast (Z.of_nat w) ltac:(lia)). lia.
Qed.

(* ------------------------------------------------------------------ unfold: shape *)
Lemma unfold_shape_correct : forall s dimension size step out,
  shape_ok s -> (zlen s = 0 -> size = 1) ->
  torch_unfold_shape s dimension size step = Some out -> aten_unfold_shape s dimension size step = Some out.
Proof.
  intros s dim size step out Hok H0. unfold torch_unfold_shape, aten_unfold_shape.
  destruct (zlen s =? 0) eqn:Er.
  - destruct s; [|rewrite zlen_cons in Er; pose proof (zlen_nonneg _ s); lia]. specialize (H0 eq_refl). subst size.
    destruct ((dim =? 0) || (dim =? -1)); [|discriminate]. destruct ((0 <=? 1) && (1 <=? 1) && (0 <? step)); [|discriminate].
    intro H; inversion H; subst out. reflexivity.
  - pose proof (zlen_nonneg _ s) as Hr. assert (Hrp : 0 < zlen s) by lia. set (r := zlen s) in *.
    destruct (wrap_dim r dim) as [d|] eqn:Ed; [|discriminate]. cbn [obind].
    destruct (wrap_dim_val _ _ _ Hrp Ed) as [Hd Hdr]. unfold unfold_norm. rewrite <- Hd. clear Hd Ed dim.
    destruct (nthZ s d) as [n|] eqn:En; [|discriminate]. cbn [obind].
    unfold torch_unfold_count. destruct ((size <? 0) || (n <? size) || (step <=? 0)) eqn:Hdm; [discriminate|]. cbn [obind].
    intro H; inversion H; subst out; clear H.
    unfold gather1. fold r. replace ((- r <=? d) && (d <? r)) with true by lia. replace (d <? 0) with false by lia.
    rewrite En. cbn [obind].
    unfold unfold_indices, onnx_range. replace (step =? 0) with false by lia. cbn [option_map obind].
    unfold norm_axis. replace ((- r <=? d) && (d <? r)) with true by lia. replace (d <? 0) with false by lia. cbn [obind].
    unfold zlen at 1. rewrite !map_length, seq_length. rewrite unfold_count_arith by lia.
    assert (Hc : 0 <= (n - size) / step) by (apply Z.div_pos; lia).
    rewrite Z2Nat.id by lia. replace (Z.max size 0) with size by lia.
    set (c := (n - size) / step + 1).
    (* the gathered shape and the perm that moves position d + 1 to the end *)
    set (sg := take d s ++ [c; size] ++ drop (d + 1) s).
    assert (Hsg : zlen sg = r + 1).
    { unfold sg. rewrite !zlen_app, zlen_take, zlen_drop by (fold r; lia). fold r. change (zlen [c; size]) with 2. lia. }
    assert (Hsplit : sg = (take d s ++ [c]) ++ size :: drop (d + 1) s) by (unfold sg; rewrite <- app_assoc; reflexivity).
    assert (Hpos : zlen (take d s ++ [c]) = d + 1) by (rewrite zlen_app, zlen_take by (fold r; lia); reflexivity).
    unfold transpose_shape. rewrite Hsg.
    assert (Hfil : omap_all (nthZ sg) (filter (fun i => negb (i =? d + 1)) (iota (r + 1))) = Some (erase (d + 1) sg)).
    { pose proof (nth_filter_idx (fun i => negb (i =? d + 1)) sg []) as Hn. cbn [app length] in Hn.
      unfold iota. replace (Z.to_nat (r + 1)) with (length sg) by (unfold zlen in Hsg; lia).
      rewrite Hn. rewrite zlen_nil. rewrite filter_idx_erase1 by lia. f_equal. f_equal. lia. }
    assert (is_perm (r + 1) (unfold_perm r d) = true) as ->.
    { unfold is_perm, unfold_perm. apply andb_true_intro. split.
      - rewrite zlen_app. apply omap_all_length in Hfil.
        assert (He : zlen (erase (d + 1) sg) = zlen sg - 1) by (apply zlen_erase; lia).
        change (zlen [d + 1]) with 1. unfold zlen in *. lia.
      - apply forallb_forall. intros i Hi. apply has_In. apply in_or_app.
        destruct (i =? d + 1) eqn:Ei; [right; left; lia|].
        left. apply filter_In. split; [assumption|]. rewrite Ei. reflexivity. }
    unfold unfold_perm. erewrite omap_all_app; [| exact Hfil |].
    2:{ cbn [omap_all]. rewrite Hsplit. rewrite <- Hpos. rewrite nthZ_middle. reflexivity. }
    f_equal. rewrite Hsplit. rewrite <- Hpos. unfold erase. rewrite take_app_exact. rewrite drop_app_exact.
    rewrite <- !app_assoc. reflexivity.
Qed.

(* genuine defect: a 0-d tensor is unsqueezed whatever `size` is; PyTorch returns an empty tensor of shape [0] for size = 0 *)
Lemma unfold_zero_dim_size0_refuted : exists s dimension size step out,
  torch_unfold_shape s dimension size step = Some out /\ exists other, aten_unfold_shape s dimension size step = Some other /\ other <> out.
Proof. exists [], 0, 0, 1, [0]. split; [reflexivity|]. exists [1]. split; [reflexivity | discriminate]. Qed.

(* ------------------------------------------------------------------ unbind *)
Lemma unbind_slabs : forall A (xs pre : list A),
  omap_all (fun i => match slice_axis (pre ++ xs) i (i + 1) 1 with Some [x] => Some x | _ => None end)
           (map Z.of_nat (seq (length pre) (length xs))) = Some xs.
Proof.
  induction xs as [|x t IH]; intro pre; [reflexivity|].
  cbn [length seq map omap_all].
  specialize (IH (pre ++ [x])). rewrite <- app_assoc in IH. cbn [app] in IH.
  rewrite app_length in IH. cbn [length] in IH. replace (length pre + 1)%nat with (S (length pre)) in IH by lia.
  rewrite IH.
  rewrite slice_axis_step1. rewrite zlen_app, zlen_cons. pose proof (zlen_nonneg _ t). pose proof (zlen_nonneg _ pre).
  fold (zlen pre).
  assert (sl_lo (zlen pre + (1 + zlen t)) (zlen pre) = zlen pre) as -> by (unfold sl_lo, clampZ; repeat case_if; lia).
  assert (sl_lo (zlen pre + (1 + zlen t)) (zlen pre + 1) = zlen pre + 1) as -> by (unfold sl_lo, clampZ; repeat case_if; lia).
  replace (zlen pre + 1 - zlen pre) with 1 by lia.
  assert (drop (zlen pre) (pre ++ x :: t) = x :: t) as ->.
  { unfold drop, zlen. rewrite Nat2Z.id. rewrite skipn_app, skipn_all, Nat.sub_diag. reflexivity. }
  reflexivity.
Qed.

Lemma unbind_correct : forall A r dim (xs : list A), 0 <= r -> aten_unbind r dim xs = torch_unbind r dim xs.
Proof.
  intros A r dim xs Hr. unfold aten_unbind, torch_unbind, torch_axis.
  pose proof (unbind_slabs A xs []) as H. cbn [app length] in H.
  unfold iota, zlen. rewrite Nat2Z.id. rewrite H.
  destruct (r =? 0) eqn:E.
  - assert (r = 0) by lia. subst r. unfold norm_axis. replace ((- 0 <=? dim) && (dim <? 0)) with false by lia. reflexivity.
  - rewrite wrap_dim_norm_axis by lia. reflexivity.
Qed.

(* ------------------------------------------------------------------ gather / softmax / sort: dim handling *)
Lemma expand_shape_scalar : forall idx, shape_ok idx -> expand_shape [] idx = Some idx.
Proof.
  intros idx Hok. unfold expand_shape.
  assert (existsb (fun t => t <? 0) idx = false) as ->.
  { apply existsb_false. intros x Hx. unfold shape_ok in Hok. rewrite Forall_forall in Hok. specialize (Hok x Hx). lia. }
  cbn [rev bcast_rev option_map]. rewrite rev_involutive. reflexivity.
Qed.

Lemma gather_shape_correct : forall s dim idx out,
  shape_ok idx -> torch_gather_shape s dim idx = Some out -> aten_gather_shape s dim idx = Some out.
Proof.
  intros s dim idx out Hok. unfold torch_gather_shape, aten_gather_shape, rank1.
  destruct (wrap_dim (zlen s) dim) as [d|] eqn:Ed; [|discriminate]. cbn [obind].
  pose proof (zlen_nonneg _ s) as Hs. pose proof (zlen_nonneg _ idx) as Hi.
  destruct (Z.max (zlen s) 1 =? Z.max (zlen idx) 1) eqn:Er; [|discriminate]. intro H; inversion H; subst out; clear H.
  destruct (zlen s =? 0) eqn:E0.
  - destruct (zlen idx =? 0) eqn:E1.
    + destruct s; [|rewrite zlen_cons in E0; pose proof (zlen_nonneg _ s); lia].
      destruct idx; [reflexivity|rewrite zlen_cons in E1; pose proof (zlen_nonneg _ idx); lia].
    + destruct s; [|rewrite zlen_cons in E0; pose proof (zlen_nonneg _ s); lia]. apply expand_shape_scalar. assumption.
  - rewrite wrap_dim_norm_axis in Ed by lia. unfold axis_ok. replace (zlen s <? 1) with false by lia. rewrite Ed. cbn [obind].
    destruct (zlen idx =? 0) eqn:E1.
    + destruct idx; [|rewrite zlen_cons in E1; pose proof (zlen_nonneg _ idx); lia].
      rewrite unsqueeze0. cbn [obind]. change (zlen [1]) with 1. replace (1 =? zlen s) with true by (rewrite zlen_nil in Er; lia).
      apply squeeze0.
    + cbn [obind]. replace (zlen idx =? zlen s) with true by lia. reflexivity.
Qed.

Lemma softmax_shape_correct : forall s dim out,
  torch_dim_only s dim = Some out -> aten_softmax_shape s dim = Some out.
Proof.
  intros s dim out. unfold torch_dim_only, aten_softmax_shape.
  destruct (wrap_dim (zlen s) dim) as [d|] eqn:Ed; [|discriminate]. cbn [obind]. intro H; inversion H; subst out; clear H.
  destruct (zlen s =? 0) eqn:E0.
  - destruct s; [|rewrite zlen_cons in E0; pose proof (zlen_nonneg _ s); lia].
    rewrite unsqueeze0. cbn [obind]. change (zlen [1]) with 1. unfold axis_ok. cbn [Z.ltb Z.compare].
    unfold wrap_dim in Ed. change (Z.max (zlen []) 1) with 1 in Ed. unfold norm_axis.
    destruct ((- (1) <=? dim) && (dim <? 1)); [|discriminate]. reflexivity.
  - pose proof (zlen_nonneg _ s). rewrite wrap_dim_norm_axis in Ed by lia. unfold axis_ok. replace (zlen s <? 1) with false by lia.
    rewrite Ed. reflexivity.
Qed.

Lemma sort_shape_correct : forall s dim out, torch_dim_only s dim = Some out -> aten_sort_shape s dim = Some out.
Proof.
  intros s dim out. unfold torch_dim_only, aten_sort_shape.
  destruct (wrap_dim (zlen s) dim) as [d|] eqn:Ed; [|discriminate]. cbn [obind]. intro H; inversion H; subst out; clear H.
  destruct (zlen s =? 0) eqn:E0; [reflexivity|].
  pose proof (zlen_nonneg _ s). rewrite wrap_dim_norm_axis in Ed by lia.
  destruct (norm_axis_range _ _ _ Ed) as (Hd & _ & Hdim).
  unfold gather1. replace ((- zlen s <=? dim) && (dim <? zlen s)) with true by lia.
  destruct (nthZ_some _ s (if dim <? 0 then dim + zlen s else dim) ltac:(case_if; lia)) as [x ->]. cbn [obind].
  unfold axis_ok. replace (zlen s <? 1) with false by lia. rewrite Ed. reflexivity.
Qed.

(* the repaired 0-d branch (proposed_fixes/ready/C08_16): every legal size *)
Lemma unfold_shape_v_fixed : forall s dimension size step out,
  shape_ok s -> torch_unfold_shape s dimension size step = Some out -> aten_unfold_shape_v true s dimension size step = Some out.
Proof.
  intros s dim size step out Hok H. unfold aten_unfold_shape_v. cbn [andb]. destruct (zlen s =? 0) eqn:Er; cbn [andb].
  - destruct s; [|rewrite zlen_cons in Er; pose proof (zlen_nonneg _ s); lia].
    destruct (size =? 0) eqn:Es.
    + apply Z.eqb_eq in Es. subst size. unfold torch_unfold_shape in H. cbn [zlen length Z.of_nat Z.eqb] in H.
      destruct ((dim =? 0) || (dim =? -1)); [|discriminate]. destruct ((0 <=? 0) && (0 <=? 1) && (0 <? step)); [|discriminate].
      inversion H; subst out. reflexivity.
    + apply unfold_shape_correct; [assumption | | assumption]. intros _. unfold torch_unfold_shape in H. cbn [zlen length Z.of_nat Z.eqb] in H.
      destruct ((dim =? 0) || (dim =? -1)); [|discriminate]. destruct ((0 <=? size) && (size <=? 1) && (0 <? step)) eqn:E; [|discriminate]. lia.
  - apply unfold_shape_correct; [assumption | lia | assumption].
Qed.
