"""C07 generators: pattern trees -> (pattern fn, replacement fn) rules equal by construction; host models with
planted, possibly overlapping instances at any nesting level; a small reference matcher used only for the
progress oracle ("a removable instance exists => the rewriter fires at least once").

A host is kept as plain Python data (HNode / HGraph) and turned into an onnx ModelProto by `to_model`.
All tensors are float32 [3,3] (exact small integers), except the two outputs of Split ([2,3] and [1,3]) which
are only consumed by a Concat that restores [3,3].
"""
from __future__ import annotations

import dataclasses
from typing import Optional

import numpy as np

DOM_HOST = "verif.host"       # model-local host functions
DOM_FN = "verif.fn"           # functions created by as_function rules


# ----------------------------------------------------------------------------- host representation

@dataclasses.dataclass
class HNode:
    op: str
    ins: list            # value names ("" = omitted)
    outs: list
    attrs: dict = dataclasses.field(default_factory=dict)     # plain python attrs (ints, lists, np arrays)
    subs: dict = dataclasses.field(default_factory=dict)      # attr name -> HGraph
    domain: str = ""
    planted: Optional[str] = None                              # family tag of a planted instance (evidence only)


@dataclasses.dataclass
class HGraph:
    ins: list                     # (name, kind) kind in {"t", "b", "i"}: tensor [3,3] / bool scalar / int64 scalar
    nodes: list
    outs: list                    # (name, kind) ; kind additionally "s0"/"s1" never used as graph output
    inits: dict = dataclasses.field(default_factory=dict)     # name -> np array


@dataclasses.dataclass
class Host:
    main: HGraph
    functions: list               # (name, HGraph)  domain DOM_HOST
    tags: set


# ----------------------------------------------------------------------------- pattern trees and families

def V(i):
    return ("v", i)


def C(x):
    return ("c", float(x))


def O(name, *args, **attrs):
    return ("op", name, list(args), dict(attrs))


PERM = [1, 0]

# family -> dict(pattern tree, transform, nvars, flags)
FAMILIES = {
    "single":      dict(pat=O("Relu", V(0)), tr="reemit", nv=1),
    "chain2":      dict(pat=O("Neg", O("Abs", V(0))), tr="reemit", nv=1),
    "chain3":      dict(pat=O("Relu", O("Neg", O("Abs", V(0)))), tr="reemit", nv=1),
    "negneg":      dict(pat=O("Neg", O("Neg", V(0))), tr="reemit", nv=1),          # overlapping instances in chains
    "bin_nested":  dict(pat=O("Add", O("Abs", V(0)), V(1)), tr="reemit", nv=2),
    "swap_add":    dict(pat=O("Add", V(0), V(1)), tr="swap", nv=2),
    "swap_mul":    dict(pat=O("Mul", O("Neg", V(0)), V(1)), tr="swap", nv=2),
    "dtrans":      dict(pat=O("Abs", V(0)), tr="dtrans", nv=1),
    "dtrans_elim": dict(pat=O("Transpose", O("Transpose", V(0), perm=PERM), perm=PERM), tr="identity", nv=1),
    "mul1_elim":   dict(pat=O("Mul", V(0), C(1.0)), tr="identity", nv=1),
    "add0_elim":   dict(pat=O("Add", V(0), C(0.0)), tr="identity", nv=1),
    "mul1_node":   dict(pat=O("Relu", V(0)), tr="mul1_node", nv=1),                # x -> x * Constant(1)
    "add0_init":   dict(pat=O("Abs", V(0)), tr="add0_init", nv=1, new_init=True),  # x -> x + new initializer 0: op.initializer(unnamed tensor, name=fresh)
    # every other way the public API creates an initializer (names chosen fresh: the known clash classes are not triggered)
    "init_named":  dict(pat=O("Abs", V(0)), tr="init_named", nv=1, new_init=True),  # op.initializer(named tensor)             -> the tensor's name
    "init_both":   dict(pat=O("Abs", V(0)), tr="init_both", nv=1, new_init=True),   # op.initializer(named tensor, name=other) -> the explicit name
    # the tensor OBJECT of a matched constant (named after it; other nodes may still use the constant) under a fresh explicit name
    "init_copy":   dict(pat=O("Sub", V(0), V(1)), tr="init_copy", nv=2, const_var=1, new_init=True, shared_const=True),
    "init_copy_keep": dict(pat=O("Sub", V(0), V(1)), tr="init_copy", nv=2, const_var=1, new_init=True, shared_const=True, keep=True),
    "split":       dict(pat=O("Split", V(0), axis=0, num_outputs=2), tr="reemit", nv=1, nout=2),
    "chain2_keep": dict(pat=O("Neg", O("Abs", V(0))), tr="reemit", nv=1, keep=True),
    "bin_keep":    dict(pat=O("Add", O("Abs", V(0)), V(1)), tr="reemit", nv=2, keep=True),
    "split_keep":  dict(pat=O("Split", V(0), axis=0, num_outputs=2), tr="reemit", nv=1, nout=2, keep=True),
    "chain2_fn":   dict(pat=O("Neg", O("Abs", V(0))), tr="call", nv=1, as_function=True, fn="NegAbs"),
    "bin_fn":      dict(pat=O("Sub", O("Relu", V(0)), V(1)), tr="call", nv=2, as_function=True, fn="ReluSub"),
    "scale_fn":    dict(pat=O("Mul", O("Abs", V(0)), V(1)), tr="call1", nv=2, as_function=True, fn="AbsScale",
                        const_var=1),                                              # v1 must be a constant; copied into the function
}

# DAG-shaped patterns: one pattern node used by several others (the same Python object = the same pattern node)
_S = O("Add", V(0), V(1))
_A = O("Abs", V(0))
_T = O("Neg", _A)
_DAG = {
    # shared node reached first as the shallower operand of the root, then through Sigmoid -- and the other way round
    "dag_a":      dict(pat=O("Mul", _S, O("Sigmoid", _S)), tr="reemit", nv=2),
    "dag_b":      dict(pat=O("Mul", O("Sigmoid", _S), _S), tr="reemit", nv=2),
    "dag_a_fn":   dict(pat=O("Mul", _S, O("Sigmoid", _S)), tr="call", nv=2, as_function=True, fn="AddSilu"),
    "dag_b_fn":   dict(pat=O("Mul", O("Sigmoid", _S), _S), tr="call", nv=2, as_function=True, fn="AddSiluR"),
    "dag_a_keep": dict(pat=O("Mul", _S, O("Sigmoid", _S)), tr="reemit", nv=2, keep=True),
    # a shared node feeding three consumers at three depths
    "dag3":       dict(pat=O("Add", O("Mul", _A, _T), _A), tr="reemit", nv=1),
    "dag3_fn":    dict(pat=O("Add", O("Mul", _A, _T), _A), tr="call", nv=1, as_function=True, fn="Tri"),
    "dag3_r_fn":  dict(pat=O("Add", _A, O("Mul", _T, _A)), tr="call", nv=1, as_function=True, fn="TriR"),
    # two output nodes sharing a producer
    "two_out":    dict(pat=O("Neg", _A), roots=[O("Neg", _A), O("Relu", _A)], tr="reemit", nv=1),
    "two_out_r":  dict(pat=O("Relu", _A), roots=[O("Relu", _A), O("Neg", _A)], tr="reemit", nv=1),
    "two_out_keep": dict(pat=O("Neg", _A), roots=[O("Neg", _A), O("Relu", _A)], tr="reemit", nv=1, keep=True),
    # two output nodes that share only the pattern input
    "two_out_x":  dict(pat=O("Neg", V(0)), roots=[O("Neg", V(0)), O("Abs", V(0))], tr="reemit", nv=1),
    "two_out_fn": dict(pat=O("Neg", _A), roots=[O("Neg", _A), O("Relu", _A)], tr="call", nv=1, as_function=True, fn="NegRelu"),
    # the replacement introduces a domain the host does not import (a real contrib kernel: x * Sigmoid(1.0 * x))
    "silu_ms":    dict(pat=O("Mul", V(0), O("Sigmoid", V(0))), tr="quickgelu", nv=1, approx=True, new_domain="com.microsoft"),
}
FAMILIES.update(_DAG)

# the pattern's output node has several outputs of which only some are pattern outputs (`named`): the others are not
# provided by the replacement, so the instance is removable only where nothing reads them (used by the fixed hosts of
# c07.stream_partial_outputs only: the operand kinds differ from the [3,3] float world of the random generator)
_PARTIAL = {
    # y, _mask = Dropout(Neg(Neg(x)))  ->  re-emitted   (inference mode: y = x, mask all true; mask is bool [3,3])
    "drop_part":  dict(pat=O("Dropout", O("Neg", O("Neg", V(0)))), tr="reemit", nv=1, nout=2, named=[0], partial=True),
    # values, _indices = TopK(Neg(Neg(x)), k)  ->  values, _ = TopK(x, k)   (k = 3 on the last axis: indices int64 [3,3])
    "topk_part":  dict(pat=O("TopK", O("Neg", O("Neg", V(0))), V(1)), tr="topk_strip", nv=2, nout=2, named=[0], partial=True),
    # _values, indices = TopK(Abs(x), k)  ->  re-emitted   (the SECOND output is the pattern output)
    "topk_idx":   dict(pat=O("TopK", O("Abs", V(0)), V(1)), tr="reemit", nv=2, nout=2, named=[1], partial=True),
}
FAMILIES.update(_PARTIAL)

COMMUTATIVE = {"Add", "Mul", "Max", "Min"}


def tree_ops(t):
    if t[0] != "op":
        return []
    r = [t[1]]
    for a in t[2]:
        r += tree_ops(a)
    return r


class Budget(Exception):
    """A generated rule was asked to fire more often than any terminating run could need."""


class RuleBox:
    """A generated RewriteRule together with its termination guard state."""

    def __init__(self, family, name, cap=400):
        self.family = family
        self.spec = FAMILIES[family]
        self.name = name
        self.made = set()          # ids of nodes created by this box's replacement
        self.keep = []             # strong references (ids stay unique)
        self.fires = 0
        self.cap = cap
        self.shared = None         # other boxes of the same rule set (their nodes are guarded too)
        self.init_counter = 0

    def _all_made(self):
        boxes = self.shared or [self]
        return set().union(*[b.made for b in boxes])

    def build(self):
        from onnxscript import ir
        from onnxscript.rewriter import pattern as orp

        spec = self.spec
        nv = spec["nv"]
        names = [f"p{i}" for i in range(nv)]
        nout = spec.get("nout", 1)

        roots = spec.get("roots")

        def emit(op, t, env, swap=False, memo=None):
            if t[0] == "v":
                return env[t[1]]
            if t[0] == "c":
                return t[1]                    # python scalar: a pattern Constant
            memo = {} if memo is None else memo
            if id(t) in memo:                  # a shared pattern node is emitted once
                return memo[id(t)]
            _, opname, args, attrs = t
            vals = [emit(op, a, env, swap, memo) for a in args]
            if swap and opname in COMMUTATIVE and len(vals) == 2:
                vals = [vals[1], vals[0]]
            kw = dict(attrs)
            memo[id(t)] = getattr(op, opname)(*vals, **kw)
            return memo[id(t)]

        def emit_root(op, t, env, swap=False):
            if roots:
                memo = {}
                return tuple(emit(op, r, env, swap, memo) for r in roots)
            if nout == 1:
                return emit(op, t, env, swap)
            _, opname, args, attrs = t
            memo = {}
            vals = [emit(op, a, env, swap, memo) for a in args]
            outs_ = getattr(op, opname)(*vals, _outputs=nout, **attrs)
            named = spec.get("named")
            if named is not None:                     # only some outputs of the node are pattern outputs
                outs_ = tuple(outs_[i] for i in named)
                return outs_[0] if len(outs_) == 1 else outs_
            return outs_

        # ---- pattern function with the right arity (the rewriter inspects the signature)
        def make_fn(body):
            src = f"def _f(op, {', '.join(names)}):\n    return _body(op, [{', '.join(names)}])\n"
            ns = {"_body": body}
            exec(src, ns)                       # noqa: S102 - fixed template, names are generated here
            return ns["_f"]

        pattern_fn = make_fn(lambda op, env: emit_root(op, spec["pat"], env))

        box = self

        def replacement_body(op, env):
            box.fires += 1
            if box.fires > box.cap:
                raise Budget(f"rule {box.name} asked to fire more than {box.cap} times")
            tr = spec["tr"]
            if tr == "reemit":
                out = emit_root(op, spec["pat"], env)
            elif tr == "swap":
                out = emit_root(op, spec["pat"], env, swap=True)
            elif tr == "identity":
                out = op.Identity(env[0])
            elif tr == "topk_strip":
                out = op.TopK(env[0], env[1], _outputs=2)[0]
            elif tr == "dtrans":
                out = op.Transpose(op.Transpose(emit(op, spec["pat"], env), perm=PERM), perm=PERM)
            elif tr == "mul1_node":
                one = op.Constant(value=ir.tensor(np.array(1.0, dtype=np.float32)))
                out = op.Mul(emit(op, spec["pat"], env), one)
            elif tr == "add0_init":
                box.init_counter += 1
                zero = op.initializer(ir.tensor(np.array(0.0, dtype=np.float32)), name=f"{box.name}_zero_{box.init_counter}")
                out = op.Add(emit(op, spec["pat"], env), zero)
            elif tr == "init_named":
                box.init_counter += 1
                zero = op.initializer(ir.tensor(np.zeros([3], dtype=np.float32), name=f"{box.name}_tz_{box.init_counter}"))
                out = op.Add(emit(op, spec["pat"], env), zero)
            elif tr == "init_both":
                box.init_counter += 1
                zero = op.initializer(ir.tensor(np.zeros([1, 3], dtype=np.float32), name=f"{box.name}_tensor_{box.init_counter}"),
                                      name=f"{box.name}_nz_{box.init_counter}")
                out = op.Add(emit(op, spec["pat"], env), zero)
            elif tr == "init_copy":
                box.init_counter += 1
                c = env[spec["const_var"]]
                copy_ = op.initializer(c.const_value, name=f"{c.name}_cp_{box.name}_{box.init_counter}")
                out = op.Sub(env[0], copy_)
            elif tr == "call":
                out = getattr(op, spec["fn"])(*env, _domain=DOM_FN, _outputs=len(roots) if roots else 1)
            elif tr == "quickgelu":
                out = op.QuickGelu(env[0], alpha=1.0, _domain="com.microsoft", _version=1)
            elif tr == "call1":
                out = getattr(op, spec["fn"])(env[0], _domain=DOM_FN)
            else:
                raise AssertionError(tr)
            for n in op.nodes:
                box.made.add(id(n))
                box.keep.append(n)
            return out

        replacement_fn = make_fn(replacement_body)

        def condition_body(context, env):
            if id(context.root) in box._all_made():
                return False
            cv = spec.get("const_var")
            if cv is not None and (env[cv] is None or env[cv].const_value is None):
                return False
            if cv is not None and env[cv].is_graph_input():
                return False                   # an initializer listed among the graph inputs is a default, not a constant
            return True

        src = f"def _c(context, {', '.join(names)}, **_):\n    return _body(context, [{', '.join(names)}])\n"
        ns = {"_body": condition_body}
        exec(src, ns)                           # noqa: S102
        condition_fn = ns["_c"]

        self.rule = orp.RewriteRule(pattern_fn, replacement_fn, condition_fn, name=self.name,
                                    remove_nodes=not spec.get("keep", False),
                                    as_function=spec.get("as_function", False))
        return self.rule


def make_rule_set(families):
    boxes = [RuleBox(f, f"R{i}_{f}") for i, f in enumerate(families)]
    for b in boxes:
        b.shared = boxes
        b.build()
    return boxes


# ----------------------------------------------------------------------------- host generation

UNARY = ["Neg", "Abs", "Relu", "Identity"]
BINARY = ["Add", "Sub", "Max"]


class HostGen:
    def __init__(self, rng, families, size=8, nest=0.35, small=False):
        self.rng = rng
        self.families = list(families)
        self.size = size
        self.nest = nest
        self.counter = 0
        self.tags = set()
        self.functions = []
        self.small = small

    def fresh(self, p="v"):
        self.counter += 1
        return f"{p}{self.counter}"

    # ---- instantiate a pattern tree as host nodes; returns (nodes, root outputs)
    def instantiate(self, tree, env, consts, tag, nout=1, roots=None):
        nodes = []
        memo = {}

        def go(t, top=False):
            if t[0] == "v":
                return env[t[1]]
            if t[0] == "c":
                return consts(t[1], nodes)
            if id(t) in memo:
                return memo[id(t)]
            _, opname, args, attrs = t
            ins = [go(a) for a in args]
            n_out = nout if top else 1
            outs = [self.fresh() for _ in range(n_out)]
            nodes.append(HNode(opname, ins, outs, dict(attrs), planted=tag))
            memo[id(t)] = outs[0] if n_out == 1 else outs
            return memo[id(t)]
        if roots:
            outs = [go(r) for r in roots]
            return nodes, outs
        r = go(tree, top=True)
        return nodes, (r if isinstance(r, list) else [r])

    def filler(self, avail):
        rng = self.rng
        if rng.random() < 0.5:
            return HNode(rng.choice(UNARY), [rng.choice(avail)], [self.fresh()])
        return HNode(rng.choice(BINARY), [rng.choice(avail), rng.choice(avail)], [self.fresh()])

    def block(self, avail, n, depth, level_inits, in_function=False):
        """Generate about n nodes over the available [3,3] values. Returns (nodes, defined [3,3] values)."""
        rng = self.rng
        avail = list(avail)
        recent = []                       # outputs of planted roots (to chain instances: overlaps)
        nodes = []
        defined = []

        def consts(val, out_nodes):
            # a constant operand for a pattern: initializer of this level (main graph only) or a Constant node
            if level_inits is not None and rng.random() < 0.6:
                same = sorted(k for k, a in level_inits.items() if float(a) == val)
                if same and rng.random() < 0.7:
                    name = same[0]
                else:
                    name = f"k{len(level_inits)}"
                    level_inits[name] = np.array(val, dtype=np.float32)
                self.tags.add("const:init")
                return name
            name = self.fresh("c")
            out_nodes.append(HNode("Constant", [], [name], {"value": np.array(val, dtype=np.float32)}))
            self.tags.add("const:node")
            return name

        def add(ns):
            for x in ns:
                nodes.append(x)

        pending = []                      # nodes of a planted instance still to be emitted (interleaving)
        publish = []                      # values that become available once the pending instance is complete
        budget = n

        def flush():
            nonlocal recent, publish
            avail.extend(publish)
            defined.extend(publish)
            publish = []

        while budget > 0 or pending:
            if pending and (rng.random() < 0.6 or budget <= 0):
                nodes.append(pending.pop(0))
                if not pending:
                    flush()
                continue
            budget -= 1
            r = rng.random()
            if r < 0.45 and self.families and not pending:
                fam = rng.choice(self.families)
                spec = FAMILIES[fam]
                env = []
                for _ in range(spec["nv"]):
                    pool = recent if (recent and rng.random() < 0.5) else avail
                    env.append(rng.choice(pool))
                cv = spec.get("const_var")
                inst_nodes = []
                if cv is not None:
                    env[cv] = consts(float(rng.choice([1.0, 2.0, -1.0])), inst_nodes)
                ns, outs = self.instantiate(spec["pat"], env, consts, fam, spec.get("nout", 1), spec.get("roots"))
                if spec.get("roots"):
                    self.tags.add("two-output-nodes")
                if fam in _DAG and not spec.get("roots") and fam != "silu_ms":
                    self.tags.add("dag-pattern")
                ns = inst_nodes + ns
                inter = [o for x in ns if x.op != "Constant" for o in x.outs if o not in outs]
                if spec.get("nout", 1) == 2:
                    cat = self.fresh()
                    ns.append(HNode("Concat", list(outs), [cat], {"axis": 0}))
                    root_vals = [cat]
                    self.tags.add("multi-output")
                else:
                    root_vals = outs
                publish = list(root_vals)
                # an intermediate with an extra consumer: not removable (fires only for keeping rules)
                if inter and rng.random() < 0.25:
                    extra = self.fresh()
                    iv = rng.choice(inter)
                    pos = next(k for k, x in enumerate(ns) if iv in x.outs) + 1
                    # the consumer sits right behind the producer (inside the window) or behind the root
                    ns.insert(pos if rng.random() < 0.5 else len(ns), HNode("Relu", [iv], [extra]))
                    publish.append(extra)
                    self.tags.add("intermediate-extra-consumer")
                if cv is not None and rng.random() < 0.5:
                    # the constant operand is shared with a node outside the match
                    extra = self.fresh()
                    ns.insert(rng.randrange(len(inst_nodes), len(ns) + 1), HNode("Max", [rng.choice(avail), env[cv]], [extra]))
                    publish.append(extra)
                    self.tags.add("const-shared-with-unmatched-node")
                recent = (recent + root_vals)[-3:]
                self.tags.add("planted:" + fam)
                if env and any(e in [o for x in ns for o in x.outs] for e in env):
                    self.tags.add("var-is-own-intermediate")
                if len(ns) > 1 and rng.random() < 0.5:
                    pending = ns          # emitted one by one, interleaved with other nodes
                    self.tags.add("interleaved")
                else:
                    add(ns)
                    flush()
            elif r < 0.45 + self.nest * 0.5 and depth > 0 and not pending:
                kind = rng.choice(["If", "Loop"] + ([] if in_function or self.small else ["Call"]))
                if kind == "If":
                    tb, to = self.sub_block(avail, depth - 1)
                    eb, eo = self.sub_block(avail, depth - 1)
                    out = self.fresh()
                    nodes.append(HNode("If", ["cond"], [out], {}, {
                        "then_branch": HGraph([], tb, [(to, "t")]), "else_branch": HGraph([], eb, [(eo, "t")])}))
                    self.tags.add(f"nest:If:d{depth}")
                elif kind == "Loop":
                    s_in = self.fresh("s")
                    it, ci, co = self.fresh("it"), self.fresh("ci"), self.fresh("co")
                    bb, bo = self.sub_block(avail + [s_in], depth - 1, prefer=s_in)
                    bb.append(HNode("Identity", [ci], [co]))
                    out = self.fresh()
                    nodes.append(HNode("Loop", ["trip", "", rng.choice(avail)], [out], {}, {
                        "body": HGraph([(it, "i"), (ci, "b"), (s_in, "t")], bb, [(co, "b"), (bo, "t")])}))
                    self.tags.add(f"nest:Loop:d{depth}")
                else:
                    fname = f"F{len(self.functions)}"
                    a, b = self.fresh("fa"), self.fresh("fb")
                    sub = HostGen(self.rng, self.families, size=max(3, self.size // 2), nest=self.nest)
                    sub.counter = self.counter + 1000 * (len(self.functions) + 1)
                    fb, fdef = sub.block([a, b], max(3, self.size // 2), 0, None, in_function=True)
                    self.tags |= sub.tags
                    fo = fdef[-1] if fdef else None
                    if fo is None:
                        fo = sub.fresh()
                        fb.append(HNode("Add", [a, b], [fo]))
                    self.functions.append((fname, HGraph([(a, "t"), (b, "t")], fb, [(fo, "t")])))
                    self.functions += sub.functions
                    out = self.fresh()
                    nodes.append(HNode(fname, [rng.choice(avail), rng.choice(avail)], [out], domain=DOM_HOST))
                    self.tags.add("nest:function")
                avail.append(out)
                defined.append(out)
            else:
                f = self.filler(avail)
                nodes.append(f)
                avail += f.outs
                defined += f.outs
        return nodes, defined

    def sub_block(self, avail, depth, prefer=None):
        n = max(2, self.size // 3)
        av = list(avail)
        if prefer:
            av = av + [prefer] * 3
        ns, defined = self.block(av, n, depth, None)
        if not defined or (prefer and self.rng.random() < 0.3):
            out = self.fresh()
            ns.append(HNode("Add", [self.rng.choice(av), prefer or self.rng.choice(av)], [out]))
            defined.append(out)
        # the subgraph output must be produced inside the subgraph
        out = self.rng.choice(defined[-2:])
        return ns, out

    def host(self, n_inputs=2, depth=2):
        rng = self.rng
        ins = [f"x{i}" for i in range(n_inputs)]
        inits = {}
        nodes, defined = self.block(ins, self.size, depth, inits)
        if not defined:
            o = self.fresh()
            nodes.append(HNode("Add", [ins[0], ins[-1]], [o]))
            defined.append(o)
        k = rng.choice([1, 1, 2, 3])
        outs = [defined[-1]]
        # matched outputs / intermediates as graph outputs
        planted_vals = [o for nd in nodes if nd.planted for o in nd.outs if nd.op != "Split"]
        cands = [d for d in defined if d not in outs] + [p for p in planted_vals if p not in outs]
        rng.shuffle(cands)
        for c in cands[: k - 1]:
            if c not in outs:
                outs.append(c)
        if any(o in planted_vals for o in outs):
            self.tags.add("planted-value-is-graph-output")
        g = HGraph([(i, "t") for i in ins] + [("cond", "b"), ("trip", "i")], nodes, [(o, "t") for o in outs], inits)
        return Host(g, list(self.functions), set(self.tags))


# ----------------------------------------------------------------------------- HGraph -> onnx

def to_model(host: Host, opset=18):
    import onnx
    from onnx import TensorProto, helper, numpy_helper

    KIND = {"t": (TensorProto.FLOAT, [3, 3]), "b": (TensorProto.BOOL, []), "i": (TensorProto.INT64, []),
            "f0": (TensorProto.FLOAT, []), "tb": (TensorProto.BOOL, [3, 3]), "ti": (TensorProto.INT64, [3, 3])}

    def vi(name, kind):
        t, s = KIND[kind]
        return helper.make_tensor_value_info(name, t, s)

    def mk_node(n: HNode):
        kw = {}
        for k, v in n.attrs.items():
            kw[k] = numpy_helper.from_array(v, "") if isinstance(v, np.ndarray) else v
        for k, g in n.subs.items():
            kw[k] = mk_graph(g, k)
        return helper.make_node(n.op, list(n.ins), list(n.outs), domain=n.domain, **kw)

    def mk_graph(g: HGraph, name):
        return helper.make_graph([mk_node(n) for n in g.nodes], name, [vi(*i) for i in g.ins], [vi(*o) for o in g.outs],
                                 initializer=[numpy_helper.from_array(a, k) for k, a in g.inits.items()])

    funcs = []
    for fname, fg in host.functions:
        funcs.append(helper.make_function(DOM_HOST, fname, [i for i, _ in fg.ins], [o for o, _ in fg.outs],
                                          [mk_node(n) for n in fg.nodes],
                                          opset_imports=[helper.make_opsetid("", opset), helper.make_opsetid(DOM_HOST, 1)]))
    imports = [helper.make_opsetid("", opset)]
    if funcs:
        imports.append(helper.make_opsetid(DOM_HOST, 1))
    m = helper.make_model(mk_graph(host.main, "main"), opset_imports=imports, ir_version=10, functions=funcs)
    return m


# ----------------------------------------------------------------------------- reference matcher (progress oracle)

def _uses(graph_nodes):
    """value -> list of (level-node index, nested?) for every mention as an input, nested subgraphs included."""
    uses = {}

    def mentions(n, acc):
        for i in n.ins:
            if i:
                acc.add(i)
        for g in n.subs.values():
            for m in g.nodes:
                mentions(m, acc)
            for o, _ in g.outs:
                acc.add(o)
    for idx, n in enumerate(graph_nodes):
        acc = set()
        mentions(n, acc)
        for v in acc:
            uses.setdefault(v, []).append(idx)
    return uses


def find_instances(g: HGraph, family, const_ok, graph_outs=None):
    """Indices i such that the family's pattern matches with root node i in this graph level.
    Returns list of dict(root, matched(set of idx), removable(bool), var_is_intermediate(bool))."""
    spec = FAMILIES[family]
    nodes = g.nodes
    prod = {}
    for idx, n in enumerate(nodes):
        for k, o in enumerate(n.outs):
            prod[o] = (idx, k)
    uses = _uses(nodes)
    outs = set(o for o, _ in g.outs) if graph_outs is None else set(graph_outs)
    res = []

    tnode = {}

    def m(t, val, env, matched, top_idx=None):
        if t[0] == "v":
            if t[1] in env:
                return env[t[1]] == val
            env[t[1]] = val
            return True
        if t[0] == "c":
            return const_ok(val, t[1])
        _, opname, args, attrs = t
        if top_idx is None:
            if val not in prod or prod[val][1] != 0:
                return False
            idx = prod[val][0]
        else:
            idx = top_idx
        n = nodes[idx]
        if n.op != opname or n.domain != "" or len(n.ins) != len(args):
            return False
        for k, v in attrs.items():
            if n.attrs.get(k) != v:
                return False
        if idx in matched and matched[idx] is not t:
            return False
        if tnode.get(id(t), idx) != idx:
            return False
        tnode[id(t)] = idx
        matched[idx] = t
        return all(m(a, i, env, matched) for a, i in zip(args, n.ins))

    if spec.get("roots"):
        return res                                   # patterns with several output nodes: no progress claim
    for idx, n in enumerate(nodes):
        env, matched = {}, {}
        tnode.clear()
        if not m(spec["pat"], None, env, matched, top_idx=idx):
            continue
        cv = spec.get("const_var")
        if cv is not None and not any(const_ok(env.get(cv), c) for c in (1.0, 2.0, -1.0)):
            continue
        nout = spec.get("nout", 1)
        pouts = set(nodes[idx].outs[:nout])
        if spec.get("named") is not None:
            pouts = {nodes[idx].outs[k] for k in spec["named"]}
        removable = True
        for j in matched:
            for o in nodes[j].outs:
                if o in pouts:
                    continue
                if o in outs or any(u not in matched for u in uses.get(o, [])):
                    removable = False
        inter = {o for j in matched for o in nodes[j].outs}
        res.append(dict(root=idx, matched=set(matched), removable=removable,
                        var_is_intermediate=any(v in inter for v in env.values())))
    return res


def all_levels(host: Host):
    """Yield (level description, HGraph, toplevel?) for the main graph, every nested graph and every function body."""
    def walk(g, desc, top):
        yield desc, g, top
        for i, n in enumerate(g.nodes):
            for k, sg in n.subs.items():
                yield from walk(sg, f"{desc}/{n.op}", False)
    yield from walk(host.main, "main", True)
    for fname, fg in host.functions:
        yield from walk(fg, f"function:{fname}", True)


# ----------------------------------------------------------------------------- container hosts (instance in ONE container only)

CONTAINERS = ["function", "function/If", "function/Loop", "If", "Loop", "main"]
ORDER_MODES = [("rev", "early"), ("fwd", "early"), ("rev", "late"), ("fwd", "late"), ("rnd", "rnd")]
NEUTRAL_UNARY = ["Floor", "Ceil"]        # ops no family's pattern mentions
NEUTRAL_BINARY = "Max"


def linear_extension(nodes, avail, rng, inst_order, consumer_pos):
    """One topological order of `nodes` (HNode list; `avail` = names defined outside).  inst_order: "fwd" / "rev" / "rnd"
    = preference among the ready nodes of the instance; consumer_pos: "early" (a ready consumer goes first: consumers of a
    later pattern output land BEFORE the remaining nodes of the instance) / "late" (instance first) / "rnd"."""
    defined = set(avail)
    left = list(enumerate(nodes))
    out = []
    while left:
        ready = [(k, n) for k, n in left if all((not i) or i in defined for i in n.ins)]
        assert ready, "cyclic instance"
        inst = [(k, n) for k, n in ready if n.planted]
        rest = [(k, n) for k, n in ready if not n.planted]
        if consumer_pos == "rnd" or inst_order == "rnd":
            pick = rng.choice(ready)
        else:
            first, second = (rest, inst) if consumer_pos == "early" else (inst, rest)
            pool = first or second
            if pool is inst:
                pick = pool[-1] if inst_order == "rev" else pool[0]
            else:
                pick = pool[0]
        left.remove(pick)
        out.append(pick[1])
        defined.update(pick[1].outs)
    return out


def container_host(family, where, rng, mode, shared_const=False, twice=False):
    """A host whose ONLY instance(s) of the family sit in one container: the body of a model-local function, an If branch
    or a Loop body inside that function, an If branch / a Loop body of the main graph, or the main graph itself.  Around
    the instance: a reader of each pattern input and a consumer of each pattern output (neutral ops), ordered by `mode`;
    shared_const: the constant operand of the pattern is also read by a node outside the match; twice: two instances
    sharing their operands (and the constant).  Returns (Host, description)."""
    spec = FAMILIES[family]
    gen = HostGen(rng, [family])
    gen.counter = 500
    in_fn = where.startswith("function")
    kind = where.split("/")[-1] if "/" in where or where in ("If", "Loop") else "top"
    main_inits = {}
    top_nodes = []           # nodes of the container's top level (Constant nodes the nested level reads)
    a, b = ("fa", "fb") if in_fn else ("x0", "x1")
    cond, trip = ("fcond", "ftrip") if in_fn else ("cond", "trip")
    s_in = "s_in"
    env_vals = [s_in if kind == "Loop" else a, b]

    def consts(val, out_nodes):
        # visible with a const_value: an initializer of the main graph, or a Constant node at the TOP level of the container
        if not in_fn and rng.random() < 0.5:
            name = f"k{len(main_inits)}"
            main_inits[name] = np.array(val, dtype=np.float32)
            return name
        name = gen.fresh("c")
        (top_nodes if kind != "top" else out_nodes).append(HNode("Constant", [], [name], {"value": np.array(val, dtype=np.float32)}))
        return name

    body = []
    outs_all = []
    const_names = []
    for rep in range(2 if twice else 1):
        env = [env_vals[i % 2] for i in range(spec["nv"])]
        if spec["nv"] == 1 and rep == 1:
            env = [env_vals[1]]
        cv = spec.get("const_var")
        pre = []
        if cv is not None:
            if rep == 0 or not const_names:
                env[cv] = consts(float(rng.choice([1.0, 2.0, -1.0])), pre)
                const_names.append(env[cv])
            else:
                env[cv] = const_names[0]
        ns, outs = gen.instantiate(spec["pat"], env, consts, family, spec.get("nout", 1), spec.get("roots"))
        for n in pre:
            n.planted = family
        body += pre + ns
        if spec.get("nout", 1) == 2:
            cat = gen.fresh()
            body.append(HNode("Concat", list(outs), [cat], {"axis": 0}))
            outs = [cat]
        outs_all += outs
    tail = []
    for k, o in enumerate(outs_all):
        c = gen.fresh("u")
        body.append(HNode(NEUTRAL_UNARY[k % 2], [o], [c]))
        tail.append(c)
    for k, v in enumerate(dict.fromkeys(env_vals)):
        r = gen.fresh("r")
        body.append(HNode(NEUTRAL_UNARY[(k + 1) % 2], [v], [r]))
        tail.append(r)
    if shared_const:
        for cn in [x for n in body if n.op == "Constant" for x in n.outs] + sorted(main_inits) + [x for n in top_nodes for x in n.outs]:
            r = gen.fresh("w")
            body.append(HNode(NEUTRAL_BINARY, [env_vals[0], cn], [r]))
            tail.append(r)
    acc = tail[0]
    for v in tail[1:]:
        nv = gen.fresh("m")
        body.append(HNode(NEUTRAL_BINARY, [acc, v], [nv]))
        acc = nv
    visible = [a, b, s_in] + sorted(main_inits) + [o for n in top_nodes for o in n.outs]
    body = linear_extension(body, visible, rng, *mode)

    if kind == "top":
        level_nodes, level_out = body, acc
    elif kind == "If":
        eo = gen.fresh("e")
        tb = HGraph([], body, [(acc, "t")])
        eb = HGraph([], [HNode(NEUTRAL_BINARY, [a, b], [eo])], [(eo, "t")])
        io = gen.fresh("io")
        pre_r, post_r = gen.fresh("r"), gen.fresh("r")
        level_nodes = top_nodes + [HNode("Ceil", [a], [pre_r]),
                                   HNode("If", [cond], [io], {}, {"then_branch": tb, "else_branch": eb}),
                                   HNode(NEUTRAL_BINARY, [io, pre_r], [post_r])]
        level_out = post_r
    else:
        it, ci, co = gen.fresh("it"), gen.fresh("ci"), gen.fresh("co")
        body.append(HNode("Identity", [ci], [co]))
        lo = gen.fresh("lo")
        pre_r, post_r = gen.fresh("r"), gen.fresh("r")
        lb = HGraph([(it, "i"), (ci, "b"), (s_in, "t")], body, [(co, "b"), (acc, "t")])
        level_nodes = top_nodes + [HNode("Ceil", [a], [pre_r]),
                                   HNode("Loop", [trip, "", a], [lo], {}, {"body": lb}),
                                   HNode(NEUTRAL_BINARY, [lo, pre_r], [post_r])]
        level_out = post_r
    base_ins = [("x0", "t"), ("x1", "t"), ("cond", "b"), ("trip", "i")]
    if in_fn:
        fg = HGraph([("fa", "t"), ("fb", "t"), ("fcond", "b"), ("ftrip", "i")], level_nodes, [(level_out, "t")])
        main = HGraph(base_ins, [HNode("Ceil", ["x0"], ["mpre"]),
                                 HNode("F0", ["mpre", "x1", "cond", "trip"], ["mcall"], domain=DOM_HOST),
                                 HNode(NEUTRAL_BINARY, ["mcall", "x1"], ["mout"])], [("mout", "t")])
        host = Host(main, [("F0", fg)], {"container:" + where})
    else:
        main = HGraph(base_ins, level_nodes, [(level_out, "t")], main_inits)
        host = Host(main, [], {"container:" + where})
    return host
