(* C19 property theorems, attention family + instance->group normalisation + cos/sin cache: statements only, each closed
   by `exact`, Print Assumptions beneath.
   Tensors are row-major flat lists with their dimensions given separately (what Reshape / Transpose / Expand / Concat
   act on); the attention of one head -- softmax, both MatMuls, scale, additive mask -- is an ARBITRARY function [attn] of
   the head's query / key / value / mask matrices; Cos, Sin, Sqrt, Cast are arbitrary functions; the normalisation and
   cache identities hold in every field.  All sizes are universally quantified (0 included).
   Not said here: rounding / kernel evaluation order (direct oracle), rotary embedding inside MHA/GQA (its own theorems in
   C19.v), key_padding_mask / sliding windows / softcap (never produced by the rules), the NCHW<->NHWC Transposes around
   GroupNorm (layout only; NumPy reference oracle), the value of the SDPA scale (C19_sdpa_scale_variants). *)
From Coq Require Import List ZArith Bool Arith.
Require Import OV.Fusion.Field OV.Fusion.Norm OV.Fusion.Rotary
               OV.Fusion.Attn OV.Fusion.AttnProofs OV.Fusion.GroupNorm OV.Fusion.GroupNormProofs
               OV.Fusion.CosSin OV.Fusion.CosSinProofs.
Import ListNotations.

(* ---- 1. head splitting / merging ------------------------------------------------------------------------ *)
(* Reshape [B,S,H*Dh]->[B,S,H,Dh] + Transpose(0,2,1,3) of q/k/v, attention per head over [B,H,.,.], Transpose(0,2,1,3) +
   Reshape back  =  MultiHeadAttention(num_heads = H) on the packed operands; every B, S, T, H, Dh, Dv *)
Theorem C19_mha_split_merge : forall (A : Type) (d0 : A)
  (attn : list (list A) -> list (list A) -> list (list A) -> option (list (list A)) -> list (list A))
  B S T H Dh Dv q k v mask,
  mha_pattern A d0 attn B S T H Dh Dv q k v mask = mha_spec A d0 attn B S T H Dh Dv q k v mask.
Proof. exact mha_split_merge. Qed.
Print Assumptions C19_mha_split_merge.

(* the index bijection itself: head (b,h) of the transposed tensor is column block h of the packed one *)
Theorem C19_split_heads : forall (A : Type) (d0 : A) B S H Dh x b h, b < B -> h < H ->
  mat_at A d0 H S Dh (transpose0213 A d0 B S H Dh (reshape A x)) b h = head_packed A d0 S H Dh x b h.
Proof. exact split_heads. Qed.
Print Assumptions C19_split_heads.

Theorem C19_merge_heads : forall (A : Type) (d0 : A) B H S Dv M,
  reshape A (transpose0213 A d0 B H S Dv (stack_heads A d0 B H S Dv M)) = pack_heads A d0 B H S Dv M.
Proof. exact merge_heads. Qed.
Print Assumptions C19_merge_heads.

Example C19_mha_pattern_computes :
  mha_pattern nat 0 (fun Q _ _ _ => rev Q) 1 2 2 2 1 1 [1; 2; 3; 4] [5; 6; 7; 8] [9; 10; 11; 12] (fun _ _ => None) = [3; 4; 1; 2].
Proof. exact mha_pattern_computes. Qed.

(* sdpa_via_mha.py (the inverse direction): SDPA on [B,H,.,.] = Transpose+Reshape, MultiHeadAttention, Reshape+Transpose *)
Theorem C19_sdpa_lowering_sound : forall (A : Type) (d0 : A)
  (attn : list (list A) -> list (list A) -> list (list A) -> option (list (list A)) -> list (list A))
  B S T H Dh Dv q4 k4 v4 mask,
  sdpa_lowered A d0 attn B S T H Dh Dv q4 k4 v4 mask = sdpa4 A d0 attn B S T H Dh Dv q4 k4 v4 mask.
Proof. exact sdpa_lowering_sound. Qed.
Print Assumptions C19_sdpa_lowering_sound.

(* past key/value: Concat(past, current, axis=-2) on [B,N,.,Dh] gives head (b,n) the past rows followed by the new ones
   (the operator's present_key / present_value) *)
Theorem C19_concat_seq_mat : forall (A : Type) (d0 : A) B N P S Dh past cur b n, b < B -> n < N ->
  mat_at A d0 N (P + S) Dh (concat_seq A d0 B N P S Dh past cur) b n
  = mat_at A d0 N P Dh past b n ++ mat_at A d0 N S Dh cur b n.
Proof. exact concat_seq_mat. Qed.
Print Assumptions C19_concat_seq_mat.

(* side conditions of MultiHeadAttention.check: what an accepted match looks like ... *)
Theorem C19_mha_check_shapes : forall st i h ub, mha_check_rewrite st i = Some (h, ub) ->
  exists b s d dh, mi_query i = Some [b; s; d] /\ mi_query4 i = Some [b; s; h; dh] /\ (0 <= h)%Z
    /\ mi_key_format_bhsd i = mi_key_transposed i.
Proof. exact mha_check_shapes. Qed.
Print Assumptions C19_mha_check_shapes.

(* ... sufficient when run-time sizes are a function of the recorded dims (static or NAMED symbolic): the Reshape is the
   head split with H = the num_heads attribute, hidden = num_heads * head_size *)
Theorem C19_mha_check_sufficient : forall st i h ub (val : Z -> Z) rq rq4,
  mha_check_rewrite st i = Some (h, ub) -> consistent val ->
  option_map (map val) (mi_query i) = Some rq -> option_map (map val) (mi_query4 i) = Some rq4 ->
  zprod rq = zprod rq4 -> (forall x, In x rq -> 0 < x)%Z ->
  exists B S Dh, rq = [B; S; h * Dh]%Z /\ rq4 = [B; S; h; Dh].
Proof. exact mha_check_sufficient. Qed.
Print Assumptions C19_mha_check_sufficient.

Example C19_mha_check_sufficient_satisfiable :
  let i := mk_mha_in false true true (Some [-2; -3; 8]%Z) (Some [-2; -3; 2; 4]%Z) (Some [-2; -3; 8]%Z) (Some [-2; -3; 8]%Z) None None
                     (Some (Some [1; 1; 1; -3]%Z)) in
  let val := fun d : Z => if Z.eqb d (-2) then 2%Z else if Z.eqb d (-3) then 3%Z else d in
  mha_check_rewrite true i = Some (2%Z, true) /\ consistent val
  /\ option_map (map val) (mi_query i) = Some [2; 3; 8]%Z /\ option_map (map val) (mi_query4 i) = Some [2; 3; 2; 4]%Z
  /\ zprod [2; 3; 8]%Z = zprod [2; 3; 2; 4]%Z.
Proof. exact mha_check_sufficient_satisfiable. Qed.

(* FINDING (known, C19:mha:unnamed-dims-compared-equal): NOT sufficient for unnamed dims -- onnx_ir makes
   SymbolicDim(None) == SymbolicDim(None), the check accepts query [?,?,8] / Reshape output [?,?,2,4] whose run-time shapes
   are [2,3,8] / [3,2,2,4] *)
Theorem C19_mha_check_unnamed_dims_refuted : exists i rq rq4,
  mha_check_rewrite false i = Some (2%Z, false) /\ fits_codes (mi_query i) rq = true /\ fits_codes (mi_query4 i) rq4 = true
  /\ zprod rq = zprod rq4 /\ firstn 2 rq4 <> firstn 2 rq.
Proof. exact mha_check_unnamed_dims_refuted. Qed.
Print Assumptions C19_mha_check_unnamed_dims_refuted.

(* ---- 2. GroupQueryAttention ---------------------------------------------------------------------------- *)
(* Unsqueeze/Expand/Reshape repetition of the kv heads = the operator's grouping (query head h reads kv head
   h / (num_heads / kv_num_heads)); every B, S, T, Dh, every kv head count Hkv >= 1 and group size G >= 1 *)
Theorem C19_gqa_repeat_kv : forall (A : Type) (d0 : A)
  (attn : list (list A) -> list (list A) -> list (list A) -> option (list (list A)) -> list (list A))
  B S T Hkv G Dh q kseq vseq mask, 0 < Hkv -> 0 < G ->
  gqa_pattern A d0 attn B S T Hkv G Dh q kseq vseq mask = gqa_spec A d0 attn B S T (Hkv * G) Hkv Dh q kseq vseq mask.
Proof. exact gqa_repeat_kv. Qed.
Print Assumptions C19_gqa_repeat_kv.

(* the same for every pair (heads, kv_heads) with kv_heads | heads *)
Theorem C19_gqa_repeat_kv_divides : forall (A : Type) (d0 : A)
  (attn : list (list A) -> list (list A) -> list (list A) -> option (list (list A)) -> list (list A))
  B S T H Hkv Dh q kseq vseq mask, 0 < Hkv -> 0 < H -> H mod Hkv = 0 ->
  gqa_pattern A d0 attn B S T Hkv (H / Hkv) Dh q kseq vseq mask = gqa_spec A d0 attn B S T H Hkv Dh q kseq vseq mask.
Proof. exact gqa_repeat_kv_divides. Qed.
Print Assumptions C19_gqa_repeat_kv_divides.

Theorem C19_repeat_kv_head : forall (A : Type) (d0 : A) B Hkv G T Dh x b h, b < B -> h < Hkv * G ->
  mat_at A d0 (Hkv * G) T Dh (repeat_kv A d0 B Hkv G T Dh x) b h = mat_at A d0 Hkv T Dh x b (h / G).
Proof. exact repeat_kv_head. Qed.
Print Assumptions C19_repeat_kv_head.

Example C19_gqa_pattern_computes :
  gqa_pattern nat 0 (fun _ K _ _ => K) 1 2 2 1 2 1 [1; 2; 3; 4] [5; 6] [7; 8] (fun _ _ => None) = [5; 5; 6; 6].
Proof. exact gqa_pattern_computes. Qed.

(* the causal mask the pattern builds (with or without Trilu) blocks exactly what the operator's causality blocks *)
Theorem C19_causal_mask_is_gqa_causality : forall trilu P s t, mask_blocked trilu P s t = negb (causal_allowed P s t).
Proof. exact causal_mask_is_gqa_causality. Qed.
Print Assumptions C19_causal_mask_is_gqa_causality.

(* rewrite: seqlens_k = ReduceMax(position_ids) = total - 1 and total_sequence_length = past + S when the position ids of
   every batch row are past, past+1, ..., past+S-1 *)
Theorem C19_gqa_seqlens : forall P S, 0 < S -> seqlens_k (seq P S) = P + S - 1.
Proof. exact gqa_seqlens. Qed.
Print Assumptions C19_gqa_seqlens.
Theorem C19_gqa_total_seq_len : forall P S B, 0 < S -> 0 < B -> total_seq_len (repeat (seq P S) B) = P + S.
Proof. exact gqa_total_seq_len. Qed.
Print Assumptions C19_gqa_total_seq_len.

Theorem C19_gqa_check_sound : forall st h16 i h hkv il, gqa_check_rewrite st h16 i = Some (h, hkv, il) ->
  (0 <= h)%Z /\ (0 <= hkv)%Z /\ dim_at (gi_query4 i) 2 = Some h /\ dim_at (gi_key4 i) 2 = Some hkv
  /\ gi_q_interleaved i = il /\ gi_k_interleaved i = il /\ gi_mask_has_producer i = true
  /\ (st = true -> gi_mask_is_causal_pattern i = true).
Proof. exact gqa_check_sound. Qed.
Print Assumptions C19_gqa_check_sound.

Example C19_gqa_check_fires : gqa_check_rewrite true true (gqa_witness 16 true) = Some (4, 2, 0)%Z /\ gqa_kernel_ok 4 2 16 = true.
Proof. exact gqa_check_fires. Qed.

(* FINDING (known, C19:gqa:head-size-not-multiple-of-16): the check never looks at the head size *)
Theorem C19_gqa_check_head_size_refuted : exists i h hkv il dh,
  gqa_check_rewrite true false i = Some (h, hkv, il) /\ dim_at (gi_query4 i) 3 = Some dh /\ gqa_kernel_ok h hkv dh = false.
Proof. exact gqa_check_head_size_refuted. Qed.
Print Assumptions C19_gqa_check_head_size_refuted.
(* ... the repair (head16 = true, fix 4396b26; the harness probes the variant) establishes it *)
Theorem C19_gqa_check_head16_sufficient : forall st i h hkv il, gqa_check_rewrite st true i = Some (h, hkv, il) ->
  exists dh, dim_at (gi_query4 i) 3 = Some dh /\ (0 <= dh)%Z /\ (dh mod 16 = 0)%Z
    /\ ((0 < hkv)%Z -> (h mod hkv = 0)%Z -> gqa_kernel_ok h hkv dh = true).
Proof. exact gqa_check_head16_sufficient. Qed.
Print Assumptions C19_gqa_check_head16_sufficient.
Theorem C19_gqa_head16_witness_refused_by_repair : gqa_check_rewrite true true (gqa_witness 8 true) = None
  /\ gqa_check_rewrite false true (gqa_witness 24 true) = None.
Proof. exact gqa_head16_witness_refused_by_repair. Qed.
Print Assumptions C19_gqa_head16_witness_refused_by_repair.

(* FINDING (known, C19:gqa:non-causal-mask-accepted): as written, a computed mask that is NOT the causal pattern is accepted
   (and then replaced by the operator's causal masking); the intended check refuses it *)
Theorem C19_gqa_check_mask_refuted : exists i h hkv il,
  gqa_check_rewrite false false i = Some (h, hkv, il) /\ gi_mask_is_causal_pattern i = false /\ gqa_check_rewrite true false i = None.
Proof. exact gqa_check_mask_refuted. Qed.
Print Assumptions C19_gqa_check_mask_refuted.

(* ---- 3. mask / attention_bias broadcasting --------------------------------------------------------------- *)
(* a mask [1|B, 1|H, S, T] is read by the operator exactly as NumPy broadcasting reads it in the pattern's Add *)
Theorem C19_mask_broadcast_S : forall (A : Type) (d0 : A) Bm Hm S T m b h,
  mask_numpy A d0 Bm Hm S S T m b h = mask_mha A d0 Bm Hm S T m b h.
Proof. exact mask_broadcast_S. Qed.
Print Assumptions C19_mask_broadcast_S.

(* a mask [1|B, 1|H, 1, T] (or 2-D [1,T]: Bm = Hm = 1) after the rewrite's Expand(mask, [1,1,S,1]) *)
Theorem C19_mask_broadcast_expand : forall (A : Type) (d0 : A) B H Bm Hm S T m b h,
  (Bm = 1 \/ Bm = B) -> (Hm = 1 \/ Hm = H) -> b < B -> h < H ->
  mask_numpy A d0 Bm Hm 1 S T m b h = mask_mha A d0 Bm Hm S T (expand_S A d0 Bm Hm S T m) b h.
Proof. exact mask_broadcast_expand. Qed.
Print Assumptions C19_mask_broadcast_expand.

Example C19_mask_broadcast_expand_computes :
  mask_numpy nat 0 1 1 1 2 2 [7; 8] 0 1 = [[7; 8]; [7; 8]] /\ expand_S nat 0 1 1 2 2 [7; 8] = [7; 8; 7; 8].
Proof. exact mask_broadcast_expand_computes. Qed.

(* when the mask has the documented form and check accepted its dimension 2, the rewritten node's mask is acceptable *)
Theorem C19_mha_mask_after_ok : forall B H S T mb mh ms ub, (0 < S)%Z ->
  ((mb = 1 \/ mb = B) /\ (mh = 1 \/ mh = H))%Z -> mask_dim2_rule S ms = Some ub ->
  mha_mask_ok B H S T (mha_mask_after ub S [mb; mh; ms; T]) = true.
Proof. exact mha_mask_after_ok. Qed.
Print Assumptions C19_mha_mask_after_ok.

(* FINDINGS (known, C19:mha:mask-last-dim-broadcast / C19:mha:mask-batch-exceeds-query-batch): check does not compare the
   mask's last dimension with the total sequence length nor its first two with B / H *)
Theorem C19_mha_mask_check_refuted : exists i B H S T mask ub h,
  mi_mask i = Some (Some mask) /\ mha_check_rewrite false i = Some (h, ub) /\ numpy_broadcastable mask [B; H; S; T] = true
  /\ mha_mask_ok B H S T (mha_mask_after ub S mask) = false.
Proof. exact mha_mask_check_refuted. Qed.
Print Assumptions C19_mha_mask_check_refuted.
Theorem C19_mha_mask_batch_check_refuted : exists i B H S T mask ub h,
  mi_mask i = Some (Some mask) /\ mha_check_rewrite false i = Some (h, ub)
  /\ mha_mask_ok B H S T (mha_mask_after ub S mask) = false /\ nth 3 mask 0%Z = T.
Proof. exact mha_mask_batch_check_refuted. Qed.
Print Assumptions C19_mha_mask_batch_check_refuted.
(* the repair (strict_mask = true, fix 20eab3b; the harness probes the variant).  It only adds refusals ... *)
Theorem C19_mha_strict_refines : forall i r, mha_check_rewrite true i = Some r -> mha_check_rewrite false i = Some r.
Proof. exact mha_strict_refines. Qed.
Print Assumptions C19_mha_strict_refines.
(* ... and is sufficient for the mask (static dims; T = total key/value length, = Skv without a past; the matched Add of the
   mask to the scores [B,H,S,T] is well-formed, so the mask's last dim is T or 1 and a 2-D mask's first dim is S or 1): the fused
   node's attention_bias has the documented shape (1|B, 1|H, S, T) *)
Theorem C19_mha_check_strict_mask_sufficient : forall i h ub B S D Bk Skv Dk mask T,
  mha_check_rewrite true i = Some (h, ub) ->
  mi_query i = Some [B; S; D] -> mi_key i = Some [Bk; Skv; Dk] -> mi_mask i = Some (Some mask) ->
  (0 < S)%Z ->
  (last mask 0 = T \/ last mask 0 = 1)%Z ->
  (mi_has_past i = false -> T = Skv) ->
  (forall ms mt, mask = [ms; mt] -> ms = S \/ ms = 1%Z) ->
  mha_mask_ok B h S T (mha_mask_after ub S mask) = true.
Proof. exact mha_check_strict_mask_sufficient. Qed.
Print Assumptions C19_mha_check_strict_mask_sufficient.
Theorem C19_mha_mask_witnesses_refused_by_repair :
  mha_check_rewrite true (mk_mha_in false true true (Some [2; 3; 8]%Z) (Some [2; 3; 2; 4]%Z) (Some [2; 3; 8]%Z) (Some [2; 3; 8]%Z) None None (Some (Some [2; 1; 3; 1]%Z))) = None
  /\ mha_check_rewrite true (mk_mha_in false true true (Some [1; 3; 8]%Z) (Some [1; 3; 2; 4]%Z) (Some [1; 3; 8]%Z) (Some [1; 3; 8]%Z) None None (Some (Some [3; 1; 3; 3]%Z))) = None.
Proof. exact mha_mask_witnesses_refused_by_repair. Qed.
Print Assumptions C19_mha_mask_witnesses_refused_by_repair.
Example C19_mha_check_strict_mask_fires :
  mha_check_rewrite true (mk_mha_in false true true (Some [2; 3; 8]%Z) (Some [2; 3; 2; 4]%Z) (Some [2; 5; 8]%Z) (Some [2; 5; 8]%Z) None None (Some (Some [2; 1; 1; 5]%Z))) = Some (2%Z, true).
Proof. exact mha_check_strict_mask_fires. Qed.

(* ---- Attention (packed projection) ---------------------------------------------------------------------- *)
Theorem C19_attention_packed_projection : forall (A R : Type) (dot : list A -> list A -> R) (row : list A) (wq wk wv : list (list A)),
  let proj := map (dot row) (wq ++ wk ++ wv) in
  firstn (length wq) proj = map (dot row) wq
  /\ firstn (length wk) (skipn (length wq) proj) = map (dot row) wk
  /\ skipn (length wq + length wk) proj = map (dot row) wv.
Proof. exact attention_packed_projection. Qed.
Print Assumptions C19_attention_packed_projection.
Theorem C19_att_check_sound : forall i dq dk dv, att_check_rewrite i = Some (dq, dk, dv) -> (0 <= dq /\ 0 <= dk /\ 0 <= dv)%Z.
Proof. exact att_check_sound. Qed.
Print Assumptions C19_att_check_sound.

(* ---- 4. instance -> group normalisation ---------------------------------------------------------------- *)
(* any field, any Sqrt, any number of channels per group and any spatial size *)
Theorem C19_instance_to_group_norm_identity : forall F (o : fops F), is_field o -> forall (sqrt : F -> F)
  (chans : list (list F)) (w b : list F) (eps : F),
  ign_pattern F o sqrt chans w b eps = gn_spec F o sqrt chans w b eps.
Proof. exact instance_to_group_norm_identity. Qed.
Print Assumptions C19_instance_to_group_norm_identity.
(* Reshape([0,G,-1]) puts channel g*cpg+j of sample n at offset j*HW of group row (n,g) *)
Theorem C19_group_reshape_index : forall n g j e G cpg HW,
  (n * G + g) * (cpg * HW) + (j * HW + e) = (n * (G * cpg) + (g * cpg + j)) * HW + e.
Proof. exact group_reshape_index. Qed.
Print Assumptions C19_group_reshape_index.
Theorem C19_gn_check_sound : forall ag i g, gn_check ag i = Some g ->
  g = gn_groups i /\ length (gn_input i) = 4%nat /\ gn_adjusted i = Some [0; g; -1]%Z /\ gn_original i = Some (gn_input i)
  /\ gn_norm_weight_ones i = true /\ gn_norm_bias_zeros i = true
  /\ length (gn_weight_full i) = 3%nat /\ all_ones (tl (gn_weight_full i)) = true.
Proof. exact gn_check_sound. Qed.
Print Assumptions C19_gn_check_sound.
(* FINDING (known, C19:instance_to_group_norm:affine-of-length-1): weight_full / bias_full [1,1,1] are accepted *)
Theorem C19_gn_check_affine_refuted : exists i g, gn_check false i = Some g /\ gn_affine_ok i = false /\ gn_check true i = None.
Proof. exact gn_check_affine_refuted. Qed.
Print Assumptions C19_gn_check_affine_refuted.
(* the repair (affine_guard = true, fix b960a70; the harness probes the variant): gamma / beta have C elements *)
Theorem C19_gn_check_affine_sufficient : forall i g, gn_check true i = Some g -> gn_affine_ok i = true.
Proof. exact gn_check_affine_sufficient. Qed.
Print Assumptions C19_gn_check_affine_sufficient.
Example C19_gn_check_affine_fires :
  gn_check true (mk_gn_in true true 2 [1; 4; 2; 2]%Z [4; 1; 1]%Z [4; 1; 1]%Z (Some [0; 2; -1]%Z) (Some [1; 4; 2; 2]%Z)) = Some 2%Z.
Proof. exact gn_check_affine_fires. Qed.

(* ---- 5. cos / sin cache --------------------------------------------------------------------------------- *)
(* Gather of the cache row position_ids[b,s] = Cos/Sin of that position's frequencies, for every cache length *)
Theorem C19_cache_gather : forall F (o : fops F), is_field o -> forall (cast : nat -> F) (fn : F -> F) inv_freq max_pos p,
  p <= max_pos -> gather F (cache F o cast fn inv_freq max_pos) p = map fn (freqs_row F o cast inv_freq p).
Proof. exact cache_gather. Qed.
Print Assumptions C19_cache_gather.
(* the whole rewrite on one row: rotate-half with Cos/Sin(Concat(freqs, freqs)) = RotaryEmbedding(x, position_ids, caches) *)
Theorem C19_cos_sin_cache_identity : forall F (o : fops F), is_field o -> forall (cosf sinf : F -> F) (cast : nat -> F)
  (x1 x2 inv_freq : list F) p max_pos e2,
  let x := x1 ++ x2 in let h := length inv_freq in
  length x1 = h -> length x2 = h -> length x <= e2 -> p <= max_pos ->
  cs_pattern F o cosf sinf cast x inv_freq p 0 (length x / 2) (length x / 2) e2 = cs_spec F o cosf sinf cast x inv_freq p max_pos.
Proof. exact cos_sin_cache_identity. Qed.
Print Assumptions C19_cos_sin_cache_identity.
Theorem C19_cs_check_sound : forall i u, cs_check i = Some u -> cs_const_freqs i = false ->
  exists e, cs_inv_freq_shape i = Some [1; e; 1]%Z /\ cs_inv_freq_const i = true
  /\ ((cs_pos_rank i = Some 2%nat /\ cs_extra_dims i = Some [1%Z] /\ u = false)
      \/ (cs_pos_rank i = Some 1%nat /\ cs_extra_dims i = Some [0; 1]%Z /\ u = true)).
Proof. exact cs_check_sound. Qed.
Print Assumptions C19_cs_check_sound.
