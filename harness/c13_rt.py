"""C13 round-trip runner: proto -> proto2python -> ast.parse -> exec (temp module) -> to_model_proto -> ORT.

`round_trip(case, opts, workdir)` returns an Outcome dict:
    stage   : "ok" | "export" | "syntax" | "exec" | "no-function" | "to_proto" | "interface" | "load" | "run" | "mismatch"
    exc     : exception class name (if any), msg: short message
    code    : generated source (if produced)
    detail  : what differs
The original model's own ORT results are computed by the caller once per case (`reference_outputs`).
"""
from __future__ import annotations

import ast
import importlib.util
import os
import sys

import numpy as np
import onnx
from onnx import helper as h

_counter = [0]
RUN_TIMEOUT_S = 20.0


def ort_session(model_proto):
    import onnxruntime as ort
    so = ort.SessionOptions()
    so.graph_optimization_level = ort.GraphOptimizationLevel.ORT_DISABLE_ALL
    so.log_severity_level = 4
    so.intra_op_num_threads = 1
    so.inter_op_num_threads = 1
    return ort.InferenceSession(model_proto.SerializeToString(), so, providers=["CPUExecutionProvider"])


def load_module(code, workdir):
    """Execute generated source as a fresh module backed by a real file (inspect.getsource must work)."""
    _counter[0] += 1
    name = f"c13_generated_{os.getpid()}_{_counter[0]}"
    path = os.path.join(workdir, name + ".py")
    with open(path, "w", encoding="utf-8") as f:
        f.write(code)
    spec = importlib.util.spec_from_file_location(name, path)
    mod = importlib.util.module_from_spec(spec)
    sys.modules[name] = mod
    try:
        spec.loader.exec_module(mod)
    finally:
        sys.modules.pop(name, None)
    # keep it importable for inspect during to_model_proto
    sys.modules[name] = mod
    return mod, name


def unload(name):
    sys.modules.pop(name, None)


def wrap_function(fp, iface, attrs=None):
    """A model with a single call of FunctionProto `fp`; graph interface copied from `iface` (ValueInfos)."""
    ins, outs = iface
    call = h.make_node(fp.name, list(fp.input), list(fp.output), domain=fp.domain, **(attrs or {}))
    g = h.make_graph([call], "caller", list(ins), list(outs))
    opsets = [h.make_opsetid(fp.domain, 1)] + [h.make_opsetid(o.domain, o.version) for o in fp.opset_import if o.domain != fp.domain]
    m = h.make_model(g, opset_imports=opsets, ir_version=9, functions=[fp])
    return m


def type_sig(vi):
    t = vi.type.tensor_type
    if not t.HasField("shape"):
        return (t.elem_type, None)
    dims = []
    for d in t.shape.dim:
        if d.HasField("dim_value"):
            dims.append(d.dim_value)
        elif d.HasField("dim_param"):
            dims.append(d.dim_param)
        else:
            dims.append(None)
    return (t.elem_type, tuple(dims))


def same_arrays(a, b):
    if len(a) != len(b):
        return False, f"{len(a)} outputs vs {len(b)}"
    for i, (x, y) in enumerate(zip(a, b)):
        x, y = np.asarray(x), np.asarray(y)
        if x.dtype != y.dtype:
            return False, f"output {i}: dtype {x.dtype} vs {y.dtype}"
        if x.shape != y.shape:
            return False, f"output {i}: shape {x.shape} vs {y.shape}"
        if x.dtype.kind == "f":
            if not np.allclose(x, y, rtol=1e-5, atol=1e-6, equal_nan=True):
                return False, f"output {i}: values differ {x.ravel()[:6].tolist()} vs {y.ravel()[:6].tolist()}"
        elif not np.array_equal(x, y):
            return False, f"output {i}: values differ {x.ravel()[:6].tolist()} vs {y.ravel()[:6].tolist()}"
    return True, ""


def reference_outputs(case):
    """ORT results of the original on every feed (raises if the generator produced an unrunnable model)."""
    if case["kind"] == "model":
        m = case["proto"]
    else:
        m = wrap_function(case["proto"], case["iface"], case.get("call_attrs"))
    sess = ort_session(m)
    return [sess.run(None, f) for f in case["feeds"]]


def _short(e):
    return (type(e).__name__, str(e).replace("\n", " | ")[:400])


def round_trip(case, opts, workdir, ref, cleanup, check_input_names=True):
    import onnxscript
    proto = case["proto"]
    out = {"stage": "ok", "exc": None, "msg": "", "code": None, "detail": ""}
    try:
        code = onnxscript.proto2python(proto, **opts)
    except Exception as e:  # noqa: BLE001
        out.update(stage="export", exc=_short(e)[0], msg=_short(e)[1])
        return out
    out["code"] = code
    try:
        ast.parse(code)
    except SyntaxError as e:
        out.update(stage="syntax", exc=_short(e)[0], msg=_short(e)[1])
        return out
    modname = None
    try:
        try:
            mod, modname = load_module(code, workdir)
        except Exception as e:  # noqa: BLE001
            out.update(stage="exec", exc=_short(e)[0], msg=_short(e)[1])
            return out
        try:
            if case["kind"] == "model":
                if hasattr(mod, "make_model") and opts.get("skip_initializers"):
                    # documented protocol of skip_initializers: make_model(<large initializers in graph order>)
                    arrays = [v for _, v in case.get("large_inits", [])]
                    out["protocol"] = "make_model"
                    import inspect
                    import itertools
                    n_params = len(inspect.signature(mod.make_model).parameters)
                    if n_params != len(arrays):
                        # fewer / more parameters than skipped initializers: the property still holds if SOME way of filling them
                        # with the model's own initializers reproduces the model (seeded/C13-8); try every one
                        last = None
                        for pick in itertools.islice(itertools.permutations(arrays, n_params), 24):
                            try:
                                cand = mod.make_model(*pick)
                            except Exception:  # noqa: BLE001
                                continue
                            last = _compare_model(case, opts, proto, cand, ref, cleanup, check_input_names, dict(out))
                            if last["stage"] == "ok":
                                return last
                        out.update(stage="mismatch", detail=f"make_model takes {n_params} parameter(s) for {len(arrays)} skipped initializers and no choice "
                                                            f"of the model's own initializers reproduces the model ({(last or {}).get('detail', 'make_model raised')})")
                        out["make_model_arity"] = (n_params, len(arrays))
                        return out
                    m2 = mod.make_model(*arrays)
                else:
                    fns = [v for v in mod.__dict__.values() if isinstance(v, onnxscript.OnnxFunction)]
                    if not fns:
                        out.update(stage="no-function", msg="module defines no script function")
                        return out
                    m2 = fns[-1].to_model_proto(ir_version=proto.ir_version)
            else:
                fns = [v for v in mod.__dict__.values() if isinstance(v, onnxscript.OnnxFunction)]
                if not fns:
                    out.update(stage="no-function", msg="module defines no script function")
                    return out
                fp2 = fns[-1].to_function_proto()
        except Exception as e:  # noqa: BLE001
            out.update(stage="to_proto", exc=_short(e)[0], msg=_short(e)[1])
            return out
    finally:
        if modname:
            unload(modname)
    if case["kind"] == "model":
        return _compare_model(case, opts, proto, m2, ref, cleanup, check_input_names, out)
    return _compare(case, opts, proto, None, fp2, ref, cleanup, check_input_names, out)


def _compare_model(case, opts, proto, m2, ref, cleanup, check_input_names, out):
    return _compare(case, opts, proto, m2, None, ref, cleanup, check_input_names, out)


def _compare(case, opts, proto, m2, fp2, ref, cleanup, check_input_names, out):
    # ---- interface
    if case["kind"] == "model":
        g1, g2 = proto.graph, m2.graph
        init1 = {i.name for i in g1.initializer}
        in1 = [i for i in g1.input if i.name not in init1]
        in2 = list(g2.input)
        if len(in1) != len(in2) or len(g1.output) != len(g2.output):
            out.update(stage="interface", detail=f"arity: {len(in1)}->{len(g1.output)} became {len(in2)}->{len(g2.output)}")
            return out
        for a, b in zip(in1, in2):
            if type_sig(a) != type_sig(b):
                out.update(stage="interface", detail=f"input {a.name!r}: type {type_sig(a)} became {type_sig(b)}")
                return out
            if check_input_names and not opts.get("rename") and cleanup(a.name) != b.name:
                out.update(stage="interface", detail=f"input {a.name!r}: name became {b.name!r}, expected {cleanup(a.name)!r}")
                return out
        for a, b in zip(g1.output, g2.output):
            if type_sig(a) != type_sig(b):
                out.update(stage="interface", detail=f"output {a.name!r}: type {type_sig(a)} became {type_sig(b)}")
                return out
        out["output_names_kept"] = all(cleanup(a.name) == b.name for a, b in zip(g1.output, g2.output))
        run_model = m2
        feeds2 = [{b.name: f[a.name] for a, b in zip(in1, in2)} for f in case["feeds"]]
    else:
        if len(proto.input) != len(fp2.input) or len(proto.output) != len(fp2.output):
            out.update(stage="interface", detail=f"function arity {len(proto.input)}->{len(proto.output)} became {len(fp2.input)}->{len(fp2.output)}")
            return out
        if list(proto.attribute) != list(fp2.attribute):
            out.update(stage="interface", detail=f"attribute parameters {list(proto.attribute)} became {list(fp2.attribute)}")
            return out
        if fp2.name != proto.name and fp2.name != cleanup(proto.name):
            out.update(stage="interface", detail=f"function name {proto.name!r} became {fp2.name!r}")
            return out
        ins, outs = case["iface"]
        # the re-translated function keeps positional interface; call it with the original graph interface
        ren_in = [h.make_tensor_value_info(n, vi.type.tensor_type.elem_type, None) for n, vi in zip(fp2.input, ins)]
        for r_, vi in zip(ren_in, ins):
            r_.type.CopyFrom(vi.type)
        ren_out = [h.make_tensor_value_info(n, vi.type.tensor_type.elem_type, None) for n, vi in zip(fp2.output, outs)]
        for r_, vi in zip(ren_out, outs):
            r_.type.CopyFrom(vi.type)
        run_model = wrap_function(fp2, (ren_in, ren_out), case.get("call_attrs"))
        feeds2 = [{b.name: f[a.name] for a, b in zip(ins, ren_in)} for f in case["feeds"]]
    try:
        sess = ort_session(run_model)
    except Exception as e:  # noqa: BLE001
        out.update(stage="load", exc=_short(e)[0], msg=_short(e)[1])
        return out
    import threading

    import onnxruntime as ort
    for k, f in enumerate(feeds2):
        ro = ort.RunOptions()
        timer = threading.Timer(RUN_TIMEOUT_S, lambda ro=ro: setattr(ro, "terminate", True))  # a loop that never stops
        timer.start()
        try:
            got = sess.run(None, f, run_options=ro)
        except Exception as e:  # noqa: BLE001
            out.update(stage="run", exc=_short(e)[0], msg=_short(e)[1])
            return out
        finally:
            timer.cancel()
        ok, why = same_arrays(ref[k], got)
        if not ok:
            out.update(stage="mismatch", detail=f"feed {k}: {why}")
            return out
    return out
