(* Soundness of the InlinePass model (Opt/InlineFn.v), for arbitrary kernels, any nesting, any function table on which the model
   terminates (a recursive function set exhausts the fuel: None):
     eval_graph_sem_rel     evaluation is monotone in the kernel, and reads the kernel only at the (domain, op) pairs that occur
     fsem_unfolds           the kernels `fsem ft k` justify every call by the evaluation of the body under the same kernels
     inline_model_sound     eval (inline M) = eval M in the refinement sense used for every other stage (whatever M computes, the
                            inlined graph computes, WITHOUT the function table: plain kernels)
     remove_unused_functions_sound / _keeps_called, remove_unused_opsets_keeps_used
   The per-site argument is C18's (Builder/InlineProofs.v: run_rel / eval_graph_rel), re-instantiated for this pass's naming. *)
From Coq Require Import List String ZArith Bool Arith Lia.
Require Import OV.Graph.Syntax OV.Graph.Sem OV.Graph.Names OV.Graph.SemProofs OV.Graph.Wf.
Require Import OV.Builder.Strings OV.Builder.StringsProofs OV.Builder.Inline OV.Builder.InlineProofs.
Require Import OV.Opt.Fold OV.Opt.SemLemmas OV.Opt.FoldProofs OV.Opt.UseProofs OV.Opt.InlineFn.
Import ListNotations.
Local Open Scope list_scope.

Lemma ops_node_eq : forall d o i u a s, ops_node (Node d o i u a s) = (d, o) :: ops_subs s.
Proof. intros. reflexivity. Qed.
Lemma ops_graph_eq : forall i ii ns o, ops_graph (Graph i ii ns o) = ops_nodes ns.
Proof. intros. reflexivity. Qed.
Lemma find_sub_ops name subs sg : find_sub name subs = Some sg -> incl (ops_graph sg) (ops_subs subs).
Proof.
  induction subs as [|[k h] t IH]; cbn [find_sub ops_subs]; [discriminate|].
  destruct (String.eqb k name).
  - intro H; inversion H; subst. apply incl_appl, incl_refl.
  - intro H. apply incl_appr, IH, H.
Qed.
Lemma find_sub_names_incl name subs sg : find_sub name subs = Some sg -> incl (names_graph sg) (names_subs subs).
Proof.
  induction subs as [|[k h] t IH]; cbn [find_sub names_subs]; [discriminate|].
  destruct (String.eqb k name).
  - intro H; inversion H; subst. apply incl_appl, incl_refl.
  - intro H. apply incl_appr, IH, H.
Qed.

(* ================================================================ two kernels *)
Section SemRel.
  Variable V : Type.
  Variables sem1 sem2 : string -> string -> list (string * attrv) -> list (option V) -> option (list V).
  Variable truth : V -> option bool.
  Variable trip : V -> option nat.
  Variable of_nat : nat -> V.
  Variable of_bool : bool -> V.
  Variable limit : nat.

  Notation env := (list (vname * V)).
  Notation evaluator := (env -> graph -> list V -> option (list V)).
  Notation loop_iter := (loop_iter V truth of_nat of_bool).

  (* sem2 does whatever sem1 does at the listed (domain, op) pairs *)
  Definition krel (l : list (string * string)) : Prop :=
    forall d o, In (d, o) l -> forall a vs r, sem1 d o a vs = Some r -> sem2 d o a vs = Some r.
  Lemma krel_incl l l' : incl l' l -> krel l -> krel l'.
  Proof. intros I K d o H. apply K, I, H. Qed.

  Lemma loop_iter_sub (ev1 ev2 : evaluator) (e : env) body bounded :
    (forall args r, ev1 e body args = Some r -> ev2 e body args = Some r) ->
    forall k i c st r, loop_iter ev1 e body bounded k i c st = Some r -> loop_iter ev2 e body bounded k i c st = Some r.
  Proof.
    intro H. induction k as [|k IH]; intros i c st r; cbn.
    - auto.
    - destruct (negb c); [auto|].
      destruct (ev1 e body (of_nat i :: of_bool c :: st)) as [[|cv st']|] eqn:E; try discriminate.
      rewrite (H _ _ E). destruct (Nat.eqb _ _); [|discriminate]. destruct (truth cv); [|discriminate]. apply IH.
  Qed.

  Lemma eval_node_sem (ev1 ev2 : evaluator) (e : env) n a :
    krel (ops_node n) ->
    (forall sg args r, krel (ops_graph sg) -> ev1 e sg args = Some r -> ev2 e sg args = Some r) ->
    eval_node V sem1 truth trip of_nat of_bool limit ev1 e n = Some a ->
    eval_node V sem2 truth trip of_nat of_bool limit ev2 e n = Some a.
  Proof.
    intros K Hev. destruct n as [d o ins outs attrs subs]. rewrite ops_node_eq in K.
    assert (Ks : forall name sg, find_sub name subs = Some sg -> krel (ops_graph sg)).
    { intros name sg F. eapply krel_incl; [|exact K]. intros p Hp. right. exact (find_sub_ops _ _ _ F p Hp). }
    unfold Sem.eval_node. destruct (is_if d o).
    - destruct (lookup_opts e ins) as [[|[c|] [|? ?]]|]; try discriminate.
      destruct (truth c) as [b|]; [|discriminate].
      destruct (find_sub _ subs) as [sg|] eqn:F; [|discriminate].
      destruct (ev1 e sg []) as [vs|] eqn:E; [|discriminate]. rewrite (Hev _ _ _ (Ks _ _ F) E). auto.
    - destruct (is_loop d o).
      + destruct ins as [|m [|c carried]]; try discriminate.
        destruct (find_sub "body"%string subs) as [body|] eqn:F; [|discriminate].
        destruct (lookup_opts e [m; c]) as [[|mv [|cv [|? ?]]]|]; try discriminate.
        destruct (lookups e (present carried)) as [st0|]; [|discriminate].
        destruct (match mv with Some v => option_map Some (trip v) | None => Some None end) as [mt|]; [|discriminate].
        destruct (match cv with Some v => truth v | None => Some true end) as [c0|]; [|discriminate].
        assert (L : forall bounded k r, loop_iter ev1 e body bounded k 0 c0 st0 = Some r -> loop_iter ev2 e body bounded k 0 c0 st0 = Some r).
        { intros bounded k r. apply loop_iter_sub. intros args r0. apply Hev, (Ks _ _ F). }
        destruct mt as [k|].
        * destruct (loop_iter ev1 e body true k 0 c0 st0) as [stf|] eqn:E; [|discriminate]. rewrite (L _ _ _ E). auto.
        * destruct (loop_iter ev1 e body false limit 0 c0 st0) as [stf|] eqn:E; [|discriminate]. rewrite (L _ _ _ E). auto.
      + destruct (lookup_opts e ins) as [vs|]; [|discriminate].
        destruct (sem1 d o attrs vs) as [rs|] eqn:E; [|discriminate].
        rewrite (K d o (or_introl eq_refl) _ _ _ E). auto.
  Qed.

  Lemma run_sem (ev1 ev2 : evaluator) ns :
    krel (ops_nodes ns) ->
    (forall (e : env) sg args r, krel (ops_graph sg) -> ev1 e sg args = Some r -> ev2 e sg args = Some r) ->
    forall (e : env) a, run V sem1 truth trip of_nat of_bool limit ev1 e ns = Some a ->
                        run V sem2 truth trip of_nat of_bool limit ev2 e ns = Some a.
  Proof.
    intros K Hev. induction ns as [|n t IH]; intros e a; cbn [Sem.run]; [auto|].
    cbn [ops_nodes] in K.
    destruct (eval_node V sem1 truth trip of_nat of_bool limit ev1 e n) as [e1|] eqn:E; [|discriminate].
    rewrite (eval_node_sem ev1 ev2 e n e1 (krel_incl _ _ (incl_appl _ (incl_refl _)) K) (Hev e) E).
    apply IH. eapply krel_incl; [|exact K]. apply incl_appr, incl_refl.
  Qed.

  Theorem eval_graph_sem_rel : forall F (e : env) g args r, krel (ops_graph g) ->
    eval_graph V sem1 truth trip of_nat of_bool limit F e g args = Some r ->
    eval_graph V sem2 truth trip of_nat of_bool limit F e g args = Some r.
  Proof.
    induction F as [|f IH]; [discriminate|]. intros e g args r K. cbn [Sem.eval_graph]. unfold Sem.eval_body.
    destruct g as [gi ii ns go]. cbn [g_ins g_nodes g_outs]. rewrite ops_graph_eq in K.
    destruct (bind gi args e) as [e0|]; [|discriminate].
    destruct (run V sem1 truth trip of_nat of_bool limit _ e0 ns) as [a|] eqn:R; [|discriminate].
    rewrite (run_sem _ _ ns K (fun e' sg args' r' K' H => IH e' sg args' r' K' H) e0 a R). auto.
  Qed.
End SemRel.

(* ================================================================ one kernel: fuel, one call site, the pass *)
Section Inl.
  Variable V : Type.
  Variable K : string -> string -> list (string * attrv) -> list (option V) -> option (list V).
  Variable truth : V -> option bool.
  Variable trip : V -> option nat.
  Variable of_nat : nat -> V.
  Variable of_bool : bool -> V.
  Variable limit : nat.

  Notation env := (list (vname * V)).
  Notation eval_node := (eval_node V K truth trip of_nat of_bool limit).
  Notation run := (run V K truth trip of_nat of_bool limit).
  Notation eval_body := (eval_body V K truth trip of_nat of_bool limit).
  Notation eval_graph := (eval_graph V K truth trip of_nat of_bool limit).
  Notation call_sem := (call_sem V K truth trip of_nat of_bool limit).
  Notation agree_except := (agree_except V).

  Lemma eval_graph_fuel_le F F' : F <= F' -> forall (e : env) g args r, eval_graph F e g args = Some r -> eval_graph F' e g args = Some r.
  Proof.
    induction 1 as [|m L IH]; intros e g args r H; [exact H|].
    apply (eval_graph_fuel V K truth trip of_nat of_bool limit). apply IH. exact H.
  Qed.
  Lemma run_fuel_le F F' : F <= F' -> forall ns (e a : env), run (eval_graph F) e ns = Some a -> run (eval_graph F') e ns = Some a.
  Proof.
    intros L ns e a. apply (run_ev_mono V K truth trip of_nat of_bool limit). intros e0 g args r. apply eval_graph_fuel_le. exact L.
  Qed.
  Lemma call_sem_fuel_le F F' : F <= F' -> forall f attrs vs rs, call_sem F f attrs vs = Some rs -> call_sem F' f attrs vs = Some rs.
  Proof.
    intros L f attrs vs rs. unfold Inline.call_sem. destruct (Nat.leb _ _); [|discriminate]. apply eval_graph_fuel_le. exact L.
  Qed.

  Lemma agree_weaken X X' (e1 e2 : env) : incl X X' -> agree_except X e1 e2 -> agree_except X' e1 e2.
  Proof. intros I A x Hx. apply A. intro H. apply Hx, I, H. Qed.

  (* ---------------------------------------------------------------- one call site (C18's inline_eq_call_r for this naming) *)
  Lemma site_sound f acts attrs outs nm fuel (e : env) vs rs :
    site_okb f acts outs nm = true -> lookup_opts e acts = Some vs -> call_sem (S fuel) f attrs vs = Some rs ->
    exists e', run (eval_graph fuel) e (site_nodes f acts attrs outs nm) = Some e'
               /\ lookups e' outs = Some rs
               /\ agree_except (defs_nodes (site_nodes f acts attrs outs nm)) e e'.
  Proof.
    intros Ok A C. unfold site_okb in Ok.
    apply andb_true_iff in Ok as [Ok Kout]. apply andb_true_iff in Ok as [Ok Kouts]. apply andb_true_iff in Ok as [Ok Kbody].
    apply andb_true_iff in Ok as [Ok _]. apply andb_true_iff in Ok as [Ok _]. apply andb_true_iff in Ok as [Ok _].
    apply andb_true_iff in Ok as [Kn Klen]. apply nodupb_NoDup in Kn. apply Nat.leb_le in Klen.
    apply list_str_eqb_eq in Kout.
    set (k := List.length (f_ins f) - List.length acts) in *.
    assert (Lv : List.length vs = List.length acts) by exact (lookup_opts_length V e _ _ A).
    assert (A' : lookup_opts e (pad_actuals f acts) = Some (vs ++ repeat None k)).
    { unfold pad_actuals. apply lookup_opts_app; [exact A|apply lookup_opts_nones]. }
    rewrite <- (call_sem_pad V K truth trip of_nat of_bool limit (S fuel) f attrs vs k) in C by lia.
    set (acts' := pad_actuals f acts) in *. set (vs' := vs ++ repeat None k) in *.
    unfold Inline.call_sem in C. rewrite (lookup_opts_length V e _ _ A') in C.
    assert (Lp : List.length acts' = List.length (f_ins f)).
    { unfold acts', pad_actuals. rewrite app_length, repeat_length. lia. }
    rewrite Lp, Nat.leb_refl in C.
    cbn [Sem.eval_graph] in C. unfold Sem.eval_body, call_graph in C. cbn [g_ins g_nodes g_outs] in C.
    rewrite bind_fst_snd, app_nil_r in C. rewrite (omitted_opts V e _ _ _ A') in C.
    pose proof (init_inv V e (f_ins f) acts' vs' Kn A') as I.
    pose proof (run_rel V K truth trip of_nat of_bool limit (omitted (f_ins f) acts') (attr_map f attrs) (rn_of (nm_nested nm)) same
                  (eval_graph fuel) (eval_graph_rel V K truth trip of_nat of_bool limit _ _ _ _ fuel)
                  (rh_of f outs (nm_top nm)) (f_body f) _ _ _ _ I Kbody) as R.
    unfold site_nodes, site_outs, site_map in *. fold acts' in Kout |- *.
    destruct (Sem.run V K truth trip of_nat of_bool limit (eval_graph fuel) (bound_formals (f_ins f) vs') _) as [a1|] eqn:Ra; [|discriminate].
    match type of R with match ?b with _ => _ end => destruct b as [b1|] eqn:Rb end; [|contradiction].
    assert (L : lookups a1 (f_outs f) =
                lookups b1 (map (clone_out (map_after (rh_of f outs (nm_top nm)) (combine (f_ins f) acts') (f_body f))) (f_outs f))).
    { apply (inv_lookups V _ _ _ a1 b1 (f_outs f) R). intros x Hx.
      rewrite forallb_forall in Kouts. specialize (Kouts x Hx). apply andb_true_iff in Kouts as [Q1 Q2].
      apply negb_true_iff in Q2. split; [|exact Q2]. apply vis_after_in. left. now apply mem_In. }
    rewrite Kout in L. exists b1. split; [reflexivity|]. split; [rewrite <- L; exact C|].
    now apply (agree_run_shape V K truth trip of_nat of_bool limit (eval_graph fuel)).
  Qed.

  (* ---------------------------------------------------------------- the pass *)
  Variable ft : ftab.
  Variable N : nat.
  (* the kernel justifies a call by the evaluation of the body (under the same kernel) *)
  Hypothesis Hcall : forall d o f attrs vs rs, find_fn ft d o = Some f -> K d o attrs vs = Some rs -> call_sem N f attrs vs = Some rs.

  Lemma bind_lookups_agree : forall outs rs (e0 e : env), lookups e outs = Some rs ->
    forall x, In x outs -> lookup (combine outs rs ++ e0) x = lookup e x.
  Proof.
    induction outs as [|o t IH]; intros rs e0 e L x Hx; [destruct Hx|].
    cbn [lookups] in L. destruct (lookup e o) as [v|] eqn:Lo; [|discriminate]. destruct (lookups e t) as [vt|] eqn:Lt; [|discriminate].
    inversion L; subst rs. cbn [combine List.app lookup]. destruct (String.eqb x o) eqn:E.
    - apply String.eqb_eq in E. subst. symmetry. exact Lo.
    - destruct Hx as [Hx|Hx]; [subst; rewrite String.eqb_refl in E; discriminate|]. apply (IH vt e0 e Lt x Hx).
  Qed.
  Lemma in_fst_combine_outs (outs : list vname) (rs : list V) x : In x (map fst (combine outs rs)) -> In x outs.
  Proof. revert rs. induction outs as [|o t IH]; intros [|r rt]; cbn; try tauto. intros [H|H]; [left; exact H|right; exact (IH rt H)]. Qed.

  Lemma lookup_app_skip (b e : env) x : ~ In x (map fst b) -> lookup (b ++ e) x = lookup e x.
  Proof.
    induction b as [|[y v] t IH]; cbn; [reflexivity|]. intro H.
    destruct (String.eqb x y) eqn:E; [apply String.eqb_eq in E; subst; tauto|apply IH; tauto].
  Qed.

  Definition nodes_ok (fu : nat) : Prop := forall ns st ns' st', inl_nodes fu ft ns st = Some (ns', st') ->
    incl (names_nodes ns) (avoid st) ->
    incl (avoid st) (avoid st') /\
    exists X, disjoint X (avoid st) /\
      forall f (e a : env), run (eval_graph f) e ns = Some a ->
        exists a', run (eval_graph (f + fu * N)) e ns' = Some a' /\ agree_except X a a'.
  Definition graph_ok (fu : nat) : Prop := forall g st g' st', inl_graph fu ft g st = Some (g', st') ->
    incl (names_graph g) (avoid st) ->
    incl (avoid st) (avoid st') /\
    forall f (e : env) args r, eval_graph f e g args = Some r -> eval_graph (f + fu * N) e g' args = Some r.
  Definition subs_ok (fu : nat) : Prop := forall l st l' st', inl_subs fu ft l st = Some (l', st') ->
    incl (names_subs l) (avoid st) ->
    incl (avoid st) (avoid st') /\
    forall name sg, find_sub name l = Some sg ->
      exists sg', find_sub name l' = Some sg' /\
        forall f (e : env) args r, eval_graph f e sg args = Some r -> eval_graph (f + fu * N) e sg' args = Some r.

  Lemma graph_step fu : nodes_ok fu -> graph_ok (S fu).
  Proof.
    intros Hn [gi ii ns go] st g' st'. cbn [inl_graph]. destruct (inl_nodes fu ft ns st) as [[ns' st1]|] eqn:E; [|discriminate].
    intro H; inversion H; subst; clear H. intro I. rewrite names_graph_eq in I.
    assert (In_ : incl (names_nodes ns) (avoid st)) by (intros x Hx; apply I; apply in_or_app; right; apply in_or_app; right; apply in_or_app; right; exact Hx).
    destruct (Hn ns st ns' st' E In_) as [Ia [X [DX HX]]]. split; [exact Ia|].
    intros [|f] e args r; [discriminate|]. cbn [Sem.eval_graph]. unfold Sem.eval_body. cbn [g_ins g_nodes g_outs].
    destruct (bind gi args e) as [e0|] eqn:B; [|discriminate].
    destruct (Sem.run V K truth trip of_nat of_bool limit (eval_graph f) e0 ns) as [a|] eqn:R; [|discriminate]. intro L.
    destruct (HX f e0 a R) as [a' [R' A]].
    replace (S f + S fu * N) with (S (f + S fu * N)) by lia. cbn [Sem.eval_graph]. unfold Sem.eval_body. cbn [g_ins g_nodes g_outs]. rewrite B.
    rewrite (run_fuel_le (f + fu * N) (f + S fu * N) ltac:(lia) ns' e0 a' R').
    rewrite <- (agree_lookups V X a a' go A); [exact L|].
    apply (disjoint_sub X go (avoid st) DX). intros x Hx. apply I. apply in_or_app; right; apply in_or_app; right; apply in_or_app; left; exact Hx.
  Qed.

  Lemma subs_step fu : graph_ok fu -> subs_ok fu -> subs_ok (S fu).
  Proof.
    intros Hg Hs l st l' st'. cbn [inl_subs]. destruct l as [|[k g] t].
    - intro H; inversion H; subst. intros _. split; [apply incl_refl|]. intros name sg F. discriminate.
    - destruct (inl_graph fu ft g st) as [[g1 st1]|] eqn:Eg; [|discriminate].
      destruct (inl_subs fu ft t st1) as [[t1 st2]|] eqn:Et; [|discriminate].
      intro H; inversion H; subst; clear H. cbn [names_subs]. intro I.
      destruct (Hg g st g1 st1 Eg (fun x Hx => I x (in_or_app _ _ _ (or_introl Hx)))) as [I1 G1].
      destruct (Hs t st1 t1 st' Et (fun x Hx => I1 x (I x (in_or_app _ _ _ (or_intror Hx))))) as [I2 G2].
      split; [intros x Hx; apply I2, I1, Hx|].
      intros name sg. cbn [find_sub]. destruct (String.eqb k name).
      + intro H; inversion H; subst. exists g1. split; [reflexivity|]. intros f e args r Hr.
        apply (eval_graph_fuel_le (f + fu * N)); [lia|]. exact (G1 f e args r Hr).
      + intro F. destruct (G2 name sg F) as [sg' [F' G']]. exists sg'. split; [exact F'|]. intros f e args r Hr.
        apply (eval_graph_fuel_le (f + fu * N)); [lia|]. exact (G' f e args r Hr).
  Qed.

  Lemma nodes_step fu : nodes_ok fu -> subs_ok fu -> nodes_ok (S fu).
  Proof.
    intros Hn Hs ns st ns' st'. cbn [inl_nodes]. destruct ns as [|[d o ins outs attrs subs] t].
    - intro H; inversion H; subst. intros _. split; [apply incl_refl|]. exists []. split; [intros x []|].
      intros f e a. cbn [Sem.run]. intro H'; inversion H'; subst. exists a. split; [reflexivity|]. intros x _. reflexivity.
    - cbn [names_nodes]. rewrite names_node_eq.
      destruct (find_fn ft d o) as [f0|] eqn:Ef.
      + (* a call *)
        destruct (oracle st) as [|nm rest] eqn:Eo; [discriminate|].
        match goal with |- (if ?c then _ else _) = _ -> _ => destruct c eqn:Cnd; [|discriminate] end.
        apply andb_true_iff in Cnd as [Cnd Cfresh]. apply andb_true_iff in Cnd as [Cnd Cloop]. apply andb_true_iff in Cnd as [Cnd Cif].
        apply andb_true_iff in Cnd as [Csite Csubs]. destruct subs; [|discriminate]. apply negb_true_iff in Cif, Cloop.
        set (body := site_nodes f0 ins attrs outs nm) in *.
        destruct (inl_nodes fu ft body _) as [[body' st1]|] eqn:Eb; [|discriminate].
        destruct (inl_nodes fu ft t st1) as [[t' st2]|] eqn:Et; [|discriminate].
        intro H; inversion H; subst; clear H. intro I.
        destruct (Hn body _ body' st1 Eb (fun x Hx => in_or_app _ _ _ (or_introl Hx))) as [Ib [X1 [D1 H1]]]. cbn [avoid] in Ib, D1.
        assert (Iavoid : incl (avoid st) (avoid st1)) by (intros x Hx; apply Ib, in_or_app; right; exact Hx).
        assert (It : incl (names_nodes t) (avoid st)) by (intros x Hx; apply I, in_or_app; right; exact Hx).
        destruct (Hn t st1 t' st' Et (fun x Hx => Iavoid x (It x Hx))) as [I2 [X2 [D2 H2]]].
        split; [intros x Hx; apply I2, Iavoid, Hx|].
        set (Y := filter (fun y => negb (mem y outs)) (defs_nodes body)).
        assert (DY : disjoint Y (avoid st)).
        { intros y Hy Ha. unfold Y in Hy. apply filter_In in Hy. destruct Hy as [Hy Ny]. rewrite forallb_forall in Cfresh.
          specialize (Cfresh y Hy). apply negb_true_iff in Ny. rewrite Ny in Cfresh. cbn in Cfresh. apply negb_true_iff in Cfresh.
          apply mem_In in Ha. congruence. }
        assert (D1' : disjoint X1 (avoid st)) by (intros x Hx Ha; apply (D1 x Hx), in_or_app; right; exact Ha).
        exists (Y ++ X1 ++ X2). split.
        { intros x Hx Ha. apply in_app_or in Hx. destruct Hx as [Hx|Hx]; [exact (DY x Hx Ha)|].
          apply in_app_or in Hx. destruct Hx as [Hx|Hx]; [exact (D1' x Hx Ha)|exact (D2 x Hx (Iavoid x Ha))]. }
        intros f e a. cbn [Sem.run]. destruct (Sem.eval_node V K truth trip of_nat of_bool limit (eval_graph f) e _) as [a1|] eqn:En; [|discriminate].
        intro Rt. unfold Sem.eval_node in En. rewrite Cif, Cloop in En.
        destruct (lookup_opts e ins) as [vs|] eqn:Lo; [|discriminate].
        destruct (K d o attrs vs) as [rs|] eqn:Ek; [|discriminate].
        pose proof (Hcall d o f0 attrs vs rs Ef Ek) as Cs.
        apply (call_sem_fuel_le N (S (f + N)) ltac:(lia)) in Cs.
        destruct (site_sound f0 ins attrs outs nm (f + N) e vs rs Csite Lo Cs) as [ei [Ri [Li Ai]]]. fold body in Ri, Ai.
        destruct (H1 (f + N) e ei Ri) as [b' [Rb Ab]].
        replace (f + N + fu * N) with (f + S fu * N) in Rb by lia.
        destruct (bind_combine V outs rs e a1 En) as [-> Len].
        assert (A1 : agree_except (Y ++ X1) (combine outs rs ++ e) b').
        { intros x Hx. rewrite <- (Ab x) by (intro Q; apply Hx, in_or_app; right; exact Q).
          destruct (in_dec_str x outs) as [Io|No].
          - apply (bind_lookups_agree outs rs e ei Li x Io).
          - assert (Nc : ~ In x (map fst (combine outs rs))) by (intro Q; apply No; exact (in_fst_combine_outs _ _ _ Q)).
            rewrite (lookup_app_skip (combine outs rs) e x Nc).
            apply Ai. intro Q. apply Hx, in_or_app. left. unfold Y. apply filter_In. split; [exact Q|].
            apply negb_true_iff. apply mem_false. exact No. }
        assert (Dt : disjoint (Y ++ X1) (names_nodes t)).
        { intros x Hx Hn'. apply in_app_or in Hx. destruct Hx as [Hx|Hx]; [exact (DY x Hx (It x Hn'))|exact (D1' x Hx (It x Hn'))]. }
        pose proof (run_agree V K truth trip of_nat of_bool limit (Y ++ X1) (eval_graph f) t
                      (eval_graph_agree V K truth trip of_nat of_bool limit (Y ++ X1) f) _ _ A1 Dt) as Ra.
        rewrite Rt in Ra. destruct (Sem.run V K truth trip of_nat of_bool limit (eval_graph f) b' t) as [a2|] eqn:R2; [|contradiction].
        destruct (H2 f b' a2 R2) as [a' [R' A']].
        exists a'. split.
        * rewrite (run_app V K truth trip of_nat of_bool limit), Rb. apply (run_fuel_le (f + fu * N)); [lia|exact R'].
        * apply (agree_trans V _ a a2 a').
          -- apply (agree_weaken (Y ++ X1)); [|exact Ra]. intros x Hx. apply in_app_or in Hx. apply in_or_app.
             destruct Hx as [Hx|Hx]; [left; exact Hx|right; apply in_or_app; left; exact Hx].
          -- apply (agree_weaken X2); [|exact A']. intros x Hx. apply in_or_app; right; apply in_or_app; right; exact Hx.
      + (* any other node: its If / Loop bodies *)
        destruct (inl_subs fu ft subs st) as [[subs' st1]|] eqn:Es; [|discriminate].
        destruct (inl_nodes fu ft t st1) as [[t' st2]|] eqn:Et; [|discriminate].
        intro H; inversion H; subst; clear H. intro I.
        assert (Is : incl (names_subs subs) (avoid st)).
        { intros x Hx. apply I, in_or_app. left. apply in_or_app; right; apply in_or_app; right; exact Hx. }
        destruct (Hs subs st subs' st1 Es Is) as [I1 G1].
        assert (It : incl (names_nodes t) (avoid st)) by (intros x Hx; apply I, in_or_app; right; exact Hx).
        destruct (Hn t st1 t' st' Et (fun x Hx => I1 x (It x Hx))) as [I2 [X2 [D2 H2]]].
        split; [intros x Hx; apply I2, I1, Hx|].
        exists X2. split; [intros x Hx Ha; exact (D2 x Hx (I1 x Ha))|].
        intros f e a. cbn [Sem.run].
        destruct (Sem.eval_node V K truth trip of_nat of_bool limit (eval_graph f) e _) as [a1|] eqn:En; [|discriminate]. intro Rt.
        destruct (eval_node_refines V K truth trip of_nat of_bool limit (eval_graph f) (eval_graph (f + S fu * N)) e e (fun x => x)
                    d o ins outs attrs subs subs' a1) as [vals [B [a1' [En' B']]]].
        * auto.
        * intros name sg F. destruct (G1 name sg F) as [sg' [F' G']]. exists sg'. split; [exact F'|].
          intros args r Hr. apply (eval_graph_fuel_le (f + fu * N)); [lia|]. exact (G' f e args r Hr).
        * exact En.
        * rewrite map_option_id in En'. rewrite B in B'. inversion B'; subst a1'. rewrite En'.
          destruct (H2 f a1 a Rt) as [a' [R' A']]. exists a'. split; [|exact A'].
          apply (run_fuel_le (f + fu * N)); [lia|exact R'].
  Qed.

  Theorem inl_all_ok : forall fu, nodes_ok fu /\ subs_ok fu /\ graph_ok fu.
  Proof.
    induction fu as [|fu [Hn [Hs Hg]]].
    - split; [|split]; intros x1 x2 x3 x4 E0; cbn in E0; discriminate.
    - split; [exact (nodes_step fu Hn Hs)|]. split; [exact (subs_step fu Hg Hs)|exact (graph_step fu Hn)].
  Qed.
End Inl.

(* ================================================================ the kernels of a model with functions *)
Section FS.
  Variable V : Type.
  Variable sem : string -> string -> list (string * attrv) -> list (option V) -> option (list V).
  Variable truth : V -> option bool.
  Variable trip : V -> option nat.
  Variable of_nat : nat -> V.
  Variable of_bool : bool -> V.
  Variable limit : nat.
  Variable N : nat.

  Notation fsem := (fsem V sem truth trip of_nat of_bool limit N).
  Notation env := (list (vname * V)).

  Lemma call_sem_sem_rel (s1 s2 : string -> string -> list (string * attrv) -> list (option V) -> option (list V)) F f attrs vs rs :
    krel V s1 s2 (ops_graph (call_graph f attrs vs)) ->
    call_sem V s1 truth trip of_nat of_bool limit F f attrs vs = Some rs ->
    call_sem V s2 truth trip of_nat of_bool limit F f attrs vs = Some rs.
  Proof. intro Kr. unfold Inline.call_sem. destruct (Nat.leb _ _); [|discriminate]. apply eval_graph_sem_rel. exact Kr. Qed.

  (* a longer call chain is allowed: nothing changes where the shorter bound sufficed *)
  Lemma fsem_mono ft : forall k d o a vs r, fsem ft k d o a vs = Some r -> fsem ft (S k) d o a vs = Some r.
  Proof.
    induction k as [|k IH]; intros d o a vs r.
    - cbn [InlineFn.fsem]. destruct (find_fn ft d o); [discriminate|auto].
    - cbn [InlineFn.fsem]. destruct (find_fn ft d o) as [f|]; [|auto].
      apply call_sem_sem_rel. intros d' o' _. apply IH.
  Qed.

  (* the hypothesis of the pass theorem holds of these kernels at every bound *)
  Lemma fsem_unfolds ft k : forall d o f attrs vs rs, find_fn ft d o = Some f -> fsem ft k d o attrs vs = Some rs ->
    call_sem V (fsem ft k) truth trip of_nat of_bool limit N f attrs vs = Some rs.
  Proof.
    intros d o f attrs vs rs Ef. destruct k as [|k]; cbn [InlineFn.fsem]; rewrite Ef; [discriminate|].
    apply call_sem_sem_rel. intros d' o' _. apply fsem_mono.
  Qed.

  Lemma fsem_plain ft k d o : find_fn ft d o = None -> fsem ft k d o = sem d o.
  Proof. intro E. destruct k; cbn [InlineFn.fsem]; rewrite E; reflexivity. Qed.

  (* InlinePass: whatever the model computes with its calls read as function bodies, the inlined graph computes with plain kernels *)
  Theorem inline_model_sound : forall fu ft names_oracle g g', inline_model fu ft names_oracle g = Some g' ->
    forall k F (e : env) args r,
      eval_graph V (fsem ft k) truth trip of_nat of_bool limit F e g args = Some r ->
      eval_graph V sem truth trip of_nat of_bool limit (F + fu * N) e g' args = Some r.
  Proof.
    intros fu ft no g g'. unfold inline_model.
    destruct (inl_graph fu ft g _) as [[g1 st]|] eqn:E; [|discriminate].
    destruct (no_calls ft g1 && _) eqn:C; [|discriminate]. intro H; inversion H; subst g1; clear H.
    apply andb_true_iff in C. destruct C as [C _].
    intros k F e args r Hr.
    destruct (inl_all_ok V (fsem ft k) truth trip of_nat of_bool limit ft N (fsem_unfolds ft k) fu) as [_ [_ Hg]].
    destruct (Hg g _ g' st E (incl_refl _)) as [_ G].
    apply (eval_graph_sem_rel V (fsem ft k) sem); [|exact (G F e args r Hr)].
    intros d o Hin a vs r0. unfold no_calls in C. rewrite forallb_forall in C. specialize (C (d, o) Hin). cbn [fst snd] in C.
    destruct (find_fn ft d o) eqn:Ef; [discriminate|]. rewrite (fsem_plain ft k d o Ef). auto.
  Qed.

  (* ---------------------------------------------------------------- RemoveUnusedFunctionsPass *)
  Lemma id_mem_eq p q used : String.eqb (fst p) (fst q) && String.eqb (snd p) (snd q) = true -> id_mem q used = id_mem p used.
  Proof.
    intro H. apply andb_true_iff in H. destruct H as [H1 H2]. apply String.eqb_eq in H1, H2. destruct p, q. cbn in *. subst. reflexivity.
  Qed.
  Lemma is_fn_keep used d o f : is_fn d o f = true -> keep_fn used f = id_mem (d, o) used.
  Proof.
    unfold is_fn, keep_fn. intro H. apply andb_true_iff in H. destruct H as [H1 H2]. apply String.eqb_eq in H1, H2. subst. reflexivity.
  Qed.
  Lemma find_fn_filter used ft d o : id_mem (d, o) used = true -> find_fn (filter (keep_fn used) ft) d o = find_fn ft d o.
  Proof.
    intro Hm. unfold find_fn. induction ft as [|f t IH]; [reflexivity|]. cbn [filter find].
    destruct (is_fn d o f) eqn:E.
    - rewrite (is_fn_keep used d o f E), Hm. cbn [find]. rewrite E. reflexivity.
    - destruct (keep_fn used f); [cbn [find]; rewrite E|]; exact IH.
  Qed.
  Lemma find_fn_filter_none p ft d o : find_fn ft d o = None -> find_fn (filter p ft) d o = None.
  Proof.
    unfold find_fn. induction ft as [|f t IH]; [reflexivity|]. cbn [filter find].
    destruct (is_fn d o f) eqn:E; [discriminate|]. intro H. destruct (p f); [cbn [find]; rewrite E|]; exact (IH H).
  Qed.

  Fixpoint ops_omit_node om am (n : node) {struct n} : ops_node (omit_node om am n) = ops_node n
  with ops_omit_graph om am (g : graph) {struct g} : ops_graph (omit_graph om am g) = ops_graph g.
  Proof.
    - destruct n as [d o i u a subs]. cbn [omit_node]. rewrite !ops_node_eq. f_equal.
      induction subs as [|[k g] t IH]; cbn [map ops_subs]; [reflexivity|]. rewrite ops_omit_graph, IH. reflexivity.
    - destruct g as [gi ii ns go]. cbn [omit_graph]. rewrite !ops_graph_eq.
      induction ns as [|n t IH]; cbn [map ops_nodes]; [reflexivity|]. rewrite ops_omit_node, IH. reflexivity.
  Qed.
  Lemma ops_call_graph f attrs (vs : list (option V)) : ops_graph (call_graph f attrs vs) = ops_nodes (f_body f).
  Proof.
    unfold call_graph. rewrite ops_graph_eq. induction (f_body f) as [|n t IH]; cbn [map ops_nodes]; [reflexivity|].
    rewrite ops_omit_node, IH. reflexivity.
  Qed.

  Section Ruf.
    Variable ft : ftab.
    Variable used : list (string * string).
    (* whatever a kept function calls is kept *)
    Hypothesis Hclosed : forall f, In f ft -> keep_fn used f = true -> forall p, In p (ops_nodes (f_body f)) ->
      find_fn ft (fst p) (snd p) <> None -> id_mem p used = true.

    Lemma fsem_ruf : forall k d o, id_mem (d, o) used = true \/ find_fn ft d o = None ->
      forall a vs r, fsem ft k d o a vs = Some r -> fsem (filter (keep_fn used) ft) k d o a vs = Some r.
    Proof.
      induction k as [|k IH]; intros d o Hd a vs r; cbn [InlineFn.fsem].
      - destruct (find_fn ft d o) eqn:E; [discriminate|]. rewrite (find_fn_filter_none _ ft d o E). auto.
      - destruct (find_fn ft d o) as [f|] eqn:E.
        + destruct Hd as [Hd|Hd]; [|discriminate]. rewrite (find_fn_filter used ft d o Hd), E.
          apply call_sem_sem_rel. rewrite ops_call_graph. intros d' o' Hin. apply IH.
          destruct (find_fn ft d' o') eqn:E'; [left|right; reflexivity].
          unfold find_fn in E. apply find_some in E. destruct E as [Inf Isf].
          apply (Hclosed f Inf); [rewrite (is_fn_keep used d o f Isf); exact Hd|exact Hin|cbn [fst snd]; congruence].
        + rewrite (find_fn_filter_none _ ft d o E). auto.
    Qed.
  End Ruf.

  Lemma called_in ft l p : In p l -> find_fn ft (fst p) (snd p) <> None -> In p (called ft l).
  Proof. intros Hp Hf. unfold called. apply filter_In. split; [exact Hp|]. destruct (find_fn ft (fst p) (snd p)); [reflexivity|congruence]. Qed.

  Theorem remove_unused_functions_sound : forall g ft k F (e : env) args r,
    eval_graph V (fsem ft k) truth trip of_nat of_bool limit F e g args = Some r ->
    eval_graph V (fsem (remove_unused_functions_fn g ft) k) truth trip of_nat of_bool limit F e g args = Some r.
  Proof.
    intros g ft k F e args r. unfold remove_unused_functions_fn.
    set (used := reach_fn _ ft [] _). destruct (closed_fnb ft used g) eqn:C; [|auto].
    unfold closed_fnb in C. apply andb_true_iff in C. destruct C as [C1 C2]. rewrite forallb_forall in C1, C2.
    apply eval_graph_sem_rel. intros d o Hin. apply fsem_ruf.
    - intros f Inf Kf p Hp Hf. specialize (C2 f Inf). rewrite Kf in C2. cbn in C2. rewrite forallb_forall in C2.
      apply C2. apply called_in; assumption.
    - destruct (find_fn ft d o) eqn:E; [left|right; reflexivity].
      apply (C1 (d, o)). apply called_in; [exact Hin|cbn [fst snd]; congruence].
  Qed.

  (* C04: nothing the result still references has been removed - a function called from the main graph or from a kept function
     is found in the table afterwards exactly as before *)
  Theorem remove_unused_functions_keeps_called : forall g ft d o f,
    find_fn ft d o = Some f ->
    (In (d, o) (ops_graph g) \/ exists f', In f' (remove_unused_functions_fn g ft) /\ In (d, o) (ops_nodes (f_body f'))) ->
    find_fn (remove_unused_functions_fn g ft) d o = Some f.
  Proof.
    intros g ft d o f Ef. unfold remove_unused_functions_fn.
    set (used := reach_fn _ ft [] _). destruct (closed_fnb ft used g) eqn:C; [|intros _; exact Ef].
    unfold closed_fnb in C. apply andb_true_iff in C. destruct C as [C1 C2]. rewrite forallb_forall in C1, C2.
    intros [Hin|[f' [Inf' Hin]]].
    - rewrite find_fn_filter; [exact Ef|]. apply (C1 (d, o)). apply called_in; [exact Hin|cbn [fst snd]; congruence].
    - apply filter_In in Inf'. destruct Inf' as [Inf' Kf']. rewrite find_fn_filter; [exact Ef|].
      specialize (C2 f' Inf'). rewrite Kf' in C2. cbn in C2. rewrite forallb_forall in C2.
      apply (C2 (d, o)). apply called_in; [exact Hin|cbn [fst snd]; congruence].
  Qed.
End FS.

(* ---------------------------------------------------------------- RemoveUnusedOpsetsPass: what is used stays imported *)
Lemma mem_filter_true (p : string -> bool) x l : mem x l = true -> p x = true -> mem x (filter p l) = true.
Proof.
  intros Hm Hp. apply mem_In. apply filter_In. split; [apply mem_In; exact Hm|exact Hp].
Qed.
Lemma nodupb_filter (p : string -> bool) l : nodupb l = true -> nodupb (filter p l) = true.
Proof.
  induction l as [|x t IH]; cbn [nodupb filter]; [auto|]. intro H. apply andb_true_iff in H. destruct H as [H1 H2].
  destruct (p x); [|exact (IH H2)]. cbn [nodupb]. rewrite (IH H2), andb_true_r. apply negb_true_iff. apply negb_true_iff in H1.
  apply mem_false. apply mem_false in H1. intro Q. apply filter_In in Q. tauto.
Qed.
Theorem remove_unused_opsets_keeps_used : forall imports g extra,
  imports_ok imports g = true -> imports_ok (remove_unused_opsets imports (domains_graph g ++ extra)) g = true.
Proof.
  intros imports g extra. unfold imports_ok, remove_unused_opsets. intro H. apply andb_true_iff in H. destruct H as [H1 H2].
  rewrite (nodupb_filter _ _ H1). cbn [andb]. unfold subset in *. rewrite forallb_forall in *. intros d Hd.
  apply mem_filter_true; [exact (H2 d Hd)|]. apply orb_true_iff. right. apply mem_In. apply in_or_app. left. exact Hd.
Qed.

(* ---------------------------------------------------------------- the hypotheses are satisfiable on a non-trivial instance *)
Example inline_example :
  (exists g', inline_model 40 ex_ft ex_oracle ex_main = Some g' /\ no_calls ex_ft g' = true /\ no_calls ex_ft ex_main = false /\
     eval_graph Z toy_sem toy_truth toy_trip toy_of_nat toy_of_bool 10 3 [] g' [3%Z; (-3)%Z] = Some [15%Z] /\
     eval_graph Z toy_sem toy_truth toy_trip toy_of_nat toy_of_bool 10 3 [] g' [3%Z; 4%Z] = Some [23%Z])
  /\ eval_graph Z (ex_fsem ex_ft 2) toy_truth toy_trip toy_of_nat toy_of_bool 10 3 [] ex_main [3%Z; (-3)%Z] = Some [15%Z]
  /\ eval_graph Z (ex_fsem ex_ft 2) toy_truth toy_trip toy_of_nat toy_of_bool 10 3 [] ex_main [3%Z; 4%Z] = Some [23%Z]
  (* a call chain deeper than the bound has no meaning: nothing is claimed *)
  /\ eval_graph Z (ex_fsem ex_ft 1) toy_truth toy_trip toy_of_nat toy_of_bool 10 3 [] ex_main [3%Z; (-3)%Z] = None
  (* the unused function goes, the called ones stay *)
  /\ map f_name (remove_unused_functions_fn ex_main ex_ft) = ["f"; "g"]%string
  /\ eval_graph Z (ex_fsem (remove_unused_functions_fn ex_main ex_ft) 2) toy_truth toy_trip toy_of_nat toy_of_bool 10 3 [] ex_main [3%Z; 4%Z] = Some [23%Z].
Proof. vm_compute. split; [eexists; repeat split|repeat split]. Qed.

Lemma inline_model_no_calls : forall fu ft names_oracle g g', inline_model fu ft names_oracle g = Some g' -> no_calls ft g' = true.
Proof.
  intros fu ft no g g'. unfold inline_model. destruct (inl_graph fu ft g _) as [[g1 st]|]; [|discriminate].
  destruct (no_calls ft g1) eqn:C; cbn [andb]; [|discriminate]. destruct (oracle st); [|discriminate]. intro H; inversion H; subst. exact C.
Qed.
