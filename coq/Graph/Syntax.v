(* Shared graph IR (DESIGN 3.3): ONNX graphs with nested subgraphs, as first-order data.
   A node carries its graph-valued attributes in a separate list so that the mutual
   inductive stays simple.  No proofs in this file. *)
From Coq Require Import List String ZArith Bool.
Import ListNotations.
Local Open Scope string_scope.

Definition vname := string.

(* non-graph attribute values; floats are carried as opaque text/bit patterns *)
Inductive attrv :=
| AInt (z : Z)
| AInts (l : list Z)
| AStr (s : string)
| AStrs (l : list string)
| AFloat (bits : Z)
| AFloats (bits : list Z)
| ATensor (dtype : Z) (dims : list Z) (payload : list Z)
| ARef (name : string)          (* reference to a function attribute parameter *)
| AOther (digest : string).

Inductive node :=
| Node (dom op : string) (ins : list (option vname)) (outs : list vname)
       (attrs : list (string * attrv)) (subs : list (string * graph))
with graph :=
| Graph (ins : list vname) (inits : list vname) (nodes : list node) (outs : list vname).

Definition n_dom (n : node) := let 'Node d _ _ _ _ _ := n in d.
Definition n_op (n : node) := let 'Node _ o _ _ _ _ := n in o.
Definition n_ins (n : node) := let 'Node _ _ i _ _ _ := n in i.
Definition n_outs (n : node) := let 'Node _ _ _ o _ _ := n in o.
Definition n_attrs (n : node) := let 'Node _ _ _ _ a _ := n in a.
Definition n_subs (n : node) := let 'Node _ _ _ _ _ s := n in s.
Definition g_ins (g : graph) := let 'Graph i _ _ _ := g in i.
Definition g_inits (g : graph) := let 'Graph _ i _ _ := g in i.
Definition g_nodes (g : graph) := let 'Graph _ _ n _ := g in n.
Definition g_outs (g : graph) := let 'Graph _ _ _ o := g in o.

(* present (non-omitted) inputs; the empty name denotes an omitted optional input *)
Fixpoint present (l : list (option vname)) : list vname :=
  match l with
  | [] => []
  | Some x :: t => x :: present t
  | None :: t => present t
  end.

(* nesting depth, used as fuel for every recursive traversal *)
Fixpoint depth_node (n : node) : nat :=
  let 'Node _ _ _ _ _ subs := n in
  S ((fix go (l : list (string * graph)) : nat :=
        match l with [] => 0 | (_, g) :: t => Nat.max (depth_graph g) (go t) end) subs)
with depth_graph (g : graph) : nat :=
  let 'Graph _ _ nodes _ := g in
  S ((fix go (l : list node) : nat :=
        match l with [] => 0 | n :: t => Nat.max (depth_node n) (go t) end) nodes).

Definition mem (x : string) (l : list string) : bool := existsb (String.eqb x) l.

Fixpoint nodupb (l : list string) : bool :=
  match l with [] => true | x :: t => negb (mem x t) && nodupb t end.

Definition subset (a b : list string) : bool := forallb (fun x => mem x b) a.
