(* C01 property theorems: statements only, each closed by `exact`, Print Assumptions beneath.

   The full statement (C01_full) is compiler correctness of the converter model for every program of
   Script.Syntax; what is proved is stage S1 (straight-line programs: any expression nesting, literals
   with their static CastLike, calls of operators and of other script functions, tuple assignment from
   multi-output calls, re-assignment, aliasing, several return values with the Identity copies for returned
   inputs / duplicates).  Stages S2 (if/else), S3 (for/while/break) and S4 (attribute parameters) are not
   proved: for those the evidence is the skeleton correspondence and the four-way direct oracle of
   harness/c01.py only. *)
From Coq Require Import List String ZArith Bool.
Require Import OV.Graph.Syntax OV.Graph.Sem OV.Script.Syntax OV.Script.Sets OV.Gen.Analysis OV.Gen.ScriptTables
               OV.Script.Translate OV.Script.PySem OV.Script.TranslateProofs OV.Script.TablesProofs OV.Script.TranslateExamples
               OV.Script.AnalysisProofs.
Import ListNotations.
Local Open Scope string_scope.

(* _generate_unique_name: the name returned is not in the used set, the used set grows by exactly that name,
   the counter never decreases, nothing else changes *)
Theorem C01_gen_unique_fresh : forall cand st r st',
  gen_unique cand st = Some (r, st') ->
  ~ In r (ts_used st) /\ ts_used st' = r :: ts_used st /\ ts_next st <= ts_next st'
  /\ ts_castable st' = ts_castable st /\ ts_orders st' = ts_orders st.
Proof. exact gen_unique_fresh. Qed.
Print Assumptions C01_gen_unique_fresh.

(* the full statement: whatever the kernels mean (Identity being the identity), for every listing order of the
   Python sets (`orders`), a translated program evaluates as a graph to what the source evaluates to as Python *)
Definition C01_full : Prop :=
  forall (V : Type) sem truth trip of_nat of_bool limit while_limit globals,
    (forall v : V, sem "" "Identity" [] [Some v] = Some [v]) ->
    forall cic afuel orders f g xs vs fuel2,
      f_aparams f = [] -> NoDup (f_tparams f) ->
      translate false globals cic afuel orders f = Some g ->
      eval_script V sem truth trip of_nat while_limit globals (S fuel2) f xs = Some vs ->
      exists k, eval_graph V sem truth trip of_nat of_bool limit k [] g xs = Some vs.

(* S1: straight-line bodies (assignments of arbitrary S1 expressions, then one return) *)
Theorem C01_graph_eq_python_straightline_partial :
  forall (V : Type) sem truth trip of_nat of_bool limit while_limit globals,
    (forall v : V, sem "" "Identity" [] [Some v] = Some [v]) ->
    forall cic afuel orders f g xs vs fuel2 k pre es,
      f_body f = (pre ++ [SReturn es])%list -> assigns_ok pre = true -> forallb expr_ok es = true ->
      f_aparams f = [] -> NoDup (f_tparams f) ->
      translate false globals cic afuel orders f = Some g ->
      eval_script V sem truth trip of_nat while_limit globals (S fuel2) f xs = Some vs ->
      eval_graph V sem truth trip of_nat of_bool limit (S k) [] g xs = Some vs.
Proof. exact translate_straightline_correct. Qed.
Print Assumptions C01_graph_eq_python_straightline_partial.

(* the hypotheses are satisfiable on a non-trivial instance (literal operands with casts, re-assigned parameter,
   tuple assignment, duplicate return): 11 nodes, and the source evaluates to values *)
Theorem C01_straightline_nonvacuous :
  exists g pre es,
    f_body ex_f = (pre ++ [SReturn es])%list /\ assigns_ok pre = true /\ forallb expr_ok es = true /\
    f_aparams ex_f = [] /\ NoDup (f_tparams ex_f) /\
    translate false [] (fun _ => None) 5 [] ex_f = Some g /\
    List.length (g_nodes g) = 11 /\
    eval_script Z toy_sem (fun z => Some (Z.eqb z 0)) (fun z => Some (Z.to_nat z)) Z.of_nat 10 [] 3 ex_f [5%Z; 3%Z]
      = Some [(-20)%Z; (-20)%Z; 0%Z; 2%Z].
Proof. exact ex_hyps. Qed.
Print Assumptions C01_straightline_nonvacuous.

(* the converter's operator table and eager mode's Tensor methods (both regenerated from the source) name the
   same ONNX operator for every Python operator except `%` (and except and/or/not, which Python cannot overload) *)
Theorem C01_operator_tables_agree_partial :
  forallb (fun p => agrees (fst p) || String.eqb (fst p) "Mod" || mem (fst p) not_overloadable) primop_map = true
  /\ forallb reflected_ok reflected = true.
Proof. exact operator_tables_agree_but_mod. Qed.
Print Assumptions C01_operator_tables_agree_partial.

(* `%`: eager decides fmod by the dtype of the left operand, the converter by the right operand being a float
   literal -- they differ for a float tensor divided by a tensor (finding F11) *)
Theorem C01_operator_tables_mod_refuted :
  compare_op "Mod" = Disagree /\
  exists left_is_float right_is_literal,
    eager_fmod left_is_float <> converter_fmod converter_mod_rule right_is_literal
    /\ binop_attrs "Mod" (EVar "y") = [].
Proof. exact operator_tables_mod_refuted. Qed.
Print Assumptions C01_operator_tables_mod_refuted.

(* about the generated analysis (Gen/Analysis.v = analysis.py as it is today): executing statements changes only
   the variables in assigned_vars; stated for every fuel, every statement list and every outcome *)
Theorem C01_assigned_vars_sound :
  forall (V : Type) sem truth trip of_nat while_limit globals cic,
    (forall c b pe v, cic c = Some b -> eval_expr V sem globals pe c = Some v -> ptruth V truth v = Some b) ->
    forall fuel ss pe o,
      exec_block V sem truth trip of_nat while_limit globals fuel ss pe = Some o ->
      match o with
      | ONormal _ pe' | OBreak _ pe' => forall x, ~ In x (assigned_block cic ss) -> plookup V pe' x = plookup V pe x
      | OReturn _ _ => True
      end.
Proof. exact OV.Script.AnalysisProofs.assigned_vars_sound. Qed.
Print Assumptions C01_assigned_vars_sound.

(* liveness and exposed uses of the generated analysis: full statements, not proved (the direct oracle found the
   unrepaired liveness of `for` unsound: the loop bound is not live) *)
Definition C01_live_in_sound_full : Prop :=
  forall (V : Type) sem truth trip of_nat while_limit globals cic afuel,
    forall fuel s lo li pe1 pe2 o1,
      live_stmt cic afuel s lo = Some li ->
      (forall x, In x li -> plookup V pe1 x = plookup V pe2 x) ->
      exec_block V sem truth trip of_nat while_limit globals fuel [s] pe1 = Some o1 ->
      exists o2, exec_block V sem truth trip of_nat while_limit globals fuel [s] pe2 = Some o2 /\
        match o1, o2 with
        | ONormal _ a, ONormal _ b | OBreak _ a, OBreak _ b => forall x, In x lo -> plookup V a x = plookup V b x
        | OReturn _ v1, OReturn _ v2 => v1 = v2
        | _, _ => False
        end.

Definition C01_exposed_uses_sound_full : Prop :=
  forall (V : Type) sem truth trip of_nat while_limit globals cic,
    forall fuel ss live pe1 pe2 o1,
      (forall x, In x (exposed_block cic ss live) -> plookup V pe1 x = plookup V pe2 x) ->
      exec_block V sem truth trip of_nat while_limit globals fuel ss pe1 = Some o1 ->
      exists o2, exec_block V sem truth trip of_nat while_limit globals fuel ss pe2 = Some o2 /\
        match o1, o2 with
        | ONormal _ a, ONormal _ b | OBreak _ a, OBreak _ b => forall x, In x live -> plookup V a x = plookup V b x
        | OReturn _ v1, OReturn _ v2 => v1 = v2
        | _, _ => False
        end.
