(* C08 property theorems, small bookkeeping families: aten_baddbmm / aten_addmm alpha-beta handling, aten_embedding, aten_native_layer_norm
   axis and statistics shapes.  Statements only.

   baddbmm / addmm are modelled per element: beta * self + alpha * (batch1 @ batch2) over the integers extended by NaN (any
   non-finite float).  NOT covered: the matrix product itself, float rounding, type promotion of alpha / beta (CastLike),
   embedding's padding_idx / scale_grad_by_freq (they only matter for gradients), the normalised values of layer_norm. *)
From Coq Require Import ZArith List Bool QArith.
Require Import OV.Torch.Onnx OV.Torch.Spec OV.Torch.Misc4 OV.Torch.Misc4Proofs.
Import ListNotations.
Local Open Scope Z_scope.

Definition C08_baddbmm_full : Prop := forall s mm beta alpha, aten_baddbmm false s mm beta alpha = torch_baddbmm s mm beta alpha.
(* missing: beta = 0 with a non-finite self (false of the code as read, next theorem) *)
Theorem C08_baddbmm_partial : forall zf s mm beta alpha,
  (beta <> 0 \/ exists z, s = XFin z) -> aten_baddbmm zf s mm beta alpha = torch_baddbmm s mm beta alpha.
Proof. exact baddbmm_finite_correct. Qed.
Print Assumptions C08_baddbmm_partial.
Theorem C08_baddbmm_beta_zero_refuted : exists s mm alpha, torch_baddbmm s mm 0 alpha = XFin 6 /\ aten_baddbmm false s mm 0 alpha = XNaN.
Proof. exact baddbmm_beta_zero_refuted. Qed.
Print Assumptions C08_baddbmm_beta_zero_refuted.
Theorem C08_baddbmm_fixed : forall s mm beta alpha, aten_baddbmm true s mm beta alpha = torch_baddbmm s mm beta alpha.
Proof. exact baddbmm_fixed_correct. Qed.
Print Assumptions C08_baddbmm_fixed.
Theorem C08_addmm : forall s mm beta alpha, aten_addmm s mm beta alpha = torch_baddbmm s mm beta alpha.
Proof. exact addmm_correct. Qed.
Print Assumptions C08_addmm.

Theorem C08_embedding : forall A (rows : list A) idx out, torch_embedding rows idx = Some out -> aten_embedding rows idx = Some out.
Proof. exact embedding_correct. Qed.
Print Assumptions C08_embedding.

Theorem C08_layer_norm_stats_shape : forall s normalized out,
  torch_layer_norm_stats s normalized = Some out -> aten_layer_norm_stats s normalized = Some out.
Proof. exact layer_norm_stats_correct. Qed.
Print Assumptions C08_layer_norm_stats_shape.

Example ex_baddbmm : torch_baddbmm (XFin 5) (XFin 3) 2 (-1) = XFin 7 /\ aten_baddbmm false (XFin 5) (XFin 3) 2 (-1) = XFin 7
  /\ aten_baddbmm false (XFin 5) (XFin 3) 0 1 = XFin 3 /\ aten_addmm XNaN (XFin 3) 0 2 = XFin 6.
Proof. repeat split; reflexivity. Qed.
Example ex_embedding : torch_embedding [[1; 2]; [3; 4]; [5; 6]] [2; 0; 2] = Some [[5; 6]; [1; 2]; [5; 6]]
  /\ aten_embedding [[1; 2]; [3; 4]; [5; 6]] [2; 0; 2] = Some [[5; 6]; [1; 2]; [5; 6]].
Proof. split; reflexivity. Qed.
Example ex_layer_norm : torch_layer_norm_stats [2; 3; 4] [3; 4] = Some [2; 1; 1] /\ aten_layer_norm_stats [2; 3; 4] [3; 4] = Some [2; 1; 1]
  /\ torch_layer_norm_stats [2; 3; 4] [3] = None.
Proof. repeat split; reflexivity. Qed.

(* arange(start, end, step, dtype = int64) with float arguments: element count.  Only refutations: the code truncates the arguments before
   Range; the integer-argument case is theorem C08_arange (Props/C08.v).  No small repair: the count has to come from the untruncated
   double arguments while the values come from the truncated start / step, in four dtype branches, with a dynamic path for tensor arguments. *)
Definition C08_arange_int64_count_full : Prop := forall s e st c, torch_arange_count s e st = Some c -> aten_arange_int64_count s e st = Some c.
Theorem C08_arange_int64_float_end_refuted : exists s e st, torch_arange_count s e st = Some 1 /\ aten_arange_int64_count s e st = Some 0.
Proof. exact arange_int64_float_end_refuted. Qed.
Print Assumptions C08_arange_int64_float_end_refuted.
Theorem C08_arange_int64_float_step_refuted : exists s e st, torch_arange_count s e st = Some 10 /\ aten_arange_int64_count s e st = None.
Proof. exact arange_int64_float_step_refuted. Qed.
Print Assumptions C08_arange_int64_float_step_refuted.
