"""Running generated programs through the real onnxscript front end (shared by C01 and C02).

    Workdir()                     temp directory for generated modules, removed on close()
    load(workdir, name, source)   write the module, import it (the @script decorators run for real);
                                  returns (module, None) or (partial module, exception)
    ort_run / checker helpers
"""
from __future__ import annotations

import importlib.util
import linecache
import os
import shutil
import sys
import tempfile
import warnings

import numpy as np

# exception classes with which the converter refuses a program (the source raises these on purpose)
DESCRIPTIVE = ("TranslationError", "ValueError", "SyntaxError", "TypeError", "RuntimeError", "NameError")
# an exception of one of these classes escaping the decorator is an internal crash, not a refusal
INTERNAL = ("AttributeError", "KeyError", "AssertionError", "IndexError", "UnboundLocalError", "RecursionError",
            "ZeroDivisionError", "StopIteration", "NotImplementedError", "LookupError", "OverflowError")


class Workdir:
    def __init__(self):
        self.path = tempfile.mkdtemp(prefix="osverif-c01-")
        self.loaded = []

    def close(self):
        for name in self.loaded:
            sys.modules.pop(name, None)
        linecache.clearcache()
        shutil.rmtree(self.path, ignore_errors=True)


def load(wd: Workdir, name: str, source: str):
    fn = os.path.join(wd.path, name + ".py")
    with open(fn, "w") as f:
        f.write(source)
    spec = importlib.util.spec_from_file_location(name, fn)
    mod = importlib.util.module_from_spec(spec)
    sys.modules[name] = mod
    wd.loaded.append(name)
    try:
        with warnings.catch_warnings():
            warnings.simplefilter("ignore")
            spec.loader.exec_module(mod)
    except BaseException as e:  # noqa: BLE001 -- whatever the decorator raised is the observation
        if isinstance(e, (KeyboardInterrupt, SystemExit, MemoryError)):
            raise
        sys.modules.pop(name, None)
        return mod, e          # the partially initialised module: functions decorated before the failure are there
    return mod, None


def exc_class(e):
    return type(e).__name__


def has_position(e):
    s = str(e)
    return ("line " in s) or ("Line " in s) or ("lineno" in s)


def ort_session(model_proto):
    import onnxruntime as ort
    so = ort.SessionOptions()
    so.graph_optimization_level = ort.GraphOptimizationLevel.ORT_DISABLE_ALL
    so.log_severity_level = 4
    so.intra_op_num_threads = 1
    so.inter_op_num_threads = 1
    return ort.InferenceSession(model_proto.SerializeToString(), so, providers=["CPUExecutionProvider"])


def check_model(model_proto):
    """onnx.checker in strict mode; returns None or the error text."""
    import onnx
    try:
        onnx.checker.check_model(model_proto, full_check=True)
        return None
    except Exception as e:  # noqa: BLE001
        return f"{type(e).__name__}: {str(e)[:500]}"


def check_function(function_proto, extra_imports=()):
    import onnx
    ctx = onnx.checker.C.CheckerContext()
    ctx.ir_version = 10
    imports = {o.domain: o.version for o in function_proto.opset_import}
    for d, v in extra_imports:
        imports.setdefault(d, v)
    imports.setdefault(function_proto.domain, 1)
    ctx.opset_imports = imports
    try:
        onnx.checker.check_function(function_proto, ctx)
        return None
    except Exception as e:  # noqa: BLE001
        return f"{type(e).__name__}: {str(e)[:500]}"


def single_version_imports(opset_imports):
    """Every domain imported with a single version (ai.onnx and "" are the same domain)."""
    seen = {}
    for o in opset_imports:
        d = "" if o.domain == "ai.onnx" else o.domain
        if d in seen:
            return False
        seen[d] = o.version
    return True


def np_dtype(dt):
    return {"F": np.float32, "I": np.int64, "B": np.bool_}[dt]


def coq_eval_par(ctx, requires, bodies, name, par=8, timeout=900):
    """Evaluate several scratch files in parallel through ctx.coq_eval (distinct file names)."""
    from concurrent.futures import ThreadPoolExecutor

    def one(kb):
        k, b = kb
        return ctx.coq_eval(requires, b, timeout=timeout, name=f"{name}_{k}")
    if not bodies:
        return []
    with ThreadPoolExecutor(max_workers=par) as ex:
        return list(ex.map(one, list(enumerate(bodies))))


def crash_site(e):
    """'module.function<-caller' of the innermost onnxscript frame of the traceback of e."""
    import traceback
    tb = [fr for fr in traceback.extract_tb(e.__traceback__) if "onnxscript" in fr.filename]
    if not tb:
        return "?"
    fr = tb[-1]
    site = fr.filename.split("/")[-1].replace(".py", "") + "." + fr.name
    if len(tb) > 1:
        site += "<-" + tb[-2].name
    return site


def loops_listed_in_two_orders(onnx_function, module):
    """Does the function contain a loop whose state-variable set iterates differently as `s` and as `s | set()`?
    Replays exactly the set construction of Converter._translate_loop_stmt with the real AstAnalyzer
    (same process, same hash seed, same sequence of set operations)."""
    import ast
    from onnxscript._internal import analysis, ast_utils, sourceinfo
    try:
        src, f_ast = ast_utils.get_src_and_ast(onnx_function.function)
        an = analysis.AstAnalyzer(f_ast, sourceinfo.formatter(src), dict(module.__dict__))
        for node in ast.walk(f_ast):
            if isinstance(node, (ast.For, ast.While)):
                exposed = an.exposed_uses(node.body)
                assigned = an.assigned_vars(node.body)
                live_out = an.live_out(node)
                if live_out is None:
                    continue
                state = assigned.intersection(exposed | live_out)
                if list(state) != list(state | set()):
                    return True
    except Exception:  # noqa: BLE001
        return False
    return False


def names_assigned(onnx_function):
    import ast
    from onnxscript._internal import ast_utils
    _src, f_ast = ast_utils.get_src_and_ast(onnx_function.function)
    return {n.id for n in ast.walk(f_ast) if isinstance(n, ast.Name) and isinstance(n.ctx, ast.Store)}


def analyzer_rows(source, fname, globals_truth):
    """Run the real AstAnalyzer on function `fname` of `source`.

    Returns (rows, loop_rows): rows = [(path, assigned_vars, live_in, live_out)] for every visited statement in
    pre-order (then-block indices start at 0, else-block at 1000, loop bodies at 0); loop_rows =
    [(path, assigned_vars(body), exposed_uses(body))] for every loop.  Sets are sorted lists."""
    import ast
    from onnxscript._internal import analysis, sourceinfo
    tree = ast.parse(source)
    f_ast = [n for n in tree.body if isinstance(n, ast.FunctionDef) and n.name == fname][0]
    an = analysis.AstAnalyzer(f_ast, sourceinfo.formatter(source), dict(globals_truth))
    rows, lrows = [], []

    def block(stmts, prefix, start):
        for k, s in enumerate(stmts):
            path = prefix + [start + k]
            lo = an.live_out(s)
            if lo is not None:
                rows.append((path, sorted(an.assigned_vars(s)), sorted(an.live_in(s)), sorted(lo)))
            if isinstance(s, ast.If):
                block(s.body, path, 0)
                block(s.orelse, path, 1000)
            elif isinstance(s, (ast.For, ast.While)):
                lrows.append((path, sorted(an.assigned_vars(s.body)), sorted(an.exposed_uses(s.body))))
                block(s.body, path, 0)
    block(f_ast.body, [], 0)
    return rows, lrows


# ----------------------------------------------------------------------------- observing the converter (harness-side wrapping)

class ConverterTrace:
    """Record, per translated function, the order in which the converter lists its Python sets.

    Wraps Converter.translate_function_def / _enter_scope / _generate_unique_name / _emit / _translate_block
    inside the harness process only (nothing in /repo is touched)."""

    def __init__(self):
        self.events = {}
        self._cur = None
        self._saved = {}

    def __enter__(self):
        from onnxscript._internal import converter
        C = converter.Converter
        tr = self
        self._C = C
        for name in ("translate_function_def", "_enter_scope", "_generate_unique_name", "_emit", "_translate_block"):
            self._saved[name] = getattr(C, name)
        saved = self._saved

        def translate_function_def(self_, stmt):
            prev = tr._cur
            tr._cur = []
            tr.events[getattr(stmt, "name", "?")] = tr._cur
            try:
                return saved["translate_function_def"](self_, stmt)
            finally:
                tr._cur = prev

        def _enter_scope(self_, name, parent_node):
            if tr._cur is not None:
                tr._cur.append(("enter", name))
            return saved["_enter_scope"](self_, name, parent_node)

        def _generate_unique_name(self_, candidate="tmp"):
            r = saved["_generate_unique_name"](self_, candidate)
            if tr._cur is not None:
                tr._cur.append(("uniq", candidate, r))
            return r

        def _emit(self_, outputs, callee, inputs, attrs=None):
            if tr._cur is not None:
                name = callee if isinstance(callee, str) else getattr(callee, "name", "?")
                tr._cur.append(("emit", name, len(list(outputs))))
            return saved["_emit"](self_, outputs, callee, inputs, attrs)

        def _translate_block(self_, stmts, name, live_defs, *a, **k):
            if tr._cur is not None:
                tr._cur.append(("block", name, list(live_defs)))
            return saved["_translate_block"](self_, stmts, name, live_defs, *a, **k)

        C.translate_function_def = translate_function_def
        C._enter_scope = _enter_scope
        C._generate_unique_name = _generate_unique_name
        C._emit = _emit
        C._translate_block = _translate_block
        return self

    def __exit__(self, *exc):
        for name, f in self._saved.items():
            setattr(self._C, name, f)
        return False


def orders_from_events(events, legacy=False):
    """-> (orders in the order the model consumes them, [(A, B)] for every loop: state listed for the body / for the outputs).
    legacy=True: the unrepaired converter lists the loop state a second time (B) when it names the Loop outputs."""
    placed = []
    loops = []
    stack = []
    for idx, ev in enumerate(events):
        if ev[0] == "block" and ev[1].startswith("thenGraph"):
            placed.append((idx, list(ev[2])))
        elif ev[0] == "enter" and ev[1] == "loop_body":
            stack.append(idx)
        elif ev[0] == "emit" and ev[1] == "Loop":
            n = ev[2]
            start = stack.pop()
            a = [e[1] for e in events[start + 2:start + 2 + n]]
            assert all(e[0] == "uniq" for e in events[start + 1:start + 2 + n]), events[start:start + 3 + n]
            b = [e[1] for e in events[idx - n:idx]]
            placed.append((start, a))
            if legacy:
                placed.append((idx, b))
            loops.append((a, b))
    # loops whose translation did not complete (refused program) stay on the stack: their order is unknown
    placed.sort(key=lambda t: t[0])
    return [o for _i, o in placed], loops


_COPY_RE = None


def normalize_copy_names(proto):
    """The duplicate-output copy is named after the repr of an ir.Value (`%"w_5"<FLOAT,?>_copy`): map it to `w_5_copy`."""
    import copy
    import re
    global _COPY_RE
    if _COPY_RE is None:
        _COPY_RE = re.compile(r'^%"(.+)"<[^>]*>_copy(.*)$')
    p = copy.deepcopy(proto)

    def fix(name):
        m = _COPY_RE.match(name)
        return (m.group(1) + "_copy" + m.group(2)) if m else name

    def nodes(ns):
        for n in ns:
            for i, x in enumerate(n.input):
                n.input[i] = fix(x)
            for i, x in enumerate(n.output):
                n.output[i] = fix(x)
            for a in n.attribute:
                if a.type == a.GRAPH:
                    graph(a.g)
                for g in a.graphs:
                    graph(g)

    def graph(g):
        nodes(g.node)
        for o in g.output:
            o.name = fix(o.name)
    nodes(p.node)
    for i, x in enumerate(p.output):
        p.output[i] = fix(x)
    return p


def ort_run_subprocess(model_proto, feeds, timeout=30):
    """Run a model in a child process (an ONNX Loop that never terminates must not hang the check).
    Returns ("ok", [arrays]) | ("error", text) | ("timeout", "")."""
    import pickle
    import subprocess
    import sys as _sys
    code = ("import pickle,sys\n"
            "import onnxruntime as ort\n"
            "m,feeds=pickle.load(sys.stdin.buffer)\n"
            "so=ort.SessionOptions(); so.graph_optimization_level=ort.GraphOptimizationLevel.ORT_DISABLE_ALL; so.log_severity_level=4; so.intra_op_num_threads=1; so.inter_op_num_threads=1\n"
            "try:\n"
            "    s=ort.InferenceSession(m,so,providers=['CPUExecutionProvider']); r=('ok',s.run(None,feeds))\n"
            "except Exception as e:\n"
            "    r=('error',str(e)[:400])\n"
            "sys.stdout.buffer.write(pickle.dumps(r))\n")
    try:
        p = subprocess.run([_sys.executable, "-c", code], input=pickle.dumps((model_proto.SerializeToString(), feeds)),
                           stdout=subprocess.PIPE, stderr=subprocess.DEVNULL, timeout=timeout)
    except subprocess.TimeoutExpired:
        return "timeout", ""
    try:
        return pickle.loads(p.stdout)
    except Exception:  # noqa: BLE001
        return "error", "worker crashed"


def ort_run(model_proto, feeds):
    try:
        sess = ort_session(model_proto)
        return "ok", sess.run(None, feeds)
    except Exception as e:  # noqa: BLE001
        return "error", str(e)[:400]


# ----------------------------------------------------------------------------- mechanism detectors (exact w.r.t. the code under test)

def for_bound_not_live(source, fname, globals_truth):
    """A `for i in range(e)` whose bound uses a variable that the real liveness analysis does not keep live at the loop."""
    import ast
    from onnxscript._internal import analysis, sourceinfo
    try:
        tree = ast.parse(source)
        f_ast = [n for n in tree.body if isinstance(n, ast.FunctionDef) and n.name == fname][0]
        an = analysis.AstAnalyzer(f_ast, sourceinfo.formatter(source), dict(globals_truth))
        for node in ast.walk(f_ast):
            if isinstance(node, ast.For):
                li = an.live_in(node)
                if li is not None and not (analysis._used_vars(node.iter) <= li):
                    return True
    except Exception:  # noqa: BLE001
        return False
    return False


def loop_live_out_dropped(source, fname, globals_truth):
    """A loop whose body assigns a variable that is live after the loop while the real liveness analysis does not keep it
    live at the end of the body (the fixpoint iteration of `for`/`while` replaces live_out by the live-in of the body):
    an `if` inside the body then does not list it as an output (and before the loop it is not live either)."""
    import ast
    from onnxscript._internal import analysis, sourceinfo
    try:
        tree = ast.parse(source)
        f_ast = [n for n in tree.body if isinstance(n, ast.FunctionDef) and n.name == fname][0]
        an = analysis.AstAnalyzer(f_ast, sourceinfo.formatter(source), dict(globals_truth))
        for node in ast.walk(f_ast):
            if isinstance(node, (ast.For, ast.While)) and node.body:
                lo = an.live_out(node)
                last = node.body[-1]
                if isinstance(last, ast.If) and len(last.body) == 1 and isinstance(last.body[0], ast.Break) and len(node.body) > 1:
                    last = node.body[-2]
                lb = an.live_out(last)
                if lo is None or lb is None:
                    continue
                if (set(lo) & set(an.assigned_vars(node.body))) - set(lb):
                    return True
    except Exception:  # noqa: BLE001
        return False
    return False


_CONST_IF_PROBE = None


def constant_if_excludes_parameters():
    """Probe of the real AstAnalyzer: is `if p:` on a parameter p that is also a module global a constant condition?"""
    global _CONST_IF_PROBE
    if _CONST_IF_PROBE is None:
        import ast
        from onnxscript._internal import analysis, sourceinfo
        src = "def f(p, x):\n    if p:\n        y = x\n    else:\n        y = p\n    return y\n"
        f_ast = ast.parse(src).body[0]
        an = analysis.AstAnalyzer(f_ast, sourceinfo.formatter(src), {"p": True})
        _CONST_IF_PROBE = an.constant_if_condition(f_ast.body[0]) is None
    return _CONST_IF_PROBE


def if_test_parameter_shadows_global(source, fname, module_names):
    """An `if p:` whose test is a parameter of the function (never assigned in the body) while the module also has a
    global called p: AstAnalyzer._compute_constant_if_conditions only excludes names assigned in the body, so the
    test is evaluated at decoration time on the module-level object and one branch is dropped."""
    import ast
    try:
        tree = ast.parse(source)
        f_ast = [n for n in tree.body if isinstance(n, ast.FunctionDef) and n.name == fname][0]
        params = {a.arg for a in f_ast.args.posonlyargs + f_ast.args.args + f_ast.args.kwonlyargs}
        stored = {n.id for n in ast.walk(f_ast) if isinstance(n, ast.Name) and isinstance(n.ctx, ast.Store)}
        for node in ast.walk(f_ast):
            if isinstance(node, ast.If) and isinstance(node.test, ast.Name):
                v = node.test.id
                if v in params and v in module_names and v not in stored:
                    return True
    except Exception:  # noqa: BLE001
        return False
    return False


def while_break_drops_condition(function_proto):
    """A Loop without trip count (a `while`) whose body computes cond_out as Not(<break condition>) only."""
    def graph_has(nodes):
        for n in nodes:
            for a in n.attribute:
                if a.type == a.GRAPH:
                    g = a.g
                    if n.op_type == "Loop" and len(n.input) > 0 and n.input[0] == "" and g.output:
                        co = g.output[0].name
                        prod = [m for m in g.node if co in m.output]
                        if prod and prod[0].op_type == "Not":
                            return True
                    if graph_has(g.node):
                        return True
        return False
    return graph_has(function_proto.node)


def returns_graph_input(function_proto):
    return any(o in set(function_proto.input) for o in function_proto.output)


class OrtSessionCache:
    """Eager mode builds one InferenceSession per operator call.  Inside the harness process identical models
    (byte-equal) share one session: onnxruntime is an oracle here, not the code under test."""

    def __init__(self, limit=20000):
        self.cache = {}
        self.limit = limit
        self.hits = 0
        self.misses = 0

    def __enter__(self):
        import onnxruntime as ort
        self._ort = ort
        self._orig = ort.InferenceSession
        orig = self._orig
        cache = self.cache
        me = self

        def factory(model, sess_options=None, providers=None, **kw):
            if isinstance(model, (bytes, bytearray)) and sess_options is None:
                key = bytes(model)
                s = cache.get(key)
                if s is None:
                    me.misses += 1
                    so = ort.SessionOptions()
                    so.log_severity_level = 4
                    so.intra_op_num_threads = 1
                    so.inter_op_num_threads = 1
                    s = orig(key, so, providers=list(providers) if providers else ["CPUExecutionProvider"], **kw)
                    if len(cache) < me.limit:
                        cache[key] = s
                else:
                    me.hits += 1
                return s
            return orig(model, sess_options, providers=providers, **kw)
        ort.InferenceSession = factory
        return self

    def __exit__(self, *exc):
        self._ort.InferenceSession = self._orig
        self.cache.clear()
        return False


def nested_domain_not_imported(function_proto):
    """A node inside a subgraph uses an operator domain that the FunctionProto does not import."""
    imported = {("" if o.domain == "ai.onnx" else o.domain) for o in function_proto.opset_import}

    def used(nodes, acc):
        for n in nodes:
            acc.add("" if n.domain == "ai.onnx" else n.domain)
            for a in n.attribute:
                if a.type == a.GRAPH:
                    used(a.g.node, acc)
                for g in a.graphs:
                    used(g.node, acc)
        return acc
    return not used(function_proto.node, set()) <= imported


def quiet_ort():
    try:
        import onnxruntime as ort
        ort.set_default_logger_severity(4)
    except Exception:  # noqa: BLE001
        pass


class OrtWorker:
    """Runs ONNX models in a child process with a time limit (a Loop that never terminates -- e.g. produced by a
    broken converter -- must not hang the check).  The child is restarted after a timeout."""

    CODE = (
        "import pickle,struct,sys\n"
        "import onnxruntime as ort\n"
        "ort.set_default_logger_severity(4)\n"
        "inp=sys.stdin.buffer; out=sys.stdout.buffer\n"
        "def rd(n):\n"
        "    b=b''\n"
        "    while len(b)<n:\n"
        "        c=inp.read(n-len(b))\n"
        "        if not c: sys.exit(0)\n"
        "        b+=c\n"
        "    return b\n"
        "while True:\n"
        "    n=struct.unpack('<Q',rd(8))[0]\n"
        "    m,feeds=pickle.loads(rd(n))\n"
        "    so=ort.SessionOptions(); so.graph_optimization_level=ort.GraphOptimizationLevel.ORT_DISABLE_ALL; so.log_severity_level=4; so.intra_op_num_threads=1; so.inter_op_num_threads=1\n"
        "    try:\n"
        "        s=ort.InferenceSession(m,so,providers=['CPUExecutionProvider']); r=('ok',s.run(None,feeds))\n"
        "    except Exception as e:\n"
        "        r=('error',str(e)[:600])\n"
        "    p=pickle.dumps(r)\n"
        "    out.write(struct.pack('<Q',len(p))+p); out.flush()\n")

    def __init__(self, timeout=20):
        self.timeout = timeout
        self.proc = None
        self.timeouts = 0

    def _start(self):
        import subprocess
        import sys as _sys
        self.proc = subprocess.Popen([_sys.executable, "-c", self.CODE], stdin=subprocess.PIPE, stdout=subprocess.PIPE,
                                     stderr=subprocess.DEVNULL, bufsize=0)

    def _read(self, n, deadline):
        import os
        import select
        import time
        buf = b""
        fd = self.proc.stdout.fileno()
        while len(buf) < n:
            left = deadline - time.time()
            if left <= 0:
                return None
            r, _, _ = select.select([fd], [], [], left)
            if not r:
                return None
            chunk = os.read(fd, n - len(buf))
            if not chunk:
                return b""
            buf += chunk
        return buf

    def run(self, model_proto, feeds):
        import pickle
        import struct
        import time
        if self.proc is None or self.proc.poll() is not None:
            self._start()
        payload = pickle.dumps((model_proto.SerializeToString(), feeds))
        try:
            self.proc.stdin.write(struct.pack("<Q", len(payload)) + payload)
            self.proc.stdin.flush()
        except Exception:  # noqa: BLE001
            self.close()
            return "error", "worker died"
        deadline = time.time() + self.timeout
        hdr = self._read(8, deadline)
        if hdr is None:
            self.timeouts += 1
            self.close()
            return "timeout", ""
        if hdr == b"" or len(hdr) < 8:
            self.close()
            return "error", "worker crashed"
        n = struct.unpack("<Q", hdr)[0]
        body = self._read(n, deadline + 30)
        if not body:
            self.close()
            return "error", "worker crashed"
        return pickle.loads(body)

    def close(self):
        if self.proc is not None:
            try:
                self.proc.kill()
                self.proc.wait(timeout=5)
            except Exception:  # noqa: BLE001
                pass
            self.proc = None


def subgraph_lists_value_twice(function_proto):
    """Some nested graph (branch or loop body) has the same value name twice among its outputs."""
    def has(nodes):
        for n in nodes:
            for a in n.attribute:
                gs = [a.g] if a.type == a.GRAPH else list(a.graphs)
                for g in gs:
                    outs = [o.name for o in g.output]
                    if len(outs) != len(set(outs)) or has(g.node):
                        return True
        return False
    return has(function_proto.node)
