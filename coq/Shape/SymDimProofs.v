(* C09 -- when does each dimension equality of the code imply equality of the runtime dimensions? *)
From Coq Require Import ZArith List Bool String Lia.
Require Import OV.Shape.SymDim.
Import ListNotations.
Open Scope Z_scope.

(* ---- same_dim (_ir_utils): sound for every binding ---------------------------------------- *)
Lemma same_dim_sound : forall a b, same_dim a b = true ->
  forall rho n m, denotes rho a n -> denotes rho b m -> n = m.
Proof.
  intros [x|s|] [y|t|] H rho n m Ha Hb; simpl in *; try discriminate.
  - apply Z.eqb_eq in H. congruence.
  - apply String.eqb_eq in H. subst. congruence.
Qed.

Lemma same_dim_known : forall a b, same_dim a b = true -> is_unk a = false /\ is_unk b = false.
Proof. intros [x|s|] [y|t|] H; simpl in *; try discriminate; auto. Qed.

Lemma same_dim_is_ir_eqb : forall a b, same_dim a b = dim_ir_eqb a b && negb (is_unk a).
Proof. intros [x|s|] [y|t|]; simpl; try reflexivity; rewrite andb_true_r; reflexivity. Qed.

(* ---- Python == on dims: sound unless both are unknown ------------------------------------- *)
Lemma dim_ir_eqb_sound_known : forall a b, dim_ir_eqb a b = true -> is_unk a = false ->
  forall rho n m, denotes rho a n -> denotes rho b m -> n = m.
Proof.
  intros a b H Hk. apply same_dim_sound. rewrite same_dim_is_ir_eqb, H, Hk. reflexivity.
Qed.

(* ... and refuted in general: SymbolicDim(None) == SymbolicDim(None) although the sizes differ *)
Lemma dim_ir_eqb_refuted : exists a b rho n m,
  dim_ir_eqb a b = true /\ denotes rho a n /\ denotes rho b m /\ n <> m.
Proof.
  exists DUnk, DUnk, (fun _ => O), 1, 5. simpl. repeat split; try lia.
Qed.

(* ---- shapes -------------------------------------------------------------------------------- *)
Lemma shape_ir_eqb_sound_known : forall s1 s2, shape_ir_eqb s1 s2 = true -> has_unknown_dim s1 = false ->
  forall rho c1 c2, shape_denotes rho s1 c1 -> shape_denotes rho s2 c2 -> c1 = c2.
Proof.
  induction s1 as [|a s1 IH]; intros [|b s2] H Hu rho c1 c2 H1 H2; simpl in *; try discriminate.
  - inversion H1; inversion H2; reflexivity.
  - apply andb_true_iff in H as [Hd Hs]. apply orb_false_iff in Hu as [Ha Hu].
    inversion H1; subst. inversion H2; subst. f_equal.
    + eapply dim_ir_eqb_sound_known; eauto.
    + eapply IH; eauto.
Qed.

(* _constant_folding._same_shape: sound for every binding (unknown dims of shape1 are rejected, and a
   named or int dim of shape1 is never == to an unknown dim of shape2) *)
Lemma cf_same_shape_sound : forall s1 s2, cf_same_shape s1 s2 = true ->
  forall rho c1 c2, shape_denotes rho s1 c1 -> shape_denotes rho s2 c2 -> c1 = c2.
Proof.
  unfold cf_same_shape. intros s1 s2 H. apply andb_true_iff in H as [Hu He].
  apply negb_true_iff in Hu. eauto using shape_ir_eqb_sound_known.
Qed.

(* _ir_utils.same_shape *)
Lemma iu_same_shape_sound : forall s1 s2, iu_same_shape (Some s1) (Some s2) = true ->
  forall rho c1 c2, shape_denotes rho s1 c1 -> shape_denotes rho s2 c2 -> c1 = c2.
Proof.
  unfold iu_same_shape. intros s1 s2 H.
  apply andb_true_iff in H as [H He]. apply andb_true_iff in H as [Hu _].
  apply negb_true_iff in Hu. eauto using shape_ir_eqb_sound_known.
Qed.

Lemma iu_same_shape_unknown_rank : forall s, iu_same_shape None s = false /\ iu_same_shape s None = false.
Proof. intros [s|]; split; reflexivity. Qed.

(* ir.Shape.__eq__ alone is not enough: [None, 4] == [None, 4] *)
Lemma shape_ir_eqb_refuted : exists s1 s2 rho c1 c2,
  shape_ir_eqb s1 s2 = true /\ shape_denotes rho s1 c1 /\ shape_denotes rho s2 c2 /\ c1 <> c2.
Proof.
  exists [DUnk; DInt 4], [DUnk; DInt 4], (fun _ => O), [2; 4], [3; 4].
  repeat split; try reflexivity; try discriminate.
  - repeat constructor; simpl; lia.
  - repeat constructor; simpl; lia.
Qed.

(* hypotheses are satisfiable on a non-trivial instance: repeated symbol, an int and a zero *)
Example cf_same_shape_example :
  cf_same_shape [DSym "N"; DInt 0; DSym "N"; DInt 4] [DSym "N"; DInt 0; DSym "N"; DInt 4] = true
  /\ shape_denotes (fun _ => 7%nat) [DSym "N"; DInt 0; DSym "N"; DInt 4] [7; 0; 7; 4].
Proof. split; [reflexivity | repeat constructor]. Qed.

(* utility used by the other proof files *)
Lemma Forall2_rev : forall {A B} (R : A -> B -> Prop) l m, Forall2 R l m -> Forall2 R (rev l) (rev m).
Proof.
  induction 1; simpl; [constructor|]. apply Forall2_app; auto.
Qed.

Lemma shape_denotes_rev : forall rho s c, shape_denotes rho s c -> shape_denotes rho (rev s) (rev c).
Proof. intros; apply Forall2_rev; assumption. Qed.

Lemma shape_denotes_length : forall rho s c, shape_denotes rho s c -> List.length s = List.length c.
Proof. induction 1; simpl; congruence. Qed.
