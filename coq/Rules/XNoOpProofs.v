From Coq Require Import ZArith QArith Qabs List Bool Lia Lqa.
Require Import OV.Rules.XNoOp.
Import ListNotations.
Local Open Scope Q_scope.

(* tolerance 0 means equality *)
Lemma isclose_exact : forall c t, isclose c t 0 0 = true -> c == t.
Proof.
  intros c t H. unfold isclose in H. apply Qle_bool_iff in H.
  assert (E : qmax (0 * qmax (Qabs c) (Qabs t)) 0 == 0).
  { unfold qmax at 1. destruct (Qle_bool _ _); [reflexivity|ring]. }
  rewrite E in H.
  assert (H0 : Qabs (c - t) == 0) by (apply Qle_antisym; [exact H|apply Qabs_nonneg]).
  revert H0. apply Qabs_case; intros; lra.
Qed.
Lemma np_isclose_exact : forall c t, np_isclose c t 0 0 = true -> c == t.
Proof.
  intros c t H. unfold np_isclose in H. apply Qle_bool_iff in H.
  assert (E : 0 + 0 * Qabs t == 0) by ring. rewrite E in H.
  assert (H0 : Qabs (c - t) == 0) by (apply Qle_antisym; [exact H|apply Qabs_nonneg]).
  revert H0. apply Qabs_case; intros; lra.
Qed.
Lemma match_exact : forall np t c, match_const np 0 0 t c = true -> exists q, c = QFin q /\ q == t.
Proof.
  intros np t [| |q|] H; try discriminate. exists q; split; [reflexivity|].
  cbn in H. destruct np; [apply np_isclose_exact|apply isclose_exact]; exact H.
Qed.

Lemma sgn_pos : forall q, 0 < q -> sgn q = Gt.
Proof. intros [n d] H. unfold sgn, Qlt in *. cbn in *. apply Z.compare_gt_iff. lia. Qed.
Lemma sgn_eq_pos : forall q t, q == t -> 0 < t -> sgn q = Gt.
Proof. intros q t E H. apply sgn_pos. lra. Qed.

(* x*1, 1*x, x+0, 0+x, x-0, x/1 are identities on every extended value when the constant is matched exactly *)
Theorem noop_x_sound : forall o r c x, fires 0 0 o r c = true -> xq_eq (lhs o c x) x.
Proof.
  intros o r c x H. unfold fires in H. apply andb_true_iff in H as [_ H].
  apply match_exact in H as (q & -> & E).
  destruct o; cbn [target] in E.
  - (* x * c *) assert (S : sgn q = Gt) by (eapply sgn_eq_pos; [exact E|reflexivity]).
    destruct x as [| |p|]; cbn [lhs xq_mul xq_eq]; unfold scale_inf; rewrite ?S; cbn [xq_eq xq_neg]; auto. rewrite E. ring.
  - assert (S : sgn q = Gt) by (eapply sgn_eq_pos; [exact E|reflexivity]).
    destruct x as [| |p|]; cbn [lhs xq_mul xq_eq]; unfold scale_inf; rewrite ?S; cbn [xq_eq xq_neg]; auto. rewrite E. ring.
  - destruct x as [| |p|]; cbn [lhs xq_add xq_eq]; auto. rewrite E. ring.
  - destruct x as [| |p|]; cbn [lhs xq_add xq_eq]; auto. rewrite E. ring.
  - destruct x as [| |p|]; cbn [lhs xq_sub xq_add xq_neg xq_eq]; auto. rewrite E. ring.
  - assert (S : sgn q = Gt) by (eapply sgn_eq_pos; [exact E|reflexivity]).
    assert (Z : Qeq_bool q 0 = false).
    { destruct (Qeq_bool q 0) eqn:B; [|reflexivity]. apply Qeq_bool_eq in B. rewrite E in B. discriminate. }
    destruct x as [| |p|]; unfold lhs, xq_div; rewrite ?S, ?Z; cbn [xq_eq]; auto. rewrite E. field.
Qed.

(* with the default tolerances of _pattern_ir.Constant (rel 1e-5, abs 1e-8) every one of the six forms accepts a
   constant that changes the value: the tolerance arguments written in the source are what makes the rules sound *)
Theorem noop_x_default_tolerance_refuted : forall o, exists c x,
  fires (1 # 100000) (1 # 100000000) o 0 c = true /\ ~ xq_eq (lhs o c x) x.
Proof.
  destruct o;
    [exists (QFin (1048577 # 1048576)), (QFin (1048576 # 1)) | exists (QFin (1048577 # 1048576)), (QFin (1048576 # 1))
    | exists (QFin (1 # 1000000000)), (QFin 0) | exists (QFin (1 # 1000000000)), (QFin 0) | exists (QFin (1 # 1000000000)), (QFin 0)
    | exists (QFin (1048577 # 1048576)), (QFin (1048576 # 1))];
    (split; [vm_compute; reflexivity|vm_compute; intro H; discriminate H]).
Qed.

(* special constants never match *)
Theorem special_constant_never_matches : forall np rel abs t c, (c = QNaN \/ c = QNInf \/ c = QPInf) -> match_const np rel abs t c = false.
Proof. intros np rel abs t c [->|[->| ->]]; reflexivity. Qed.

(* --- table of constants ------------------------------------------------------------------------------- *)
Theorem exact_entry_matches_only_its_value : forall e c, ce_exact e = true -> ce_matches e c = true ->
  exists q, c = QFin q /\ q == ce_value e.
Proof.
  intros e c He Hm. unfold ce_exact in He. apply andb_true_iff in He as [Hr Ha].
  apply Qeq_bool_eq in Hr. apply Qeq_bool_eq in Ha. unfold ce_matches in Hm.
  assert (forall np, match_const np (ce_rel e) (ce_abs e) (ce_value e) c = true -> exists q, c = QFin q /\ q == ce_value e) as K.
  { intros np H. destruct c as [| |q|]; try discriminate. exists q. split; [reflexivity|]. cbn in H.
    destruct np.
    - apply np_isclose_exact. unfold np_isclose in *. apply Qle_bool_iff in H. apply Qle_bool_iff.
      rewrite Hr, Ha in H. exact H.
    - apply isclose_exact. unfold isclose in *. apply Qle_bool_iff in H. apply Qle_bool_iff.
      assert (E1 : qmax (ce_rel e * qmax (Qabs q) (Qabs (ce_value e))) (ce_abs e) == 0).
      { unfold qmax at 1. destruct (Qle_bool _ _); [exact Ha|]. rewrite Hr. ring. }
      assert (E2 : qmax (0 * qmax (Qabs q) (Qabs (ce_value e))) 0 == 0).
      { unfold qmax at 1. destruct (Qle_bool _ _); [reflexivity|ring]. }
      rewrite E2. rewrite E1 in H. exact H. }
  destruct (ce_kind e); eapply K; exact Hm.
Qed.

Lemma int_tolerance_vacuous : forall z t : Z, (Z.abs t <= 1000)%Z ->
  isclose (inject_Z z) (inject_Z t) rel_bound abs_bound = true -> z = t.
Proof.
  intros z t Ht H. unfold rel_bound, abs_bound, isclose, qmax, Qle_bool, inject_Z, Qminus, Qplus, Qopp, Qmult, Qabs in H.
  cbn [Qnum Qden] in H.
  destruct (Z.leb_spec (Z.abs z * 1) (Z.abs t * 1)); cbn [Qnum Qden] in H;
  match type of H with context [if Z.leb ?a ?b then _ else _] => destruct (Z.leb_spec a b) end; cbn [Qnum Qden] in H;
  apply Z.leb_le in H; lia.
Qed.

Lemma qmax_le : forall a b a' b', a <= a' -> b <= b' -> qmax a b <= qmax a' b'.
Proof.
  intros a b a' b' H1 H2. unfold qmax.
  destruct (Qle_bool a b) eqn:E1, (Qle_bool a' b') eqn:E2;
    try (apply Qle_bool_iff in E1); try (apply Qle_bool_iff in E2);
    try (assert (~ a <= b) by (intro K; apply Qle_bool_iff in K; congruence));
    try (assert (~ a' <= b') by (intro K; apply Qle_bool_iff in K; congruence)); lra.
Qed.
Lemma qmax_nonneg : forall a b, 0 <= a -> 0 <= b -> 0 <= qmax a b.
Proof. intros a b Ha Hb. unfold qmax. destruct (Qle_bool a b); assumption. Qed.

Lemma isclose_mono : forall c t rel abs rel' abs', 0 <= rel -> rel <= rel' -> abs <= abs' ->
  isclose c t rel abs = true -> isclose c t rel' abs' = true.
Proof.
  intros c t rel abs rel' abs' H0 Hr Ha H. unfold isclose in *. apply Qle_bool_iff in H. apply Qle_bool_iff.
  eapply Qle_trans; [exact H|]. apply qmax_le; [|exact Ha].
  assert (M : 0 <= qmax (Qabs c) (Qabs t)) by (apply qmax_nonneg; apply Qabs_nonneg).
  apply Qmult_le_compat_r; assumption.
Qed.

(* an integer-operand entry matches an integer constant only if it is the target *)
Theorem int_entry_matches_only_its_value : forall e z, ce_int_ok e = true -> ce_matches e (QFin (inject_Z z)) = true ->
  inject_Z z == ce_value e.
Proof.
  intros e z He Hm. unfold ce_int_ok in He. unfold ce_matches in Hm. destruct (ce_kind e); try discriminate.
  repeat (apply andb_true_iff in He as [He ?]).
  apply Qle_bool_iff in He. apply Qle_bool_iff in H2. apply Qle_bool_iff in H1. apply Pos.eqb_eq in H0. apply Z.leb_le in H.
  destruct (ce_value e) as [n d] eqn:V. cbn [Qnum Qden] in *. subst d.
  cbn [match_const] in Hm.
  apply (isclose_mono _ _ _ _ rel_bound abs_bound He H2 H1) in Hm.
  change (n # 1) with (inject_Z n) in Hm.
  apply int_tolerance_vacuous in Hm; [|exact H]. subst. reflexivity.
Qed.

(* --- signed zero ---------------------------------------------------------------------------------------- *)
(* x*1, 1*x, x/1 keep the sign of a zero; x + c and c + x keep it iff not (x = -0 and c = +0); x - c iff not (x = -0 and c = -0) *)
Theorem zero_sign_kept_iff : forall o c x,
  zlhs o c x = x <-> match o with
                     | AddR | AddL => ~ (x = NZ /\ c = PZ)
                     | SubR => ~ (x = NZ /\ c = NZ)
                     | _ => True
                     end.
Proof. intros [] [] []; cbn; split; intros; auto; try discriminate; try tauto; try (intros [? ?]; discriminate). Qed.

(* x + 0 -> x at x = -0.0: a consumer that sees the sign (1 / .) gives +inf before and -inf after the rewrite *)
Theorem add_zero_negative_zero_refuted : exists c x, recip (zlhs AddR c x) <> recip x /\ recip (zlhs AddL c x) <> recip x.
Proof. exists PZ, NZ. split; discriminate. Qed.
