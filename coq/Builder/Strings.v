(* String helpers for the C18 builder models: decimal rendering of counters (Python str(int)),
   dotted / slashed joins, character tests.  No proofs in this file. *)
From Coq Require Import String Ascii List Bool DecimalString DecimalNat Decimal.
Import ListNotations.
Local Open Scope string_scope.

(* Python str(n) for n >= 0 *)
Definition dec (n : nat) : string := NilEmpty.string_of_uint (Nat.to_uint n).

Fixpoint has_char (c : ascii) (s : string) : bool :=
  match s with
  | EmptyString => false
  | String d t => Ascii.eqb c d || has_char c t
  end.

Definition dotfree (s : string) : bool := negb (has_char "."%char s).
Definition nonempty (s : string) : bool := negb (String.eqb s "").
(* a key of a _modules / _parameters dict that behaves like an identifier or an index *)
Definition keyok (s : string) : bool := dotfree s && nonempty s.

Definition dot (a b : string) : string := a ++ "." ++ b.

Fixpoint join_with (sep : string) (parts : list string) : string :=
  match parts with
  | [] => ""
  | [x] => x
  | x :: t => x ++ sep ++ join_with sep t
  end.

Definition nonempty_parts (st : list string) : list string := filter nonempty st.

Definition is_digit (c : ascii) : bool :=
  let n := nat_of_ascii c in Nat.leb 48 n && Nat.leb n 57.
Fixpoint all_chars (p : ascii -> bool) (s : string) : bool :=
  match s with EmptyString => true | String c t => p c && all_chars p t end.
Definition is_letter (c : ascii) : bool :=
  let n := nat_of_ascii c in (Nat.leb 65 n && Nat.leb n 90) || (Nat.leb 97 n && Nat.leb n 122).

Definition mem_str (x : string) (l : list string) : bool := existsb (String.eqb x) l.
Fixpoint nodup_strb (l : list string) : bool :=
  match l with [] => true | x :: t => negb (mem_str x t) && nodup_strb t end.
Fixpoint list_str_eqb (a b : list string) : bool :=
  match a, b with
  | [], [] => true
  | x :: s, y :: t => String.eqb x y && list_str_eqb s t
  | _, _ => false
  end.

(* equality up to order for lists without repetitions (dict keys) *)
Definition perm_str_eqb (a b : list string) : bool :=
  Nat.eqb (List.length a) (List.length b) && forallb (fun x => mem_str x b) a && forallb (fun x => mem_str x a) b.
