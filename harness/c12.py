"""C12 -- Python literals are promoted identically by converter, eager mode and graph builder.

Proof (coq/Autocast/*.v, coq/Props/C12.v): for every schema shape the three promotion algorithms give a
literal the element type named by the rule of the property text; the facts needed about real schemas are
decided over the registry regenerated from onnx.defs (coq/Gen/Schemas.v); Constant+CastLike = direct
creation wherever the latter is defined; the sign-aware constant-cache key never conflates.

Tie: (T) Gen/Schemas.v and Gen/CacheKey.v are regenerated on every run (fail-closed);
     (C) over the property's own quantifier -- (op, version) x argument position (variadic tail, omitted
         optionals) x literal x sibling dtype -- the operand really fed to the op by each front end is
         observed and compared, inside Coq, with the model of that front end and with the specification;
         cache histories are replayed on a real GraphBuilder and compared with the cache model.
Direct oracle: the three observations compared with each other (dtype, rank, exact values).
"""
from __future__ import annotations

import ast
import json
import math
import os
import re
import time

from harness import c12_decisions as DEC
from harness import c12_frontends as FE
from harness import c12_keys as KEYS
from harness import c12_operators as OPS
from harness import c12_registry as REG
from harness import common

PROPERTY = "C12"
LEVEL = "proof"

LITERALS = [0, 1, -3, 2.5, -0.0, True, [1, 2], [0.5]]
# beyond the property's own literal set (task: lists of every kind, bools beside int/float siblings): sampled on every
# (schema, position) group at a lower rate.  [] is handled by the direct oracle only (no front end promotes it).
EXT_LITERALS = [False, [True, False], [-0.0, 0.0], [-3, 1], [1, 2.5], [2.5, 1], [True, 1], [1, True], [True, 2.5], [1.0, True],
                [[1, 2], [3, 4]], [[0.5]], [[True]], [[1], [2.5]], [[[1]]], []]
MODELLED = {1, 2, 3, 4, 5, 6, 7, 9, 10, 11, 12, 13, 16}       # dclass_of <> COther in Autocast.v
UNSIGNED = {2, 4, 12, 13}
PREF = [1, 7, 9, 6, 11, 10, 2, 3, 5, 4, 12, 13, 16, 8]

K_CACHE = "C12:builder-cache:negative-zero-shares-positive-zero-initializer"
K_NEG_UNSIGNED = "C12:negative-int-literal-beside-unsigned-tensor:numpy-overflowerror-vs-castlike-wraparound"
K_BUILDER_LIST = "C12:builder-refuses-list-literal-outside-cached-path:initializer-must-have-a-name:"     # + mixed-list | nested-list
K_LIST_DEFAULT = "C12:list-literal-without-sibling:numpy-inferred-dtype-vs-first-element-dtype:"          # + mixed-list | nested-list

_STATE = {}


# --------------------------------------------------------------------------------------------- translators

_OLD_KEYS = ["(value, dtype)", "(tuple(value), dtype)"]
_NEW_KEYS = ["(value, dtype, _float_signs(value))", "(tuple(value), dtype, _float_signs(value))"]
_NEW_HELPER = ("if isinstance(value, (list, tuple)):\n    return tuple((_float_signs(v) for v in value))\n"
               "if isinstance(value, float):\n    return math.copysign(1.0, value) < 0.0\nreturn None")


def translate_cache_key(path):
    """builder.py -> 'eq' (key compared with Python ==) | 'signed' (sign-aware key).  Fail-closed."""
    tree = ast.parse(open(path).read())
    fn = [n for n in ast.walk(tree) if isinstance(n, ast.FunctionDef) and n.name == "_get_or_create_constant"]
    if len(fn) != 1:
        raise REG.TranslationError("_get_or_create_constant not found exactly once")
    keys = [ast.unparse(n.value) for n in ast.walk(fn[0]) if isinstance(n, ast.Assign)
            and len(n.targets) == 1 and isinstance(n.targets[0], ast.Name) and n.targets[0].id == "cache_key"]
    uses = [ast.unparse(n) for n in ast.walk(fn[0]) if isinstance(n, ast.Subscript) and "_constant_cache" in ast.unparse(n.value)]
    if sorted(set(uses)) != ["root._constant_cache[cache_key]"]:
        raise REG.TranslationError(f"unexpected uses of the constant cache: {sorted(set(uses))}")
    resolves = [ast.unparse(n) for n in ast.walk(fn[0]) if isinstance(n, ast.If) and ast.unparse(n.test) == "dtype is None"]
    want_res = ["if dtype is None:\n    dtype = _PYTHON_TYPE_TO_DTYPE.get(type(value))",
                "if dtype is None:\n    dtype = _PYTHON_TYPE_TO_DTYPE.get(type(value[0]))"]
    if resolves != want_res:
        raise REG.TranslationError(f"unexpected dtype resolution: {resolves}")
    table = [ast.unparse(n.value) for n in tree.body if isinstance(n, ast.AnnAssign)
             and isinstance(n.target, ast.Name) and n.target.id == "_PYTHON_TYPE_TO_DTYPE"]
    if table != ["{int: ir.DataType.INT64, float: ir.DataType.FLOAT}"]:
        raise REG.TranslationError(f"unexpected _PYTHON_TYPE_TO_DTYPE: {table}")
    if keys == _OLD_KEYS:
        return "eq"
    if keys == _NEW_KEYS:
        helper = [n for n in tree.body if isinstance(n, ast.FunctionDef) and n.name == "_float_signs"]
        if len(helper) != 1:
            raise REG.TranslationError("_float_signs not found")
        body = [b for b in helper[0].body if not (isinstance(b, ast.Expr) and isinstance(b.value, ast.Constant))]
        if "\n".join(ast.unparse(b) for b in body) != _NEW_HELPER:
            raise REG.TranslationError("unrecognised _float_signs body")
        return "signed"
    raise REG.TranslationError(f"unrecognised cache key expressions {keys}")


def regenerate(ctx):
    try:
        reg = REG.collect()
        ctx.gen("Schemas", REG.to_coq(reg))
        _STATE["reg"] = reg
    except REG.TranslationError as e:
        ctx.tie_broken("translator", "onnx.defs -> Gen/Schemas.v", str(e))
        _STATE["reg"] = None
    try:
        kind = translate_cache_key(os.path.join(common.REPO, "onnxscript/_internal/builder.py"))
    except (REG.TranslationError, SyntaxError, OSError) as e:
        _STATE["cache_translation_error"] = str(e)
        kind = None
    _STATE["cache_key"] = kind
    # when the key is not recognised the model keeps the proven key; the replay below then looks for a failing history
    eqname = {"eq": "py_eq", "signed": "key_eq_signed", None: "key_eq_signed"}[kind]
    regenerate_decisions(ctx)
    regenerate_operators(ctx)
    ctx.gen("CacheKey", "(* GENERATED by harness/c12.py from onnxscript/_internal/builder.py (_get_or_create_constant) -- do not edit. *)\n"
                        "Require Import OV.Autocast.Autocast.\n"
                        f"Definition current_key_eq : scalar -> scalar -> bool := {eqname}.\n"
                        f"Definition current_key_signed : bool := {'true' if kind != 'eq' else 'false'}.\n")


# the operator table Props/C12_operators.v is about when converter.py / tensor.py cannot be read (the broken translator tie is
# reported after the correspondence run had its chance to find a failing input)
_EXPECTED_SPELLINGS = [("Add", "Add"), ("BitAnd", "And"), ("BitOr", "Or"), ("Div", "Div"), ("Eq", "Equal"), ("Gt", "Greater"),
                       ("GtE", "GreaterOrEqual"), ("Lt", "Less"), ("LtE", "LessOrEqual"), ("MatMult", "MatMul"), ("Mod", "Mod"),
                       ("Mult", "Mul"), ("NotEq", "Equal"), ("Pow", "Pow"), ("Sub", "Sub")]


def regenerate_operators(ctx):
    R = common.REPO
    errors = []
    try:
        rows = OPS.translate_converter(os.path.join(R, "onnxscript/_internal/converter.py"))
    except (REG.TranslationError, SyntaxError, OSError, Exception) as e:  # noqa: BLE001
        errors.append(("onnxscript/_internal/converter.py (operator spellings)", f"{type(e).__name__}: {e}"))
        rows = [dict(py=py, sym=OPS.SYMBOL[py], kind="compare" if py in OPS.COMPARES else "binary", name=em, cast=em, emit=em,
                     post="Not" if py == "NotEq" else None, operands_cast=True, order="LR") for py, em in _EXPECTED_SPELLINGS]
    try:
        methods = OPS.translate_tensor(os.path.join(R, "onnxscript/tensor.py"))
    except (REG.TranslationError, SyntaxError, OSError, Exception) as e:  # noqa: BLE001
        errors.append(("onnxscript/tensor.py (operator methods)", f"{type(e).__name__}: {e}"))
        methods = {}
    ctx.gen("C12Operators", OPS.to_coq(rows, methods))
    # the boolean the theorem C12_operator_spelling_is_op is computed from, evaluated here as well: when it fails the
    # proof is expected to fail and the correspondence run goes on to look for the input on which it shows
    import onnx.defs

    def has_schema(name, v):
        try:
            onnx.defs.get_schema(name, v, "")
            return True
        except onnx.defs.SchemaError:
            return False
    differ = []
    for r in rows:
        if r["kind"] in ("binary", "compare"):
            if not r["operands_cast"] or r["cast"] != r["emit"] or not all(has_schema(r["emit"], v) for v in REG.OPSETS):
                differ.append(f"`{r['sym']}`: cast-like step by the signature of {r['cast']!r}, node {r['emit']!r}, operands cast: {r['operands_cast']}")
    _STATE.update(op_rows=rows, op_methods=methods, op_errors=errors, op_differ=differ)


_EXPECTED = dict(
    static=dict(key="KeyConstraintName", index_branch=True, variadic_branch=True, raise_otherwise=True, hetero_none=True, tail_binds=True,
                paren_guard=True, first_wins=False, bind="BindInfoNotNone", info="InfoNonCastableValue", cast="CastLikeIfBound",
                none_passes=True, cast_by_lookup=True),
    eager=dict(key="KeyConstraintName", index_branch=True, variadic_branch=True, raise_otherwise=True, hetero_none=True, tail_binds=True,
               paren_guard=True, first_wins=False, bind="BindInfoNotNone", info="InfoTensorDtype", cast="CreateAtBound",
               none_passes=True, cast_by_lookup=True),
    builder=dict(key="KeyTypeStr", index_branch=True, variadic_branch=True, raise_otherwise=True, hetero_none=True, tail_binds=True,
                 paren_guard=True, first_wins=True, bind="BindIsValue", info="InfoValueItself", cast="CreateIfKnownElseCastLike",
                 none_passes=True, cast_by_lookup=True))


def probe_variant():
    """which variant of the creation code the implementation is in, observed on the real code"""
    import numpy as np
    import onnx_ir as ir
    from onnxscript._internal import autocast
    from onnxscript._internal import builder as B
    try:
        t = autocast.cast_pyvalue_to_os_tensor(-3, np.uint8)
        eager_wrap = int(np.asarray(t.value)) == 253
    except OverflowError:
        eager_wrap = False

    def fresh():
        g = ir.Graph([], [], nodes=[], opset_imports={"": 18}, name="g")
        gb = B.GraphBuilder(g)
        gb._infer_shapes = lambda node: None
        x = ir.Value(name="x", type=ir.TensorType(ir.DataType.UINT8), shape=ir.Shape([2]))
        g.inputs.append(x)
        return gb, x
    gb, x = fresh()
    try:
        v = gb.op.Add(x, -3).producer().inputs[1]
        builder_wrap = v.const_value is not None and int(v.const_value.numpy()) == 253
    except OverflowError:
        builder_wrap = False
    gb, x = fresh()
    try:
        v = gb.op.Add(x, [1, 2.5]).producer().inputs[1]
        builder_named = v is not None and bool(v.name)
    except ValueError:
        builder_named = False
    return eager_wrap, builder_wrap, builder_named


def regenerate_decisions(ctx):
    R = common.REPO
    tables, errors = {}, []
    src_flags = dict(eager_wrap=None, builder_wrap=None, builder_named=None)
    try:
        st, eg, ew = DEC.translate_autocast(os.path.join(R, "onnxscript/_internal/autocast.py"))
        tables["static"], tables["eager"], src_flags["eager_wrap"] = st, eg, ew
    except (REG.TranslationError, SyntaxError, OSError) as e:
        errors.append(("onnxscript/_internal/autocast.py", str(e)))
    try:
        tables["builder"] = DEC.translate_builder(os.path.join(R, "onnxscript/_internal/tape_builder.py"))
    except (REG.TranslationError, SyntaxError, OSError) as e:
        errors.append(("onnxscript/_internal/tape_builder.py", str(e)))
    try:
        src_flags["builder_wrap"], src_flags["builder_named"] = DEC.translate_builder_creation(os.path.join(R, "onnxscript/_internal/builder.py"))
    except (REG.TranslationError, SyntaxError, OSError) as e:
        errors.append(("onnxscript/_internal/builder.py:_get_or_create_constant(creation)", str(e)))
    try:
        inv, unmodelled, missing = DEC.cache_inventory(R)
    except (SyntaxError, OSError) as e:
        inv, unmodelled, missing = [], [("?", "?", str(e))], []
    try:
        variant = probe_variant()
    except Exception as e:  # noqa: BLE001
        errors.append(("variant probe", f"{type(e).__name__}: {e}"))
        variant = (False, False, False)
    # an unreadable function keeps the table the theorems are about (the broken translator tie is reported in run(),
    # where the correspondence run then looks for a failing input); a readable one is written as read
    full = {k: tables.get(k, _EXPECTED[k]) for k in ("static", "eager", "builder")}
    differ = {k: {f: (v, _EXPECTED[k][f]) for f, v in full[k].items() if v != _EXPECTED[k][f]} for k in full}
    differ = {k: v for k, v in differ.items() if v}
    probe = dict(eager_wrap=variant[0], builder_wrap=variant[1], builder_named=variant[2])
    ctx.gen("C12Decisions", DEC.to_coq(full["static"], full["eager"], full["builder"],
                                       bool(src_flags["eager_wrap"]), bool(src_flags["builder_wrap"]), bool(src_flags["builder_named"]), inv))
    ctx.gen("C12Variant", "(* GENERATED by harness/c12.py: the variant of the creation code observed on the real implementation -- do not edit. *)\n"
                          "Require Import OV.Autocast.Autocast.\n"
                          f"Definition current : variant := mkV {'true' if variant[0] else 'false'} {'true' if variant[1] else 'false'} "
                          f"{'true' if variant[2] else 'false'}.\n")
    _STATE.update(dec_errors=errors, dec_differ=differ, dec_tables=full, variant=probe, src_flags=src_flags,
                  cache_inventory=inv, cache_unmodelled=unmodelled, cache_missing=missing)


# --------------------------------------------------------------------------------------------- case generation

def _hetero(f):
    return f["opt"] == "OVariadic" and not f["homog"]


def _pick(codes):
    for c in PREF:
        if c in codes:
            return c
    return codes[0]


def _shape(r, fi, variant, cfg):
    """-> list of entries ("F", j) tensor/opaque operand of formal j | ("L",) | ("N",), and the literal's index"""
    F = r["formals"]
    ent = []
    for j, f in enumerate(F):
        if j < fi:
            ent.append(("N",) if (cfg == "min" and f["opt"] == "OOptional") else ("F", j))
        elif j == fi:
            if variant == "single":
                ent.append(("L",))
            elif variant == "var-first":
                ent += [("L",), ("F", j)]
            elif variant == "var-tail":
                ent += [("F", j), ("L",)]
            else:
                ent += [("F", j), ("L",), ("F", j)]
        else:
            if f["opt"] == "OVariadic":
                if cfg == "full":
                    ent.append(("F", j))
            elif f["opt"] == "OOptional" and cfg == "min":
                ent.append(("N",))
            else:
                ent.append(("F", j))
    while ent and ent[-1] == ("N",):
        ent.pop()
    return ent, ent.index(("L",))


def groups(reg):
    out = []
    for si, r in enumerate(reg):
        F = r["formals"]
        for fi, f in enumerate(F):
            if not f["codes"]:
                continue
            if f["opt"] == "OVariadic":
                variants = ["var-first", "var-tail"] + (["var-mid"] if f["homog"] else [])
            else:
                variants = ["single"]
            for variant in variants:
                seen = []
                for cfg in ("full", "min"):
                    ent, pos = _shape(r, fi, variant, cfg)
                    if ent in seen:
                        continue
                    seen.append(ent)
                    sharing = [k for k, e in enumerate(ent) if e[0] == "F" and f["is_var"] and not _hetero(f)
                               and F[e[1]]["tstr"] == f["tstr"] and not _hetero(F[e[1]]) and F[e[1]]["codes"]]
                    out.append(dict(si=si, fi=fi, variant=variant, cfg=cfg, ent=ent, pos=pos, sharing=sharing,
                                    dtypes=list(f["codes"]) if sharing else [None]))
    return out


def concretize(reg, g, lit, d, known_flags=None):
    r = reg[g["si"]]
    F = r["formals"]
    args = []
    for k, e in enumerate(g["ent"]):
        if e[0] == "L":
            args.append(("L", lit))
        elif e[0] == "N":
            args.append(("N",))
        else:
            f = F[e[1]]
            if not f["codes"]:
                args.append(("O",))
            elif k in g["sharing"]:
                args.append(("T", d, True if known_flags is None else known_flags[g["sharing"].index(k)]))
            else:
                args.append(("T", _pick(f["codes"]), True))
    return dict(schema=r, si=g["si"], args=args, pos=g["pos"], lit=lit, d=d, group=g)


def make_cases(ctx, reg):
    rng = ctx.rng
    cases = []
    gs = groups(reg)
    for g in gs:
        combos = [(l, d) for l in LITERALS for d in g["dtypes"]]
        if ctx.tier == "quick":
            k = max(1, math.ceil(0.2 * len(combos)))
            combos = rng.sample(combos, k)
        ext = [(l, d) for l in EXT_LITERALS for d in g["dtypes"]]
        n_ext = (1 if rng.random() < 0.5 else 0) if ctx.tier == "quick" else max(2, len(ext) // 8)
        combos = combos + rng.sample(ext, min(n_ext, len(ext)))
        for lit, d in combos:
            flags = None
            if g["sharing"] and rng.random() < 0.25:
                flags = [rng.random() < 0.5 for _ in g["sharing"]]
                if all(flags):
                    flags[rng.randrange(len(flags))] = False
            c = concretize(reg, g, lit, d, flags)
            # the same operand passed by keyword (an input named like an attribute would be: Clip(x, min=0))
            if g["variant"] == "single" and rng.random() < 0.12 and _kw_able(c):
                c["kw_from"] = c["pos"]
            cases.append(c)
    return gs, cases


def _kw_able(c):
    import keyword
    F = c["schema"]["formals"]
    attrs = {n for n, _ in c["schema"]["required"]}
    if len(c["args"]) > len(F) or any(f["opt"] == "OVariadic" for f in F):
        return False                       # generated opset methods take *variadic: the fixed formals before it are positional-only in effect
    for j in range(c["pos"], len(c["args"])):
        nm = F[j]["name"]
        if F[j]["opt"] == "OVariadic" or not nm.isidentifier() or keyword.iskeyword(nm) or nm in attrs or c["args"][j][0] == "O":
            return False
    return True


def operator_cases(ctx, reg):
    """the same promotion reached through Python OPERATOR syntax, for every spelling of the table read from converter.py
    (+ - * / % ** @ & | == != < <= > >=), with the literal on either side: `a0 != 2.5` / `2.5 != a0` as source text of a
    script function, the same expression on an eager Tensor (Python's data model picks the method: reflected for
    arithmetic, mirrored for comparisons; absent when tensor.py has none, e.g. `5 % x`), and -- the builder has no
    operator syntax -- the mapped operator called on the builder.  `-3`, `-0.0` in source text ARE unary minus applied
    to a constant (folded by _translate_unary_op_expr)."""
    import onnx.defs
    idx = {(r["name"], r["since"]): i for i, r in enumerate(reg)}
    rows = [r for r in (_STATE.get("op_rows") or []) if r["kind"] in ("binary", "compare")]
    methods = _STATE.get("op_methods") or {}
    res = []
    for row in rows:
        for side in ("TL", "LT"):
            route = OPS.eager_route(row["py"], side, methods)
            opsets = [18] + ([ctx.rng.choice([13, 14, 15, 16, 17, 19, 20, 21, 22, 23])] if ctx.tier == "quick" else [13, 23, ctx.rng.choice([14, 15, 16, 17, 19, 20, 21, 22])])
            for opset in opsets:
                try:
                    since = onnx.defs.get_schema(row["emit"], opset, "").since_version
                except onnx.defs.SchemaError:
                    continue
                si = idx.get((row["emit"], since))
                if si is None or len(reg[si]["formals"]) != 2:
                    continue
                F = reg[si]["formals"]
                tpos, lpos = (0, 1) if side == "TL" else (1, 0)
                codes = F[tpos]["codes"]
                shares = F[0]["tstr"] == F[1]["tstr"] and F[0]["is_var"]
                for lit in LITERALS:
                    if ctx.tier == "thorough":
                        ds = codes
                    else:
                        # always a sibling whose type is not the literal's default (DOUBLE, INT32, FLOAT16), then random ones
                        fixed = [c for c in (11, 6, 10) if c in codes][:2]
                        rest = [c for c in codes if c not in fixed]
                        ds = fixed + ctx.rng.sample(rest, min(len(rest), 3 - len(fixed)))
                    for d in ds:
                        args = [None, None]
                        args[tpos], args[lpos] = ("T", d, True), ("L", lit)
                        res.append(dict(schema=reg[si], si=si, args=args, pos=lpos, lit=lit, d=d if shares else None, group=None,
                                        syntax=row["sym"], opset=opset, post=row["post"], eager_route=route, side=side))
    return res


def lookup_history_cases(ctx, reg):
    """schema-LOOKUP histories: an operator is looked up first at an opset that predates it (no schema: the converter and
    eager mode refuse, the builder makes a node without promotion), then at an opset where it exists -- with a literal
    beside a sibling whose type is not the literal's default.  Every front end keeps state between the two steps
    (values.Opset.cache, per-Op signature memo, module globals): the second step must promote as if it were the first."""
    import onnx.defs
    rng = ctx.rng
    names = sorted({r["name"] for r in reg})
    late = []
    for n in names:
        try:
            onnx.defs.get_schema(n, 13, "")
        except onnx.defs.SchemaError:
            late.append(n)
    by_si = {}
    for g in groups(reg):
        by_si.setdefault(g["si"], []).append(g)
    res = []
    for n in late:
        sis = [i for i, r in enumerate(reg) if r["name"] == n]
        first = min(reg[i]["since"] for i in sis)
        for si in sis:
            gs = [g for g in by_si.get(si, []) if g["sharing"] and g["variant"] in ("single", "var-tail")] or by_si.get(si, [])
            if not gs:
                continue
            g = gs[0] if ctx.tier == "quick" else rng.choice(gs)
            valid = [v for v in REG.OPSETS if _since(n, v) == reg[si]["since"]]
            if not valid:
                continue
            for lit in ([1, 2.5] if ctx.tier == "quick" else [1, 2.5, True, [1, 2]]):
                ds = [d for d in g["dtypes"] if d is not None and d != {int: 7, float: 1, bool: 9}[type(flatten(lit)[0])]]
                d = ([x for x in (6, 11, 10, 2) if x in ds] or ds or g["dtypes"])[0]
                early = sorted({13, first - 1})
                hist = {"quick": [early[-1:]], "thorough": [early[-1:], early, early + [valid[-1]] + early[-1:]]}[ctx.tier]
                for h in hist:
                    c = concretize(reg, g, lit, d)
                    c.update(opset=valid[0] if len(h) < 3 else valid[-1], history=list(h), group=None, stream="lookup-history")
                    res.append(c)
    return res


def _since(name, v):
    import onnx.defs
    try:
        return onnx.defs.get_schema(name, v, "").since_version
    except onnx.defs.SchemaError:
        return None


def corpus_cases(reg):
    """minimised past failures / delicate points, always run first (corpus/C12/promote.json)"""
    path = os.path.join(common.VERIF, "corpus", "C12", "promote.json")
    if not os.path.exists(path):
        return []
    idx = {(r["name"], r["since"]): i for i, r in enumerate(reg)}
    res = []
    for c in json.load(open(path)):
        si = idx.get((c["op"], c["since"]))
        if si is None:
            continue
        args = [tuple(a) for a in c["args"]]
        pos = [i for i, a in enumerate(args) if a[0] == "L"][0]
        res.append(dict(schema=reg[si], si=si, args=args, pos=pos, lit=args[pos][1], d=c.get("d"), group=None))
    return res


# --------------------------------------------------------------------------------------------- Coq printers

def c_n(n):
    return f"{int(n)}%N"


def c_scalar(x):
    if isinstance(x, bool):
        return f"(SBool {'true' if x else 'false'})"
    if isinstance(x, int):
        return f"(SInt {common.cz(x)})"
    num, den = abs(x).as_integer_ratio()
    return f"(SFloat {'true' if math.copysign(1.0, x) < 0 else 'false'} {c_n(num)} {c_n(den.bit_length() - 1)})"


def flatten(l):
    if isinstance(l, list):
        return [x for v in l for x in flatten(v)]
    return [l]


def depth(l):
    return 1 + depth(l[0]) if isinstance(l, list) and l else (1 if isinstance(l, list) else 0)


def c_literal(l):
    if isinstance(l, list):
        fl = flatten(l)
        ctor = "LNested" if depth(l) >= 2 else "LList"
        return f"({ctor} {c_scalar(fl[0])} {common.clist([c_scalar(v) for v in fl[1:]])})"
    return f"(LScalar {c_scalar(l)})"


def lit_class(l):
    """scalar | flat-list (one Python type) | mixed-list | nested-list | empty-list"""
    if not isinstance(l, list):
        return "scalar"
    if not flatten(l):
        return "empty-list"
    if depth(l) >= 2:
        return "nested-list"
    return "flat-list" if len({type(v) for v in l}) == 1 else "mixed-list"


def c_arg(a):
    if a[0] == "T":
        return f"(ATensor {c_n(a[1])} {'true' if a[2] else 'false'})"
    if a[0] == "L":
        return f"(ALit {c_literal(a[1])})"
    if a[0] == "N":
        return "ANone"
    return "(ATensor 0%N false)"


def c_value(e, code):
    """canonical element -> Coq value for a modelled dtype, or None when it does not fit the model"""
    if code == 9:
        return f"(VB {'true' if e[1] else 'false'})" if e[0] == "b" else None
    if code in (1, 10, 11, 16):
        return f"(VF {'true' if e[1] else 'false'} {c_n(e[2])} {c_n(e[3])})" if e[0] == "f" else None
    return f"(VI {common.cz(e[1])})" if e[0] == "i" else None


def c_obs(o):
    if o[0] == "ABSENT":
        return "(ObsErr Unmodelled)"          # this front end has no such spelling: its bits of the case code are masked out
    if o[0] == "ERR":
        return "(ObsErr Overflow)" if o[1] == "OverflowError" else "(ObsErr MixedList)"
    _, code, _rank, elems = o
    if code in MODELLED:
        vs = [c_value(e, code) for e in elems]
        if all(v is not None for v in vs):
            return f"(ObsT {c_n(code)} (Some {common.clist(vs)}))"
    return f"(ObsT {c_n(code)} None)"


def c_case(c, obs):
    return (f"(mkC {common.cnat(c['si'])} {common.clist([c_arg(a) for a in c['args']])} {common.cnat(c['pos'])} "
            f"{c_obs(obs[0])} {c_obs(obs[1])} {c_obs(obs[2])})")


# --------------------------------------------------------------------------------------------- direct oracle

def lit_kind(l):
    fl = flatten(l)
    h = fl[0] if fl else None
    if h is None:
        return "none"
    return "bool" if isinstance(h, bool) else ("int" if isinstance(h, int) else "float")


def has_negative_int(l):
    xs = flatten(l)
    return any(isinstance(v, int) and not isinstance(v, bool) and v < 0 for v in xs)


def describe(c):
    r = c["schema"]
    d = dict(op=f"{r['name']}-{r['since']} (opset {c.get('opset', r['use'])})", args=[list(a) for a in c["args"]], pos=c["pos"])
    if c.get("syntax"):
        d["syntax"] = c["syntax"]
        d["source"] = " ".join([("a" if a[0] == "T" else repr(a[1])) if i != 1 else c["syntax"] + " " + ("a" if a[0] == "T" else repr(a[1]))
                                for i, a in enumerate(c["args"])])
        d["opset"] = c.get("opset")
    if c.get("kw_from") is not None:
        d["kw_from"] = c["kw_from"]
    if c.get("history"):
        d["history"] = [f"the same call at opset {v}" for v in c["history"]] + [f"then at opset {c['opset']}"]
        d["history_opsets"] = list(c["history"])
        d["opset"] = c["opset"]
    return d


def _same_err_or_obs(a, b):
    return a[:2] == b[:2] if a[0] == "ERR" and b[0] == "ERR" else a == b


def direct_oracle(ctx, c, obs, stats):
    """the property itself on the real code: the three operands agree (element type, rank, values).
    Returns True when the property holds on this case."""
    names = ("converter", "eager", "builder")
    lit, d = c["lit"], c["d"]
    cls = lit_class(lit)
    rep = dict(describe(c), converter=obs[0], eager=obs[1], builder=obs[2])
    if obs[1][0] == "ABSENT":
        # the spelling does not exist on the eager Tensor (e.g. `5 % x`: no __rmod__): two front ends to compare
        stats["eager_absent"] = stats.get("eager_absent", 0) + 1
        obs = (obs[0], obs[0], obs[2])
    errs = [o[0] == "ERR" for o in obs]
    ok = True
    if cls == "empty-list":
        # no Python type to go by: the converter and eager mode refuse / do not promote it by design; only require
        # that the front ends that DO make a tensor of it agree
        stats["empty_list"] += 1
    elif any(errs):
        if all(errs):
            stats["all_refuse"] += 1
            # a call every front end refuses is not a promotion; nothing to compare
            return True
        overflow = [o[0] == "ERR" and o[1] == "OverflowError" for o in obs]
        if has_negative_int(lit) and d in UNSIGNED and all(e == ov for e, ov in zip(errs, overflow)):
            stats["neg_unsigned"] += 1
            ctx.violation(K_NEG_UNSIGNED,
                          f"{lit!r} beside a {dtname(d)} tensor: " + ", ".join(f"{n}={'OverflowError' if e else o[3]}" for n, e, o in zip(names, errs, obs)),
                          rep)
            return False
        if errs == [False, False, True] and obs[2][1] == "ValueError" and "Initializer must have a name" in obs[2][2] \
                and cls in ("mixed-list", "nested-list"):
            stats["builder_list_refused"] += 1
            ctx.violation(K_BUILDER_LIST + cls,
                          f"{describe(c)['op']} literal {lit!r}: the graph builder raises ValueError(Initializer must have a name) "
                          f"while converter and eager mode promote it", rep)
            ok = False          # and go on: converter and eager are still compared with each other
        else:
            who = "+".join(n for n, e in zip(names, errs) if e)
            exc = "+".join(sorted({o[1] for o in obs if o[0] == "ERR"}))
            ctx.violation(f"C12:refusal-mismatch:{who}:{exc}:{lit_shape(lit)}:{dclass_name(d)}",
                          f"{describe(c)['op']} literal {lit!r}: {who} raise(s) {exc} while the other front end(s) produce a tensor", rep)
            return False
    live = [(n, o) for n, o in zip(names, obs) if o[0] != "ERR"]
    if len(live) < 2:
        return ok
    codes = [o[1] for _, o in live]
    if len(set(codes)) != 1:
        if cls in ("mixed-list", "nested-list") and d is None:
            stats["list_default_dtype"] += 1
            ctx.violation(K_LIST_DEFAULT + cls,
                          f"{describe(c)['op']} literal {lit!r} (no sibling): element types "
                          f"{[(n, dtname(o[1]), o[3]) for n, o in live]}", rep)
            return False
        ctx.violation(f"C12:dtype-mismatch:{lit_shape(lit)}:{dclass_name(d)}:{odd_one([o[1] if o[0] != 'ERR' else None for o in obs])}",
                      f"{describe(c)['op']} literal {lit!r} at position {c['pos']}: element types {[(n, dtname(x)) for (n, _), x in zip(live, codes)]}", rep)
        return False
    ranks = [o[2] for _, o in live]
    want_rank = depth(lit)
    if ranks != [want_rank] * len(live):
        ctx.violation(f"C12:rank-mismatch:{lit_shape(lit)}:{odd_one([o[2] if o[0] != 'ERR' else None for o in obs])}",
                      f"{describe(c)['op']} literal {lit!r}: ranks {ranks}, expected {want_rank}", rep)
        return False
    if codes[0] == FE.STRING:
        stats["string_value_skipped"] += 1
        return ok
    vals = [o[3] for _, o in live]
    if any(v != vals[0] for v in vals):
        ctx.violation(f"C12:value-mismatch:{lit_shape(lit)}:{dclass_name(codes[0])}:{odd_one([o[3] if o[0] != 'ERR' else None for o in obs])}",
                      f"{describe(c)['op']} literal {lit!r} as {dtname(codes[0])}: values {[(n, v) for (n, _), v in zip(live, vals)]}", rep)
        return False
    return ok


def dclass_name(code):
    if code is None:
        return "no-sibling"
    if code in (2, 3, 4, 5, 6, 7, 12, 13, 21, 22):
        return "sibling-unsigned-int" if code in (2, 4, 12, 13, 21) else "sibling-signed-int"
    if code == 9:
        return "sibling-bool"
    if code == 8:
        return "sibling-string"
    if code in (14, 15):
        return "sibling-complex"
    return "sibling-float"


def odd_one(xs):
    """which of converter/eager/builder deviates from the other two"""
    names = ("converter", "eager", "builder")
    for i in range(3):
        rest = [xs[j] for j in range(3) if j != i]
        if rest[0] == rest[1] and xs[i] != rest[0]:
            return names[i] + "-deviates"
    return "all-differ"


def lit_shape(l):
    cls = lit_class(l)
    if cls in ("mixed-list", "nested-list", "empty-list"):
        return cls + "-literal"
    return lit_kind(l) + ("-list" if isinstance(l, list) else "") + "-literal"


def dtname(code):
    import onnx_ir as ir
    return "none" if code is None else ir.DataType(code).name


# --------------------------------------------------------------------------------------------- cache

CACHE_LITS = [0, 1, -3, 2.5, -0.0, True, [1, 2], [0.5], 0.0, 1.0, False, [0.0], [-0.0], [0], [1.0, 2.0], [True], -1, 3, [1],
              2, -2.5, [2.5], [-0.0, 1.0], [0.0, 1.0], [0, 1], [1, True], [True, 1], [1, 2.5], [[1, 2]], [1, 1], [1.0, 1]]
CACHE_DTYPES = [None, 1, 7, 11, 6, 10, 9, 2]
CORPUS_HISTORIES = [
    [(0.0, 1), (-0.0, 1)], [(-0.0, 1), (0.0, 1)], [(0, 1), (-0.0, 1)], [([0.0], 1), ([-0.0], 1)],
    [(0.0, 11), (-0.0, 11), (0, 11)], [(1, 1), (1.0, 1), (True, 1)], [(True, None), (1, None), (1.0, None)],
    [(1, 7), (1, None), (True, 7), (1.0, 7)], [(-3, 2), (3, 2), (3, None)], [([1, 2], None), ([1, 2], 7), ([1, 2], 1), ([1.0, 2.0], 1)],
    [(0.0, 1), (0.0, 10), (-0.0, 10), (-0.0, 1)], [(2.5, 7), (2, 7), (2.5, None)],
]


def run_history(hist, oracle):
    """replay a history on ONE GraphBuilder -> per request (owner index | None when it raised, observation)"""
    import onnx_ir as ir
    from onnxscript._internal import builder as B
    g = ir.Graph([], [], nodes=[], opset_imports={"": 18}, name="g")
    gb = B.GraphBuilder(g)
    gb._infer_shapes = lambda node: None
    xs = {}
    for d in CACHE_DTYPES:
        if d is not None:
            xs[d] = ir.Value(name=f"x{d}", type=ir.TensorType(ir.DataType(d)), shape=ir.Shape([2]))
            g.inputs.append(xs[d])
    owners, first_seen = [], {}
    for i, (lit, d) in enumerate(hist):
        try:
            out = gb.op.Identity(lit) if d is None else gb.op.Add(xs[d], lit)
        except Exception as e:  # noqa: BLE001
            owners.append((None, FE.obs_of_exc(e)))
            continue
        node = out.producer()
        v = node.inputs[0 if d is None else 1]
        if v.const_value is None or v.producer() is not None:
            owners.append((None, ("ERR", "UnexpectedChain", str(v))))
            continue
        first_seen.setdefault(id(v), i)
        owners.append((first_seen[id(v)], FE.obs_of_ir_tensor(v.const_value)))
    return owners


def fresh_obs(lit, d, memo):
    key = (repr(lit), d)
    if key not in memo:
        memo[key] = run_history([(lit, d)], None)[0][1]
    return memo[key]


def c_history(h):
    return common.clist([f"({c_literal(l)}, {common.copt(d, c_n)})" for l, d in h])


def check_cache(ctx):
    rng = ctx.rng
    hists = [list(h) for h in CORPUS_HISTORIES]
    path = os.path.join(common.VERIF, "corpus", "C12", "cache_histories.json")
    if os.path.exists(path):
        for h in json.load(open(path)):
            hists.append([(l, d) for l, d in h])
    n_rand = 120 if ctx.tier == "quick" else 1500
    for _ in range(n_rand):
        # biased towards collisions: few dtypes, literals that are == but not identical
        dts = rng.sample(CACHE_DTYPES, rng.choice([1, 2, 3]))
        pool = rng.sample(CACHE_LITS, rng.choice([3, 5, 8]))
        hists.append([(rng.choice(pool), rng.choice(dts)) for _ in range(rng.randrange(3, 14))])
    memo = {}
    traces = []
    conflations = 0
    shared = 0
    for hi, h in enumerate(hists):
        tr = run_history(h, None)
        traces.append(tr)
        for i, ((lit, d), (owner, obs)) in enumerate(zip(h, tr)):
            ctx.case(("cache", lit_kind(lit), isinstance(lit, list), dtname(d), owner is not None and owner != i))
            if owner is not None and owner != i:
                shared += 1
            want = fresh_obs(lit, d, memo)
            if not _same_err_or_obs(obs, want):
                conflations += 1
                olit, od = h[owner] if owner is not None else (None, None)
                # the class of the known finding: the two tensors differ only in the sign of zero elements
                zero = obs[0] == "T" and want[0] == "T" and obs[1:3] == want[1:3] \
                    and _unsigned_vals(obs[3]) == _unsigned_vals(want[3])
                key = K_CACHE if zero else f"C12:builder-cache:conflation:{lit_shape(lit)}-after-{lit_shape(olit) if olit is not None else 'none'}:{dclass_name(d)}"
                ctx.violation(key, f"GraphBuilder: request {lit!r} as {dtname(d)} after {h[:i]!r} returned the initializer created for {olit!r}: {obs} instead of {want}",
                              dict(history=[[l, d] for l, d in h], index=i, returned=obs, expected=want))
    ctx.sample({"cache_history": [[repr(l), dtname(d)] for l, d in hists[0]], "owners": [o for o, _ in traces[0]]})
    # correspondence with the cache model under the key the translator read from builder.py
    bodies, spans = [], []
    for k in range(0, len(hists), 150):
        chunk = hists[k:k + 150]
        bodies.append("Definition hs : list (list (literal * option dtype)) := " + common.clist([c_history(h) for h in chunk]) + ".\n"
                      "Eval vm_compute in (map (cache_trace (v_builder_wrap OV.Gen.C12Variant.current) (v_builder_named OV.Gen.C12Variant.current) "
                      "current_key_eq [] [] 0) hs).")
        spans.append((k, len(chunk)))
    results = eval_shards(ctx, ["OV.Autocast.Autocast", "OV.Gen.CacheKey", "OV.Gen.C12Variant"], bodies, "c12cache")
    bad = []
    for (k, n), (ok, vals, raw) in zip(spans, results):
        if not ok or not vals:
            ctx.tie_broken("correspondence", "cache:model-evaluation", raw[-800:])
            return
        model = _parse_traces(vals[0])
        if len(model) != n:
            ctx.tie_broken("correspondence", "cache:model-evaluation", f"{len(model)} traces for {n} histories")
            return
        for j in range(n):
            real = [o for o, _ in traces[k + j]]
            if real != model[j]:
                bad.append((k + j, real, model[j]))
    ctx.cover(cache_histories=len(hists), cache_requests=sum(len(h) for h in hists), cache_shared_requests=shared,
              cache_conflations_observed=conflations, cache_key_in_source=_STATE.get("cache_key") or "unrecognised",
              cache_model_disagreements=len(bad))
    ctx.obligation("correspondence cache: which earlier request's initializer each request returns = cache_trace under the key read from builder.py",
                   not bad, json.dumps(bad[:3], default=str))
    if bad and not conflations:
        hi, real, model = bad[0]
        ctx.tie_broken("correspondence", "cache:owners", f"history {hists[hi]!r}: real owners {real}, model {model}")
    kind = _STATE.get("cache_key")
    ctx.obligation("builder.py keys the constant cache with the sign-aware key that C12_cache_never_conflates is about",
                   kind == "signed", f"translated key kind: {kind or _STATE.get('cache_translation_error')}")
    if kind is None and not conflations:
        ctx.tie_broken("translator", "builder.py:_get_or_create_constant", _STATE.get("cache_translation_error", "?"))


def _unsigned_vals(elems):
    return [("f", False) + tuple(e[2:]) if e[0] == "f" else e for e in elems]


def _parse_traces(s):
    s = re.sub(r"%\w+", "", s).strip()
    assert s.startswith("[") and s.endswith("]"), s[:200]
    out = []
    for m in re.finditer(r"\[([^\[\]]*)\]", s[1:-1]):
        row = []
        for tok in m.group(1).split(";"):
            tok = tok.strip()
            if not tok:
                continue
            row.append(None if tok == "None" else int(tok.replace("Some", "").strip()))
        out.append(row)
    return out


def eval_shards(ctx, requires, bodies, prefix, par=8):
    """ctx.coq_eval on many bodies in parallel (distinct file names; ctx.coq_eval_shards cannot be used: its
    scratch path contains a '-' that coq_eval_nolock rewrites)."""
    from concurrent.futures import ThreadPoolExecutor
    with ThreadPoolExecutor(max_workers=par) as ex:
        return list(ex.map(lambda kb: ctx.coq_eval(requires, kb[1], name=f"{prefix}{kb[0]}"), enumerate(bodies)))


# --------------------------------------------------------------------------------------------- run

def run(ctx):
    try:
        _run(ctx)
    finally:
        flush_pending_ties(ctx, False)


def _run(ctx):
    ctx.assume("float literals are exactly representable in float32 and in the target float type (true for the property's literal set "
               "0, 1, -3, 2.5, -0.0, 0.5, 2); rounding of other float literals is outside the Coq value model")
    ctx.assume("values are modelled for the integer types of 8..64 bits, BOOL, FLOAT16, BFLOAT16, FLOAT, DOUBLE; for STRING, complex, "
               "float8/float4 and 4-bit integer siblings the theorems cover the element type only (values compared three-way by the harness, "
               "not at all for STRING where the ONNX runtimes themselves disagree on number formatting)")
    ctx.assume("ONNX Cast/CastLike semantics as implemented by onnx.reference and onnxruntime (both run for the standard dtypes; integer "
               "narrowing wraps modulo 2^bits); NumPy 2 raises OverflowError for an out-of-range Python int")
    ctx.assume("Python's dict finds a key iff some stored key has the same hash and is ==; equal numbers hash equally (language guarantee)")
    ctx.assume("onnx_ir.schemas.OpSignature.from_op_schema names the type constraint of a concretely typed formal after the formal "
               "(modelled as akey_f; exercised by every correspondence case)")
    ctx.assume("the builder is observed with its post-creation shape inference switched off (onnx's C++ inference crashes the process on "
               "meaningless operand values such as SplitToSequence(x, 0)); promotion happens before the node is created")
    ctx.trust("coq/Gen/Schemas.v is printed from onnx.defs of the installed onnx by harness/c12_registry.py (fail-closed on unknown type strings)")
    t0 = time.time()
    ok = ctx.check_props()
    okb, _ = ctx.build(["Gen/CacheKey.vo", "Gen/C12Variant.vo", "Gen/C12Decisions.vo", "Gen/C12Operators.vo"])
    reg = _STATE.get("reg")
    report_decisions(ctx)
    # when the only reason for a failed proof is a decision flag that changed in the source, go on: the models and
    # the registry still build and the correspondence run below looks for the input on which the change shows
    if reg is None or not okb or (not ok and not _STATE.get("dec_differ") and not _STATE.get("op_differ")):
        return
    ctx.obligation("registry: forallb schema_okb Gen.Schemas.all = true re-proved against the regenerated registry "
                   f"({len(reg)} schemas)", True)
    t_proofs = time.time() - t0

    oracle = FE.CastOracle()
    gs, cases = make_cases(ctx, reg)
    ops = operator_cases(ctx, reg)
    hcs = lookup_history_cases(ctx, reg)
    cases = corpus_cases(reg) + hcs + ops + cases
    # ---- converter: compile generated script functions in batches
    t1 = time.time()
    fns = []
    workdir = os.path.join(ctx.scratch, "c12gen")
    for k in range(0, len(cases), 400):
        fns += FE.compile_scripts(cases[k:k + 400], workdir, f"{os.getpid()}_{k}")
    t_conv = time.time() - t1
    stats = dict(all_refuse=0, neg_unsigned=0, string_value_skipped=0, empty_list=0, builder_list_refused=0, list_default_dtype=0)
    observations = []
    n_castlike = {"converter": 0, "builder": 0}
    holds = []
    t2 = time.time()
    passthrough_bad = []
    for c, fn in zip(cases, fns):
        for v in c.get("history", []):
            # the earlier steps of a lookup history (the converter's were translated with the batch, in order)
            pre = dict(c, opset=v)
            FE.run_eager(pre)
            FE.run_builder(pre, oracle)
        oc, ok_c = FE.read_converter(c, fn, oracle)
        oe, ok_e = FE.run_eager(c)
        ob, ok_b = FE.run_builder(c, oracle)
        obs = (oc, oe, ob)
        observations.append(obs)
        for nm, okx in (("converter", ok_c), ("eager", ok_e), ("builder", ok_b)):
            if okx is False:
                passthrough_bad.append((nm, describe(c)))
        g = c["group"]
        f = c["schema"]["formals"][g["fi"]] if g else None
        ctx.case((g["variant"] if g else ("lookup-history %d" % len(c["history"]) if c.get("history") else "operator " + c["syntax"] + " " + c.get("side", "") if c.get("syntax") else "corpus"), g["cfg"] if g else "", f["opt"] if f else "", bool(f and f["is_var"]),
                  lit_kind(c["lit"]), lit_class(c["lit"]), c.get("kw_from") is not None, f["homog"] if f else None, dtname(c["d"]),
                  tuple(a[2] for a in c["args"] if a[0] == "T" and len(a) > 2 and not a[2]) != ()))
        holds.append(direct_oracle(ctx, c, obs, stats))
    t_run = time.time() - t2
    ctx.sample({"case": describe(cases[len(cases) // 2]), "observed(converter, eager, builder)": observations[len(cases) // 2]})
    ctx.sample({"case": describe(cases[0]), "observed(converter, eager, builder)": observations[0]})

    # ---- correspondence inside Coq: model of each front end, and the specification, against what was observed
    t3 = time.time()
    bodies, spans = [], []
    coq_idx = [i for i, c in enumerate(cases) if lit_class(c["lit"]) != "empty-list"]      # [] has no Gallina literal
    for k in range(0, len(coq_idx), 700):
        chunk = [(cases[i], observations[i]) for i in coq_idx[k:k + 700]]
        bodies.append("Definition cs : list ccase := " + common.clist([c_case(c, o) for c, o in chunk]) + ".\n"
                      "Eval vm_compute in (bad_cases OV.Gen.C12Variant.current OV.Gen.Schemas.all 0%N cs).")
        spans.append(k)
    results = eval_shards(ctx, ["OV.Autocast.Autocast", "OV.Gen.Schemas", "OV.Gen.C12Variant"], bodies, "c12promo")
    model_bad, spec_bad = [], []
    for k, (okc, vals, raw) in zip(spans, results):
        if not okc or not vals:
            ctx.tie_broken("correspondence", "promotion:model-evaluation", raw[-800:])
            return
        for m in re.finditer(r"\((\d+)(?:%N)?,\s*(\d+)(?:%N)?\)", vals[0]):
            i, code = coq_idx[k + int(m.group(1))], int(m.group(2))
            for fe, bits in enumerate((1 | 8, 2 | 16, 4 | 32)):
                if observations[i][fe][0] == "ABSENT":
                    code &= ~bits
            if code & 7 or code & 64:
                model_bad.append((i, code))
            if code & 56:
                spec_bad.append((i, code))
    t_coq = time.time() - t3
    names = ("converter", "eager", "builder")
    for i, code in spec_bad:
        c, obs = cases[i], observations[i]
        if not holds[i]:
            continue                       # already reported by the direct oracle (incl. the known finding)
        who = "+".join(n for b, n in zip((8, 16, 32), names) if code & b)
        ctx.violation(f"C12:rule-mismatch:{who}:{lit_shape(c['lit'])}:{dclass_name(c['d'])}",
                      f"{describe(c)['op']} literal {c['lit']!r} at position {c['pos']}: {who} produce(s) "
                      f"{[(dtname(o[1]), o[3]) if o[0] == 'T' else o[:2] for o in obs]}, not the element type/value the rule names",
                      dict(describe(c), converter=obs[0], eager=obs[1], builder=obs[2], code=code))
        holds[i] = False
    for i, code in model_bad:
        if holds[i]:
            c = cases[i]
            who = "+".join(n for b, n in zip((1, 2, 4), names) if code & b) or "schema-index"
            ctx.tie_broken("correspondence", f"promotion:{who}",
                           f"{describe(c)} observed {observations[i]}: differs from the Coq model of {who} (code {code})")
    for nm, d in passthrough_bad[:3]:
        ctx.tie_broken("correspondence", f"pass-through:{nm}", f"{d}: a non-literal operand was not handed to the op unchanged")
    n_sib = sum(1 for c in cases if c["d"] is not None)
    n_unknown = sum(1 for c in cases if any(a[0] == "T" and not a[2] for a in c["args"]))
    ctx.obligation("correspondence promotion: operand fed to the op by converter / eager / builder = promote_static / promote_eager / "
                   "promote_builder on every case", not [1 for i, _ in model_bad if holds[i]] and not passthrough_bad,
                   f"{len(model_bad)} disagreeing")
    ctx.obligation("oracle promotion: the three front ends and the rule agree on every case outside the known finding",
                   all(h or _is_known(cases[i], observations[i]) for i, h in enumerate(holds)), "")
    if n_sib < 0.3 * len(cases) or n_unknown == 0:
        ctx.tie_broken("harness", "generator-degenerate", f"{n_sib} sibling cases, {n_unknown} unknown-dtype cases of {len(cases)}")
    by_lit, by_class, by_pos = {}, {}, {}
    for c in cases:
        by_lit[repr(c["lit"])] = by_lit.get(repr(c["lit"]), 0) + 1
        by_class[lit_class(c["lit"])] = by_class.get(lit_class(c["lit"]), 0) + 1
        g = c["group"]
        if g:
            f = c["schema"]["formals"][g["fi"]]
            kind = g["variant"] + ("" if f["opt"] != "OVariadic" else ("/homogeneous" if f["homog"] else "/heterogeneous")) \
                + ("/optional" if f["opt"] == "OOptional" else "") + ("/omitted-optional-before" if any(a[0] == "N" for a in c["args"][:c["pos"]]) else "")
            by_pos[kind] = by_pos.get(kind, 0) + 1
    n_bool_sib = sum(1 for c in cases if isinstance(c["lit"], bool) and c["d"] is not None and c["d"] != 9)
    errs = {n: sum(1 for o in observations if o[k][0] == "ERR") for k, n in enumerate(names)}
    ctx.cover(schemas=len(reg), groups=len(gs), schemas_exercised=len({c["si"] for c in cases}),
              promotion_cases=len(cases), operator_syntax_cases=len(ops),
              operator_spellings=sorted({c["syntax"] + " " + c["side"] for c in ops}), operator_opsets=sorted({c["opset"] for c in ops}),
              operator_cases_eager_absent=stats.get("eager_absent", 0),
              lookup_history_cases=len(hcs), lookup_history_ops=sorted({c["schema"]["name"] for c in hcs}), cases_with_sibling=n_sib, cases_with_unknown_dtype_sibling=n_unknown,
              cases_by_literal=by_lit, cases_by_literal_class=by_class, cases_by_position_kind=by_pos,
              bool_literal_beside_non_bool_sibling=n_bool_sib, keyword_passed_operand_cases=sum(1 for c in cases if c.get("kw_from") is not None),
              schema_versions_per_op_max=max(sum(1 for r in reg if r["name"] == n) for n in {r["name"] for r in reg}),
              empty_list_cases=stats["empty_list"], builder_refuses_list=stats["builder_list_refused"],
              list_default_dtype_disagreements=stats["list_default_dtype"], refusals=errs, all_three_refuse=stats["all_refuse"],
              negative_int_beside_unsigned=stats["neg_unsigned"], string_sibling_value_not_compared=stats["string_value_skipped"],
              sibling_dtypes=sorted({dtname(c["d"]) for c in cases}),
              cast_oracle_entries=len(oracle.memo), cast_oracle_ort_runs=oracle.ort_used,
              cast_runtime_disagreements=[str(x) for x in oracle.runtime_disagreements[:5]],
              model_disagreements=len(model_bad), rule_disagreements=len(spec_bad),
              seconds=dict(proofs=round(t_proofs, 1), convert=round(t_conv, 1), frontends=round(t_run, 1), coq_eval=round(t_coq, 1)),
              not_covered="values beside STRING siblings; float literals not exactly representable in float32 (e.g. 0.1 beside a DOUBLE "
                          "tensor: the converter's Constant is float32, eager/builder create float64 directly -- outside the property's literal set); "
                          "NaN literals (cache probe only); deprecated ops (Scatter, Upsample, GroupNormalization-18); custom domains")
    # ---- the constant cache
    check_cache(ctx)
    import sys as _sys
    KEYS.run(ctx, _sys.modules[__name__])
    outside_quantifier_probe(ctx, oracle)
    if ctx.tier == "thorough":
        ctx.coqchk(["Props.C12"])


def report_decisions(ctx):
    for name, why in _STATE.get("dec_errors", []):
        _STATE.setdefault("pending_ties", []).append(("translator", name, why))
    differ = _STATE.get("dec_differ") or {}
    ctx.obligation("translator decisions: the branch conditions of cast_inputs / static_cast_inputs / dynamic_cast_inputs / "
                   "BuilderBase._cast_inputs / _input_to_ir_value read from the ast are the ones C12_code_tables_are_model_instances is proved for",
                   not differ and not _STATE.get("dec_errors"), json.dumps(differ or _STATE.get("dec_errors"), default=str)[:600])
    if differ:
        _STATE.setdefault("pending_ties", []).append(("translator", "decision flags", json.dumps(differ, default=str)[:600]))
    for name, why in _STATE.get("op_errors", []):
        _STATE.setdefault("pending_ties", []).append(("translator", name, why))
    opd = _STATE.get("op_differ") or []
    ctx.obligation("translator operators: for every python operator of primop_map the cast-like step of _translate_binary_op_expr / "
                   "_translate_compare_expr is driven by the signature of the operator whose node receives the operands "
                   f"({len([r for r in _STATE.get('op_rows', []) if r['kind'] in ('binary', 'compare')])} spellings, "
                   f"{len(_STATE.get('op_methods', {}))} Tensor methods)", not opd and not _STATE.get("op_errors"),
                   json.dumps(opd or _STATE.get("op_errors"), default=str)[:600])
    if opd:
        _STATE.setdefault("pending_ties", []).append(("translator", "operator spellings", json.dumps(opd)[:600]))
    un, missing = _STATE.get("cache_unmodelled", []), _STATE.get("cache_missing", [])
    ctx.obligation("translator caches: every functools cache decorator / dict memo in the anchored files has a modelled key "
                   f"({len(_STATE.get('cache_inventory', []))} found)", not un and not missing, json.dumps(dict(unmodelled=un, vanished=missing))[:600])
    for f, fn, c in un:
        _STATE.setdefault("pending_ties", []).append(("translator", f"{f}:{fn}", f"cache / memo `{c}` has no modelled key"))
    for k in missing:
        _STATE.setdefault("pending_ties", []).append(("translator", f"{k[0]}:{k[1]}", f"modelled cache `{k[2]}` no longer found"))
    v, sf = _STATE.get("variant", {}), _STATE.get("src_flags", {})
    mism = {k: (sf.get(k), v.get(k)) for k in v if sf.get(k) is not None and sf.get(k) != v.get(k)}
    ctx.obligation("variant: the creation code read from the ast (np.array vs astype; named fall-through initializer) is the behaviour probed on the real code",
                   not mism, json.dumps(mism))
    if mism:
        _STATE.setdefault("pending_ties", []).append(("translator", "creation variant", json.dumps(mism)))
    ctx.cover(code_variant=v, decision_tables={k: {f: str(x) for f, x in t.items()} for k, t in (_STATE.get("dec_tables") or {}).items()},
              cache_inventory=[list(x[:3]) for x in _STATE.get("cache_inventory", [])])


def flush_pending_ties(ctx, found_violation):
    """translator ties are reported after the correspondence run had its chance to find a failing input"""
    for kind, name, why in _STATE.pop("pending_ties", []):
        ctx.tie_broken(kind, name, why)


def _is_known(c, obs):
    cls = lit_class(c["lit"])
    if cls in ("mixed-list", "nested-list"):
        if obs[2][0] == "ERR" and "Initializer must have a name" in obs[2][2]:
            return True
        if c["d"] is None:
            return True
    return _is_known_neg(c, obs)


def _is_known_neg(c, obs):
    return has_negative_int(c["lit"]) and c["d"] in UNSIGNED and any(o[0] == "ERR" and o[1] == "OverflowError" for o in obs)


def outside_quantifier_probe(ctx, oracle):
    """Informational only (not a verdict): a float literal that is not float32-exact beside a DOUBLE tensor."""
    reg = _STATE["reg"]
    idx = {(r["name"], r["since"]): i for i, r in enumerate(reg)}
    si = idx.get(("Add", 14))
    if si is None:
        return
    c = dict(schema=reg[si], si=si, args=[("T", 11, True), ("L", 0.1)], pos=1, lit=0.1, d=11, group=None)
    fn = FE.compile_scripts([c], os.path.join(ctx.scratch, "c12gen"), f"{os.getpid()}_probe")[0]
    obs = (FE.read_converter(c, fn, oracle)[0], FE.run_eager(c)[0], FE.run_builder(c, oracle)[0])
    same = obs[0] == obs[1] == obs[2]
    ctx.cover(outside_quantifier_probe=dict(case="Add(x: DOUBLE, 0.1)", three_front_ends_agree=same,
                                            converter=str(obs[0][3] if obs[0][0] == "T" else obs[0]),
                                            eager=str(obs[1][3] if obs[1][0] == "T" else obs[1])))


def replay(doc):
    """./check C12 --replay <path>: re-run the recorded input on the current code and print what is observed"""
    r = doc.get("replay", {})
    if "source" in r and "requests" in r:
        # a subscript whose slice operands come from the converter's per-subscript constant cache
        import tempfile
        with tempfile.TemporaryDirectory(prefix="osverif-") as td:
            open(os.path.join(td, "c12_replay_sub.py"), "w").write(
                "from onnxscript import script\nfrom onnxscript.onnx_types import FLOAT\nfrom onnxscript.onnx_opset import opset18 as op18\n"
                f"@script(default_opset=op18)\ndef f(x: FLOAT[4, 4]):\n    return {r['source']}\n")
            import sys as _s
            _s.path.insert(0, td)
            import importlib as _il
            g = _il.import_module("c12_replay_sub").f.function_ir.graph
        bad = 0
        for n in g:
            if n.op_type == "Constant":
                t = n.attributes["value"].value
                print(n.outputs[0].name, t.dtype.name, t.numpy().tolist())
                bad += t.dtype.name == "BOOL"
        print("requests (axis, step, lower, upper per sliced axis):", r["requests"], "-> returned", r.get("returned"), "expected", r.get("expected"))
        return 1 if bad or r.get("returned") != r.get("expected") else 0
    if "history" in r:
        # literals recorded as python source (NaN / inf have no JSON form); every `nan` is a fresh float object
        env = {"nan": float("nan"), "inf": float("inf")}
        h = [((eval(l.replace("nan", "float('nan')"), {"float": float, "inf": float("inf")}) if isinstance(l, str) else l), d) for l, d in r["history"]]
        tr = run_history(h, None)
        memo = {}
        for i, ((lit, d), (owner, obs)) in enumerate(zip(h, tr)):
            print(i, repr(lit), dtname(d), "-> initializer of request", owner, obs, "| fresh:", fresh_obs(lit, d, memo))
        bad = [i for i, ((lit, d), (_o, obs)) in enumerate(zip(h, tr)) if obs != fresh_obs(lit, d, memo)]
        print("conflated requests:", bad)
        return 1 if bad else 0
    if "args" in r:
        import tempfile
        reg = REG.collect()
        m = re.match(r"(\w+)-(\d+) ", r["op"])
        idx = {(x["name"], x["since"]): i for i, x in enumerate(reg)}
        si = idx[(m.group(1), int(m.group(2)))]
        args = [tuple(a) for a in r["args"]]
        c = dict(schema=reg[si], si=si, args=args, pos=r["pos"], lit=args[r["pos"]][1], d=None, group=None)
        if r.get("history_opsets"):
            c.update(history=list(r["history_opsets"]), opset=r["opset"])
        if r.get("syntax"):
            OPS_rows = OPS.translate_converter(os.path.join(common.REPO, "onnxscript/_internal/converter.py"))
            row = [x for x in OPS_rows if x["sym"] == r["syntax"] and x["kind"] in ("binary", "compare")][0]
            side = "TL" if r["pos"] == 1 else "LT"
            c.update(syntax=r["syntax"], opset=r.get("opset") or 18, post=row["post"], side=side,
                     eager_route=OPS.eager_route(row["py"], side, OPS.translate_tensor(os.path.join(common.REPO, "onnxscript/tensor.py"))))
        oracle = FE.CastOracle()
        with tempfile.TemporaryDirectory(prefix="osverif-") as td:
            fn = FE.compile_scripts([c], td, f"{os.getpid()}_replay")[0]
            for v in c.get("history", []):
                FE.run_eager(dict(c, opset=v))
                FE.run_builder(dict(c, opset=v), oracle)
            obs = (FE.read_converter(c, fn, oracle)[0], FE.run_eager(c)[0], FE.run_builder(c, oracle)[0])
        for n, o in zip(("converter", "eager", "builder"), obs):
            print(n, o)
        live = [o for o in obs if o[0] != "ABSENT"]
        return 0 if all(o == live[0] for o in live) else 1
    print(json.dumps(doc, indent=1))
    return 0
