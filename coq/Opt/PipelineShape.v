(* The pass list read from the current source (Gen/OptPipeline.v) has the shape the soundness argument needs
   (Opt/Pipeline.v: pipeline_ok). *)
From Coq Require Import List String Bool.
Require Import OV.Graph.Syntax OV.Opt.Pipeline OV.Gen.OptPipeline.
Import ListNotations.
Local Open Scope string_scope.

Theorem source_pipeline_shape_ok :
  pipeline_ok src_prefix_guard src_prefix src_loop src_steps src_early_stop src_post = true.
Proof. vm_compute. reflexivity. Qed.

