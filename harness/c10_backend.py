"""C10 -- the ONNX backend node-test models as old-version models.

Two uses:
  * correspondence of Schema.valid_at with the real onnx checker: a single-node test model is relabelled to every
    opset v of the supported range; Coq evaluates valid_at schema_table op v (view of the node) and the verdict is
    compared with onnx.checker.check_model(full_check=True) of the relabelled model;
  * oracle for behaviour changes a schema cannot show (operators whose doc string changed between two versions):
    the test model, relabelled to an old opset s at which the checker accepts it, is run (onnx.reference,
    onnxruntime) before and after version_converter.convert_version(model, t).
"""
from __future__ import annotations

import os

import numpy as np

from harness.common import clist, copt, cstr, cz

_ELEM = None


def _elem_name(e):
    global _ELEM
    if _ELEM is None:
        from onnx import TensorProto as TP
        _ELEM = {TP.FLOAT: "float", TP.UINT8: "uint8", TP.INT8: "int8", TP.UINT16: "uint16", TP.INT16: "int16", TP.INT32: "int32",
                 TP.INT64: "int64", TP.STRING: "string", TP.BOOL: "bool", TP.FLOAT16: "float16", TP.DOUBLE: "double",
                 TP.UINT32: "uint32", TP.UINT64: "uint64", TP.COMPLEX64: "complex64", TP.COMPLEX128: "complex128",
                 TP.BFLOAT16: "bfloat16", TP.FLOAT8E4M3FN: "float8e4m3fn", TP.FLOAT8E4M3FNUZ: "float8e4m3fnuz",
                 TP.FLOAT8E5M2: "float8e5m2", TP.FLOAT8E5M2FNUZ: "float8e5m2fnuz", TP.UINT4: "uint4", TP.INT4: "int4",
                 TP.FLOAT4E2M1: "float4e2m1"}
        for extra in ("FLOAT8E8M0", "UINT2", "INT2"):
            if hasattr(TP, extra):
                _ELEM[getattr(TP, extra)] = extra.lower()
    return _ELEM.get(e)


def type_str(tp):
    """TypeProto -> the type string onnx.defs uses, None when not expressible"""
    k = tp.WhichOneof("value")
    if k == "tensor_type":
        e = _elem_name(tp.tensor_type.elem_type)
        return f"tensor({e})" if e else None
    if k == "sequence_type":
        inner = type_str(tp.sequence_type.elem_type)
        return f"seq({inner})" if inner else None
    if k == "optional_type":
        inner = type_str(tp.optional_type.elem_type)
        return f"optional({inner})" if inner else None
    return None


def node_root():
    import onnx.backend.test
    return os.path.join(os.path.dirname(onnx.backend.test.__file__), "data", "node")


def load_tests():
    """[(name, ModelProto, feeds or None)] for every node test with a loadable model"""
    import onnx
    from onnx import numpy_helper
    root = node_root()
    out = []
    for d in sorted(os.listdir(root)):
        mp = os.path.join(root, d, "model.onnx")
        if not os.path.exists(mp):
            continue
        try:
            m = onnx.load(mp)
        except Exception:  # noqa: BLE001
            continue
        feeds = {}
        ds = os.path.join(root, d, "test_data_set_0")
        try:
            for i, gi in enumerate(m.graph.input):
                t = onnx.TensorProto()
                with open(os.path.join(ds, f"input_{i}.pb"), "rb") as f:
                    t.ParseFromString(f.read())
                if gi.type.WhichOneof("value") != "tensor_type":
                    raise ValueError("non-tensor input")
                feeds[gi.name] = numpy_helper.to_array(t)
        except Exception:  # noqa: BLE001
            feeds = None
        out.append((d, m, feeds))
    return out


def default_opset(m):
    v = [o.version for o in m.opset_import if o.domain in ("", "ai.onnx")]
    return v[0] if len(v) == 1 else None


def relabel(m, v):
    import onnx
    p = onnx.ModelProto()
    p.CopyFrom(m)
    for o in p.opset_import:
        if o.domain in ("", "ai.onnx"):
            o.version = v
    return p


def single_node_view(m):
    """(op, ins, outs, attrs) of a one-node model whose node reads graph inputs and writes graph outputs"""
    g = m.graph
    if len(g.node) != 1 or g.initializer or m.functions:
        return None
    n = g.node[0]
    if n.domain not in ("", "ai.onnx"):
        return None
    it = {i.name: type_str(i.type) for i in g.input}
    ot = {o.name: type_str(o.type) for o in g.output}
    ins = []
    for name in n.input:
        if name == "":
            ins.append(None)
        elif it.get(name) is None:
            return None
        else:
            ins.append(it[name])
    while ins and ins[-1] is None:          # trailing omitted inputs are a spelling
        ins.pop()
    outs = []
    for name in n.output:
        if name == "":
            outs.append(None)
        elif ot.get(name) is None:
            return None
        else:
            outs.append(ot[name])
    while outs and outs[-1] is None:
        outs.pop()
    attrs = []
    for a in n.attribute:
        if a.ref_attr_name:
            return None
        attrs.append((a.name, int(a.type)))
    return (n.op_type, tuple(ins), tuple(outs), tuple(sorted(attrs)))


def c_view(view):
    _, ins, outs, attrs = view
    return (f"(VNode {clist(ins, lambda x: copt(x, cstr))} {clist(outs, lambda x: copt(x, cstr))} "
            f"{clist(attrs, lambda a: f'({cstr(a[0])}, {cz(a[1])})')})")


def check_node_only(m):
    """schema verification of the nodes (arity, attributes), then strict type/shape inference"""
    import onnx
    try:
        onnx.checker.check_model(m, full_check=True)
        return None
    except Exception as e:  # noqa: BLE001
        return str(e)[:240]


def as_np(xs):
    return [np.asarray(a) for a in xs]


def same_any(a, b):
    if len(a) != len(b):
        return False
    for x, y in zip(a, b):
        x, y = np.asarray(x), np.asarray(y)
        if x.dtype != y.dtype or x.shape != y.shape:
            return False
        if x.dtype.kind in "fc":
            if not np.allclose(x, y, rtol=1e-4, atol=1e-5, equal_nan=True):
                return False
        elif x.dtype.kind in "biu":
            if not np.array_equal(x, y):
                return False
        else:
            try:
                if not np.array_equal(x.astype(np.float64), y.astype(np.float64), equal_nan=True):
                    return False
            except Exception:  # noqa: BLE001 -- strings, objects
                if x.tolist() != y.tolist():
                    return False
    return True


RANDOM_OPS = {"RandomUniform", "RandomUniformLike", "RandomNormal", "RandomNormalLike", "Bernoulli", "Multinomial"}

# messages of the checker that are verdicts of the node's schema (arity, attributes, types, type-variable binding)
SCHEMA_MSGS = ("has unsupported type", "typestr", "Unrecognized attribute", "No Op registered", "input size", "output size",
               "Required attribute", "is deprecated", "inconsistent type", "bound to different types", "Mismatched attribute type",
               "not in range")


def schema_verdict(op, msg):
    """True: the checker's rejection is about this node's schema; False: about something else (shapes, values, a nested node)"""
    import re
    if msg is None:
        return False
    if "Inference error(s)" in msg and not any(k in msg for k in ("typestr", "unsupported type", "inconsistent type")):
        return False
    m = re.search(r"schema\(::(\w+):", msg) or re.search(r"op_type:(\w+)", msg) or re.search(r"for operator (\w+)", msg) \
        or re.search(r"No Op registered for (\w+)", msg)
    if m and m.group(1) != op:
        return False
    return any(k in msg for k in SCHEMA_MSGS)
