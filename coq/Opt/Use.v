(* Names BOUND inside a graph (graph inputs and node outputs at every depth): the side condition under which uses can be
   redirected at every depth (Opt/Cse.v: use_node / use_graph) without capture.  No proofs in this file. *)
From Coq Require Import List String Bool.
Require Import OV.Graph.Syntax OV.Opt.Cse.
Import ListNotations.

Fixpoint binds_node (n : node) : list vname :=
  let 'Node _ _ _ outs _ subs := n in
  (outs ++ (fix go (l : list (string * graph)) : list vname :=
              match l with [] => [] | (_, g) :: t => (binds_graph g ++ go t)%list end) subs)%list
with binds_graph (g : graph) : list vname :=
  let 'Graph ins _ nodes _ := g in
  (ins ++ (fix go (l : list node) : list vname :=
             match l with [] => [] | n :: t => (binds_node n ++ go t)%list end) nodes)%list.
Fixpoint binds_subs (l : list (string * graph)) : list vname :=
  match l with [] => [] | (_, g) :: t => (binds_graph g ++ binds_subs t)%list end.
Fixpoint binds_nodes (l : list node) : list vname :=
  match l with [] => [] | n :: t => (binds_node n ++ binds_nodes t)%list end.

Definition use_subs (rho : vname -> vname) : list (string * graph) -> list (string * graph) :=
  fix go (l : list (string * graph)) : list (string * graph) :=
    match l with [] => [] | (k, g) :: t => (k, use_graph rho g) :: go t end.
Definition use_nodes (rho : vname -> vname) (l : list node) : list node := map (use_node rho) l.
