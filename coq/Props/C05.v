(* C05 property theorems: statements only, each closed by `exact`, Print Assumptions beneath. *)
From Coq Require Import ZArith.
Require Import OV.Rules.Clip OV.Rules.ClipProofs.
Open Scope Z_scope.

Theorem C05_successive_relu : forall x, lhs_relurelu x = relu x.
Proof. exact relurelu_sound. Qed.
Print Assumptions C05_successive_relu.

Theorem C05_successive_clip : forall l1 h1 l2 h2 x,
  rhs (clipclip_bounds l1 h1 l2 h2) x = lhs_clipclip l1 h1 l2 h2 x.
Proof. exact clipclip_sound. Qed.
Print Assumptions C05_successive_clip.

Theorem C05_clip_relu : forall lo hi x, rhs (cliprelu_bounds lo hi) x = lhs_cliprelu lo hi x.
Proof. exact cliprelu_sound. Qed.
Print Assumptions C05_clip_relu.

Theorem C05_relu_clip : forall lo hi x, rhs (reluclip_bounds lo hi) x = lhs_reluclip lo hi x.
Proof. exact reluclip_sound. Qed.
Print Assumptions C05_relu_clip.

Theorem C05_successive_clip_prefix_refuted : exists l1 h1 l2 h2 x,
  rhs (clipclip_bounds_old l1 h1 l2 h2) x <> lhs_clipclip l1 h1 l2 h2 x.
Proof. exact clipclip_old_refuted. Qed.
Print Assumptions C05_successive_clip_prefix_refuted.

Theorem C05_relu_clip_prefix_refuted : exists lo hi x,
  rhs (reluclip_bounds_old lo hi) x <> lhs_reluclip lo hi x.
Proof. exact reluclip_old_refuted. Qed.
Print Assumptions C05_relu_clip_prefix_refuted.
