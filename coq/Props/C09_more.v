(* C09 property theorems, second file: the remaining shape-reading evaluators and rules, the completeness obligation.
   Statements only, each closed by `exact`.  Equality of `option`s (Some shape / None = rejected) on both sides of a
   simplification is the statement "accepts exactly the same inputs and returns the same shape". *)
From Coq Require Import String ZArith List Bool.
Require Import OV.Shape.SymDim OV.Shape.SymDimProofs OV.Shape.PartialEval OV.Shape.PartialEvalProofs.
Require Import OV.Shape.Extra OV.Shape.ExtraProofs OV.Gen.ShapeUsers OV.Shape.Coverage OV.Shape.CoverageProofs.
Require Import OV.Shape.Materialize OV.Shape.MaterializeProofs OV.Shape.Broadcast OV.Shape.BroadcastProofs.
Import ListNotations.
Open Scope Z_scope.

(* ---- completeness: every registered partial evaluator and every rule / helper of the anchored files (regenerated from
   the source on every run) is mapped to theorems of Props/C09*.v or listed as differential-only with a reason; a new,
   renamed, removed unit, or one whose set of shape-reading features changed, makes this false *)
Theorem C09_shape_users_covered : coverage_okb = true.
Proof. exact coverage_complete. Qed.
Print Assumptions C09_shape_users_covered.

Theorem C09_evaluators_covered : forall e, In e evaluators -> entry_ok evaluator_table e = true.
Proof. exact evaluators_covered. Qed.
Print Assumptions C09_evaluators_covered.

Theorem C09_rule_units_covered : forall e, In e rule_units -> entry_ok rule_table e = true.
Proof. exact rule_units_covered. Qed.
Print Assumptions C09_rule_units_covered.

(* ---- Size -> Constant: only for an all-int annotation, and then the constant is the element count at every binding
   (dims equal to 0 included) *)
Theorem C09_size_fold_sound : forall rho x cx n, size_fold x = Some n -> shape_denotes rho x cx -> zprod cx = n.
Proof. exact size_fold_sound. Qed.
Print Assumptions C09_size_fold_sound.

Theorem C09_size_fold_static_iff : forall x, (exists n, size_fold x = Some n) <-> all_int x = true.
Proof. exact size_fold_static_iff. Qed.
Print Assumptions C09_size_fold_static_iff.

(* ---- _merge_shapes (Identity: backward inference onto the input; _do_inference: declared vs inferred) *)
Theorem C09_merge_shapes_sound : forall rho p o c,
  (forall a, p = Some a -> shape_denotes rho a c) -> (forall b, o = Some b -> shape_denotes rho b c) ->
  forall r, merge_shapes p o = Some r -> shape_denotes rho r c.
Proof. exact merge_shapes_sound. Qed.
Print Assumptions C09_merge_shapes_sound.

Theorem C09_merge_dims_keeps_int : forall d1 d2 z, d1 = DInt z \/ (d2 = DInt z /\ forall y, d1 <> DInt y) -> merge_dims d1 d2 = DInt z.
Proof. exact merge_dims_keeps_int. Qed.
Print Assumptions C09_merge_dims_keeps_int.

(* ---- Concat: operands annotated with the int 0 on the axis are dropped *)
Theorem C09_concat_drop_shape_sound : forall axis ops r,
  concat_shape axis (map snd ops) = Some r ->
  (forall ax, norm_axis (Z.of_nat (List.length r)) axis = Some ax -> droppable ax ops) ->
  kept ops <> [] ->
  concat_shape axis (kept ops) = Some r.
Proof. exact concat_drop_shape_sound. Qed.
Print Assumptions C09_concat_drop_shape_sound.

Theorem C09_concat_drop_all_shape_sound : forall axis ops r c0 rest,
  concat_shape axis (map snd ops) = Some r -> map snd ops = c0 :: rest ->
  (forall ax, norm_axis (Z.of_nat (List.length r)) axis = Some ax -> droppable ax ops) ->
  kept ops = [] -> r = c0.
Proof. exact concat_drop_all_shape_sound. Qed.
Print Assumptions C09_concat_drop_all_shape_sound.

Theorem C09_block_concat_drop : forall {V} outer (keep : list (list V) -> bool) (ops : list (list (list V))),
  (forall op, In op ops -> keep op = false -> forall o, nth o op [] = []) ->
  block_concat outer (filter keep ops) = block_concat outer ops.
Proof. exact @block_concat_drop. Qed.
Print Assumptions C09_block_concat_drop.

(* the converse direction of "accepts exactly" is false here: the dropped operand's other dims are no longer checked
   (x:[N,0], y:[M,2], axis 1 at N=2, M=3); replayed on the real code against onnx.reference *)
Theorem C09_concat_drop_accepts_exactly_refuted : exists axis ops r,
  droppable 1 ops /\ concat_shape axis (map snd ops) = None /\ concat_shape axis (kept ops) = Some r.
Proof. exact concat_drop_accepts_exactly_refuted. Qed.
Print Assumptions C09_concat_drop_accepts_exactly_refuted.

(* repaired evaluator (a zero-size operand is dropped only when its other dims are known equal to those of a kept
   reference operand): the kept Concat accepts exactly what the original accepts, with the same output shape *)
Theorem C09_concat_drop_fixed_accepts_exactly : forall axis ops ref ax,
  In (true, ref) ops -> norm_axis (Z.of_nat (List.length ref)) axis = Some ax -> droppable_ref ax ref ops ->
  concat_shape axis (kept ops) = concat_shape axis (map snd ops).
Proof. exact concat_drop_fixed_accepts_exactly. Qed.
Print Assumptions C09_concat_drop_fixed_accepts_exactly.

(* the symbolic test of the repaired evaluator gives the compatibility hypothesis at every binding *)
Theorem C09_keq_except_sound : forall ax a b, keq_except ax a b = true ->
  forall rho ca cb, shape_denotes rho a ca -> shape_denotes rho b cb -> compatible ax ca cb = true.
Proof. exact keq_except_sound. Qed.
Print Assumptions C09_keq_except_sound.

(* ---- SqueezeReshape: Reshape(Squeeze(x), [-1]) -> Identity(x) for 1-D x, sizes 0 and 1 included *)
Theorem C09_squeeze_reshape_1d_sound : forall x, sqre_check x = true ->
  forall rho cx, (forall s, x = Some s -> shape_denotes rho s cx) -> Forall (fun n => 0 <= n) cx ->
  reshape_out false (squeeze_all cx) [-1] = Some cx.
Proof. exact squeeze_reshape_1d_sound. Qed.
Print Assumptions C09_squeeze_reshape_1d_sound.

(* ---- collapse_slice_rule (constant start 0, step 1, end = INT64_MAX or >= a static dim) *)
Theorem C09_collapse_slice1_sound : forall d start stop step, cs1_check d start stop step = true ->
  forall rho {A} (l : list A),
  (forall dd, d = Some dd -> denotes rho dd (Z.of_nat (List.length l))) -> Z.of_nat (List.length l) <= int64_max ->
  step = 1 /\ pyslice l start (Some stop) = l.
Proof. exact collapse_slice1_sound. Qed.
Print Assumptions C09_collapse_slice1_sound.

(* ---- redundant ScatterND *)
Theorem C09_scatter_full_range : forall {V} (rows upd : list V), List.length rows = List.length upd ->
  scatter_rows rows (seq 0 (List.length upd)) upd = upd.
Proof. exact @scatter_full_range. Qed.
Print Assumptions C09_scatter_full_range.

Theorem C09_scatter_dyn_sound : forall data tdata axis, scatter_dyn_check (Some data) (Some tdata) axis = true ->
  forall rho cd ct n, shape_denotes rho data cd -> shape_denotes rho tdata ct -> py_index cd axis = Some n ->
  exists rest, ct = n :: rest.
Proof. exact scatter_dyn_sound. Qed.
Print Assumptions C09_scatter_dyn_sound.

Theorem C09_scatter_dyn_values : forall data tdata axis, scatter_dyn_check (Some data) (Some tdata) axis = true ->
  forall rho cd ct n {V} (rows upd : list V), shape_denotes rho data cd -> shape_denotes rho tdata ct ->
  py_index cd axis = Some n -> 0 <= n ->
  Z.of_nat (List.length rows) = hd 0 ct -> Z.of_nat (List.length upd) = n ->
  scatter_rows rows (seq 0 (Z.to_nat n)) upd = upd.
Proof. exact scatter_dyn_values. Qed.
Print Assumptions C09_scatter_dyn_values.

Theorem C09_scatter_dyn_pyeq_refuted : exists data tdata axis rho cd ct n (rows upd : list Z),
  scatter_dyn_check_pyeq (Some data) (Some tdata) axis = true /\ shape_denotes rho data cd /\ shape_denotes rho tdata ct /\
  py_index cd axis = Some n /\ Z.of_nat (List.length rows) = hd 0 ct /\ Z.of_nat (List.length upd) = n /\
  scatter_rows rows (seq 0 (Z.to_nat n)) upd <> upd.
Proof. exact scatter_dyn_pyeq_refuted. Qed.
Print Assumptions C09_scatter_dyn_pyeq_refuted.

Theorem C09_scatter_static_sound : forall data upd idx, scatter_static_check (Some data) (Some upd) idx = true ->
  forall rho cd cu, shape_denotes rho data cd -> shape_denotes rho upd cu ->
  cd = cu /\ exists n rest, cd = Z.of_nat n :: rest /\ idx = map Z.of_nat (seq 0 n).
Proof. exact scatter_static_sound. Qed.
Print Assumptions C09_scatter_static_sound.

(* ---- rules that only reason about static shapes (broadcast_to_matmul refuses symbolic dims; Size; scalar split) *)
Theorem C09_static_shape_valuation_independent : forall s, all_int s = true ->
  forall rho rho' c c', shape_denotes rho s c -> shape_denotes rho' s c' -> c = c'.
Proof. exact static_shape_valuation_independent. Qed.
Print Assumptions C09_static_shape_valuation_independent.

Theorem C09_b2m_guard_static : forall a b, b2m_guard (Some a) (Some b) = true -> all_int a = true /\ all_int b = true.
Proof. exact b2m_guard_static. Qed.
Print Assumptions C09_b2m_guard_static.

(* ---- SplitToSequence with a scalar split on a static axis *)
Theorem C09_split_scalar_sound : forall d s r, split_scalar d s = Some r -> exists n, d = DInt n /\ 0 < s /\
  match r with
  | inl k => 0 <= n -> k * s = n
  | inr sizes => 0 <= n -> fold_right Z.add 0 sizes = n /\ 0 < n - (ceil_div n s - 1) * s < s
  end.
Proof. exact split_scalar_sound. Qed.
Print Assumptions C09_split_scalar_sound.

(* ---- Flatten2Reshape (known finding C09:flatten-to-reshape:zero-dim-with-inferred-dim): no repair by a better constant.
   For Flatten(x, axis=1) on a rank-4 input with symbolic dims the rule must (repository tests ..._dynamic_input_1/_5) leave
   one Reshape with a constant two-entry target; every such target [a; b], under either allowzero, is wrong or rejected for
   some non-negative input shape of rank 4 *)
Theorem C09_flatten_no_constant_target : forall az a b, exists cx,
  List.length cx = 4%nat /\ Forall (fun n => 0 <= n) cx /\ reshape_out az cx [a; b] <> Some (flatten_out cx 1).
Proof. exact flatten_no_constant_target. Qed.
Print Assumptions C09_flatten_no_constant_target.

(* ---- _ir_utils.broadcast_keeps_rank (helper of the normalization fusions; the fusions themselves: C19_rms_rank_guard_sufficient,
   C19_ln_rank_guard_sufficient, C19_ln_bias_rank_guard_sufficient): it compares ranks only, and a rank does not depend on
   the binding of the symbols *)
Theorem C09_rank_valuation_independent : forall rho s c, shape_denotes rho s c -> List.length c = List.length s.
Proof. exact rank_valuation_independent. Qed.
Print Assumptions C09_rank_valuation_independent.

Theorem C09_broadcast_keeps_rank_sound : forall sv sr, bkr_check (Some sv) (Some sr) = true -> (1 <= List.length sr)%nat ->
  forall rho cv cr o, shape_denotes rho sv cv -> shape_denotes rho sr cr -> bcast cv cr = Some o ->
  List.length o = List.length cr.
Proof. exact broadcast_keeps_rank_sound. Qed.
Print Assumptions C09_broadcast_keeps_rank_sound.

Theorem C09_broadcast_keeps_rank_no_reference : forall sv, bkr_check (Some sv) None = true -> (List.length sv <= 1)%nat.
Proof. exact broadcast_keeps_rank_no_reference. Qed.
Print Assumptions C09_broadcast_keeps_rank_no_reference.
