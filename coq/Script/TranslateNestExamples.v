(* A concrete instance of the hypotheses of the complete S3 theorem (non-vacuity): a `for` loop with a trailing
   conditional break whose body contains an if/else whose then branch contains a `while` loop with a trailing
   conditional break (three levels of nesting; the while loop carries two variables, reads a variable of the
   enclosing loop body and one of the function); a kernel semantics over Z that satisfies the five kernel laws;
   source and graph evaluated on inputs that take: several while iterations ended by the break, a zero-trip `for`,
   the `for` break on the first iteration, the else branch. *)
From Coq Require Import List String ZArith Bool Lia.
Require Import OV.Graph.Syntax OV.Graph.Sem OV.Script.Syntax OV.Script.Sets OV.Gen.Analysis OV.Gen.ScriptTables
               OV.Script.Translate OV.Script.PySem OV.Script.TranslateProofs OV.Script.TranslateExamples
               OV.Script.TranslateIfProofs OV.Script.TranslateIfExamples OV.Script.TranslateForDefs OV.Script.TranslateForProofs
               OV.Script.TranslateForExamples OV.Script.TranslateNestDefs OV.Script.TranslateNestProofs.
Import ListNotations.
Local Open Scope string_scope.

Definition b2z (b : bool) : Z := if b then 1%Z else 0%Z.
Definition nest_sem (dom op : string) (attrs : list (string * attrv)) (args : list (option Z)) : option (list Z) :=
  if negb (String.eqb dom "") then None
  else if String.eqb op "Not" then match args with [Some a] => Some [b2z (Z.eqb a 0)] | _ => None end
  else if String.eqb op "And" then match args with [Some a; Some b] => Some [b2z (negb (Z.eqb a 0) && negb (Z.eqb b 0))] | _ => None end
  else if String.eqb op "Less" then match args with [Some a; Some b] => Some [b2z (Z.ltb a b)] | _ => None end
  else toy_sem dom op attrs args.

Definition exnest_f : func :=
  {| f_name := "nest"; f_tparams := ["x"; "n"; "m"]; f_aparams := [];
     f_body := [SAssign "s" (EBin "Add" (EVar "x") (EVar "n"));
                SAssign "t" (EVar "x");
                SFor "i" (EVar "n")
                     [SAssign "s" (EBin "Add" (EVar "s") (EVar "i"));
                      SIf (ECmp "Lt" (EVar "s") (EVar "m"))
                          [SAssign "c" (ECmp "Lt" (EVar "i") (EVar "n"));
                           SAssign "k" (EVar "x");
                           SWhile "c"
                                  [SAssign "k" (EBin "Add" (EVar "k") (EVar "s"));
                                   SAssign "t" (EBin "Add" (EVar "t") (EVar "k"));
                                   SAssign "c" (ECmp "Lt" (EVar "k") (EVar "m"));
                                   SAssign "b" (ECmp "Lt" (EVar "m") (EVar "t"));
                                   SIf (EVar "b") [SBreak] []]]
                          [SFor "j" (ELit (LInt 2)) [SAssign "t" (EBin "Add" (EVar "t") (EVar "s"))]];
                      SAssign "d" (ECmp "Lt" (EVar "m") (EVar "s"));
                      SIf (EVar "d") [SBreak] []];
                SAssign "r" (EBin "Add" (EVar "s") (EVar "t"));
                SReturn [EVar "r"; EVar "t"]] |}.

Definition exnest_script (xs : list Z) : option (list Z) :=
  eval_script Z nest_sem exif_truth exif_trip Z.of_nat 10 [] 6 exnest_f xs.
Definition exnest_graph (g : graph) (xs : list Z) : option (list Z) :=
  eval_graph Z nest_sem exif_truth exif_trip Z.of_nat exfor_of_bool 10 13 [] g xs.


Lemma nest_laws :
  (forall v, nest_sem "" "Identity" [] [Some v] = Some [v]) /\
  (forall b, exif_truth (exfor_of_bool b) = Some b) /\
  (forall v b, exif_truth v = Some b -> exists r, nest_sem "" "Not" [] [Some v] = Some [r] /\ exif_truth r = Some (negb b)) /\
  (forall a b x y, exif_truth a = Some x -> exif_truth b = Some y ->
     exists r, nest_sem "" "And" [] [Some a; Some b] = Some [r] /\ exif_truth r = Some (x && y)) /\
  (forall v, exists b, exif_truth v = Some b) /\
  (forall z c, const_val Z nest_sem (LInt z) = Some c -> exif_trip c = Some (Z.to_nat z)).
Proof.
  split; [reflexivity|]. split; [intros [|]; reflexivity|]. split; [|split; [|split]].
  - intros v b H. unfold exif_truth in H. inversion H; subst b. eexists. split; [reflexivity|].
    unfold exif_truth. destruct (Z.eqb v 0); reflexivity.
  - intros a b x y Ha Hb. unfold exif_truth in Ha, Hb. inversion Ha; subst x. inversion Hb; subst y. eexists. split; [reflexivity|].
    unfold exif_truth. destruct (Z.eqb a 0), (Z.eqb b 0); reflexivity.
  - intros v. eexists. reflexivity.
  - intros z c H. cbv in H. inversion H; subst c. reflexivity.
Qed.

Lemma exnest_hyps :
  exists g pre es,
    f_body exnest_f = (pre ++ [SReturn es])%list /\ pre_ok [] (fun _ => None) 6 true 11 pre [SReturn es] [] = true /\
    forallb expr_ok es = true /\ f_aparams exnest_f = [] /\ NoDup (f_tparams exnest_f) /\
    translate false [] (fun _ => None) 6 [] exnest_f = Some g /\
    count_op "Loop" (g_nodes g) = 1 /\ depth_graph g = 8 /\
    exnest_script [1; 4; 30]%Z = Some [73; 62]%Z /\ exnest_graph g [1; 4; 30]%Z = Some [73; 62]%Z /\
    exnest_script [1; 0; 30]%Z = Some [2; 1]%Z /\ exnest_graph g [1; 0; 30]%Z = Some [2; 1]%Z /\
    exnest_script [1; 4; 3]%Z = Some [16; 11]%Z /\ exnest_graph g [1; 4; 3]%Z = Some [16; 11]%Z /\
    exnest_script [2; 5; 12]%Z = Some [88; 75]%Z /\ exnest_graph g [2; 5; 12]%Z = Some [88; 75]%Z.
Proof.
  eexists. exists (removelast (f_body exnest_f)), [EVar "r"; EVar "t"].
  split; [reflexivity|]. split; [vm_compute; reflexivity|]. split; [reflexivity|]. split; [reflexivity|].
  split; [repeat constructor; cbn; intuition discriminate|].
  split; [vm_compute; reflexivity|].
  repeat split; vm_compute; reflexivity.
Qed.
